(** C57 property theorems (observers are passive: they return or raise; see Model.v). *)
From Coq Require Import List Arith Bool.
From C57 Require Import Model Proofs.
Import ListNotations.

(** an ordinary event is delivered to every observer exactly once, in registration order, whichever observers
    raise; everything else the publisher emits is error reports *)
Theorem every_observer_gets_every_event_once_in_order : forall f os n,
  exists rest, publish (S f) os (Ev n) = map (fun o => Del (oid o) (Ev n)) os ++ rest
               /\ forall d, In d rest -> exists o b, d = Del o (Err b).
Proof. exact publish_delivers. Qed.
Print Assumptions every_observer_gets_every_event_once_in_order.

(** the failure of an observer is reported to every other observer *)
Theorem failures_reported_to_others : forall f os e b o,
  In b os -> raises b e = true -> In o os -> oid o <> oid b ->
  In (Del (oid o) (Err (oid b))) (publish (S (S f)) os e).
Proof. exact failure_reported. Qed.
Print Assumptions failures_reported_to_others.

(** error reporting terminates, even when observers also fail on the error reports: the nested publisher has
    strictly fewer observers, so every fuel >= the number of observers yields the same, complete output *)
Theorem error_reporting_terminates : forall f1 f2 os e,
  length os <= f1 -> length os <= f2 -> publish f1 os e = publish f2 os e.
Proof. exact publish_any_fuel. Qed.
Print Assumptions error_reporting_terminates.

(** the level applied to a namespace is the one configured for its LONGEST configured dotted prefix (the whole
    namespace included), and the default when no prefix is configured *)
Theorem filter_uses_most_specific_prefix : forall c d ns,
  (exists j, 1 <= j <= length ns /\ find_ns c (firstn j ns) = Some (level_for c d ns)
             /\ forall i, j < i <= length ns -> find_ns c (firstn i ns) = None)
  \/ (level_for c d ns = d /\ forall i, 1 <= i <= length ns -> find_ns c (firstn i ns) = None).
Proof. exact level_most_specific. Qed.
Print Assumptions filter_uses_most_specific_prefix.

Theorem filter_passes_exactly_at_or_above_that_level : forall c d l ns,
  ns <> [] -> (passes c d (Some l) ns = true <-> level_for c d ns <= l).
Proof. exact passes_iff. Qed.
Print Assumptions filter_passes_exactly_at_or_above_that_level.

(** after any stream of events the limited-history buffer holds exactly the last N, oldest first *)
Theorem buffer_replays_last_N_in_order : forall size es,
  feed size es = match size with None => es | Some n => lastn n es end.
Proof. exact feed_spec. Qed.
Print Assumptions buffer_replays_last_N_in_order.

Theorem sample_publish_is_nontrivial :
  publish_all [mkO 0 false false; mkO 1 true false; mkO 2 false true; mkO 3 true true] [7]
  = [Del 0 (Ev 7); Del 1 (Ev 7); Del 2 (Ev 7); Del 3 (Ev 7);
     Del 0 (Err 1); Del 2 (Err 1); Del 3 (Err 1); Del 0 (Err 2); Del 3 (Err 2); Del 0 (Err 3); Del 0 (Err 3); Del 2 (Err 3);
     Del 0 (Err 2); Del 0 (Err 3); Del 1 (Err 3); Del 2 (Err 3); Del 0 (Err 2); Del 1 (Err 2)].
Proof. exact sample_publish. Qed.
Print Assumptions sample_publish_is_nontrivial.

(** the filter as a HISTORY of calls on one predicate object: for every interleaving of
    setLogLevelForNamespace / clearLogLevels / logLevelForNamespace / predicate(event), every answer depends only
    on the configuration produced by the calls so far (latest setting per namespace since the last clear) —
    earlier queries leave no trace *)
Theorem filter_answers_depend_only_on_current_configuration : forall d0 ops,
  frun (finit d0) ops = spec_run d0 [] ops.
Proof. exact frun_spec. Qed.
Print Assumptions filter_answers_depend_only_on_current_configuration.

Theorem filter_history_uses_most_specific_prefix_of_latest_settings : forall d0 h ns,
  (exists j, 1 <= j <= length ns /\ latest h (firstn j ns) = Some (level_spec d0 h ns)
             /\ forall i, j < i <= length ns -> latest h (firstn i ns) = None)
  \/ (level_spec d0 h ns = latest_default d0 h /\ forall i, 1 <= i <= length ns -> latest h (firstn i ns) = None).
Proof. exact level_spec_most_specific. Qed.
Print Assumptions filter_history_uses_most_specific_prefix_of_latest_settings.

(** a failure is never reported to the observer that raised (at any nesting depth of the error reporting) *)
Theorem failure_never_reported_to_the_observer_that_raised : forall f os n o b,
  In (Del o (Err b)) (publish f os (Ev n)) -> o <> b.
Proof. exact never_reported_to_self. Qed.
Print Assumptions failure_never_reported_to_the_observer_that_raised.

(** EXTENSION beyond the property's quantifier — observers that add / remove observers of the publisher during a
    dispatch.  LogPublisher.__call__ iterates `self._observers` live (no copy).  If observers only ADD observers,
    the event reaches every observer of the final list exactly once in list order: first all that were listed
    (the list only grows at its end), then the ones added meanwhile. *)
Theorem extension_adds_during_dispatch_keep_once_in_order : forall tab n os os' ds br f,
  adds_only tab -> dispatch_live tab f 0 os n = (os', ds, br, false) ->
  map dlv_obs ds = os' /\ exists ext, os' = os ++ ext.
Proof. exact dispatch_live_adds_all. Qed.
Print Assumptions extension_adds_during_dispatch_keep_once_in_order.

(** ... whereas a removal during the dispatch makes the iterator skip the next observer: a listed observer that
    is never removed does not get the event (stated, not claimed as a defect: outside the quantifier) *)
Theorem extension_removal_during_dispatch_skips_an_observer :
  dispatch_live [mkL false false (ORemove 0); mkL false false ONone; mkL false false ONone] 10 0 [0; 1; 2] 7
  = ([1; 2], [Del 0 (Ev 7); Del 2 (Ev 7)], [], false).
Proof. exact live_removal_skips. Qed.
Print Assumptions extension_removal_during_dispatch_skips_an_observer.

(** events and replays interleaved on one LimitedHistoryLogObserver: EVERY replay — the first, and any later one with
    events logged in between — shows exactly the last N events logged so far, oldest first *)
Theorem every_replay_shows_the_last_N_events_so_far : forall size ops,
  brun size [] ops = bspec size [] ops.
Proof. exact brun_spec0. Qed.
Print Assumptions every_replay_shows_the_last_N_events_so_far.

(** the publisher over a HISTORY of addObserver / removeObserver / events: whatever happened before — earlier failures of
    the same observer included — an event and the failure reports it causes go to exactly what `publish` says for the
    observers registered AT THAT TIME (with the theorems above: every one of them gets the event once in order, and the
    report about a failing X reaches every registered observer other than X, never X) *)
Theorem event_and_failure_reports_depend_only_on_the_observers_registered_at_that_time : forall tab os pre n post,
  prun tab os (pre ++ PEv n :: post)
  = prun tab os pre
    ++ publish (S (length (pregs os pre))) (to_obs tab (pregs os pre)) (Ev n)
    ++ prun tab (pregs os pre) post.
Proof. exact prun_event. Qed.
Print Assumptions event_and_failure_reports_depend_only_on_the_observers_registered_at_that_time.
