(** C57 proofs *)
From Coq Require Import List Arith Bool Lia.
From C57 Require Import Model.
Import ListNotations.

(* ---------- publisher ---------- *)
Definition is_ev (n : nat) (d : dlv) : bool := match d with Del _ (Ev m) => Nat.eqb m n | _ => false end.

Lemma publish_err_only f : forall os b d, In d (publish f os (Err b)) -> exists o b', d = Del o (Err b').
Proof.
  induction f as [|f IH]; intros os b d H; [destruct H|]. cbn [publish] in H. apply in_app_or in H.
  destruct H as [H | H].
  - apply in_map_iff in H. destruct H as (o & <- & _). eauto.
  - apply in_flat_map in H. destruct H as (x & _ & H). eapply IH; eauto.
Qed.

(** the deliveries of an ordinary event are: every observer, exactly once, in registration order — whichever
    observers raise — and all the rest of the output is error reports *)
Lemma publish_delivers f os n :
  exists rest, publish (S f) os (Ev n) = map (fun o => Del (oid o) (Ev n)) os ++ rest
               /\ forall d, In d rest -> exists o b, d = Del o (Err b).
Proof.
  cbn [publish]. eexists. split; [reflexivity|]. intros d H. apply in_flat_map in H.
  destruct H as (x & _ & H). eapply publish_err_only; eauto.
Qed.

Lemma filter_length_le {A} (P : A -> bool) l : length (filter P l) <= length l.
Proof. induction l as [|x l IH]; cbn; [lia|]. destruct (P x); cbn; lia. Qed.

Lemma flat_map_ext_in {A B} (f g : A -> list B) l : (forall x, In x l -> f x = g x) -> flat_map f l = flat_map g l.
Proof.
  induction l as [|x l IH]; intros H; [reflexivity|]. cbn. rewrite (H x) by (left; reflexivity).
  rewrite IH; [reflexivity|]. intros y Hy. apply H. right. exact Hy.
Qed.

Lemma others_length b os : In b os -> length (others b os) < length os.
Proof.
  unfold others. induction os as [|x os IH]; intros H; [destruct H|]. cbn.
  destruct H as [-> | H].
  - rewrite Nat.eqb_refl. cbn. pose proof (filter_length_le (fun o => negb (Nat.eqb (oid o) (oid b))) os). lia.
  - destruct (negb (Nat.eqb (oid x) (oid b))); cbn; [apply IH in H; lia|].
    pose proof (filter_length_le (fun o => negb (Nat.eqb (oid o) (oid b))) os). lia.
Qed.

(** error reporting terminates: each nesting level has strictly fewer observers, so any fuel >= the number
    of observers gives the same (complete) result *)
Lemma publish_fuel_S : forall f os e, length os <= f -> publish (S f) os e = publish f os e.
Proof.
  induction f as [|f IH]; intros os e Hl.
  - destruct os; [reflexivity | cbn in Hl; lia].
  - change (publish (S (S f)) os e) with
      (map (fun o => Del (oid o) e) os
       ++ flat_map (fun b => publish (S f) (others b os) (Err (oid b))) (filter (fun o => raises o e) os)).
    cbn [publish]. f_equal. apply flat_map_ext_in. intros b Hb. apply filter_In in Hb. destruct Hb as [Hb _].
    pose proof (others_length b os Hb) as Hlt. apply IH. lia.
Qed.

Lemma publish_fuel : forall k f os e, length os <= f -> publish (k + f) os e = publish f os e.
Proof.
  induction k as [|k IH]; intros f os e Hl; [reflexivity|].
  cbn [plus]. rewrite publish_fuel_S by lia. apply IH. exact Hl.
Qed.

Lemma publish_any_fuel f1 f2 os e : length os <= f1 -> length os <= f2 -> publish f1 os e = publish f2 os e.
Proof.
  intros H1 H2. replace f1 with ((f1 - length os) + length os) by lia.
  replace f2 with ((f2 - length os) + length os) by lia. rewrite !publish_fuel by lia. reflexivity.
Qed.

(** every failure is reported to every OTHER observer (and never to the one that raised) *)
Lemma failure_reported f os e b o :
  In b os -> raises b e = true -> In o os -> oid o <> oid b ->
  In (Del (oid o) (Err (oid b))) (publish (S (S f)) os e).
Proof.
  intros Hb Hr Ho Hne. cbn [publish]. apply in_or_app. right. apply in_flat_map. exists b.
  split; [apply filter_In; auto|]. apply in_or_app. left. apply in_map_iff. exists o. split; [reflexivity|].
  unfold others. apply filter_In. split; [exact Ho|]. destruct (Nat.eqb_spec (oid o) (oid b)); [contradiction | reflexivity].
Qed.


(* ---------- level filter ---------- *)
Lemma try_prefixes_none c ns k :
  try_prefixes c ns k = None -> forall i, 1 <= i <= k -> find_ns c (firstn i ns) = None.
Proof.
  induction k as [|k IH]; cbn [try_prefixes]; intros H i Hi; [lia|].
  destruct (find_ns c (firstn (S k) ns)) eqn:E; [discriminate|].
  destruct (Nat.eq_dec i (S k)) as [-> | Hne]; [exact E|]. apply IH; [exact H | lia].
Qed.

(** the level used is the one configured for the LONGEST configured prefix of the namespace *)
Lemma try_prefixes_some c ns k v :
  try_prefixes c ns k = Some v ->
  exists j, 1 <= j <= k /\ find_ns c (firstn j ns) = Some v
            /\ forall i, j < i <= k -> find_ns c (firstn i ns) = None.
Proof.
  induction k as [|k IH]; cbn [try_prefixes]; intros H; [discriminate|].
  destruct (find_ns c (firstn (S k) ns)) eqn:E.
  - inversion H; subst. exists (S k). split; [lia|]. split; [exact E|]. intros i Hi. lia.
  - destruct (IH H) as (j & Hj & Ej & Hn). exists j. split; [lia|]. split; [exact Ej|].
    intros i Hi. destruct (Nat.eq_dec i (S k)) as [-> | Hne]; [exact E | apply Hn; lia].
Qed.

Lemma level_most_specific c d ns :
  (exists j, 1 <= j <= length ns /\ find_ns c (firstn j ns) = Some (level_for c d ns)
             /\ forall i, j < i <= length ns -> find_ns c (firstn i ns) = None)
  \/ (level_for c d ns = d /\ forall i, 1 <= i <= length ns -> find_ns c (firstn i ns) = None).
Proof.
  unfold level_for. destruct (try_prefixes c ns (length ns)) as [v|] eqn:E.
  - left. apply try_prefixes_some. exact E.
  - right. split; [reflexivity|]. apply try_prefixes_none. exact E.
Qed.

Lemma passes_iff c d l ns : ns <> [] -> (passes c d (Some l) ns = true <-> level_for c d ns <= l).
Proof. intros H. unfold passes. destruct ns; [congruence|]. apply Nat.leb_le. Qed.

(* ---------- limited history ---------- *)
Lemma skipn_skipn {A} x : forall y (l : list A), skipn x (skipn y l) = skipn (x + y) l.
Proof.
  induction y as [|y IH]; intros l; [rewrite Nat.add_0_r; reflexivity|].
  rewrite Nat.add_succ_r. destruct l as [|a l]; [cbn; apply skipn_nil|]. cbn. apply IH.
Qed.

Lemma lastn_push {A} n (a : list A) e : lastn n (lastn n a ++ [e]) = lastn n (a ++ [e]).
Proof.
  unfold lastn. rewrite !app_length, skipn_length. cbn [length].
  destruct (le_lt_dec (length a) n) as [Hle | Hlt].
  - replace (length a - n) with 0 by lia. cbn [skipn]. f_equal. lia.
  - rewrite !skipn_app, skipn_length, skipn_skipn.
    replace (length a - (length a - n) + 1 - n) with 1 by lia.
    replace (1 + (length a - n)) with (length a + 1 - n) by lia.
    replace (1 - (length a - (length a - n))) with (length a + 1 - n - length a) by lia.
    reflexivity.
Qed.

Lemma feed_gen size : forall es pre,
  fold_left (push size) es (match size with None => pre | Some n => lastn n pre end)
  = match size with None => pre ++ es | Some n => lastn n (pre ++ es) end.
Proof.
  induction es as [|e es IH]; intros pre; cbn [fold_left].
  - rewrite app_nil_r. reflexivity.
  - replace (pre ++ e :: es) with ((pre ++ [e]) ++ es) by (rewrite <- app_assoc; reflexivity).
    rewrite <- IH. f_equal. destruct size as [n|]; cbn [push]; [apply lastn_push | reflexivity].
Qed.

(** the buffer holds exactly the last N events fed to it, oldest first (all of them when unbounded) *)
Lemma feed_spec size es : feed size es = match size with None => es | Some n => lastn n es end.
Proof.
  unfold feed. pose proof (feed_gen size es []) as H. cbn [app] in H. rewrite <- H.
  destruct size; [unfold lastn; cbn; reflexivity | reflexivity].
Qed.

Lemma sample_publish :
  publish_all [mkO 0 false false; mkO 1 true false; mkO 2 false true; mkO 3 true true] [7]
  = [Del 0 (Ev 7); Del 1 (Ev 7); Del 2 (Ev 7); Del 3 (Ev 7);
     Del 0 (Err 1); Del 2 (Err 1); Del 3 (Err 1); Del 0 (Err 2); Del 3 (Err 2); Del 0 (Err 3); Del 0 (Err 3); Del 2 (Err 3);
     Del 0 (Err 2); Del 0 (Err 3); Del 1 (Err 3); Del 2 (Err 3); Del 0 (Err 2); Del 1 (Err 2)].
Proof. vm_compute. reflexivity. Qed.

(* ---------- level filter over histories ---------- *)
Lemma list_eqb_eq a : forall b, list_eqb a b = true <-> a = b.
Proof.
  induction a as [|x a IH]; intros [|y b]; cbn; split; intros H; try reflexivity; try discriminate.
  - apply andb_prop in H. destruct H as [H1 H2]. apply Nat.eqb_eq in H1. apply IH in H2. congruence.
  - inversion H; subst. rewrite Nat.eqb_refl. cbn. apply IH. reflexivity.
Qed.

Lemma find_set_key k v c ns : find_ns (set_key k v c) ns = if list_eqb k ns then Some v else find_ns c ns.
Proof.
  induction c as [|[k' v'] r IH]; cbn; [reflexivity|].
  destruct (list_eqb k' k) eqn:E; cbn.
  - apply list_eqb_eq in E. subst k'. destruct (list_eqb k ns); reflexivity.
  - rewrite IH. destruct (list_eqb k' ns) eqn:E'; [|reflexivity].
    destruct (list_eqb k ns) eqn:E''; [|reflexivity].
    apply list_eqb_eq in E', E''. subst. rewrite (proj2 (list_eqb_eq ns ns) eq_refl) in E. discriminate.
Qed.

Definition frel (d0 : nat) (s : fstate) (h : list fop) : Prop :=
  (forall ns, find_ns (fcfg s) ns = latest h ns) /\ fdflt s = latest_default d0 h /\ fdef0 s = d0.

Lemma frel_step d0 s h o : frel d0 s h -> frel d0 (fstep s o) (o :: h).
Proof.
  intros (A & B & C). destruct o as [[|a k] l | | ns | lvl ns]; unfold frel;
    cbn [fstep fcfg fdflt fdef0 latest latest_default]; (split; [|split; assumption || reflexivity]); try exact A.
  - intros ns. rewrite find_set_key, A. reflexivity.
  - intros ns. reflexivity.
Qed.

Lemma try_prefixes_ext c look ns : (forall p, find_ns c p = look p) ->
  forall k, try_prefixes c ns k = try_prefixes_f look ns k.
Proof. intros H. induction k as [|k IH]; [reflexivity|]. cbn [try_prefixes try_prefixes_f]. rewrite H, IH. reflexivity. Qed.

Lemma frel_level d0 s h ns : frel d0 s h -> level_for (fcfg s) (fdflt s) ns = level_spec d0 h ns.
Proof.
  intros (A & B & _). unfold level_for, level_spec. rewrite (try_prefixes_ext _ _ ns A), B. reflexivity.
Qed.

Lemma frun_spec_gen d0 ops : forall s h, frel d0 s h -> frun s ops = spec_run d0 h ops.
Proof.
  induction ops as [|o r IH]; intros s h H; [reflexivity|]. cbn [frun spec_run]. f_equal.
  - destruct o as [? ? | | ns | lvl ns]; cbn; try reflexivity.
    + rewrite (frel_level d0 s h ns H). reflexivity.
    + unfold passes. rewrite (frel_level d0 s h ns H). reflexivity.
  - apply IH. apply frel_step. exact H.
Qed.

(** for EVERY history of set / clear / query / filter calls on one predicate, every answer equals the naive
    reading of the calls made so far: latest setting per namespace since the last clear, longest configured
    prefix, else the latest default — nothing else (no memory of earlier queries) influences it *)
Lemma frun_spec d0 ops : frun (finit d0) ops = spec_run d0 [] ops.
Proof. apply frun_spec_gen. repeat split. Qed.

(** ... and that naive reading picks the longest configured prefix *)
Lemma level_spec_most_specific d0 h ns :
  (exists j, 1 <= j <= length ns /\ latest h (firstn j ns) = Some (level_spec d0 h ns)
             /\ forall i, j < i <= length ns -> latest h (firstn i ns) = None)
  \/ (level_spec d0 h ns = latest_default d0 h /\ forall i, 1 <= i <= length ns -> latest h (firstn i ns) = None).
Proof.
  unfold level_spec.
  assert (G : forall k, match try_prefixes_f (latest h) ns k with
                        | Some v => exists j, 1 <= j <= k /\ latest h (firstn j ns) = Some v
                                              /\ forall i, j < i <= k -> latest h (firstn i ns) = None
                        | None => forall i, 1 <= i <= k -> latest h (firstn i ns) = None
                        end).
  { induction k as [|k IH]; cbn [try_prefixes_f]; [intros i Hi; lia|].
    destruct (latest h (firstn (S k) ns)) eqn:E.
    - exists (S k). split; [lia|]. split; [exact E|]. intros i Hi. lia.
    - destruct (try_prefixes_f (latest h) ns k) as [v|].
      + destruct IH as (j & Hj & Ej & Hn). exists j. split; [lia|]. split; [exact Ej|].
        intros i Hi. destruct (Nat.eq_dec i (S k)) as [-> | Hne]; [exact E | apply Hn; lia].
      + intros i Hi. destruct (Nat.eq_dec i (S k)) as [-> | Hne]; [exact E | apply IH; lia]. }
  specialize (G (length ns)). destruct (try_prefixes_f (latest h) ns (length ns)) as [v|].
  - left. exact G.
  - right. split; [reflexivity | exact G].
Qed.

(* ---------- a failure is never reported to the observer that raised ---------- *)
Lemma report_not_to_self f : forall os e o b,
  In (Del o (Err b)) (publish f os e) -> (e = Err b /\ exists x, In x os /\ oid x = o) \/ o <> b.
Proof.
  induction f as [|f IH]; intros os e o b H; [destruct H|]. cbn [publish] in H. apply in_app_or in H.
  destruct H as [H | H].
  - apply in_map_iff in H. destruct H as (x & E & Hx). inversion E; subst. left. split; [reflexivity|]. eauto.
  - apply in_flat_map in H. destruct H as (x & _ & H). apply IH in H. destruct H as [[E (y & Hy & Ey)] | H]; [|right; exact H].
    right. inversion E; subst. unfold others in Hy. apply filter_In in Hy. destruct Hy as [_ Hy].
    apply negb_true_iff in Hy. apply Nat.eqb_neq in Hy. exact Hy.
Qed.

Lemma never_reported_to_self f os n o b : In (Del o (Err b)) (publish f os (Ev n)) -> o <> b.
Proof. intros H. apply report_not_to_self in H. destruct H as [[E _] | H]; [discriminate | exact H]. Qed.

(* ---------- EXTENSION: live dispatch ---------- *)
Definition adds_only (tab : list lobs) : Prop := forall i o, lact (lget tab i) <> ORemove o.
Definition dlv_obs (d : dlv) : nat := match d with Del o _ => o end.

Lemma apply_act_adds tab i os : adds_only tab -> exists ext, apply_act (lact (lget tab i)) os = os ++ ext.
Proof.
  intros H. specialize (H i). destruct (lact (lget tab i)) as [|o|o]; cbn.
  - exists []. rewrite app_nil_r. reflexivity.
  - destruct (memb o os); [exists []; rewrite app_nil_r; reflexivity | exists [o]; reflexivity].
  - exfalso. exact (H o eq_refl).
Qed.

Lemma skipn_nth {A} (l : list A) : forall i x, nth_error l i = Some x -> skipn i l = x :: skipn (S i) l.
Proof.
  induction l as [|y l IH]; intros [|i] x H; cbn in *; try discriminate.
  - inversion H. reflexivity.
  - apply IH. exact H.
Qed.

(** when observers only ADD observers during a dispatch, the live iteration delivers the event to every observer of
    the final list exactly once, in list order — the listed ones first (the list only grows at the end), then
    the ones added meanwhile *)
Lemma dispatch_live_adds tab n : adds_only tab -> forall f i os os' ds br,
  dispatch_live tab f i os n = (os', ds, br, false) ->
  (exists ext, os' = os ++ ext) /\ map dlv_obs ds = skipn i os' /\ Forall (fun d => d = Del (dlv_obs d) (Ev n)) ds.
Proof.
  intros Ha. induction f as [|f IH]; intros i os os' ds br H; cbn [dispatch_live] in H.
  - destruct (nth_error os i) eqn:E; inversion H; subst. split; [exists []; rewrite app_nil_r; reflexivity|].
    split; [|constructor]. apply nth_error_None in E. rewrite skipn_all2 by exact E. reflexivity.
  - destruct (nth_error os i) as [o|] eqn:E.
    + destruct (apply_act_adds tab o os Ha) as [e1 E1]. rewrite E1 in H.
      destruct (dispatch_live tab f (S i) (os ++ e1) n) as [[[os2 ds2] br2] oo] eqn:Ed.
      inversion H; subst. destruct (IH _ _ _ _ _ Ed) as ((e2 & E2) & Hm & Hf).
      split; [exists (e1 ++ e2); rewrite E2, app_assoc; reflexivity|]. split.
      * cbn [map dlv_obs]. rewrite Hm. symmetry. apply skipn_nth.
        rewrite E2, <- app_assoc. rewrite nth_error_app1; [exact E|]. apply nth_error_Some. congruence.
      * constructor; [reflexivity | exact Hf].
    + inversion H; subst. split; [exists []; rewrite app_nil_r; reflexivity|].
      split; [|constructor]. apply nth_error_None in E. rewrite skipn_all2 by exact E. reflexivity.
Qed.

Lemma dispatch_live_adds_all tab n os os' ds br f :
  adds_only tab -> dispatch_live tab f 0 os n = (os', ds, br, false) ->
  map dlv_obs ds = os' /\ exists ext, os' = os ++ ext.
Proof. intros Ha H. destruct (dispatch_live_adds tab n Ha f 0 os os' ds br H) as (A & B & _). split; [exact B | exact A]. Qed.

(** ... but a REMOVAL during the dispatch shifts the list under the iterator: observer 0 removes itself and observer 1,
    which stays registered, never sees the event (the C11/F2 phenomenon; outside the property's quantifier) *)
Lemma live_removal_skips :
  dispatch_live [mkL false false (ORemove 0); mkL false false ONone; mkL false false ONone] 10 0 [0; 1; 2] 7
  = ([1; 2], [Del 0 (Ev 7); Del 2 (Ev 7)], [], false).
Proof. vm_compute. reflexivity. Qed.

(* ---------- replays interleaved with events ---------- *)
Lemma feed_snoc size es e : feed size (es ++ [e]) = push size (feed size es) e.
Proof. unfold feed. rewrite fold_left_app. reflexivity. Qed.

Lemma brun_spec size ops : forall seen, brun size (feed size seen) ops = bspec size seen ops.
Proof.
  induction ops as [|o r IH]; intros seen; [reflexivity|]. destruct o as [n|]; cbn [brun bspec].
  - rewrite <- feed_snoc. apply IH.
  - rewrite IH, feed_spec. reflexivity.
Qed.

Lemma brun_spec0 size ops : brun size [] ops = bspec size [] ops.
Proof. exact (brun_spec size ops []). Qed.

(* ---------- publisher histories ---------- *)
Lemma prun_app tab : forall pre os ops, prun tab os (pre ++ ops) = prun tab os pre ++ prun tab (pregs os pre) ops.
Proof.
  induction pre as [|o pre IH]; intros os ops; [reflexivity|]. destruct o as [x|x|n]; cbn [app prun pregs fold_left].
  - apply IH.
  - apply IH.
  - rewrite IH, app_assoc. reflexivity.
Qed.

(** what an event produces depends only on the observers registered at that moment — not on which observers failed
    earlier, nor on when the others were registered *)
Lemma prun_event tab os pre n post :
  prun tab os (pre ++ PEv n :: post)
  = prun tab os pre
    ++ publish (S (length (pregs os pre))) (to_obs tab (pregs os pre)) (Ev n)
    ++ prun tab (pregs os pre) post.
Proof. rewrite prun_app. reflexivity. Qed.
