(** C57: printers used by the correspondence check only. *)
From Coq Require Import List Arith Bool String.
From TwLib Require Import Show.
From C57 Require Import Model.
Import ListNotations.
Local Open Scope string_scope.

Definition show_evt (e : evt) : string := match e with Ev n => "e" ++ show_nat n | Err b => "x" ++ show_nat b end.
Definition show_dlv (d : dlv) : string := match d with Del o e => show_nat o ++ ":" ++ show_evt e end.

Inductive case :=
| CPub (os : list obs) (es : list nat)
| CFilter (c : cfg) (dflt : nat) (qs : list (option nat * list nat))
| CBuf (size : option nat) (es : list nat)
| CFHist (d0 : nat) (ops : list fop)
| CPubLive (tab : list lobs) (os : list nat) (es : list nat)
| CBuf2 (size : option nat) (ops : list bop)
| CPHist (tab : list lobs) (os : list nat) (ops : list pop).

Definition run_show (c : case) : string :=
  match c with
  | CPub os es => String.concat " " (map show_dlv (publish_all os es))
  | CFilter c d qs => String.concat " " (map (fun q => show_nat (level_for c d (snd q)) ++ show_bool (passes c d (fst q) (snd q))) qs)
  | CBuf size es => show_list show_nat (feed size es)
  | CPubLive tab os es =>
      let '(ds, oo) := publish_all_live tab os es in
      if oo then "OOF" else String.concat " " (map show_dlv ds)
  | CBuf2 size ops => String.concat " " (map (show_list show_nat) (brun size [] ops))
  | CPHist tab os ops => String.concat " " (map show_dlv (prun tab os ops))
  | CFHist d0 ops => String.concat " " (map (fun a => match a with ALevel l => show_nat l | APass b => show_bool b end) (frun (finit d0) ops))
  end.
