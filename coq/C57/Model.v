(** C57: twisted.logger — LogPublisher.__call__ (fan-out, failures reported to the OTHER observers through a
    nested publisher), LogLevelFilterPredicate.logLevelForNamespace / __call__ (dotted-prefix lookup),
    LimitedHistoryLogObserver (deque(maxlen)).  Observers are passive here (they return or raise; they
    do not add / remove observers during a dispatch — the property's quantifier). *)
From Coq Require Import List Arith Bool.
Import ListNotations.

(* ---------- publisher ---------- *)
Record obs := mkO { oid : nat; bad_ev : bool; bad_err : bool }.   (* raises on ordinary / on error-report events *)
Inductive evt := Ev (n : nat) | Err (about : nat).                (* Err b: "observer b raised" report *)
Inductive dlv := Del (o : nat) (e : evt).                         (* observer o was called with e *)

Definition raises (o : obs) (e : evt) : bool := match e with Ev _ => bad_ev o | Err _ => bad_err o end.
Definition others (b : obs) (os : list obs) : list obs := filter (fun o => negb (Nat.eqb (oid o) (oid b))) os.

(* LogPublisher.__call__: deliver to every observer, collect the broken ones, then report each failure through
   a LogPublisher built from the others — which is this same procedure on a strictly smaller observer list *)
Fixpoint publish (fuel : nat) (os : list obs) (e : evt) : list dlv :=
  match fuel with
  | 0 => []
  | S f =>
      map (fun o => Del (oid o) e) os
      ++ flat_map (fun b => publish f (others b os) (Err (oid b))) (filter (fun o => raises o e) os)
  end.

Definition publish_all (os : list obs) (es : list nat) : list dlv :=
  flat_map (fun n => publish (S (length os)) os (Ev n)) es.

(* ---------- level filter ---------- *)
(* a namespace is its list of dot-separated segments ([] = the empty namespace); levels are numbers *)
Fixpoint list_eqb (a b : list nat) : bool :=
  match a, b with
  | [], [] => true
  | x :: a', y :: b' => Nat.eqb x y && list_eqb a' b'
  | _, _ => false
  end.

Definition cfg := list (list nat * nat).     (* newest setLogLevelForNamespace first *)
Fixpoint find_ns (c : cfg) (ns : list nat) : option nat :=
  match c with
  | [] => None
  | (k, v) :: r => if list_eqb k ns then Some v else find_ns r ns
  end.

(* the exact namespace, then segments[:index] for index = len-1 .. 1 *)
Fixpoint try_prefixes (c : cfg) (ns : list nat) (k : nat) : option nat :=
  match k with
  | 0 => None
  | S k' => match find_ns c (firstn k ns) with Some v => Some v | None => try_prefixes c ns k' end
  end.

Definition level_for (c : cfg) (dflt : nat) (ns : list nat) : nat :=
  match try_prefixes c ns (length ns) with Some v => v | None => dflt end.

(* LogLevelFilterPredicate.__call__: true = PredicateResult.maybe, false = PredicateResult.no *)
Definition passes (c : cfg) (dflt : nat) (lvl : option nat) (ns : list nat) : bool :=
  match lvl with
  | None => false
  | Some l => match ns with [] => false | _ => Nat.leb (level_for c dflt ns) l end
  end.

(* ---------- limited history ---------- *)
Definition lastn {A} (n : nat) (l : list A) : list A := skipn (length l - n) l.
Definition push (size : option nat) (buf : list nat) (e : nat) : list nat :=
  match size with None => buf ++ [e] | Some n => lastn n (buf ++ [e]) end.
Definition feed (size : option nat) (es : list nat) : list nat := fold_left (push size) es [].

(* ---------- level filter as a history of calls on ONE predicate object ---------- *)
Inductive fop :=
| FSet (ns : list nat) (l : nat)           (* setLogLevelForNamespace(ns, l); ns = [] sets the default key "" *)
| FClear                                   (* clearLogLevels() *)
| FQuery (ns : list nat)                   (* logLevelForNamespace(ns) *)
| FFilter (lvl : option nat) (ns : list nat).   (* predicate(event) *)
Inductive fans := ALevel (l : nat) | APass (b : bool).

Record fstate := mkF { fcfg : cfg; fdflt : nat; fdef0 : nat }.

(* dict[k] = v : overwrite in place, else insert *)
Fixpoint set_key (k : list nat) (v : nat) (c : cfg) : cfg :=
  match c with
  | [] => [(k, v)]
  | (k', v') :: r => if list_eqb k' k then (k, v) :: r else (k', v') :: set_key k v r
  end.

Definition fstep (s : fstate) (o : fop) : fstate :=
  match o with
  | FSet [] l => mkF (fcfg s) l (fdef0 s)
  | FSet k l => mkF (set_key k l (fcfg s)) (fdflt s) (fdef0 s)
  | FClear => mkF [] (fdef0 s) (fdef0 s)
  | _ => s
  end.

Definition fanswer (s : fstate) (o : fop) : list fans :=
  match o with
  | FQuery ns => [ALevel (level_for (fcfg s) (fdflt s) ns)]
  | FFilter lvl ns => [APass (passes (fcfg s) (fdflt s) lvl ns)]
  | _ => []
  end.

Fixpoint frun (s : fstate) (ops : list fop) : list fans :=
  match ops with
  | [] => []
  | o :: r => fanswer s o ++ frun (fstep s o) r
  end.
Definition finit (d0 : nat) : fstate := mkF [] d0 d0.

(* ---- Spec: every answer is a function of the calls made so far ([h], newest first), read naively:
        the latest setting of a namespace since the last clear; most specific configured prefix ---- *)
Fixpoint latest (h : list fop) (ns : list nat) : option nat :=
  match h with
  | [] => None
  | FSet [] _ :: r => latest r ns
  | FSet k l :: r => if list_eqb k ns then Some l else latest r ns
  | FClear :: _ => None
  | _ :: r => latest r ns
  end.
Fixpoint latest_default (d0 : nat) (h : list fop) : nat :=
  match h with
  | [] => d0
  | FSet [] l :: _ => l
  | FClear :: _ => d0
  | _ :: r => latest_default d0 r
  end.
Fixpoint try_prefixes_f (look : list nat -> option nat) (ns : list nat) (k : nat) : option nat :=
  match k with
  | 0 => None
  | S k' => match look (firstn k ns) with Some v => Some v | None => try_prefixes_f look ns k' end
  end.
Definition level_spec (d0 : nat) (h : list fop) (ns : list nat) : nat :=
  match try_prefixes_f (latest h) ns (length ns) with Some v => v | None => latest_default d0 h end.
Definition answer_spec (d0 : nat) (h : list fop) (o : fop) : list fans :=
  match o with
  | FQuery ns => [ALevel (level_spec d0 h ns)]
  | FFilter lvl ns =>
      [APass (match lvl with
              | None => false
              | Some l => match ns with [] => false | _ => Nat.leb (level_spec d0 h ns) l end
              end)]
  | _ => []
  end.
Fixpoint spec_run (d0 : nat) (h : list fop) (ops : list fop) : list fans :=
  match ops with
  | [] => []
  | o :: r => answer_spec d0 h o ++ spec_run d0 (o :: h) r
  end.

(* ---------- EXTENSION (outside the property's quantifier): observers that add / remove observers of the
   publisher while an event is being dispatched.  The code iterates `self._observers` LIVE (no copy): a CPython
   list iterator (index) over the list the observers mutate; the failure reports are then sent through a
   publisher built from the list as it is AFTER the dispatch. ---------- *)
Inductive oact := ONone | OAdd (o : nat) | ORemove (o : nat).
Record lobs := mkL { lbad_ev : bool; lbad_err : bool; lact : oact }.    (* behaviour of observer number i *)
Definition lget (tab : list lobs) (i : nat) : lobs := nth i tab (mkL false false ONone).

Definition memb (x : nat) (l : list nat) : bool := existsb (Nat.eqb x) l.
Fixpoint remove1 (x : nat) (l : list nat) : list nat :=
  match l with [] => [] | y :: r => if Nat.eqb x y then r else y :: remove1 x r end.

(* addObserver (no duplicates) / removeObserver (ValueError ignored) *)
Definition apply_act (a : oact) (os : list nat) : list nat :=
  match a with
  | ONone => os
  | OAdd o => if memb o os then os else os ++ [o]
  | ORemove o => remove1 o os
  end.

(* `for observer in self._observers:` — result: the list afterwards, the deliveries, the observers that raised,
   and whether the fuel ran out *)
Fixpoint dispatch_live (tab : list lobs) (fuel i : nat) (os : list nat) (n : nat)
  : list nat * list dlv * list nat * bool :=
  match fuel with
  | 0 => (os, [], [], match nth_error os i with Some _ => true | None => false end)
  | S f =>
      match nth_error os i with
      | None => (os, [], [], false)
      | Some o =>
          let b := lget tab o in
          let '(os', ds, br, oo) := dispatch_live tab f (S i) (apply_act (lact b) os) n in
          (os', Del o (Ev n) :: ds, (if lbad_ev b then o :: br else br), oo)
      end
  end.

Definition to_obs (tab : list lobs) (os : list nat) : list obs :=
  map (fun o => mkO o (lbad_ev (lget tab o)) (lbad_err (lget tab o))) os.

Definition publish_live (tab : list lobs) (os : list nat) (n : nat) : list nat * list dlv * bool :=
  let '(os', ds, br, oo) := dispatch_live tab (S (length os + length tab)) 0 os n in
  (os', ds ++ flat_map (fun b => publish (S (length os')) (others (mkO b false false) (to_obs tab os')) (Err b)) br, oo).

Fixpoint publish_all_live (tab : list lobs) (os : list nat) (es : list nat) : list dlv * bool :=
  match es with
  | [] => ([], false)
  | n :: r =>
      let '(os', ds, oo) := publish_live tab os n in
      let '(ds', oo') := publish_all_live tab os' r in
      (ds ++ ds', oo || oo')
  end.

(* ---------- limited history used over time: events logged and replays interleaved on ONE observer ---------- *)
Inductive bop := BEvent (n : nat) | BReplay.
Fixpoint brun (size : option nat) (buf : list nat) (ops : list bop) : list (list nat) :=
  match ops with
  | [] => []
  | BEvent n :: r => brun size (push size buf n) r
  | BReplay :: r => buf :: brun size buf r             (* replayTo does not change the buffer *)
  end.
(* Spec: each replay shows the last N of everything logged so far *)
Fixpoint bspec (size : option nat) (seen : list nat) (ops : list bop) : list (list nat) :=
  match ops with
  | [] => []
  | BEvent n :: r => bspec size (seen ++ [n]) r
  | BReplay :: r => (match size with None => seen | Some k => lastn k seen end) :: bspec size seen r
  end.

(* ---------- the publisher over a HISTORY of addObserver / removeObserver / events on ONE publisher ---------- *)
Inductive pop := PAdd (o : nat) | PRem (o : nat) | PEv (n : nat).
Definition preg (os : list nat) (o : pop) : list nat :=
  match o with PAdd x => apply_act (OAdd x) os | PRem x => apply_act (ORemove x) os | PEv _ => os end.
Definition pregs (os : list nat) (ops : list pop) : list nat := fold_left preg ops os.
Fixpoint prun (tab : list lobs) (os : list nat) (ops : list pop) : list dlv :=
  match ops with
  | [] => []
  | PEv n :: r => publish (S (length os)) (to_obs tab os) (Ev n) ++ prun tab os r
  | o :: r => prun tab (preg os o) r
  end.
