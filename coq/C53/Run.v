(** C53: printers used by the correspondence check only. *)
From Coq Require Import List Arith NArith Bool String.
From TwLib Require Import Show.
From C53 Require Import Model.
Import ListNotations.
Local Open Scope string_scope.

Definition show_entry (e : entry) : string := show_nat (fst e) ++ ":" ++ show_hex (snd e).

Definition show_st (s : st) : string :=
  "[" ++ String.concat "," (map show_entry (rot s)) ++ "|" ++ show_hex (cur s) ++ "|" ++ show_nat (size s) ++ "]".

Definition show_one (p : st * ev) : string :=
  (if crashed (snd p) then "!" else "") ++ show_st (fst p).

(** case = (rotateLength (0 = None), maxRotatedFiles, files present before the LogFile is made, operations) *)
Definition run_show (c : nat * option nat * (list entry * bytes) * list op) : string :=
  let '(rl, maxr, (rot0, cur0), ops) := c in
  String.concat " " (map show_one (trace rl maxr (mk rot0 cur0 (List.length cur0)) ops)).
