(** C53: printers used by the correspondence check only. *)
From Coq Require Import List Arith NArith Bool String.
From TwLib Require Import Show.
From C53 Require Import Model.
Import ListNotations.
Local Open Scope string_scope.

Definition show_entry (e : entry) : string := show_nat (fst e) ++ ":" ++ show_hex (snd e).

Definition show_st (s : st) : string :=
  "[" ++ String.concat "," (map show_entry (rot s)) ++ "|" ++ show_hex (cur s) ++ "|" ++ show_nat (size s) ++ "]".

Definition show_one (p : st * ev) : string :=
  (if crashed (snd p) then "!" else "") ++ show_st (fst p).

(** lengths only *)
Definition show_short (p : st * ev) : string :=
  let s := fst p in
  (if crashed (snd p) then "!" else "") ++
  "[" ++ String.concat "," (map (fun e : nat * list N => show_nat (fst e) ++ "." ++ show_nat (List.length (snd e))) (rot s))
  ++ "|" ++ show_nat (List.length (cur s)) ++ "|" ++ show_nat (size s) ++ "]".

(** case = (rotateLength (0 = None), maxRotatedFiles, files present before the LogFile is made, operations).
    Printed: after every operation the file numbers with their lengths, the length of the current file and
    [size]; then the full contents of the final directory (contents are only ever moved, never edited). *)
Definition run_show (c : nat * option nat * (list entry * bytes) * list op) : string :=
  let '(rl, maxr, (rot0, cur0), ops) := c in
  let s0 := mk rot0 cur0 (List.length cur0) in
  let tr := trace rl maxr s0 ops in
  String.concat " " (map show_short tr) ++ " # " ++ show_st (last (map fst tr) s0).
