(** [internal o]: the operation is not "an external tool moved the current file away + reopen()" ([ExtMove]);
    data taken away by an outside tool is outside the suffix / nothing-lost statements, but [ExtMove] IS covered by
    [numbering_stays_in_age_order] and [rotated_files_ge_rotateLength] (reopen() re-reads the size). *)
(** C53 property theorems: LogFile, every rotateLength [rl] (0 = disabled), every retention count
    [maxr], every initial directory in listLogs() order, every history of byte/text writes, explicit
    rotations, reopenings and crashes inside rotate() after any number of its remove/rename calls. *)
From Coq Require Import List Arith NArith Bool.
From C53 Require Import Model Proofs.
Import ListNotations.

(** rotated files (oldest first) followed by the current file hold exactly a suffix of everything
    written (what was on disk at the start included), nothing lost, duplicated or reordered inside it *)
Theorem retained_is_suffix_of_written_in_order : forall rl maxr s0 ops,
  Forall internal ops -> sorted s0 ->
  let r := run rl maxr s0 ops in
  exists dropped, disk s0 ++ all_written (snd r) = dropped ++ disk (fst r).
Proof. intros rl maxr s0 ops. exact (run_suffix rl maxr ops s0). Qed.
Print Assumptions retained_is_suffix_of_written_in_order.

(** the order of the model's list is the order of the file numbers: strictly descending, positive --
    so "oldest first" above is "by descending number", also right after a crash *)
Theorem numbering_stays_in_age_order : forall rl maxr s0 ops,
  sorted s0 -> sorted (fst (run rl maxr s0 ops)).
Proof. intros rl maxr s0 ops. exact (run_sorted rl maxr ops s0). Qed.
Print Assumptions numbering_stays_in_age_order.

(** every automatically rotated file was at least rotateLength bytes long when rotated
    (size counts characters for text, so rotation can be late, never early) *)
Theorem rotated_files_ge_rotateLength : forall rl maxr s0 ops,
  Forall writes_ok ops -> size s0 <= length (cur s0) ->
  Forall (fun e => match rotated e with Some (len, true) => 1 <= rl /\ rl <= len | _ => True end)
         (snd (run rl maxr s0 ops)).
Proof. intros rl maxr s0 ops. exact (run_auto_ok rl maxr ops s0). Qed.
Print Assumptions rotated_files_ge_rotateLength.

(** retention count N >= 1, numbering contiguous at the start, no crash: after r rotations exactly
    [kept N m0 r] = (m0 if r = 0, else min (m0 + r) N) rotated files exist, numbered contiguously from 1;
    by the first theorem their contents are the newest ones, in order *)
Theorem retention_keeps_newest_N : forall rl N ops s0 m0,
  1 <= N -> Forall crash_free ops -> Forall internal ops -> map fst (rot s0) = down m0 ->
  let r := run rl (Some N) s0 ops in
  map fst (rot (fst r)) = down (kept N m0 (nrot (snd r)))
  /\ exists dropped, disk s0 ++ all_written (snd r) = dropped ++ disk (fst r).
Proof.
  intros rl N ops s0 m0 HN Hc Hi H0. split; [apply run_idx; assumption|].
  apply run_suffix; [exact Hi|]. exists (S m0). apply down_below, H0.
Qed.
Print Assumptions retention_keeps_newest_N.

(** one rotation with retention N >= 1: exactly the newest N of (old rotated files ++ the file just closed) *)
Theorem one_rotation_keeps_exactly_newest_N : forall N s m,
  1 <= N -> map fst (rot s) = down m ->
  map fst (rot (rotate (Some N) s)) = down (Nat.min (S m) N)
  /\ map snd (rot (rotate (Some N) s)) = skipn (S m - Nat.min (S m) N) (map snd (rot s) ++ [cur s]).
Proof. intros N s m HN H. exact (rotate_contiguous N HN (rot s) m (cur s) H). Qed.
Print Assumptions one_rotation_keeps_exactly_newest_N.

(** maxRotatedFiles = 0 keeps one rotated file (documentation-level discrepancy, not claimed as a defect) *)
Theorem retention_zero_keeps_one : forall s, rot (rotate (Some 0) s) = [(1, cur s)].
Proof. exact rotate_zero_keeps_one. Qed.
Print Assumptions retention_zero_keeps_one.

(** a crash inside rotate() (explicit or inside write) after any number of its remove/rename calls never
    reorders retained data: this is [retained_is_suffix_of_written_in_order] + [numbering_stays_in_age_order]
    for histories containing [CrashRotate]/[CrashWrite]; stated for a single crash from any sorted state *)
Theorem crash_in_rotate_reorders_nothing : forall maxr k s,
  sorted s ->
  sorted (crash_rotate maxr k s) /\ exists dropped, disk s = dropped ++ disk (crash_rotate maxr k s).
Proof. intros maxr k s Hs. split; [apply crash_rotate_sorted, Hs | apply crash_rotate_disk, Hs]. Qed.
Print Assumptions crash_in_rotate_reorders_nothing.

(** without a retention count nothing is ever lost, crashes included *)
Theorem crash_loses_nothing_without_retention : forall rl s0 ops,
  Forall internal ops ->
  let r := run rl None s0 ops in
  disk (fst r) = disk s0 ++ all_written (snd r).
Proof. intros rl s0 ops. exact (run_none_disk rl ops s0). Qed.
Print Assumptions crash_loses_nothing_without_retention.
