(** C53: LogFile (src/twisted/python/logfile.py): size-rotated log file over a directory.

    Directory = the rotated files [path.<i>] as a list of (index, content) kept in the order
    [listLogs()] reversed gives them (highest index = oldest first; that the list IS in that order
    is the invariant [below] proved in Proofs.v), the current file [path] and the object's [size]
    counter.  [rotate()] is the for-loop over that list (remove when [i >= maxRotatedFiles], else
    rename [i -> i+1]), then [rename(path, path.1)], then [_openFile()] (fresh empty file, size 0).
    Every [os.remove]/[os.rename] is one atomic step; a crash stops [rotate()] after any number of
    them, and the process restarts with a new [LogFile] on the same directory.

    [Write n b]: [write(data)] where [b] is the byte string that reaches the file and [n] is
    [len(data)] as the code counts it (= characters for [str] data, = bytes for [bytes] data). *)
From Coq Require Import List Arith NArith Bool.
Import ListNotations.

Notation bytes := (list N) (only parsing).
Notation entry := (nat * list N)%type (only parsing).

Record st := mk { rot : list entry; cur : bytes; size : nat }.

Inductive op :=
| Write (n : nat) (b : bytes)
| Rotate                                   (* explicit rotate() *)
| Reopen                                   (* reopen(), or a restart: size := real length of the current file *)
| CrashRotate (k : nat)                    (* rotate() killed after k remove/rename calls; restart *)
| CrashWrite (k : nat) (n : nat) (b : bytes) (* write() whose automatic rotate() is killed likewise *)
| ExtMove.                                  (* an external tool moves the current file away, then reopen() *)

(** what an operation did, for the ghost log: a rotation (byte length of the file that became
    [path.1], automatic or explicit), a crash, and the bytes that actually reached the file *)
Record ev := mkev { rotated : option (nat * bool); crashed : bool; wrote : bytes }.

Section Cfg.
  Variable rl : nat.            (* rotateLength; None and 0 both disable automatic rotation: encoded 0 *)
  Variable maxr : option nat.   (* maxRotatedFiles *)

  Definition keep (i : nat) : bool :=
    match maxr with None => true | Some m => Nat.ltb i m end.

  (** the for-loop of rotate() over (a prefix of) the listed logs *)
  Fixpoint shift (l : list entry) : list entry :=
    match l with
    | [] => []
    | (i, c) :: r => if keep i then (S i, c) :: shift r else shift r
    end.

  Definition rotate (s : st) : st := mk (shift (rot s) ++ [(1, cur s)]) [] 0.

  Definition restart (s : st) : st := mk (rot s) (cur s) (length (cur s)).

  Definition should_rotate (s : st) : bool := negb (Nat.eqb rl 0) && Nat.leb rl (size s).

  (** killed after k of the [length (rot s) + 1] remove/rename calls, then restarted.
      (k > length (rot s): all of them were made; only the re-creation of [path] was left to the restart) *)
  Definition crash_rotate (k : nat) (s : st) : st :=
    if Nat.leb k (length (rot s))
    then mk (shift (firstn k (rot s)) ++ skipn k (rot s)) (cur s) (length (cur s))
    else restart (rotate s).

  Definition append (n : nat) (b : bytes) (s : st) : st := mk (rot s) (cur s ++ b) (size s + n).

  Definition step (s : st) (o : op) : st * ev :=
    match o with
    | Write n b =>
        if should_rotate s
        then (append n b (rotate s), mkev (Some (length (cur s), true)) false b)
        else (append n b s, mkev None false b)
    | Rotate => (rotate s, mkev (Some (length (cur s), false)) false [])
    | Reopen => (restart s, mkev None false [])
    | ExtMove => (mk (rot s) [] 0, mkev None false [])
    | CrashRotate k =>
        (crash_rotate k s,
         mkev (if Nat.leb k (length (rot s)) then None else Some (length (cur s), false)) true [])
    | CrashWrite k n b =>
        if should_rotate s
        then if Nat.leb k (length (rot s))
             then (crash_rotate k s, mkev None true [])
             else (append n b (rotate s), mkev (Some (length (cur s), true)) false b)
        else (append n b s, mkev None false b)
    end.

  Fixpoint run (s : st) (ops : list op) : st * list ev :=
    match ops with
    | [] => (s, [])
    | o :: r => let '(s1, e) := step s o in let '(s2, es) := run s1 r in (s2, e :: es)
    end.

  (** the same, with the state after every operation (what the correspondence check compares) *)
  Fixpoint trace (s : st) (ops : list op) : list (st * ev) :=
    match ops with
    | [] => []
    | o :: r => let '(s1, e) := step s o in (s1, e) :: trace s1 r
    end.
End Cfg.

(** everything on disk, oldest first: rotated files by descending index, then the current file *)
Definition disk (s : st) : bytes := concat (map snd (rot s)) ++ cur s.

(** [below b l]: indices positive, strictly descending, the first below b *)
Fixpoint below (b : nat) (l : list entry) : Prop :=
  match l with
  | [] => True
  | (i, _) :: r => 1 <= i /\ i < b /\ below i r
  end.

Definition sorted (s : st) : Prop := exists b, below b (rot s).

(** [m; m-1; ...; 1] *)
Fixpoint down (m : nat) : list nat := match m with 0 => [] | S k => S k :: down k end.

Definition writes_ok (o : op) : Prop :=
  match o with Write n b | CrashWrite _ n b => n <= length b | _ => True end.

Definition crash_free (o : op) : Prop :=
  match o with CrashRotate _ | CrashWrite _ _ _ => False | _ => True end.

(** no external tool takes the current file away *)
Definition internal (o : op) : Prop := match o with ExtMove => False | _ => True end.
