(** C53: LogFile invariants over every history of writes, rotations, reopenings and crashes. *)
From Coq Require Import List Arith NArith Bool Lia.
From C53 Require Import Model.
Import ListNotations.

Lemma below_weaken l : forall b b', below b l -> b <= b' -> below b' l.
Proof. destruct l as [|[i c] r]; cbn; intros b b' H Hb; [exact I|]. destruct H as (H1 & H2 & H3). repeat split; auto; lia. Qed.

Lemma below_firstn k : forall l b, below b l -> below b (firstn k l).
Proof.
  induction k as [|k IH]; intros l b H; [exact I|]. destruct l as [|[i c] r]; [exact I|].
  cbn in *. destruct H as (H1 & H2 & H3). repeat split; auto.
Qed.

Lemma concat_skipn_suffix {A} (xs : list (list A)) j :
  concat xs = concat (firstn j xs) ++ concat (skipn j xs).
Proof. rewrite <- concat_app, firstn_skipn. reflexivity. Qed.

Section Proofs.
  Variable rl : nat.
  Variable maxr : option nat.
  Notation keep := (keep maxr).
  Notation shift := (shift maxr).
  Notation rotate := (rotate maxr).
  Notation crash_rotate := (crash_rotate maxr).
  Notation step := (step rl maxr).
  Notation run := (run rl maxr).

  Lemma keep_mono i j : j <= i -> keep i = true -> keep j = true.
  Proof.
    unfold Model.keep. destruct maxr as [m|]; [|reflexivity].
    intros H Hi. apply Nat.ltb_lt in Hi. apply Nat.ltb_lt. lia.
  Qed.

  (** ---- the list stays in listLogs() order: strictly descending positive indices ---- *)
  Lemma shift_below l : forall b, below b l -> below (S b) (shift l).
  Proof.
    induction l as [|[i c] r IH]; intros b H; [exact I|]. cbn in H. destruct H as (H1 & H2 & H3).
    cbn [Model.shift]. destruct (keep i).
    - cbn. repeat split; [lia | lia | apply IH, H3].
    - eapply below_weaken; [apply IH, H3 | lia].
  Qed.

  Lemma crash_below k : forall l b, below b l -> below (S b) (shift (firstn k l) ++ skipn k l).
  Proof.
    induction k as [|k IH]; intros l b H.
    - cbn. eapply below_weaken; [exact H | lia].
    - destruct l as [|[i c] r]; [exact I|]. cbn in H. destruct H as (H1 & H2 & H3).
      cbn [firstn skipn Model.shift]. destruct (keep i).
      + cbn. repeat split; [lia | lia | apply IH, H3].
      + eapply below_weaken; [apply IH, H3 | lia].
  Qed.

  Lemma shift_snoc_below l c : forall b, below b l -> 1 <= b -> below (S b) (shift l ++ [(1, c)]).
  Proof.
    induction l as [|[i c0] r IH]; intros b H Hb.
    - cbn. repeat split; lia.
    - cbn in H. destruct H as (H1 & H2 & H3). cbn [Model.shift]. destruct (keep i).
      + cbn. repeat split; [lia | lia | apply IH; [exact H3 | exact H1]].
      + eapply below_weaken; [apply IH; [exact H3 | exact H1] | lia].
  Qed.

  Lemma rotate_sorted s : sorted s -> sorted (rotate s).
  Proof.
    intros [b H]. exists (S (S b)). unfold Model.rotate. cbn [rot].
    apply shift_snoc_below; [eapply below_weaken; [exact H | lia] | lia].
  Qed.

  Lemma crash_rotate_sorted k s : sorted s -> sorted (crash_rotate k s).
  Proof.
    intros Hs. unfold Model.crash_rotate. destruct (Nat.leb k (length (rot s))).
    - destruct Hs as [b H]. exists (S b). cbn [rot]. apply crash_below, H.
    - destruct (rotate_sorted s Hs) as [b H]. exists b. exact H.
  Qed.

  Lemma step_sorted s o : sorted s -> sorted (fst (step s o)).
  Proof.
    intros Hs. destruct o as [n b | | | k | k n b | ]; cbn [Model.step].
    - destruct (should_rotate rl s); cbn [fst]; [|exact Hs].
      destruct (rotate_sorted s Hs) as [b0 H]. exists b0. exact H.
    - apply rotate_sorted, Hs.
    - exact Hs.
    - apply crash_rotate_sorted, Hs.
    - destruct (should_rotate rl s); cbn [fst]; [|exact Hs].
      destruct (Nat.leb k (length (rot s))); cbn [fst]; [apply crash_rotate_sorted, Hs|].
      destruct (rotate_sorted s Hs) as [b0 H]. exists b0. exact H.
    - exact Hs.
  Qed.

  (** ---- the loop only ever drops a prefix (the oldest files) of the list, and never reorders ---- *)
  Lemma shift_all_kept l : forall i, below (S i) l -> keep i = true -> map snd (shift l) = map snd l.
  Proof.
    induction l as [|[j c] r IH]; intros i H Hk; [reflexivity|]. cbn in H. destruct H as (H1 & H2 & H3).
    cbn [Model.shift]. rewrite (keep_mono i j) by (try lia; exact Hk). cbn.
    f_equal. apply (IH j); [eapply below_weaken; [exact H3 | lia] | apply (keep_mono i j); [lia | exact Hk]].
  Qed.

  Lemma crash_suffix k : forall l b, below b l ->
    exists j, map snd (shift (firstn k l) ++ skipn k l) = skipn j (map snd l).
  Proof.
    induction k as [|k IH]; intros l b H.
    - exists 0. reflexivity.
    - destruct l as [|[i c] r]; [exists 0; reflexivity|]. cbn in H. destruct H as (H1 & H2 & H3).
      cbn [firstn skipn Model.shift]. destruct (keep i) eqn:Ek.
      + exists 0. cbn [skipn app map snd]. f_equal. rewrite map_app.
        assert (E : map snd (shift (firstn k r)) = map snd (firstn k r)).
        { apply (shift_all_kept (firstn k r) i); [eapply below_weaken; [apply below_firstn, H3 | lia] | exact Ek]. }
        transitivity (map snd (firstn k r) ++ map snd (skipn k r)); [f_equal; exact E|].
        rewrite <- map_app, firstn_skipn. reflexivity.
      + destruct (IH r i H3) as [j Hj]. exists (S j). exact Hj.
  Qed.

  Lemma shift_suffix l b : below b l -> exists j, map snd (shift l) = skipn j (map snd l).
  Proof.
    intros H. destruct (crash_suffix (length l) l b H) as [j Hj]. exists j.
    rewrite firstn_all, skipn_all, app_nil_r in Hj. exact Hj.
  Qed.

  (** one operation: what was on disk plus what this operation wrote = (some oldest files dropped) ++ disk *)
  Lemma rotate_disk s : sorted s -> exists d, disk s = d ++ disk (rotate s).
  Proof.
    intros [b H]. destruct (shift_suffix _ _ H) as [j Hj].
    exists (concat (firstn j (map snd (rot s)))). unfold disk, Model.rotate. cbn [rot cur].
    rewrite map_app, concat_app, Hj. cbn. rewrite !app_nil_r, app_assoc.
    rewrite <- concat_skipn_suffix. reflexivity.
  Qed.

  Lemma crash_rotate_disk k s : sorted s -> exists d, disk s = d ++ disk (crash_rotate k s).
  Proof.
    intros Hs. unfold Model.crash_rotate. destruct (Nat.leb k (length (rot s))).
    - destruct Hs as [b H]. destruct (crash_suffix k _ _ H) as [j Hj].
      exists (concat (firstn j (map snd (rot s)))). unfold disk. cbn [rot cur].
      rewrite Hj, app_assoc, <- concat_skipn_suffix. reflexivity.
    - destruct (rotate_disk s Hs) as [d Hd]. exists d. exact Hd.
  Qed.

  Lemma append_disk n b s : disk (append n b s) = disk s ++ b.
  Proof. unfold disk, append. cbn. rewrite app_assoc. reflexivity. Qed.

  Lemma step_disk s o : internal o -> sorted s ->
    exists d, disk s ++ wrote (snd (step s o)) = d ++ disk (fst (step s o)).
  Proof.
    intros Hi Hs. destruct o as [n b | | | k | k n b | ]; cbn [Model.step].
    - destruct (should_rotate rl s); cbn [fst snd wrote].
      + destruct (rotate_disk s Hs) as [d Hd]. exists d. rewrite append_disk, Hd, app_assoc. reflexivity.
      + exists []. rewrite append_disk. reflexivity.
    - cbn [fst snd wrote]. destruct (rotate_disk s Hs) as [d Hd]. exists d. rewrite app_nil_r. exact Hd.
    - exists []. cbn. rewrite app_nil_r. reflexivity.
    - cbn [fst snd wrote]. destruct (crash_rotate_disk k s Hs) as [d Hd]. exists d. rewrite app_nil_r. exact Hd.
    - destruct (should_rotate rl s); cbn [fst snd wrote].
      + destruct (Nat.leb k (length (rot s))); cbn [fst snd wrote].
        * destruct (crash_rotate_disk k s Hs) as [d Hd]. exists d. rewrite app_nil_r. exact Hd.
        * destruct (rotate_disk s Hs) as [d Hd]. exists d. rewrite append_disk, Hd, app_assoc. reflexivity.
      + exists []. rewrite append_disk. reflexivity.
    - destruct Hi.
  Qed.

  Lemma run_cons s o r :
    run s (o :: r) = (fst (run (fst (step s o)) r), snd (step s o) :: snd (run (fst (step s o)) r)).
  Proof. cbn [Model.run]. destruct (step s o) as [s1 e]. cbn [fst snd]. destruct (run s1 r); reflexivity. Qed.

  Definition all_written (es : list ev) : bytes := concat (map wrote es).

  Lemma run_sorted ops : forall s, sorted s -> sorted (fst (run s ops)).
  Proof.
    induction ops as [|o r IH]; intros s Hs; [exact Hs|]. rewrite run_cons. cbn [fst]. apply IH, step_sorted, Hs.
  Qed.

  Lemma run_suffix ops : forall s, Forall internal ops -> sorted s ->
    exists dropped, disk s ++ all_written (snd (run s ops)) = dropped ++ disk (fst (run s ops)).
  Proof.
    induction ops as [|o r IH]; intros s Hi Hs.
    - exists []. cbn. rewrite app_nil_r. reflexivity.
    - inversion Hi as [|? ? Ho Hr]; subst.
      rewrite run_cons. cbn [fst snd]. unfold all_written in *. cbn [map concat].
      destruct (step_disk s o Ho Hs) as [d Hd].
      destruct (IH _ Hr (step_sorted s o Hs)) as [d' Hd'].
      exists (d ++ d'). rewrite app_assoc, Hd, <- !app_assoc, Hd'. reflexivity.
  Qed.

  (** ---- size never exceeds the real length; automatic rotation only of files >= rotateLength ---- *)
  Definition size_ok (s : st) : Prop := size s <= length (cur s).

  Lemma step_size_ok s o : writes_ok o -> size_ok s -> size_ok (fst (step s o)).
  Proof.
    unfold size_ok. intros Ho Hs. destruct o as [n b | | | k | k n b | ]; cbn [Model.step] in *.
    - destruct (should_rotate rl s); cbn; rewrite ?app_length; cbn in Ho; lia.
    - cbn. lia.
    - cbn. lia.
    - unfold Model.crash_rotate. destruct (Nat.leb k (length (rot s))); cbn; lia.
    - destruct (should_rotate rl s); cbn [fst].
      + destruct (Nat.leb k (length (rot s))) eqn:E; cbn [fst].
        * unfold Model.crash_rotate. rewrite E. cbn. lia.
        * cbn. rewrite ?app_length. cbn in Ho. lia.
      + cbn. rewrite ?app_length. cbn in Ho. lia.
    - cbn. lia.
  Qed.

  Definition auto_ok (e : ev) : Prop :=
    match rotated e with Some (len, true) => 1 <= rl /\ rl <= len | _ => True end.

  Lemma should_rotate_true s : should_rotate rl s = true -> 1 <= rl /\ rl <= size s.
  Proof.
    unfold should_rotate. intros H. apply andb_prop in H. destruct H as [H1 H2].
    apply negb_true_iff, Nat.eqb_neq in H1. apply Nat.leb_le in H2. lia.
  Qed.

  Lemma step_auto_ok s o : size_ok s -> auto_ok (snd (step s o)).
  Proof.
    unfold size_ok, auto_ok. intros Hs. destruct o as [n b | | | k | k n b | ]; cbn [Model.step].
    - destruct (should_rotate rl s) eqn:E; cbn; [|exact I]. apply should_rotate_true in E. lia.
    - cbn. exact I.
    - cbn. exact I.
    - cbn. destruct (Nat.leb k (length (rot s))); exact I.
    - destruct (should_rotate rl s) eqn:E; cbn [snd]; [|exact I].
      destruct (Nat.leb k (length (rot s))); cbn; [exact I|]. apply should_rotate_true in E. lia.
    - cbn. exact I.
  Qed.

  Lemma run_auto_ok ops : forall s, Forall writes_ok ops -> size_ok s -> Forall auto_ok (snd (run s ops)).
  Proof.
    induction ops as [|o r IH]; intros s Ho Hs; [constructor|].
    inversion Ho as [|? ? H1 H2]; subst. rewrite run_cons. cbn [snd]. constructor.
    - apply step_auto_ok, Hs.
    - apply IH; [exact H2 | apply step_size_ok; assumption].
  Qed.
End Proofs.

(** ---- without a retention count nothing is ever dropped ---- *)
Lemma shift_none_all l : map snd (shift None l) = map snd l.
Proof. induction l as [|[i c] r IH]; [reflexivity|]. cbn. f_equal. exact IH. Qed.

Lemma rotate_none_disk s : disk (rotate None s) = disk s.
Proof.
  unfold disk, rotate. cbn [rot cur]. rewrite map_app, concat_app, shift_none_all. cbn.
  rewrite !app_nil_r. reflexivity.
Qed.

Lemma crash_none_disk k s : disk (crash_rotate None k s) = disk s.
Proof.
  unfold crash_rotate. destruct (Nat.leb k (length (rot s))).
  - unfold disk. cbn [rot cur]. rewrite map_app, shift_none_all, <- map_app, firstn_skipn. reflexivity.
  - exact (rotate_none_disk s).
Qed.

Lemma step_none_disk rl s o : internal o -> disk (fst (step rl None s o)) = disk s ++ wrote (snd (step rl None s o)).
Proof.
  intros Hi. destruct o as [n b | | | k | k n b | ]; cbn [step].
  - destruct (should_rotate rl s); cbn [fst snd wrote]; rewrite append_disk, ?rotate_none_disk; reflexivity.
  - cbn [fst snd wrote]. rewrite rotate_none_disk, app_nil_r. reflexivity.
  - cbn. rewrite app_nil_r. reflexivity.
  - cbn [fst snd wrote]. rewrite crash_none_disk, app_nil_r. reflexivity.
  - destruct (should_rotate rl s); cbn [fst snd wrote].
    + destruct (Nat.leb k (length (rot s))); cbn [fst snd wrote].
      * rewrite crash_none_disk, app_nil_r. reflexivity.
      * rewrite append_disk, rotate_none_disk. reflexivity.
    + rewrite append_disk. reflexivity.
  - destruct Hi.
Qed.

Lemma run_none_disk rl ops : forall s, Forall internal ops ->
  disk (fst (run rl None s ops)) = disk s ++ all_written (snd (run rl None s ops)).
Proof.
  induction ops as [|o r IH]; intros s Hi.
  - cbn. rewrite app_nil_r. reflexivity.
  - inversion Hi as [|? ? Ho Hr]; subst. rewrite run_cons. cbn [fst snd]. unfold all_written in *. cbn [map concat].
    rewrite IH by exact Hr. rewrite step_none_disk by exact Ho. rewrite <- app_assoc. reflexivity.
Qed.

(** ---- retention: with maxRotatedFiles = N >= 1 and contiguous numbering, a rotation keeps exactly the
    newest N files; with N = 0 it keeps one ---- *)
Lemma down_bump k : map S (down k) ++ [1] = down (S k).
Proof. induction k as [|k IH]; [reflexivity|]. cbn [down map]. rewrite <- app_comm_cons, IH. reflexivity. Qed.

Lemma shift_all_kept_idx maxr l : (forall i, In i (map fst l) -> keep maxr i = true) ->
  map fst (shift maxr l) = map S (map fst l) /\ map snd (shift maxr l) = map snd l.
Proof.
  induction l as [|[i c] r IH]; intros H; [split; reflexivity|].
  cbn [shift]. rewrite (H i) by (left; reflexivity). cbn.
  destruct IH as [I1 I2]; [intros j Hj; apply H; right; exact Hj|]. rewrite I1, I2. split; reflexivity.
Qed.

Lemma in_down i m : In i (down m) -> 1 <= i <= m.
Proof. induction m as [|m IH]; cbn; [tauto|]. intros [E|H]; [lia | apply IH in H; lia]. Qed.

Lemma rotate_contiguous N : 1 <= N -> forall l m c,
  map fst l = down m ->
  map fst (shift (Some N) l ++ [(1, c)]) = down (Nat.min (S m) N)
  /\ map snd (shift (Some N) l ++ [(1, c)]) = skipn (S m - Nat.min (S m) N) (map snd l ++ [c]).
Proof.
  intros HN l. induction l as [|[i c0] r IH]; intros m c Hm.
  - destruct m; [|discriminate]. cbn [shift app map]. replace (Nat.min 1 N) with 1 by lia. split; reflexivity.
  - destruct m as [|k]; [discriminate|]. cbn [map fst down] in Hm. inversion Hm as [[Hi Hr]]. subst i.
    cbn [shift]. unfold keep. destruct (Nat.ltb (S k) N) eqn:E.
    + apply Nat.ltb_lt in E.
      destruct (shift_all_kept_idx (Some N) r) as [I1 I2].
      { intros j Hj. rewrite Hr in Hj. apply in_down in Hj. unfold keep. apply Nat.ltb_lt. lia. }
      replace (Nat.min (S (S k)) N) with (S (S k)) by lia. replace (S (S k) - S (S k)) with 0 by lia.
      cbn [skipn]. rewrite !map_app. cbn [map fst snd app]. rewrite I1, I2, Hr.
      rewrite down_bump. split; reflexivity.
    + apply Nat.ltb_ge in E. destruct (IH k c Hr) as [J1 J2].
      replace (Nat.min (S (S k)) N) with N by lia. replace (Nat.min (S k) N) with N in * by lia.
      split; [exact J1|]. rewrite J2. replace (S (S k) - N) with (S (S k - N)) by lia. reflexivity.
Qed.

Lemma rotate_zero_keeps_one s : rot (rotate (Some 0) s) = [(1, cur s)].
Proof.
  unfold rotate. cbn [rot]. assert (H : forall l, shift (Some 0) l = []).
  { induction l as [|[i c] r IH]; [reflexivity|]. cbn. exact IH. }
  rewrite H. reflexivity.
Qed.

(** non-triviality: a history with multi-byte text, retention, a crash in the middle of the loop *)
Example history_nontrivial :
  let ops := [Write 1 [226;130;172]%N; Write 1 [97]%N; Write 2 [98;99]%N; CrashRotate 1; Write 1 [100]%N; Rotate] in
  let s0 := mk [(2, [120]%N); (1, [121]%N)] [122]%N 1 in
  let r := run 2 (Some 3) s0 ops in
  rot (fst r) = [(3, [122;226;130;172]%N); (2, [97;98;99]%N); (1, [100]%N)] /\ cur (fst r) = []
  /\ Forall writes_ok ops /\ sorted s0 /\ size_ok s0.
Proof.
  split; [vm_compute; reflexivity|]. split; [vm_compute; reflexivity|].
  split; [repeat constructor|]. split; [exists 3; cbn; repeat split; repeat constructor | unfold size_ok; cbn; constructor].
Qed.

(** ---- retention over whole (crash-free) histories ---- *)
Definition is_rotation (e : ev) : bool := match rotated e with Some _ => true | None => false end.
Definition nrot (es : list ev) : nat := length (filter is_rotation es).

(** number of rotated files after r rotations, starting with m0 contiguous ones, retention N *)
Definition kept (N m0 r : nat) : nat := if Nat.eqb r 0 then m0 else Nat.min (m0 + r) N.

Lemma down_below l : forall m, map fst l = down m -> below (S m) l.
Proof.
  induction l as [|[i c] r IH]; intros m H; [exact I|]. destruct m as [|k]; [discriminate|].
  cbn in H. inversion H as [[Hi Hr]]. subst i. cbn. repeat split; [lia | lia | apply IH, Hr].
Qed.

Lemma rotate_idx N s m : 1 <= N -> map fst (rot s) = down m ->
  map fst (rot (rotate (Some N) s)) = down (Nat.min (S m) N).
Proof. intros HN H. unfold rotate. cbn [rot]. apply (rotate_contiguous N HN (rot s) m (cur s) H). Qed.

Lemma step_idx rl N s o m : 1 <= N -> crash_free o -> map fst (rot s) = down m ->
  map fst (rot (fst (step rl (Some N) s o))) =
  down (if is_rotation (snd (step rl (Some N) s o)) then Nat.min (S m) N else m).
Proof.
  intros HN Hc H. destruct o as [n b | | | k | k n b | ]; cbn [step]; try contradiction.
  - destruct (should_rotate rl s); cbn [fst snd is_rotation rotated append rot]; [apply rotate_idx; assumption | exact H].
  - cbn [fst snd is_rotation rotated]. apply rotate_idx; assumption.
  - cbn. exact H.
  - cbn. exact H.
Qed.

Lemma run_idx rl N ops : 1 <= N -> Forall crash_free ops -> forall s m,
  map fst (rot s) = down m ->
  map fst (rot (fst (run rl (Some N) s ops))) = down (kept N m (nrot (snd (run rl (Some N) s ops)))).
Proof.
  intros HN Hc. induction Hc as [|o r Ho Hr IH]; intros s m H.
  - cbn. exact H.
  - rewrite run_cons. cbn [fst snd]. pose proof (step_idx rl N s o m HN Ho H) as Hs.
    unfold nrot. cbn [filter]. destruct (is_rotation (snd (step rl (Some N) s o))).
    + rewrite (IH _ _ Hs). f_equal. unfold kept, nrot. cbn [length].
      destruct (length (filter is_rotation (snd (run rl (Some N) (fst (step rl (Some N) s o)) r)))) as [|q]; cbn [Nat.eqb]; lia.
    + rewrite (IH _ _ Hs). reflexivity.
Qed.
