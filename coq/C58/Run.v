(** C58: printers used by the correspondence check only. *)
From Coq Require Import List Arith ZArith Bool String.
From TwLib Require Import Show.
From C58 Require Import Model.
Import ListNotations.
Local Open Scope string_scope.

Definition show_fkind (f : fkind) : string :=
  match f with
  | FRefused => "ConnectionRefusedError" | FPrepRaise => "RuntimeError"
  | FPrepFail => "ValueError" | FCancelled => "CancelledError"
  end.
Definition show_pmode (m : pmode) : string := match m with PmOk => "o" | PmRaise => "r" | PmDefer => "d" end.

Definition show_ev (e : ev) : list string :=
  match e with
  | EAttempt a => ["A" ++ show_nat a]
  | ECancelAtt a => ["X" ++ show_nat a]
  | EOpen k => ["O" ++ show_nat k]
  | EPrep k m => ["P" ++ show_nat k ++ show_pmode m]
  | ECancelPrep k => ["XP" ++ show_nat k]
  | ELose k => ["L" ++ show_nat k]
  | EDrop k => ["D" ++ show_nat k]
  | EWhenConn i k => ["W" ++ show_nat i ++ ":c" ++ show_nat k]
  | EWhenFail i f => ["W" ++ show_nat i ++ ":" ++ show_fkind f]
  | EStopFired i => ["S" ++ show_nat i]
  | EPolicy n => ["R" ++ show_nat n]
  | ETimer d => ["T" ++ show_Z d]
  | ERejected _ => ["!NoTransition"]
  | ENoop => ["-"]
  | EMade _ => []
  end.

Definition show_group (g : list ev) : string :=
  match flat_map show_ev g with [] => "." | l => String.concat "," l end.

Definition list_policy (delays : list Z) (n : nat) : Z :=
  nth (Nat.min n (List.length delays) - 1) delays 0%Z.

(** case = (retry delays, prepare modes, ops) *)
Definition run_show (c : list Z * list pmode * list op) : string :=
  let '(delays, prep, ops) := c in
  let '(s, gs) := run (list_policy delays) prep init ops in
  String.concat " " (map show_group gs)
  ++ " |open=" ++ show_list show_nat (conns s) ++ " pend=" ++ show_list show_nat (pend s)
  ++ " prep=" ++ show_list show_nat (preps s)
  ++ " timer=" ++ (match timer s with Some t => show_Z (t - now s) | None => "None" end)
  ++ (if tainted s then " #" else "").
