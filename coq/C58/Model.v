(** C58: twisted.application._client_service.ClientService as a step function.

    The automat transition table ([Gen.trans], [Gen.state_factory]) is regenerated from
    [makeMachine] on every run (T-tie); everything else in this file is written by hand and tied
    to the code by the correspondence check (H-tie):

    - the behaviour functions and state-data factories of [makeMachine] ([run_action],
      [run_factory]; the match is on the generated constructor names);
    - automat's dispatch ([deliver]: table lookup, NoTransition when there is no entry, the
      target's data factory runs first unless the transition is a loop, then the behaviour;
      an input sent while another one is being handled is postponed -- the only such input here
      is the [_connectionFailed] produced by [attempt.cancel()] inside [connectingStop]);
    - [Service.running] ([startService] ignores a duplicate start);
    - the environment: an endpoint whose [connect] returns an unfired Deferred (attempt ids),
      connections (transport + protocol, ids), the optional [prepareConnection] hook with a
      per-connection mode (returns / raises / returns an unfired Deferred), a [task.Clock]
      holding at most the one retry call, and Deferreds handed out by [whenConnected] /
      [stopService] (ids in call order).

    [tainted] is a ghost flag: it is raised exactly when a connection's [prepareConnection]
    does not succeed while the machine still waits for it -- the hook raises or its Deferred
    fails, [stopService] cancels it, or the connection drops before it fires.  In those
    situations the code as it is loses track of the open connection (finding F22 and its
    siblings); the property theorems that fail there are stated under [tainted = false]. *)
From Coq Require Import List Arith ZArith Bool.
From C58 Require Export Gen.
Import ListNotations.

Scheme Equality for state.

Inductive pmode := PmOk | PmRaise | PmDefer.
Inductive fkind := FRefused | FPrepRaise | FPrepFail | FCancelled.

Inductive op :=
| OStart | OStop | OWhen (lim : option nat)
| OConnOk | OConnFail          (* the newest pending connect() Deferred fires *)
| OPrepOk | OPrepFail          (* the pending prepareConnection Deferred fires *)
| ODrop (j : nat)              (* the j-th oldest open connection is lost *)
| OAdvance (dt : N).           (* clock.advance(dt), dt >= 0 *)

Inductive ev :=
| EAttempt (a : nat)               (* endpoint.connect called: attempt a *)
| ECancelAtt (a : nat)             (* attempt a's connect Deferred cancelled *)
| EOpen (k : nat)                  (* connection k established *)
| EPrep (k : nat) (m : pmode)      (* prepareConnection called on connection k *)
| ECancelPrep (k : nat)            (* its Deferred cancelled *)
| ELose (k : nat)                  (* transport k: loseConnection() *)
| EDrop (k : nat)                  (* connection k lost (connectionLost delivered) *)
| EWhenConn (i k : nat)            (* whenConnected Deferred i fired with connection k's protocol *)
| EWhenFail (i : nat) (f : fkind)  (* ... failed *)
| EStopFired (i : nat)             (* stopService Deferred i fired *)
| EPolicy (n : nat)                (* retry policy asked for attempt count n *)
| ETimer (d : Z)                   (* clock.callLater(d, _reconnect) *)
| ERejected (i : input)            (* automat.NoTransition *)
| ENoop                            (* the op named something that does not exist; nothing happened *)
| EMade (k : nat).                 (* ghost: _connectionMade accepted for connection k (not printed) *)

(** a pending whenConnected Deferred: [wrem] is the [remaining] count the code keeps;
    [wlim] (the failAfterFailures it was requested with) and [wat] (the value of the ghost
    failure counter [nfail] at that time) are ghost fields used only by the theorems *)
Record waiter := mkw { wid : nat; wrem : option nat; wlim : option nat; wat : nat }.

Record st := mk {
  ms : state;
  running : bool;
  cur_att : nat;
  cur_conn : nat;
  timer : option Z;
  failed : nat;
  awaiting : list waiter;
  stopw : list nat;
  nwhen : nat;
  nstop : nat;
  now : Z;
  natt : nat;
  nconn : nat;
  pend : list nat;
  preps : list nat;
  conns : list nat;
  tainted : bool;
  nfail : nat
}.

Definition set_ms (v : state) (s : st) : st := mk v (running s) (cur_att s) (cur_conn s) (timer s) (failed s) (awaiting s) (stopw s) (nwhen s) (nstop s) (now s) (natt s) (nconn s) (pend s) (preps s) (conns s) (tainted s) (nfail s).
Definition set_running (v : bool) (s : st) : st := mk (ms s) v (cur_att s) (cur_conn s) (timer s) (failed s) (awaiting s) (stopw s) (nwhen s) (nstop s) (now s) (natt s) (nconn s) (pend s) (preps s) (conns s) (tainted s) (nfail s).
Definition set_cur_att (v : nat) (s : st) : st := mk (ms s) (running s) v (cur_conn s) (timer s) (failed s) (awaiting s) (stopw s) (nwhen s) (nstop s) (now s) (natt s) (nconn s) (pend s) (preps s) (conns s) (tainted s) (nfail s).
Definition set_cur_conn (v : nat) (s : st) : st := mk (ms s) (running s) (cur_att s) v (timer s) (failed s) (awaiting s) (stopw s) (nwhen s) (nstop s) (now s) (natt s) (nconn s) (pend s) (preps s) (conns s) (tainted s) (nfail s).
Definition set_timer (v : option Z) (s : st) : st := mk (ms s) (running s) (cur_att s) (cur_conn s) v (failed s) (awaiting s) (stopw s) (nwhen s) (nstop s) (now s) (natt s) (nconn s) (pend s) (preps s) (conns s) (tainted s) (nfail s).
Definition set_failed (v : nat) (s : st) : st := mk (ms s) (running s) (cur_att s) (cur_conn s) (timer s) v (awaiting s) (stopw s) (nwhen s) (nstop s) (now s) (natt s) (nconn s) (pend s) (preps s) (conns s) (tainted s) (nfail s).
Definition set_awaiting (v : list waiter) (s : st) : st := mk (ms s) (running s) (cur_att s) (cur_conn s) (timer s) (failed s) v (stopw s) (nwhen s) (nstop s) (now s) (natt s) (nconn s) (pend s) (preps s) (conns s) (tainted s) (nfail s).
Definition set_stopw (v : list nat) (s : st) : st := mk (ms s) (running s) (cur_att s) (cur_conn s) (timer s) (failed s) (awaiting s) v (nwhen s) (nstop s) (now s) (natt s) (nconn s) (pend s) (preps s) (conns s) (tainted s) (nfail s).
Definition set_nwhen (v : nat) (s : st) : st := mk (ms s) (running s) (cur_att s) (cur_conn s) (timer s) (failed s) (awaiting s) (stopw s) v (nstop s) (now s) (natt s) (nconn s) (pend s) (preps s) (conns s) (tainted s) (nfail s).
Definition set_nstop (v : nat) (s : st) : st := mk (ms s) (running s) (cur_att s) (cur_conn s) (timer s) (failed s) (awaiting s) (stopw s) (nwhen s) v (now s) (natt s) (nconn s) (pend s) (preps s) (conns s) (tainted s) (nfail s).
Definition set_now (v : Z) (s : st) : st := mk (ms s) (running s) (cur_att s) (cur_conn s) (timer s) (failed s) (awaiting s) (stopw s) (nwhen s) (nstop s) v (natt s) (nconn s) (pend s) (preps s) (conns s) (tainted s) (nfail s).
Definition set_natt (v : nat) (s : st) : st := mk (ms s) (running s) (cur_att s) (cur_conn s) (timer s) (failed s) (awaiting s) (stopw s) (nwhen s) (nstop s) (now s) v (nconn s) (pend s) (preps s) (conns s) (tainted s) (nfail s).
Definition set_nconn (v : nat) (s : st) : st := mk (ms s) (running s) (cur_att s) (cur_conn s) (timer s) (failed s) (awaiting s) (stopw s) (nwhen s) (nstop s) (now s) (natt s) v (pend s) (preps s) (conns s) (tainted s) (nfail s).
Definition set_pend (v : list nat) (s : st) : st := mk (ms s) (running s) (cur_att s) (cur_conn s) (timer s) (failed s) (awaiting s) (stopw s) (nwhen s) (nstop s) (now s) (natt s) (nconn s) v (preps s) (conns s) (tainted s) (nfail s).
Definition set_preps (v : list nat) (s : st) : st := mk (ms s) (running s) (cur_att s) (cur_conn s) (timer s) (failed s) (awaiting s) (stopw s) (nwhen s) (nstop s) (now s) (natt s) (nconn s) (pend s) v (conns s) (tainted s) (nfail s).
Definition set_conns (v : list nat) (s : st) : st := mk (ms s) (running s) (cur_att s) (cur_conn s) (timer s) (failed s) (awaiting s) (stopw s) (nwhen s) (nstop s) (now s) (natt s) (nconn s) (pend s) (preps s) v (tainted s) (nfail s).
Definition set_tainted (v : bool) (s : st) : st := mk (ms s) (running s) (cur_att s) (cur_conn s) (timer s) (failed s) (awaiting s) (stopw s) (nwhen s) (nstop s) (now s) (natt s) (nconn s) (pend s) (preps s) (conns s) v (nfail s).
Definition set_nfail (v : nat) (s : st) : st := mk (ms s) (running s) (cur_att s) (cur_conn s) (timer s) (failed s) (awaiting s) (stopw s) (nwhen s) (nstop s) (now s) (natt s) (nconn s) (pend s) (preps s) (conns s) (tainted s) v.

Definition init : st := mk initial_state false 0 0 None 0 [] [] 0 0 0%Z 0 0 [] [] [] false 0.

Definition mem (i : nat) (l : list nat) : bool := existsb (Nat.eqb i) l.
Fixpoint remove_first (i : nat) (l : list nat) : list nat :=
  match l with
  | [] => []
  | j :: r => if Nat.eqb i j then r else j :: remove_first i r
  end.
Fixpoint last_opt (l : list nat) : option nat :=
  match l with [] => None | [x] => Some x | _ :: r => last_opt r end.

Definition is_ready (w : waiter) : bool :=
  match wrem w with Some r => Nat.leb r 1 | None => false end.
Definition dec_remaining (w : waiter) : waiter :=
  mkw (wid w) (match wrem w with Some r => Some (r - 1) | None => None end) (wlim w) (wat w).

Definition cancel_waiters (s : st) : list ev := map (fun w => EWhenFail (wid w) FCancelled) (awaiting s).
Definition fire_stops (l : list nat) : list ev := map EStopFired l.

Section Env.
  Variable policy : nat -> Z.        (* retryPolicy / timeoutForAttempt *)
  Variable prep : list pmode.        (* [] = prepareConnection is None; else mode of connection k = prep[k mod len] *)

  Definition mode_of (k : nat) : option pmode :=
    match prep with [] => None | _ => Some (nth (Nat.modulo k (length prep)) prep PmOk) end.

  (** state-data factories *)
  Definition run_factory (f : factory) (k : nat) (s : st) : st * list ev :=
    match f with
    | attemptConnection =>
        (set_cur_att (natt s) (set_pend (pend s ++ [natt s]) (set_natt (S (natt s)) s)), [EAttempt (natt s)])
    | waitForRetry =>
        let n := S (failed s) in
        (set_failed n (set_timer (Some (now s + policy n)%Z) s), [EPolicy n; ETimer (policy n)])
    | rememberConnection =>
        (set_failed 0 (set_awaiting [] (set_cur_conn k s)),
         EMade k :: map (fun w => EWhenConn (wid w) k) (awaiting s))
    end.

  (** transition behaviours; the boolean says that [attempt.cancel()] fired the attempt's
      errback chain, i.e. a postponed [_connectionFailed(CancelledError)] follows *)
  Definition new_stop (s : st) : st := set_stopw (stopw s ++ [nstop s]) (set_nstop (S (nstop s)) s).

  Definition run_action (a : action) (f : fkind) (lim : option nat) (s : st) : st * list ev * bool :=
    match a with
    | Returns_None => (s, [], false)
    | immediateStop => (set_nstop (S (nstop s)) s, [EStopFired (nstop s)], false)
    | stopBeforeStart =>
        (set_awaiting [] (set_nstop (S (nstop s)) s), cancel_waiters s ++ [EStopFired (nstop s)], false)
    | connectingStop =>
        let s1 := new_stop s in
        if mem (cur_att s) (pend s)
        then (set_pend (remove_first (cur_att s) (pend s)) s1, [ECancelAtt (cur_att s)], true)
        else match last_opt (preps s) with
             | Some k => (set_tainted true (set_preps (removelast (preps s)) s1), [ECancelPrep k], true)
             | None => (s1, [], false)
             end
    | failedWhenConnecting =>
        (set_nfail (S (nfail s)) (set_awaiting (map dec_remaining (filter (fun w => negb (is_ready w)) (awaiting s))) s),
         map (fun w => EWhenFail (wid w) f) (filter is_ready (awaiting s)), false)
    | stop =>
        (set_timer None (set_awaiting [] (set_stopw [] (set_nstop (S (nstop s)) s))),
         cancel_waiters s ++ fire_stops (stopw s ++ [nstop s]), false)
    | stopWhileConnected => (new_stop s, [ELose (cur_conn s)], false)
    | whenConnectedWhenConnected => (set_nwhen (S (nwhen s)) s, [EWhenConn (nwhen s) (cur_conn s)], false)
    | discoStop => (new_stop s, [], false)
    | disconnectingFinished =>
        (set_awaiting [] (set_stopw [] s), cancel_waiters s ++ fire_stops (stopw s), false)
    | awaitingConnection =>
        (set_awaiting (awaiting s ++ [mkw (nwhen s) lim lim (nfail s)]) (set_nwhen (S (nwhen s)) s), [], false)
    | restartDone => (set_stopw [] s, fire_stops (stopw s), false)
    | notGoingToConnect => (set_nwhen (S (nwhen s)) s, [EWhenFail (nwhen s) FCancelled], false)
    end.

  (** automat dispatch of one input *)
  Definition deliver1 (i : input) (k : nat) (f : fkind) (lim : option nat) (s : st) : st * list ev * bool :=
    match trans (ms s) i with
    | None => (s, [ERejected i], false)
    | Some (t, a) =>
        let s0 := set_ms t s in
        let '(s1, e1) := match state_factory t with
                         | Some fc => if state_beq t (ms s) then (s0, []) else run_factory fc k s0
                         | None => (s0, [])
                         end in
        let '(s2, e2, p) := run_action a f lim s1 in
        (s2, e1 ++ e2, p)
    end.

  (** ... followed by the postponed input, if any *)
  Definition deliver (i : input) (k : nat) (f : fkind) (lim : option nat) (s : st) : st * list ev :=
    let '(s1, e1, p) := deliver1 i k f lim s in
    if p then let '(s2, e2, _) := deliver1 I__connectionFailed 0 FCancelled None s1 in (s2, e1 ++ e2)
    else (s1, e1).

  Definition pre (e : list ev) (r : st * list ev) : st * list ev := (fst r, e ++ snd r).

  Definition step (s : st) (o : op) : st * list ev :=
    match o with
    | OStart => if running s then (s, []) else deliver I_start 0 FRefused None (set_running true s)
    | OStop => deliver I_stop 0 FRefused None (set_running false s)
    | OWhen lim => deliver I_whenConnected 0 FRefused lim s
    | OConnOk =>
        match last_opt (pend s) with
        | None => (s, [ENoop])
        | Some _ =>
            let k := nconn s in
            let s1 := set_pend (removelast (pend s)) (set_nconn (S k) (set_conns (conns s ++ [k]) s)) in
            match mode_of k with
            | None => pre [EOpen k] (deliver I__connectionMade k FRefused None s1)
            | Some PmOk => pre [EOpen k; EPrep k PmOk] (deliver I__connectionMade k FRefused None s1)
            | Some PmRaise =>
                pre [EOpen k; EPrep k PmRaise] (deliver I__connectionFailed k FPrepRaise None (set_tainted true s1))
            | Some PmDefer => (set_preps (preps s1 ++ [k]) s1, [EOpen k; EPrep k PmDefer])
            end
        end
    | OConnFail =>
        match last_opt (pend s) with
        | None => (s, [ENoop])
        | Some _ => deliver I__connectionFailed 0 FRefused None (set_pend (removelast (pend s)) s)
        end
    | OPrepOk =>
        match last_opt (preps s) with
        | None => (s, [ENoop])
        | Some k => deliver I__connectionMade k FRefused None (set_preps (removelast (preps s)) s)
        end
    | OPrepFail =>
        match last_opt (preps s) with
        | None => (s, [ENoop])
        | Some k => deliver I__connectionFailed k FPrepFail None
                      (set_tainted true (set_preps (removelast (preps s)) s))
        end
    | ODrop j =>
        match nth_error (conns s) j with
        | None => (s, [ENoop])
        | Some k =>
            let s1 := set_conns (remove_first k (conns s)) s in
            let s2 := if mem k (preps s) then set_tainted true s1 else s1 in
            pre [EDrop k] (deliver I__clientDisconnected 0 FRefused None s2)
        end
    | OAdvance dt =>
        let s1 := set_now (now s + Z.of_N dt)%Z s in
        match timer s1 with
        | Some t => if (t <=? now s1)%Z then deliver I__reconnect 0 FRefused None (set_timer None s1)
                    else (s1, [])
        | None => (s1, [])
        end
    end.

  (** a history; the events are grouped per op *)
  Fixpoint run (s : st) (ops : list op) : st * list (list ev) :=
    match ops with
    | [] => (s, [])
    | o :: r => let '(s1, e) := step s o in let '(s2, es) := run s1 r in (s2, e :: es)
    end.
End Env.

Definition log (r : st * list (list ev)) : list ev := concat (snd r).
