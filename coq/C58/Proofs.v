(** C58: invariants of the ClientService model over all histories. *)
From Coq Require Import List Arith ZArith Bool Lia Permutation.
From C58 Require Import Model.
Import ListNotations.

(** ---- readings of the event log ---- *)
Definition fired_when (e : ev) : list nat :=
  match e with EWhenConn i _ | EWhenFail i _ => [i] | _ => [] end.
Definition fired_stop (e : ev) : list nat := match e with EStopFired i => [i] | _ => [] end.
Definition rejected (e : ev) : list input := match e with ERejected i => [i] | _ => [] end.

(** connections open after a log; [None] as soon as a stopService Deferred fires while one is open *)
Definition conn_step (acc : option (list nat)) (e : ev) : option (list nat) :=
  match acc with
  | None => None
  | Some o =>
      match e with
      | EOpen k => Some (o ++ [k])
      | EDrop k => Some (remove_first k o)
      | EStopFired _ => match o with [] => Some o | _ => None end
      | _ => Some o
      end
  end.
Definition stops_ok (l : list ev) : option (list nat) := fold_left conn_step l (Some []).

Section Proofs.
  Variable policy : nat -> Z.
  Variable prep : list pmode.

  (** consecutive-failure count kept by an observer of the log: reset when a connection is
      accepted, and every consultation of the policy must be for count+1 and be followed by
      a timer of exactly policy(count+1) seconds *)
  Definition retry_step (acc : option (nat * option Z)) (e : ev) : option (nat * option Z) :=
    match acc with
    | None => None
    | Some (c, Some d) => match e with ETimer d' => if Z.eqb d d' then Some (c, None) else None | _ => None end
    | Some (c, None) =>
        match e with
        | EMade _ => Some (0, None)
        | EPolicy n => if Nat.eqb n (S c) then Some (n, Some (policy n)) else None
        | ETimer _ => None
        | _ => Some (c, None)
        end
    end.
  Definition retry_scan (l : list ev) : option (nat * option Z) := fold_left retry_step l (Some (0, None)).

  Notation step := (Model.step policy prep).
  Notation run := (Model.run policy prep).
  Notation deliver1 := (Model.deliver1 policy).
  Notation deliver := (Model.deliver policy).

  (** generic lifting of a step-invariant over (state, log so far) to all histories *)
  Lemma run_invariant (I : st -> list ev -> Prop) :
    (forall s l o, I s l -> I (fst (step s o)) (l ++ snd (step s o))) ->
    forall ops s l, I s l -> I (fst (run s ops)) (l ++ concat (snd (run s ops))).
  Proof.
    intros Hstep ops. induction ops as [|o r IH]; intros s l HI; cbn [Model.run].
    - cbn. now rewrite app_nil_r.
    - destruct (step s o) as [s1 e] eqn:E1. destruct (run s1 r) as [s2 es] eqn:E2.
      cbn [fst snd concat]. rewrite app_assoc.
      specialize (Hstep s l o HI). rewrite E1 in Hstep. cbn [fst snd] in Hstep.
      specialize (IH s1 (l ++ e) Hstep). now rewrite E2 in IH.
  Qed.

  Lemma run_invariant_init (I : st -> list ev -> Prop) :
    I init [] ->
    (forall s l o, I s l -> I (fst (step s o)) (l ++ snd (step s o))) ->
    forall ops, I (fst (run init ops)) (log (run init ops)).
  Proof. intros H0 Hs ops. exact (run_invariant I Hs ops init [] H0). Qed.

  (** ---- shape of the machine / environment state (holds for every history) ---- *)
  Definition shapeA (s : st) : Prop :=
    (ms s = Connecting /\ ((pend s = [cur_att s] /\ preps s = []) \/ (pend s = [] /\ exists k, preps s = [k])))
    \/ (ms s <> Connecting /\ pend s = [] /\ preps s = []).
  Definition shapeT (s : st) : Prop :=
    (timer s <> None -> ms s = Waiting) /\
    (ms s = Waiting -> exists t0, (t0 <= now s)%Z /\ timer s = Some (t0 + policy (failed s))%Z).
  Definition InvShape (s : st) (l : list ev) : Prop :=
    shapeA s /\ shapeT s /\ Forall (fun i => i = I__clientDisconnected) (flat_map rejected l).


  Lemma rej_whenfail : forall f (aw : list waiter), flat_map rejected (map (fun w => EWhenFail (wid w) f) aw) = [].
  Proof. induction aw; cbn; auto. Qed.
  Lemma rej_whenconn : forall k (aw : list waiter), flat_map rejected (map (fun w => EWhenConn (wid w) k) aw) = [].
  Proof. induction aw; cbn; auto. Qed.
  Lemma rej_stops : forall l, flat_map rejected (fire_stops l) = [].
  Proof. induction l; cbn; auto. Qed.

  Ltac break :=
    match goal with
    | |- context [match ?x with _ => _ end] =>
        lazymatch x with
        | context [match _ with _ => _ end] => fail
        | _ => destruct x eqn:?
        end
    end.
  Ltac red_step := unfold Model.step, Model.deliver, Model.deliver1, Model.pre, new_stop, cancel_waiters; cbn.

  Lemma shape_step : forall s l o, InvShape s l -> InvShape (fst (step s o)) (l ++ snd (step s o)).
  Proof.
    intros s l o (HA & HT & HJ). unfold InvShape. rewrite flat_map_app, Forall_app.
    destruct s as [m rn ca cc tm fl aw sw nw ns nw' na nc pd pp cn tt nf].
    unfold shapeA, shapeT in *. cbn [ms pend preps cur_att timer now failed] in *.
    destruct HT as [HT1 HT2].
    assert (HW : (m = Waiting /\ exists t0, (t0 <= nw')%Z /\ tm = Some (t0 + policy fl)%Z) \/ (m <> Waiting /\ tm = None)).
    { destruct tm as [t|].
      - left. split; [apply HT1; discriminate|]. apply HT2, HT1. discriminate.
      - right. split; auto. intros E. destruct (HT2 E) as (? & _ & ?). discriminate. }
    clear HT1 HT2.
    destruct HW as [[-> (t0 & Ht0 & ->)] | [HnW ->]];
    (destruct HA as [[E [[-> ->] | [-> [k ->]]]] | [Hne [-> ->]]]; try discriminate E; try subst m).
    all: destruct o; try destruct m; try congruence; red_step; rewrite ?Nat.eqb_refl; cbn.
    all: repeat (break; cbn in * ).
    all: rewrite ?flat_map_app, ?rej_whenfail, ?rej_whenconn, ?rej_stops; cbn.
    all: try solve [repeat split; intros; try discriminate; try congruence; auto 6; eauto;
                    try (right; repeat split; congruence)].
    all: try solve [repeat split; intros; try discriminate; try congruence; auto;
                    try (right; repeat split; congruence);
                    try (eexists; split; [|reflexivity]; lia)].
    all: try solve [intuition (try discriminate; try congruence; eauto)].
  Qed.

  Definition wok (nf : nat) (w : waiter) : Prop :=
    match wlim w with
    | None => wrem w = None
    | Some r => wat w <= nf /\ nf - wat w < Nat.max r 1 /\ wrem w = Some (r - (nf - wat w))
    end.
  Definition InvW (s : st) (l : list ev) : Prop :=
    Permutation (flat_map fired_when l ++ map wid (awaiting s)) (seq 0 (nwhen s))
    /\ (ms s = Connected \/ ms s = Stopped -> awaiting s = [])
    /\ Forall (wok (nfail s)) (awaiting s).

  Lemma fw_whenfail : forall f (aw : list waiter), flat_map fired_when (map (fun w => EWhenFail (wid w) f) aw) = map wid aw.
  Proof. induction aw; cbn; congruence. Qed.
  Lemma fw_whenconn : forall k (aw : list waiter), flat_map fired_when (map (fun w => EWhenConn (wid w) k) aw) = map wid aw.
  Proof. induction aw; cbn; congruence. Qed.
  Lemma fw_stops : forall l, flat_map fired_when (fire_stops l) = [].
  Proof. induction l; cbn; auto. Qed.


  Lemma perm_K1 : forall (F A : list nat) n,
    Permutation (F ++ A) (seq 0 n) -> Permutation (F ++ A ++ [n]) (seq 0 (S n)).
  Proof. intros F A n H. rewrite seq_S. cbn. rewrite app_assoc. now apply Permutation_app_tail. Qed.
  Lemma perm_K2 : forall (F A : list nat) n,
    Permutation (F ++ A) (seq 0 n) -> Permutation ((F ++ [n]) ++ A) (seq 0 (S n)).
  Proof.
    intros F A n H. rewrite <- app_assoc. eapply perm_trans; [|apply perm_K1; exact H].
    apply Permutation_app_head, Permutation_app_comm.
  Qed.
  Lemma perm_filter : forall (p : waiter -> bool) (A : list waiter),
    Permutation (map wid (filter p A) ++ map wid (filter (fun w => negb (p w)) A)) (map wid A).
  Proof.
    induction A as [|w A IH]; cbn; auto. destruct (p w); cbn.
    - now constructor.
    - eapply perm_trans; [apply Permutation_sym, Permutation_middle|]. now constructor.
  Qed.
  Lemma wid_dec : forall A, map wid (map dec_remaining A) = map wid A.
  Proof. intros. rewrite map_map. reflexivity. Qed.
  Lemma perm_K3 : forall (F : list nat) (A : list waiter) N,
    Permutation (F ++ map wid A) N ->
    Permutation ((F ++ map wid (filter is_ready A)) ++
                 map wid (map dec_remaining (filter (fun w => negb (is_ready w)) A))) N.
  Proof.
    intros F A N H. rewrite wid_dec, <- app_assoc. eapply perm_trans; [|exact H].
    apply Permutation_app_head, perm_filter.
  Qed.
  Lemma wok_new : forall nf n lim, wok nf (mkw n lim lim nf).
  Proof. intros nf n [r|]; unfold wok; cbn; auto. repeat split; auto; try lia. f_equal. lia. Qed.
  Lemma wok_dec : forall nf (A : list waiter),
    Forall (wok nf) A -> Forall (wok (S nf)) (map dec_remaining (filter (fun w => negb (is_ready w)) A)).
  Proof.
    intros nf A H. apply Forall_map. rewrite Forall_forall in *. intros w Hw.
    apply filter_In in Hw. destruct Hw as [Hin Hr]. specialize (H w Hin).
    unfold wok, is_ready, dec_remaining in *. cbn [wlim wat wrem]. destruct (wlim w) as [r|].
    - destruct H as (H1 & H2 & H3). rewrite H3 in *. cbn in Hr.
      destruct (Nat.leb (r - (nf - wat w)) 1) eqn:E; [discriminate|]. apply Nat.leb_gt in E.
      repeat split; try lia. f_equal. lia.
    - now rewrite H.
  Qed.

  Lemma waiters_step : forall s l o, InvW s l -> InvW (fst (step s o)) (l ++ snd (step s o)).
  Proof.
    intros s l o (HP & HD & HL). unfold InvW. rewrite flat_map_app.
    destruct s as [m rn ca cc tm fl aw sw nw ns nw' na nc pd pp cn tt nf].
    cbn [ms awaiting nwhen nfail] in *.
    destruct o; destruct m; unfold Model.step, Model.deliver, Model.deliver1, Model.pre, new_stop, cancel_waiters; cbn -[seq].
    all: repeat (break; cbn -[seq]).
    all: rewrite ?flat_map_app, ?fw_whenfail, ?fw_whenconn, ?fw_stops, ?app_nil_r; cbn [flat_map fired_when app].
    all: rewrite ?app_nil_r, ?map_app; cbn [map wid].
    all: try solve [repeat split; intros; try discriminate; try congruence; auto; intuition congruence].
    all: try solve [split; [apply perm_K1; exact HP | split; [intuition discriminate | apply Forall_app; split; auto; repeat constructor; apply wok_new]]].
    all: try solve [split; [apply perm_K2; exact HP | split; auto]].
    all: try solve [split; [apply perm_K3; exact HP | split; [intuition discriminate | apply wok_dec; exact HL]]].
  Qed.

  (** ---- stopService Deferreds ---- *)
  Definition InvS (s : st) (l : list ev) : Prop :=
    Permutation (flat_map fired_stop l ++ stopw s) (seq 0 (nstop s))
    /\ (stopw s <> [] -> ms s = Disconnecting \/ ms s = Restarting).

  Lemma fs_whenfail : forall f (aw : list waiter), flat_map fired_stop (map (fun w => EWhenFail (wid w) f) aw) = [].
  Proof. induction aw; cbn; congruence. Qed.
  Lemma fs_whenconn : forall k (aw : list waiter), flat_map fired_stop (map (fun w => EWhenConn (wid w) k) aw) = [].
  Proof. induction aw; cbn; congruence. Qed.
  Lemma fs_stops : forall l, flat_map fired_stop (fire_stops l) = l.
  Proof. induction l as [|a l IH]; cbn; [reflexivity|]. unfold fire_stops in IH. now rewrite IH. Qed.

  Lemma stops_step : forall s l o, InvS s l -> InvS (fst (step s o)) (l ++ snd (step s o)).
  Proof.
    intros s l o (HP & HD). unfold InvS. rewrite flat_map_app.
    destruct s as [m rn ca cc tm fl aw sw nw ns nw' na nc pd pp cn tt nf].
    cbn [ms stopw nstop] in *.
    destruct o; destruct m; unfold Model.step, Model.deliver, Model.deliver1, Model.pre, new_stop, cancel_waiters; cbn -[seq].
    all: repeat (break; cbn -[seq]).
    all: rewrite ?flat_map_app, ?fs_whenfail, ?fs_whenconn, ?fs_stops, ?app_nil_r; cbn [flat_map fired_stop app].
    all: rewrite ?app_nil_r.
    all: try solve [repeat split; intros; try discriminate; try congruence; auto; intuition congruence].
    all: try solve [split; [apply perm_K1; exact HP | intuition congruence]].
    all: try solve [split; [apply perm_K2; exact HP | intuition congruence]].
  Qed.
End Proofs.
