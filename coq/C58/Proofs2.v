(** C58: invariants, part 2 (retry policy, untainted histories), the statements over all
    histories, and the witnesses of the findings. *)
From Coq Require Import List Arith ZArith Bool Lia Permutation.
From C58 Require Import Model Proofs.
Import ListNotations.

Section P.
  Variable policy : nat -> Z.
  Variable prep : list pmode.
  Notation step := (Model.step policy prep).
  Notation run := (Model.run policy prep).
  Notation retry_scan := (Proofs.retry_scan policy).
  Notation retry_step := (Proofs.retry_step policy).

  Ltac break :=
    match goal with
    | |- context [match ?x with _ => _ end] =>
        lazymatch x with
        | context [match _ with _ => _ end] => fail
        | _ => destruct x eqn:?
        end
    end.

  (** ---- retry policy ---- *)
  Definition InvR (s : st) (l : list ev) : Prop := retry_scan l = Some (failed s, None).

  Lemma rs_whenfail : forall f c (aw : list waiter),
    fold_left retry_step (map (fun w => EWhenFail (wid w) f) aw) (Some (c, None)) = Some (c, None).
  Proof. induction aw; cbn; auto. Qed.
  Lemma rs_whenconn : forall k c (aw : list waiter),
    fold_left retry_step (map (fun w => EWhenConn (wid w) k) aw) (Some (c, None)) = Some (c, None).
  Proof. induction aw; cbn; auto. Qed.
  Lemma rs_stops : forall c l, fold_left retry_step (fire_stops l) (Some (c, None)) = Some (c, None).
  Proof. induction l; cbn; auto. Qed.

  Lemma retry_step_inv : forall s l o, InvR s l -> InvR (fst (step s o)) (l ++ snd (step s o)).
  Proof.
    intros s l o HR. unfold InvR, Proofs.retry_scan in *. rewrite fold_left_app, HR. clear HR.
    destruct s as [m rn ca cc tm fl aw sw nw ns nw' na nc pd pp cn tt nf].
    cbn [failed] in *.
    destruct o; destruct m; unfold Model.step, Model.deliver, Model.deliver1, Model.pre, new_stop, cancel_waiters; cbn.
    all: repeat (rewrite ?Nat.eqb_refl, ?Z.eqb_refl; break; cbn).
    all: rewrite ?fold_left_app; cbn; rewrite ?Nat.eqb_refl, ?Z.eqb_refl.
    all: repeat (rewrite ?fold_left_app, ?rs_whenfail, ?rs_whenconn, ?rs_stops, ?Nat.eqb_refl, ?Z.eqb_refl; cbn).
    all: try reflexivity.
  Qed.

  (** ---- what holds as long as every prepareConnection succeeded while awaited ---- *)
  Definition cshape (s : st) : Prop :=
    match ms s with
    | Init | Stopped | Waiting => conns s = []
    | Connecting => (preps s = [] /\ conns s = []) \/ (exists k, preps s = [k] /\ conns s = [k])
    | Connected | Disconnecting | Restarting => conns s = [cur_conn s]
    end.
  Definition InvU (s : st) (l : list ev) : Prop :=
    tainted s = false -> stops_ok l = Some (conns s) /\ flat_map rejected l = [] /\ cshape s.

  Lemma cs_whenfail : forall f o (aw : list waiter),
    fold_left conn_step (map (fun w => EWhenFail (wid w) f) aw) (Some o) = Some o.
  Proof. induction aw; cbn; auto. Qed.
  Lemma cs_whenconn : forall k o (aw : list waiter),
    fold_left conn_step (map (fun w => EWhenConn (wid w) k) aw) (Some o) = Some o.
  Proof. induction aw; cbn; auto. Qed.
  Lemma cs_stops : forall l, fold_left conn_step (fire_stops l) (Some []) = Some [].
  Proof. induction l; cbn; auto. Qed.
  Lemma nth_single : forall (a : nat) j k, nth_error [a] j = Some k -> k = a.
  Proof. intros a [|[|j]] k H; cbn in H; congruence. Qed.

  Lemma cs_stops' : forall l, fold_left conn_step (map EStopFired l) (Some []) = Some [].
  Proof. induction l; cbn; auto. Qed.
  Lemma rej_stops' : forall l, flat_map rejected (map EStopFired l) = [].
  Proof. induction l; cbn; auto. Qed.

  Lemma nth_nil : forall j (k : nat), nth_error (@nil nat) j = Some k -> False.
  Proof. intros [|j] k H; discriminate H. Qed.

  Ltac destr_hyps :=
    repeat match goal with
           | H : _ \/ _ |- _ => destruct H
           | H : _ /\ _ |- _ => destruct H
           | H : exists _, _ |- _ => destruct H
           | H : [_] = [_] |- _ => injection H as H
           | H : nth_error [] ?j = Some _ |- _ => exfalso; exact (nth_nil _ _ H)
           | H : nth_error [_] ?j = Some _ |- _ => apply nth_single in H
           end.

  Lemma untainted_step : forall s l o,
    shapeA s -> shapeT policy s -> InvU s l -> InvU (fst (step s o)) (l ++ snd (step s o)).
  Proof.
    intros s l o HA HT HU. unfold InvU, stops_ok in *. rewrite flat_map_app, fold_left_app.
    destruct s as [m rn ca cc tm fl aw sw nw ns nw' na nc pd pp cn tt nf].
    unfold shapeA, shapeT, cshape in *. cbn [ms pend preps cur_att conns tainted cur_conn timer now failed] in *.
    destruct HT as [HT1 HT2].
    assert (HW : (m = Waiting /\ exists t0, tm = Some t0) \/ (m <> Waiting /\ tm = None)).
    { destruct tm as [t|].
      - left. split; [apply HT1; discriminate|]. eauto.
      - right. split; auto. intros E. destruct (HT2 E) as (? & _ & ?). discriminate. }
    clear HT1 HT2.
    destruct HW as [[-> (t0 & ->)] | [HnW ->]];
    (destruct HA as [[E [[-> ->] | [-> [k ->]]]] | [Hne [-> ->]]]; try discriminate E; try subst m).
    all: destruct o; try destruct m; try congruence;
         unfold Model.step, Model.deliver, Model.deliver1, Model.pre, new_stop, cancel_waiters; cbn.
    all: repeat (rewrite ?Nat.eqb_refl; break; cbn).
    all: intros Ht; try discriminate Ht; destruct (HU Ht) as (HS & HJ & HC); rewrite HS, HJ; clear HU HS HJ.
    all: destr_hyps; subst; try discriminate; destr_hyps; subst; try discriminate.
    all: cbn; rewrite ?Nat.eqb_refl; cbn.
    all: repeat (rewrite ?rej_whenfail, ?rej_whenconn, ?rej_stops', ?flat_map_app, ?fold_left_app, ?cs_whenfail, ?cs_whenconn, ?cs_stops', ?app_nil_r; cbn).
    all: try solve [repeat split; auto; try congruence; eauto].
    all: try (rewrite Nat.eqb_refl in *; discriminate).
  Qed.

  (** ---- Service.running and the machine agree: a service that is not running is in Init,
      Stopped or Disconnecting -- never connecting, waiting to retry, connected or restarting ---- *)
  Definition idle_state (m : state) : bool :=
    match m with Init | Stopped | Disconnecting => true | _ => false end.
  Definition InvRun (s : st) : Prop := running s = negb (idle_state (ms s)).

  Lemma running_step : forall s o, InvRun s -> InvRun (fst (step s o)).
  Proof.
    intros s o HR. unfold InvRun in *.
    destruct s as [m rn ca cc tm fl aw sw nw ns nw' na nc pd pp cn tt nf]. cbn [running ms] in *.
    destruct o; destruct m; cbn in HR; subst rn;
      unfold Model.step, Model.deliver, Model.deliver1, Model.pre, new_stop, cancel_waiters; cbn.
    all: repeat (break; cbn).
    all: try reflexivity.
  Qed.

  Lemma run_running : forall ops s, InvRun s -> InvRun (fst (run s ops)).
  Proof.
    induction ops as [|o r IH]; intros s H; cbn [Model.run]; auto.
    pose proof (running_step s o H) as H1. destruct (step s o) as [s1 e]. cbn [fst] in H1.
    specialize (IH s1 H1). destruct (run s1 r) as [s2 es]. exact IH.
  Qed.

  (** ---- everything together, for every history ---- *)
  Definition Inv (s : st) (l : list ev) : Prop :=
    InvShape policy s l /\ InvW s l /\ InvS s l /\ InvR s l /\ InvU s l.

  Lemma inv_init : Inv init [].
  Proof.
    unfold Inv. split; [|split; [|split; [|split]]].
    - unfold InvShape, shapeA, shapeT; cbn. split; [|split].
      + right. repeat split; auto. discriminate.
      + split; [intros H; now elim H | discriminate].
      + apply Forall_nil.
    - unfold InvW; cbn. split; [apply perm_nil | split; [reflexivity | apply Forall_nil]].
    - unfold InvS; cbn. split; [apply perm_nil | intros H; now elim H].
    - reflexivity.
    - unfold InvU, cshape; cbn. auto.
  Qed.

  Lemma inv_step : forall s l o, Inv s l -> Inv (fst (step s o)) (l ++ snd (step s o)).
  Proof.
    intros s l o (H1 & H2 & H3 & H4 & H5). unfold Inv. split; [|split; [|split; [|split]]].
    - exact (shape_step policy prep s l o H1).
    - exact (waiters_step policy prep s l o H2).
    - exact (stops_step policy prep s l o H3).
    - apply retry_step_inv; auto.
    - destruct H1 as (HA & HT & _). apply untainted_step; auto.
  Qed.

  Lemma reach : forall ops, Inv (fst (run init ops)) (log (run init ops)).
  Proof. exact (run_invariant_init policy prep Inv inv_init inv_step). Qed.

  Lemma NoDup_app_l : forall (a b : list nat), NoDup (a ++ b) -> NoDup a.
  Proof.
    induction a as [|x a IH]; intros b H; [constructor|]. cbn in H. inversion H; subst.
    constructor; [|eauto]. intros Hin. apply H2. apply in_or_app. now left.
  Qed.

  (** the statements *)
  Lemma one_attempt : forall ops,
    let s := fst (run init ops) in length (pend s) + length (preps s) <= 1.
  Proof.
    intros ops s. destruct (reach ops) as ((HA & _) & _). fold s in HA.
    destruct HA as [[_ [[-> ->] | [-> [k ->]]]] | [_ [-> ->]]]; cbn; lia.
  Qed.

  Lemma one_connection_or_attempt : forall ops,
    let s := fst (run init ops) in tainted s = false -> length (pend s) + length (conns s) <= 1.
  Proof.
    intros ops s Ht. destruct (reach ops) as ((HA & _) & _ & _ & _ & HU). fold s in HA, HU.
    destruct (HU Ht) as (_ & _ & HC). unfold cshape in HC.
    destruct HA as [[E [[Hp Hq] | [Hp [k Hq]]]] | [Hne [Hp Hq]]]; rewrite Hp.
    - rewrite E, Hq in HC. destruct HC as [[_ ->] | (k & Hk & _)]; [cbn; lia | discriminate].
    - rewrite E, Hq in HC. destruct HC as [[Hk _] | (k' & _ & ->)]; [discriminate | cbn; lia].
    - destruct (ms s); try congruence; rewrite HC; cbn; lia.
  Qed.

  Lemma nothing_rejected : forall ops,
    tainted (fst (run init ops)) = false -> flat_map rejected (log (run init ops)) = [].
  Proof. intros ops Ht. destruct (reach ops) as (_ & _ & _ & _ & HU). now destruct (HU Ht) as (_ & ? & _). Qed.

  Lemma only_disconnect_rejected : forall ops,
    Forall (fun i => i = I__clientDisconnected) (flat_map rejected (log (run init ops))).
  Proof. intros ops. now destruct (reach ops) as ((_ & _ & ?) & _). Qed.

  Lemma when_once : forall ops,
    let r := run init ops in
    Permutation (flat_map fired_when (log r) ++ map wid (awaiting (fst r))) (seq 0 (nwhen (fst r)))
    /\ NoDup (flat_map fired_when (log r)).
  Proof.
    intros ops r. destruct (reach ops) as (_ & (HP & _) & _). fold r in HP. split; auto.
    eapply NoDup_app_l, Permutation_NoDup; [apply Permutation_sym, HP | apply seq_NoDup].
  Qed.

  Lemma when_resolved : forall ops,
    let s := fst (run init ops) in ms s = Connected \/ ms s = Stopped -> awaiting s = [].
  Proof. intros ops s. now destruct (reach ops) as (_ & (_ & ? & _) & _). Qed.

  Lemma when_limit : forall ops,
    let s := fst (run init ops) in
    forall w, In w (awaiting s) ->
      match wlim w with
      | None => wrem w = None
      | Some r => wat w <= nfail s /\ nfail s - wat w < Nat.max r 1 /\ wrem w = Some (r - (nfail s - wat w))
      end.
  Proof.
    intros ops s w Hin. destruct (reach ops) as (_ & (_ & _ & HL) & _). fold s in HL.
    rewrite Forall_forall in HL. exact (HL w Hin).
  Qed.

  Lemma stop_once : forall ops,
    let r := run init ops in
    Permutation (flat_map fired_stop (log r) ++ stopw (fst r)) (seq 0 (nstop (fst r)))
    /\ NoDup (flat_map fired_stop (log r))
    /\ (stopw (fst r) <> [] -> ms (fst r) = Disconnecting \/ ms (fst r) = Restarting).
  Proof.
    intros ops r. destruct (reach ops) as (_ & _ & (HP & HD) & _). fold r in HP, HD. repeat split; auto.
    eapply NoDup_app_l, Permutation_NoDup; [apply Permutation_sym, HP | apply seq_NoDup].
  Qed.

  Lemma stop_closed : forall ops,
    let r := run init ops in tainted (fst r) = false -> stops_ok (log r) = Some (conns (fst r)).
  Proof. intros ops r Ht. destruct (reach ops) as (_ & _ & _ & _ & HU). now destruct (HU Ht). Qed.

  Lemma retry_policy : forall ops,
    let r := run init ops in retry_scan (log r) = Some (failed (fst r), None).
  Proof. intros ops r. now destruct (reach ops) as (_ & _ & _ & ? & _). Qed.

  Lemma retry_deadline : forall ops,
    let s := fst (run init ops) in
    ms s = Waiting ->
    exists t0, (t0 <= now s)%Z /\ timer s = Some (t0 + policy (failed s))%Z /\
      forall dt, ms (fst (step s (OAdvance dt))) =
                 if (t0 + policy (failed s) <=? now s + Z.of_N dt)%Z then Connecting else Waiting.
  Proof.
    intros ops s Hw. destruct (reach ops) as ((_ & (_ & HT) & _) & _). fold s in HT.
    destruct (HT Hw) as (t0 & Hle & Ht). exists t0. repeat split; auto. intros dt.
    destruct s as [m rn ca cc tm fl aw sw nw ns nw' na nc pd pp cn tt nf]. cbn in *. subst.
    unfold Model.step, Model.deliver, Model.deliver1; cbn.
    destruct (t0 + policy fl <=? nw' + Z.of_N dt)%Z; reflexivity.
  Qed.

  (** a lost connection / failed attempt always goes through the retry delay (no invariant needed) *)
  Lemma loss_schedules_retry : forall s,
    (ms s = Connected -> forall j k, nth_error (conns s) j = Some k ->
       let s' := fst (step s (ODrop j)) in
       ms s' = Waiting /\ timer s' = Some (now s + policy (S (failed s)))%Z /\ pend s' = pend s)
    /\ (ms s = Connecting -> pend s <> [] ->
       let s' := fst (step s OConnFail) in
       ms s' = Waiting /\ timer s' = Some (now s + policy (S (failed s)))%Z /\ pend s' = removelast (pend s)).
  Proof.
    intros s. destruct s as [m rn ca cc tm fl aw sw nw ns nw' na nc pd pp cn tt nf]. cbn [ms conns pend now failed].
    split.
    - intros -> j k Hn. unfold Model.step. cbn [conns]. rewrite Hn. cbn [preps].
      destruct (mem k pp); unfold Model.pre, Model.deliver, Model.deliver1; cbn; repeat split; reflexivity.
    - intros -> Hp. unfold Model.step. cbn [pend]. destruct (last_opt pd) eqn:E.
      + unfold Model.deliver, Model.deliver1. cbn. repeat split; reflexivity.
      + exfalso. destruct pd as [|x r]; [congruence|]. clear Hp. revert x E.
        induction r as [|y r IH]; intros x E; cbn in E; [discriminate | exact (IH y E)].
  Qed.

  Lemma stopped_is_idle : forall ops,
    let s := fst (run init ops) in
    running s = false ->
    (ms s = Init \/ ms s = Stopped \/ ms s = Disconnecting)
    /\ pend s = [] /\ preps s = [] /\ timer s = None
    /\ (tainted s = false -> ms s <> Disconnecting -> conns s = []).
  Proof.
    intros ops s Hr. assert (HR : InvRun s) by (apply run_running; reflexivity).
    destruct (reach ops) as ((HA & (HT1 & _) & _) & _ & _ & _ & HU). fold s in HA, HT1, HU.
    unfold InvRun in HR. rewrite Hr in HR.
    assert (Hm : ms s = Init \/ ms s = Stopped \/ ms s = Disconnecting)
      by (destruct (ms s); cbn in HR; try discriminate; auto).
    split; [exact Hm|].
    assert (Hnc : ms s <> Connecting) by (destruct Hm as [->|[->| ->]]; discriminate).
    assert (Hnw : ms s <> Waiting) by (destruct Hm as [->|[->| ->]]; discriminate).
    destruct HA as [[E _] | [_ [Hp Hq]]]; [congruence|]. repeat split; auto.
    - destruct (timer s); auto. exfalso. apply Hnw, HT1. discriminate.
    - intros Ht Hd. destruct (HU Ht) as (_ & _ & HC). unfold cshape in HC.
      destruct Hm as [E|[E|E]]; rewrite E in HC; auto. congruence.
  Qed.
End P.

(** ---- the findings: witnesses ---- *)
Definition w_policy (n : nat) : Z := 1%Z.

Lemma two_connections : exists ops,
  length (conns (fst (run w_policy [PmDefer] init ops))) = 2.
Proof. exists [OStart; OConnOk; OStop; OStart; OConnOk]. reflexivity. Qed.

Lemma stop_in_prepare :
  (exists ops, let r := run w_policy [PmDefer] init ops in
     stops_ok (log r) = None /\ conns (fst r) = [0] /\ ms (fst r) = Stopped)
  /\ (exists ops, In (ERejected I__clientDisconnected) (log (run w_policy [PmDefer] init ops))).
Proof.
  split.
  - exists [OStart; OConnOk; OStop]. repeat split; reflexivity.
  - exists [OStart; OConnOk; OStop; ODrop 0]. cbn. intuition.
Qed.

Lemma prepare_failure_leaks :
  (exists ops, let s := fst (run w_policy [PmRaise; PmOk] init ops) in
     ms s = Connected /\ conns s = [0; 1])
  /\ (exists ops, let s := fst (run w_policy [PmDefer] init ops) in ms s = Connecting /\ pend s = [1] /\ conns s = [0]).
Proof.
  split.
  - exists [OStart; OConnOk; OAdvance 1; OConnOk]. split; reflexivity.
  - exists [OStart; OConnOk; OPrepFail; OAdvance 1]. repeat split; reflexivity.
Qed.

Lemma drop_in_prepare : exists ops,
  let r := run w_policy [PmDefer] init ops in
  In (ERejected I__clientDisconnected) (log r) /\ ms (fst r) = Connected /\ conns (fst r) = [].
Proof. exists [OStart; OConnOk; ODrop 0; OPrepOk]. cbn. intuition. Qed.

(** a non-trivial history meets the hypothesis of the partial theorems *)
Example untainted_history :
  let r := run w_policy [PmDefer] init
             [OStart; OWhen (Some 2); OConnFail; OAdvance 1; OConnOk; OPrepOk; OStop; OStart; ODrop 0; OConnOk; OPrepOk] in
  tainted (fst r) = false /\ ms (fst r) = Connected /\ conns (fst r) = [1] /\ 10 <= length (log r).
Proof. vm_compute. repeat split. repeat constructor. Qed.
