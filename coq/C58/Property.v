(** C58 property theorems: for every retry policy, every prepareConnection behaviour and every
    history of start / stop / whenConnected / connect ok|fail / prepare ok|fail / drop / advance
    (no bound on its length).  [run policy prep init ops] = (final state, events per op);
    [log] flattens the events.  The transition table used by [run] is Gen.v, regenerated from
    makeMachine on every run. *)
From Coq Require Import List Arith ZArith Bool Permutation.
From C58 Require Import Model Proofs Proofs2.
Import ListNotations.

(** never more than one connection attempt in progress (a connect() Deferred or a
    prepareConnection Deferred still unfired) *)
Theorem at_most_one_attempt : forall policy prep ops,
  let s := fst (run policy prep init ops) in length (pend s) + length (preps s) <= 1.
Proof. exact one_attempt. Qed.
Print Assumptions at_most_one_attempt.

(** FULL STATEMENT (false of the code as it is, see the _refuted theorems):
      forall policy prep ops, let s := ... in length (pend s) + length (conns s) <= 1.
    Proved here: as long as no prepareConnection call failed, was cancelled by stopService or
    lost its connection while the machine waited for it ([tainted = false]). *)
Theorem at_most_one_connection_or_attempt_partial : forall policy prep ops,
  let s := fst (run policy prep init ops) in
  tainted s = false -> length (pend s) + length (conns s) <= 1.
Proof. exact one_connection_or_attempt. Qed.
Print Assumptions at_most_one_connection_or_attempt_partial.

Theorem at_most_one_connection_or_attempt_refuted : exists policy prep ops,
  length (conns (fst (run policy prep init ops))) = 2.
Proof. exists w_policy, [PmDefer]. exact two_connections. Qed.
Print Assumptions at_most_one_connection_or_attempt_refuted.

(** FULL STATEMENT (false): forall policy prep ops, flat_map rejected (log (run ...)) = []. *)
Theorem no_event_rejected_partial : forall policy prep ops,
  tainted (fst (run policy prep init ops)) = false ->
  flat_map rejected (log (run policy prep init ops)) = [].
Proof. exact nothing_rejected. Qed.
Print Assumptions no_event_rejected_partial.

(** ... and in every history whatsoever the only input automat ever refuses is the
    _clientDisconnected of a connection the machine no longer tracks *)
Theorem only_stale_disconnect_is_ever_rejected : forall policy prep ops,
  Forall (fun i => i = I__clientDisconnected) (flat_map rejected (log (run policy prep init ops))).
Proof. exact only_disconnect_rejected. Qed.
Print Assumptions only_stale_disconnect_is_ever_rejected.

(** F22: stopService() while prepareConnection is pending: the stop Deferred fires with the
    connection open and the machine Stopped; the connection's later loss is rejected *)
Theorem stop_during_prepare_refuted :
  (exists ops, let r := run w_policy [PmDefer] init ops in
     stops_ok (log r) = None /\ conns (fst r) = [0] /\ ms (fst r) = Stopped)
  /\ (exists ops, In (ERejected I__clientDisconnected) (log (run w_policy [PmDefer] init ops))).
Proof. exact stop_in_prepare. Qed.
Print Assumptions stop_during_prepare_refuted.

(** siblings: a rejected connection is left open (second connection beside it); a connection
    lost while prepareConnection is pending is rejected and later handed out as connected *)
Theorem prepare_failure_leaves_connection_open_refuted :
  (exists ops, let s := fst (run w_policy [PmRaise; PmOk] init ops) in
     ms s = Connected /\ conns s = [0; 1])
  /\ (exists ops, let s := fst (run w_policy [PmDefer] init ops) in
     ms s = Connecting /\ pend s = [1] /\ conns s = [0]).
Proof. exact prepare_failure_leaks. Qed.
Print Assumptions prepare_failure_leaves_connection_open_refuted.

Theorem drop_during_prepare_refuted : exists ops,
  let r := run w_policy [PmDefer] init ops in
  In (ERejected I__clientDisconnected) (log r) /\ ms (fst r) = Connected /\ conns (fst r) = [].
Proof. exact drop_in_prepare. Qed.
Print Assumptions drop_during_prepare_refuted.

(** whenConnected Deferreds: fired ids ++ still-waiting ids is a permutation of all ids handed
    out (none lost, none invented), no id fires twice *)
Theorem whenConnected_fires_at_most_once_none_lost : forall policy prep ops,
  let r := run policy prep init ops in
  Permutation (flat_map fired_when (log r) ++ map wid (awaiting (fst r))) (seq 0 (nwhen (fst r)))
  /\ NoDup (flat_map fired_when (log r)).
Proof. exact when_once. Qed.
Print Assumptions whenConnected_fires_at_most_once_none_lost.

(** ... none is left waiting once a connection is established or the service has stopped *)
Theorem whenConnected_resolved_by_connection_or_stop : forall policy prep ops,
  let s := fst (run policy prep init ops) in ms s = Connected \/ ms s = Stopped -> awaiting s = [].
Proof. exact when_resolved. Qed.
Print Assumptions whenConnected_resolved_by_connection_or_stop.

(** ... and one requested with failAfterFailures = r is still waiting only while fewer than
    max(r,1) connection failures happened since it was requested ([nfail] counts the
    _connectionFailed inputs handled while connecting, [wat] its value at the request) *)
Theorem whenConnected_fires_by_failure_limit : forall policy prep ops,
  let s := fst (run policy prep init ops) in
  forall w, In w (awaiting s) ->
    match wlim w with
    | None => wrem w = None
    | Some r => wat w <= nfail s /\ nfail s - wat w < Nat.max r 1 /\ wrem w = Some (r - (nfail s - wat w))
    end.
Proof. exact when_limit. Qed.
Print Assumptions whenConnected_fires_by_failure_limit.

(** stopService Deferreds: at most once, none lost, and unfired ones exist only while the
    machine is Disconnecting / Restarting *)
Theorem stopService_fires_at_most_once_none_lost : forall policy prep ops,
  let r := run policy prep init ops in
  Permutation (flat_map fired_stop (log r) ++ stopw (fst r)) (seq 0 (nstop (fst r)))
  /\ NoDup (flat_map fired_stop (log r))
  /\ (stopw (fst r) <> [] -> ms (fst r) = Disconnecting \/ ms (fst r) = Restarting).
Proof. exact stop_once. Qed.
Print Assumptions stopService_fires_at_most_once_none_lost.

(** FULL STATEMENT (false, F22): forall policy prep ops, stops_ok (log (run ...)) <> None.
    [stops_ok] replays the log and becomes None if a stop Deferred fires while a connection is open *)
Theorem stopService_fires_once_connection_closed_partial : forall policy prep ops,
  let r := run policy prep init ops in
  tainted (fst r) = false -> stops_ok (log r) = Some (conns (fst r)).
Proof. exact stop_closed. Qed.
Print Assumptions stopService_fires_once_connection_closed_partial.

(** every consultation of the retry policy is for (consecutive failures so far)+1, is followed
    by a timer of exactly policy(that count) seconds, and the count is reset by a connection *)
Theorem retry_delay_is_policy_of_failure_count : forall policy prep ops,
  let r := run policy prep init ops in retry_scan policy (log r) = Some (failed (fst r), None).
Proof. exact retry_policy. Qed.
Print Assumptions retry_delay_is_policy_of_failure_count.

(** while waiting to retry, the pending call is due policy(failures) after it was scheduled and
    the next clock advance reconnects exactly if it reaches that time *)
Theorem retry_fires_exactly_at_deadline : forall policy prep ops,
  let s := fst (run policy prep init ops) in
  ms s = Waiting ->
  exists t0, (t0 <= now s)%Z /\ timer s = Some (t0 + policy (failed s))%Z /\
    forall dt, ms (fst (step policy prep s (OAdvance dt))) =
               if (t0 + policy (failed s) <=? now s + Z.of_N dt)%Z then Connecting else Waiting.
Proof. exact retry_deadline. Qed.
Print Assumptions retry_fires_exactly_at_deadline.

(** a lost established connection and a failed attempt always wait for the retry delay: the
    machine goes to Waiting with a call due policy(failures+1) from now and starts no attempt *)
Theorem lost_or_failed_connection_waits_for_retry_delay : forall policy prep s,
  (ms s = Connected -> forall j k, nth_error (conns s) j = Some k ->
     let s' := fst (step policy prep s (ODrop j)) in
     ms s' = Waiting /\ timer s' = Some (now s + policy (S (failed s)))%Z /\ pend s' = pend s)
  /\ (ms s = Connecting -> pend s <> [] ->
     let s' := fst (step policy prep s OConnFail) in
     ms s' = Waiting /\ timer s' = Some (now s + policy (S (failed s)))%Z /\ pend s' = removelast (pend s)).
Proof. exact loss_schedules_retry. Qed.
Print Assumptions lost_or_failed_connection_waits_for_retry_delay.

(** a service that is not running (stopService was the last of start/stop) is in Init, Stopped or
    Disconnecting: it has no attempt in progress and no retry pending, and unless it is still
    waiting for its connection to close (Disconnecting) no connection is open -- in particular a
    stop issued while a restart is pending cancels the restart *)
Theorem stopped_service_makes_no_attempt : forall policy prep ops,
  let s := fst (run policy prep init ops) in
  running s = false ->
  (ms s = Init \/ ms s = Stopped \/ ms s = Disconnecting)
  /\ pend s = [] /\ preps s = [] /\ timer s = None
  /\ (tainted s = false -> ms s <> Disconnecting -> conns s = []).
Proof. exact stopped_is_idle. Qed.
Print Assumptions stopped_service_makes_no_attempt.
