(** C07 property theorems: for every size/backlog limit and every history of put / get / cancel. *)
From Coq Require Import List Arith ZArith Bool.
From C07 Require Import Model Proofs.
Import ListNotations.

(** objects delivered so far (in delivery order) followed by the objects still queued are exactly the
    objects accepted by put, in put order: delivered once, in order, none lost, none invented *)
Theorem each_put_delivered_once_in_order : forall size backlog ops,
  let r := run size backlog init ops in
  map snd (deliveries (snd r)) ++ pending (fst r) = accepted_puts (snd r).
Proof. exact reach_fifo. Qed.
Print Assumptions each_put_delivered_once_in_order.

(** the gets still waiting are exactly the gets that were made to wait and have neither received an
    object nor been cancelled, oldest first ... *)
Theorem waiting_gets_are_uncancelled_oldest_first : forall size backlog ops,
  let r := run size backlog init ops in
  waiting (fst r) = filter (alive (flat_map gone (snd r))) (flat_map waited (snd r))
  /\ NoDup (flat_map waited (snd r)).
Proof. exact reach_wait. Qed.
Print Assumptions waiting_gets_are_uncancelled_oldest_first.

(** ... and a put that finds a waiting get hands its object to the head of that list *)
Theorem delivered_to_oldest_uncancelled_get : forall size backlog s x i y,
  snd (step size backlog s (Put x)) = EDelivered i y -> y = x /\ exists w, waiting s = i :: w.
Proof. exact put_delivers_to_oldest. Qed.
Print Assumptions delivered_to_oldest_uncancelled_get.

Theorem never_both_nonempty : forall size backlog ops,
  let s := fst (run size backlog init ops) in waiting s = [] \/ pending s = [].
Proof. exact reach_excl. Qed.
Print Assumptions never_both_nonempty.

Theorem overflow_exactly_when_full_and_no_get_pending : forall size backlog s x,
  (exists y, snd (step size backlog s (Put x)) = EOverflow y) <->
  (waiting s = [] /\ exists k, size = Some k /\ k <= length (pending s)).
Proof. exact overflow_iff. Qed.
Print Assumptions overflow_exactly_when_full_and_no_get_pending.

Theorem underflow_exactly_when_empty_and_backlog_reached : forall size backlog s,
  snd (step size backlog s Get) = EUnderflow <->
  (pending s = [] /\ exists k, backlog = Some k /\ k <= length (waiting s)).
Proof. exact underflow_iff. Qed.
Print Assumptions underflow_exactly_when_empty_and_backlog_reached.

Theorem get_is_immediate_exactly_when_something_is_queued : forall size backlog s,
  (exists i x, snd (step size backlog s Get) = EImmediate i x) <-> pending s <> [].
Proof. exact get_immediate_iff. Qed.
Print Assumptions get_is_immediate_exactly_when_something_is_queued.

(** operations issued from inside a get's callback or errback (re-entrant use of the queue) behave exactly
    as if they had been issued right after the operation that fired that get, depth first: the re-entrant
    run equals the plain run of the flat list of operations it executed -- so every theorem above holds for
    re-entrant histories too *)
Theorem reentrant_history_is_its_flattening : forall size backlog react fuel s ops s' es done,
  run_re size backlog react fuel s ops = (s', es, done) -> run size backlog s done = (s', es).
Proof. exact run_re_flat. Qed.
Print Assumptions reentrant_history_is_its_flattening.
