(** C07: DeferredQueue (src/twisted/internet/defer.py) as a step function over
    (waiting gets, pending objects), with the event each API call produces.
    Get ids number the Deferreds handed out by successful [get] calls, in call order. *)
From Coq Require Import List Arith ZArith Bool.
Import ListNotations.

Inductive op := Put (x : Z) | Get | Cancel (i : nat).

Inductive ev :=
| EDelivered (i : nat) (x : Z)   (* put: the oldest waiting get's Deferred fired with x *)
| EQueued (x : Z)                (* put: appended to pending *)
| EOverflow (x : Z)              (* put: QueueOverflow *)
| EImmediate (i : nat) (x : Z)   (* get: already-fired Deferred *)
| EWaiting (i : nat)             (* get: unfired Deferred *)
| EUnderflow                     (* get: QueueUnderflow *)
| ECancelled (i : nat)           (* cancel of a waiting get: fails with CancelledError *)
| ENoop (i : nat).               (* cancel of a get that already has its result / was cancelled *)

Record st := mk { waiting : list nat; pending : list Z; next : nat }.

Definition below (lim : option nat) (n : nat) : bool :=
  match lim with None => true | Some k => Nat.ltb n k end.

Fixpoint remove_first (i : nat) (l : list nat) : list nat :=
  match l with
  | [] => []
  | j :: r => if Nat.eqb i j then r else j :: remove_first i r
  end.

Definition mem (i : nat) (l : list nat) : bool := existsb (Nat.eqb i) l.

Section WithLimits.
  Variables (size backlog : option nat).

  Definition step (s : st) (o : op) : st * ev :=
    match o with
    | Put x =>
        match waiting s with
        | i :: w => (mk w (pending s) (next s), EDelivered i x)
        | [] => if below size (length (pending s))
                then (mk [] (pending s ++ [x]) (next s), EQueued x)
                else (s, EOverflow x)
        end
    | Get =>
        match pending s with
        | x :: p => (mk (waiting s) p (S (next s)), EImmediate (next s) x)
        | [] => if below backlog (length (waiting s))
                then (mk (waiting s ++ [next s]) [] (S (next s)), EWaiting (next s))
                else (s, EUnderflow)
        end
    | Cancel i =>
        if mem i (waiting s)
        then (mk (remove_first i (waiting s)) (pending s) (next s), ECancelled i)
        else (s, ENoop i)
    end.

  Fixpoint run (s : st) (ops : list op) : st * list ev :=
    match ops with
    | [] => (s, [])
    | o :: r => let '(s1, e) := step s o in let '(s2, es) := run s1 r in (s2, e :: es)
    end.
End WithLimits.

Definition init : st := mk [] [] 0.

(** ---- ghost readings of the event log (what the property talks about) ---- *)
Definition accepted (e : ev) : list Z :=
  match e with EDelivered _ x | EQueued x => [x] | _ => [] end.
Definition delivered (e : ev) : list (nat * Z) :=
  match e with EDelivered i x | EImmediate i x => [(i, x)] | _ => [] end.
Definition waited (e : ev) : list nat := match e with EWaiting i => [i] | _ => [] end.
Definition gone (e : ev) : list nat :=
  match e with EDelivered i _ | ECancelled i => [i] | _ => [] end.

Definition accepted_puts (l : list ev) : list Z := flat_map accepted l.
Definition deliveries (l : list ev) : list (nat * Z) := flat_map delivered l.


(** ---- re-entrant use: operations issued from inside a get's callback / errback ----
    [react i] = the queue operations that the application's callback on get number [i] performs when that
    get's Deferred fires (with an object, at once or later) or fails (cancelled).  In the code nothing
    happens in [put] / [_cancelGet]+errback after the Deferred has been fired, so these operations run
    exactly as if they had been issued right after the operation that fired the Deferred, depth first.
    [run_re] executes them that way and also returns the flat list of operations it executed. *)
Definition reaction_of (react : nat -> list op) (e : ev) : list op :=
  match e with
  | EDelivered i _ | EImmediate i _ | ECancelled i => react i
  | _ => []
  end.

Section ReEntrant.
  Variables (size backlog : option nat) (react : nat -> list op).

  Fixpoint run_re (fuel : nat) (s : st) (ops : list op) : st * list ev * list op :=
    match fuel with
    | O => (s, [], [])
    | S f =>
        match ops with
        | [] => (s, [], [])
        | o :: r =>
            let '(s1, e) := step size backlog s o in
            let '(s2, es, done) := run_re f s1 (reaction_of react e ++ r) in
            (s2, e :: es, o :: done)
        end
    end.
End ReEntrant.
