(** C07: invariants of the DeferredQueue model over every history. *)
From Coq Require Import List Arith ZArith Bool Lia.
From C07 Require Import Model.
Import ListNotations.

Section Proofs.
  Variables (size backlog : option nat).
  Notation step := (step size backlog).
  Notation run := (run size backlog).

  (** never both a waiting get and a pending object *)
  Definition inv_excl (s : st) : Prop := waiting s = [] \/ pending s = [].

  Lemma step_excl s o : inv_excl s -> inv_excl (fst (step s o)).
  Proof.
    unfold inv_excl, step. intros [Hw | Hp]; destruct o as [x | | i]; cbn.
    - rewrite Hw. destruct (below size _); cbn; auto.
    - rewrite Hw. destruct (pending s); cbn; auto. destruct (below backlog _); cbn; auto.
    - rewrite Hw. cbn. auto.
    - destruct (waiting s); cbn; auto. destruct (below size _); cbn; auto.
    - rewrite Hp. destruct (below backlog _); cbn; auto.
    - destruct (mem i (waiting s)); cbn; auto.
  Qed.

  Lemma run_cons s o r :
    run s (o :: r) = (fst (run (fst (step s o)) r), snd (step s o) :: snd (run (fst (step s o)) r)).
  Proof. cbn [Model.run]. destruct (step s o) as [s1 e]. cbn [fst snd]. destruct (run s1 r) as [s2 es]. reflexivity. Qed.

  Lemma run_excl ops : forall s, inv_excl s -> inv_excl (fst (run s ops)).
  Proof.
    induction ops as [|o r IH]; intros s H; [exact H|].
    rewrite run_cons. cbn [fst]. apply IH, step_excl, H.
  Qed.

  (** overflow / underflow exactly when the statement says *)
  Lemma overflow_iff s x :
    (exists y, snd (step s (Put x)) = EOverflow y) <->
    (waiting s = [] /\ exists k, size = Some k /\ k <= length (pending s)).
  Proof.
    unfold step. destruct (waiting s) as [|i w]; cbn.
    - unfold below. destruct size as [k|].
      + destruct (Nat.ltb_spec (length (pending s)) k); cbn; split.
        * intros [y Hy]; discriminate.
        * intros [_ [k' [E Hk]]]. inversion E; subst. lia.
        * intros _. split; [reflexivity|]. exists k. split; [reflexivity|lia].
        * intros _. exists x. reflexivity.
      + cbn. split; [intros [y Hy]; discriminate | intros [_ [k [E _]]]; discriminate].
    - split; [intros [y Hy]; discriminate | intros [E _]; discriminate].
  Qed.

  Lemma underflow_iff s :
    snd (step s Get) = EUnderflow <->
    (pending s = [] /\ exists k, backlog = Some k /\ k <= length (waiting s)).
  Proof.
    unfold step. destruct (pending s) as [|x p]; cbn.
    - unfold below. destruct backlog as [k|].
      + destruct (Nat.ltb_spec (length (waiting s)) k); cbn; split.
        * intros Hy; discriminate.
        * intros [_ [k' [E Hk]]]. inversion E; subst. lia.
        * intros _. split; [reflexivity|]. exists k. split; [reflexivity|lia].
        * intros _. reflexivity.
      + cbn. split; [intros Hy; discriminate | intros [_ [k [E _]]]; discriminate].
    - split; [intros Hy; discriminate | intros [E _]; discriminate].
  Qed.

  (** FIFO, exactly once, nothing lost:
      (objects delivered so far, in delivery order) ++ (objects still queued) = (objects accepted, in put order) *)
  Lemma step_fifo s o :
    inv_excl s ->
    map snd (delivered (snd (step s o))) ++ pending (fst (step s o)) = pending s ++ accepted (snd (step s o)).
  Proof.
    intros Hex. unfold step. destruct o as [x | | i].
    - destruct (waiting s) as [|j w] eqn:Ew.
      + destruct (below size _); cbn; rewrite ?app_nil_r; reflexivity.
      + destruct Hex as [Hw | Hp]; [congruence|]. cbn. rewrite Hp. reflexivity.
    - destruct (pending s) as [|x p] eqn:Ep.
      + destruct (below backlog _); cbn; rewrite ?Ep; reflexivity.
      + cbn. rewrite app_nil_r. reflexivity.
    - destruct (mem i (waiting s)); cbn; rewrite app_nil_r; reflexivity.
  Qed.

  Lemma run_fifo ops : forall s,
    inv_excl s ->
    map snd (deliveries (snd (run s ops))) ++ pending (fst (run s ops))
    = pending s ++ accepted_puts (snd (run s ops)).
  Proof.
    induction ops as [|o r IH]; intros s Hex.
    - cbn. rewrite app_nil_r. reflexivity.
    - rewrite run_cons. cbn [fst snd]. unfold deliveries, accepted_puts in *. cbn [flat_map].
      rewrite map_app, <- app_assoc. rewrite (IH _ (step_excl s o Hex)).
      rewrite app_assoc. rewrite (step_fifo s o Hex). rewrite <- app_assoc. reflexivity.
  Qed.

  (** waiting gets are exactly the issued-and-waiting ids that neither received an object nor were cancelled,
      in issue order; a put delivers to the head, i.e. to the oldest of them *)
  Definition alive (gone_ids : list nat) (i : nat) : bool := negb (mem i gone_ids).

  Definition inv_wait (s : st) (issued gone_ids : list nat) : Prop :=
    waiting s = filter (alive gone_ids) issued /\ NoDup issued
    /\ (forall i, In i issued -> i < next s) /\ (forall i, In i gone_ids -> i < next s).

  Lemma mem_In i l : mem i l = true <-> In i l.
  Proof.
    unfold mem. rewrite existsb_exists. split.
    - intros [j [Hj E]]. apply Nat.eqb_eq in E. subst. exact Hj.
    - intros H. exists i. split; [exact H | apply Nat.eqb_refl].
  Qed.

  Lemma alive_app g i j : alive (g ++ [i]) j = alive g j && negb (Nat.eqb j i).
  Proof. unfold alive, mem. rewrite existsb_app. cbn. rewrite orb_false_r, negb_orb. reflexivity. Qed.

  Lemma filter_alive_app_gone l g i :
    filter (alive (g ++ [i])) l = filter (fun j => negb (Nat.eqb j i)) (filter (alive g) l).
  Proof.
    induction l as [|j r IH]; [reflexivity|]. cbn [filter]. rewrite alive_app.
    destruct (alive g j); cbn [andb filter].
    - destruct (negb (Nat.eqb j i)); rewrite IH; reflexivity.
    - exact IH.
  Qed.

  Lemma remove_first_filter i l :
    NoDup l -> remove_first i l = filter (fun j => negb (Nat.eqb j i)) l.
  Proof.
    induction 1 as [|j r Hnin Hnd IH]; [reflexivity|]. cbn [remove_first filter].
    rewrite (Nat.eqb_sym j i). destruct (Nat.eqb_spec i j) as [->|Hne]; cbn [negb].
    - symmetry. clear IH Hnd. induction r as [|k r IHr]; [reflexivity|].
      cbn [filter]. destruct (Nat.eqb_spec k j) as [->|Hkj]; cbn [negb].
      + exfalso. apply Hnin. left. reflexivity.
      + f_equal. apply IHr. intros Hin. apply Hnin. right. exact Hin.
    - f_equal. exact IH.
  Qed.

  Lemma NoDup_filter {A} (f : A -> bool) l : NoDup l -> NoDup (filter f l).
  Proof.
    induction 1 as [|x r Hnin Hnd IH]; [constructor|]. cbn. destruct (f x); [|exact IH].
    constructor; [|exact IH]. intros Hin. apply filter_In in Hin. apply Hnin, Hin.
  Qed.

  Lemma NoDup_snoc (l : list nat) x : NoDup l -> ~ In x l -> NoDup (l ++ [x]).
  Proof.
    induction 1 as [|y r Hnin Hnd IH]; intros Hx; cbn.
    - constructor; [intros []|constructor].
    - constructor.
      + intros Hin. apply in_app_or in Hin. destruct Hin as [Hin|[E|[]]]; [auto|].
        subst. apply Hx. left. reflexivity.
      + apply IH. intros Hin. apply Hx. right. exact Hin.
  Qed.

  Lemma waiting_issued s issued g i : inv_wait s issued g -> In i (waiting s) -> In i issued.
  Proof. intros [Hw _] Hin. rewrite Hw in Hin. apply filter_In in Hin. apply Hin. Qed.

  Lemma step_wait s o issued g :
    inv_wait s issued g ->
    inv_wait (fst (step s o)) (issued ++ waited (snd (step s o))) (g ++ gone (snd (step s o))).
  Proof.
    intros Hinv. pose proof (waiting_issued s issued g) as Hwi. specialize (fun i => Hwi i Hinv).
    destruct Hinv as [Hw [Hnd [Hlt Hg]]]. unfold step. destruct o as [x | | i]; cbn.
    - destruct (waiting s) as [|i w] eqn:Ew; cbn.
      + destruct (below size _); cbn; rewrite !app_nil_r; repeat split; auto; congruence.
      + rewrite app_nil_r. repeat split; auto.
        * rewrite filter_alive_app_gone, <- Hw.
          assert (Hndw : NoDup (i :: w)) by (rewrite Hw; apply NoDup_filter, Hnd).
          rewrite <- (remove_first_filter i (i :: w) Hndw). cbn. rewrite Nat.eqb_refl. reflexivity.
        * intros j Hj. apply in_app_or in Hj. destruct Hj as [Hj|[E|[]]]; [auto|].
          subst. apply Hlt, Hwi. left. reflexivity.
    - destruct (pending s) as [|x p]; cbn.
      + destruct (below backlog _); cbn; rewrite ?app_nil_r.
        * repeat split; cbn [next waiting pending].
          -- rewrite filter_app, <- Hw. cbn [filter]. unfold alive.
             destruct (mem (next s) g) eqn:Hm; cbn [negb]; [|reflexivity].
             apply mem_In in Hm. specialize (Hg _ Hm). lia.
          -- apply NoDup_snoc; [exact Hnd|]. intros Hin. specialize (Hlt _ Hin). lia.
          -- intros j Hj. apply in_app_or in Hj. destruct Hj as [Hj|[E|[]]].
             ++ specialize (Hlt _ Hj). lia.
             ++ subst. lia.
          -- intros j Hj. specialize (Hg _ Hj). lia.
        * repeat split; auto.
      + rewrite !app_nil_r. repeat split; cbn [next waiting pending]; auto.
        * intros j Hj. specialize (Hlt _ Hj). lia.
        * intros j Hj. specialize (Hg _ Hj). lia.
    - destruct (mem i (waiting s)) eqn:Hm; cbn; rewrite ?app_nil_r.
      + repeat split; auto.
        * rewrite filter_alive_app_gone, <- Hw.
          apply remove_first_filter. rewrite Hw. apply NoDup_filter, Hnd.
        * intros j Hj. apply in_app_or in Hj. destruct Hj as [Hj|[E|[]]]; [auto|].
          subst. apply Hlt, Hwi, mem_In, Hm.
      + repeat split; auto.
  Qed.

  Lemma run_wait ops : forall s issued g,
    inv_wait s issued g ->
    inv_wait (fst (run s ops)) (issued ++ flat_map waited (snd (run s ops)))
             (g ++ flat_map gone (snd (run s ops))).
  Proof.
    induction ops as [|o r IH]; intros s issued g H.
    - cbn. rewrite !app_nil_r. exact H.
    - rewrite run_cons. cbn [fst snd flat_map]. rewrite !app_assoc. apply IH, step_wait, H.
  Qed.

  (** a put that delivers, delivers to the head of the waiting list *)
  Lemma put_delivers_to_oldest s x i y :
    snd (step s (Put x)) = EDelivered i y -> y = x /\ exists w, waiting s = i :: w.
  Proof.
    unfold step. destruct (waiting s) as [|j w]; cbn.
    - destruct (below size _); cbn; discriminate.
    - intros E. inversion E; subst. split; [reflexivity|]. exists w. reflexivity.
  Qed.

  (** a cancelled get is cancelled only while waiting and leaves the list; a get never waits while objects queue *)
  Lemma get_immediate_iff s :
    (exists i x, snd (step s Get) = EImmediate i x) <-> pending s <> [].
  Proof.
    unfold step. destruct (pending s) as [|x p]; cbn.
    - destruct (below backlog _); cbn; split; try (intros [i [y E]]; discriminate); intros H; congruence.
    - split; [intros _; discriminate | intros _; eauto].
  Qed.
End Proofs.

(** statements from the initial state *)
Lemma init_excl : inv_excl init.
Proof. left. reflexivity. Qed.

Lemma init_wait : inv_wait init [] [].
Proof. repeat split; try constructor; intros i []. Qed.

Lemma reach_excl size backlog ops :
  let s := fst (run size backlog init ops) in waiting s = [] \/ pending s = [].
Proof. apply run_excl, init_excl. Qed.

Lemma reach_fifo size backlog ops :
  let r := run size backlog init ops in
  map snd (deliveries (snd r)) ++ pending (fst r) = accepted_puts (snd r).
Proof. cbn zeta. rewrite (run_fifo size backlog ops init init_excl). reflexivity. Qed.

Lemma reach_wait size backlog ops :
  let r := run size backlog init ops in
  waiting (fst r) = filter (alive (flat_map gone (snd r))) (flat_map waited (snd r))
  /\ NoDup (flat_map waited (snd r)).
Proof.
  cbn zeta. pose proof (run_wait size backlog ops init [] [] init_wait) as [H1 [H2 _]].
  cbn [app] in *. split; assumption.
Qed.

(** non-vacuity: a history that exercises delivery to a waiting get, cancellation, queueing and both limits *)
Example ex_history :
  snd (run (Some 1) (Some 2) init [Get; Get; Get; Cancel 0; Put 5%Z; Put 6%Z; Put 7%Z; Get; Get])
  = [EWaiting 0; EWaiting 1; EUnderflow; ECancelled 0; EDelivered 1 5%Z; EQueued 6%Z; EOverflow 7%Z;
     EImmediate 2 6%Z; EWaiting 3].
Proof. vm_compute. reflexivity. Qed.

(** re-entrant histories are flat histories: what [run_re] computes is [run] on the operations it executed *)
Lemma run_re_flat size backlog react fuel : forall s ops s' es done,
  run_re size backlog react fuel s ops = (s', es, done) -> run size backlog s done = (s', es).
Proof.
  induction fuel as [|f IH]; intros s ops s' es done H.
  - cbn in H. inversion H; subst. reflexivity.
  - destruct ops as [|o r]; cbn [run_re] in H.
    + inversion H; subst. reflexivity.
    + destruct (step size backlog s o) as [s1 e] eqn:Es.
      destruct (run_re size backlog react f s1 (reaction_of react e ++ r)) as [[s2 es2] done2] eqn:Er.
      inversion H; subst. cbn [run]. rewrite Es. rewrite (IH _ _ _ _ _ Er). reflexivity.
Qed.

Example ex_reentrant :
  (* get 0 waits; its callback, run from inside put, issues another get and a put *)
  run_re None (Some 1) (fun i => if Nat.eqb i 0 then [Get; Put 9%Z] else []) 10 init [Get; Put 5%Z]
  = (mk [] [] 2, [EWaiting 0; EDelivered 0 5%Z; EWaiting 1; EDelivered 1 9%Z], [Get; Put 5%Z; Get; Put 9%Z]).
Proof. vm_compute. reflexivity. Qed.
