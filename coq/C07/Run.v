(** C07: printers used by the correspondence check only. *)
From Coq Require Import List Arith ZArith Bool String.
From TwLib Require Import Show.
From C07 Require Import Model.
Import ListNotations.

(** ---- printing for the correspondence check ---- *)
Local Open Scope string_scope.
Definition show_ev (e : ev) : string :=
  match e with
  | EDelivered i x => "D" ++ show_nat i ++ ":" ++ show_Z x
  | EQueued _ => "Q"
  | EOverflow _ => "O"
  | EImmediate i x => "I" ++ show_nat i ++ ":" ++ show_Z x
  | EWaiting i => "W" ++ show_nat i
  | EUnderflow => "U"
  | ECancelled i => "C" ++ show_nat i
  | ENoop i => "N" ++ show_nat i
  end.

Definition run_show (c : option nat * option nat * list op) : string :=
  let '(size, backlog, ops) := c in
  let '(s, es) := run size backlog init ops in
  String.concat " " (map show_ev es) ++ " |w=" ++ show_list show_nat (waiting s)
  ++ " p=" ++ show_list show_Z (pending s).

(** re-entrant cases: reactions given as an association list get id -> operations *)
Fixpoint react_of (l : list (nat * list op)) (i : nat) : list op :=
  match l with
  | [] => []
  | (j, ops) :: r => if Nat.eqb i j then ops else react_of r i
  end.

Definition run_show_re (c : option nat * option nat * list (nat * list op) * list op) : string :=
  let '(size, backlog, reacts, ops) := c in
  let '(s, es, done) := run_re size backlog (react_of reacts) 400 init ops in
  String.concat " " (map show_ev es) ++ " |w=" ++ show_list show_nat (waiting s)
  ++ " p=" ++ show_list show_Z (pending s).
