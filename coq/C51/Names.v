(** C51 proofs, part 1: the algebra of DirDBM's file names and the well-formedness invariant. *)
From Coq Require Import List NArith Bool Arith Lia.
From TwLib Require Import Fs.
From C51 Require Import Model.
Import ListNotations.

Lemma rev_new : forall k, rev (new_of k) = [119; 101; 110; 46]%N ++ rev k.
Proof. intro k. unfold new_of. now rewrite rev_app_distr. Qed.
Lemma rev_rpl : forall k, rev (rpl_of k) = [108; 112; 114; 46]%N ++ rev k.
Proof. intro k. unfold rpl_of. now rewrite rev_app_distr. Qed.

Lemma keyok_hidden : forall k, keyok k -> hidden k = false.
Proof.
  intros [|a k] [H1 H2]; [contradiction|]. cbn. apply N.eqb_neq. intro E. apply H2. now left.
Qed.

Lemma ends_new_key : forall k, keyok k -> ends_new k = false.
Proof.
  intros k [_ H]. unfold ends_new. destruct (rev k) as [|a [|b [|c [|d r]]]] eqn:E; try reflexivity.
  destruct (N.eqb d 46) eqn:Ed; [|now rewrite !andb_false_r].
  apply N.eqb_eq in Ed. subst d. exfalso. apply H. apply in_rev. rewrite E. cbn. tauto.
Qed.
Lemma ends_rpl_key : forall k, keyok k -> ends_rpl k = false.
Proof.
  intros k [_ H]. unfold ends_rpl. destruct (rev k) as [|a [|b [|c [|d r]]]] eqn:E; try reflexivity.
  destruct (N.eqb d 46) eqn:Ed; [|now rewrite !andb_false_r].
  apply N.eqb_eq in Ed. subst d. exfalso. apply H. apply in_rev. rewrite E. cbn. tauto.
Qed.

Lemma hidden_app : forall k t, k <> [] -> hidden (k ++ t) = hidden k.
Proof. intros [|a k] t H; [contradiction | reflexivity]. Qed.

Lemma is_new_key : forall k, keyok k -> is_new k = false.
Proof. intros k H. unfold is_new. now rewrite ends_new_key. Qed.
Lemma is_rpl_key : forall k, keyok k -> is_rpl k = false.
Proof. intros k H. unfold is_rpl. now rewrite ends_rpl_key. Qed.
Lemma is_new_new : forall k, keyok k -> is_new (new_of k) = true.
Proof.
  intros k H. unfold is_new, ends_new. rewrite rev_new. cbn [app]. cbn.
  unfold new_of. rewrite hidden_app by apply H. now rewrite keyok_hidden.
Qed.
Lemma is_rpl_rpl : forall k, keyok k -> is_rpl (rpl_of k) = true.
Proof.
  intros k H. unfold is_rpl, ends_rpl. rewrite rev_rpl. cbn [app]. cbn.
  unfold rpl_of. rewrite hidden_app by apply H. now rewrite keyok_hidden.
Qed.
Lemma is_new_rpl : forall k, is_new (rpl_of k) = false.
Proof. intro k. unfold is_new, ends_new. rewrite rev_rpl. reflexivity. Qed.
Lemma is_rpl_new : forall k, is_rpl (new_of k) = false.
Proof. intro k. unfold is_rpl, ends_rpl. rewrite rev_new. reflexivity. Qed.

Lemma strip4_rpl : forall k, strip4 (rpl_of k) = k.
Proof. intro k. unfold strip4. rewrite rev_rpl. cbn [app skipn]. apply rev_involutive. Qed.

Lemma key_ne_new : forall k k', keyok k -> k <> new_of k'.
Proof. intros k k' [_ H] E. apply H. rewrite E. unfold new_of. apply in_or_app. right. now left. Qed.
Lemma key_ne_rpl : forall k k', keyok k -> k <> rpl_of k'.
Proof. intros k k' [_ H] E. apply H. rewrite E. unfold rpl_of. apply in_or_app. right. now left. Qed.
Lemma new_ne_rpl : forall k k', new_of k <> rpl_of k'.
Proof. intros k k' E. apply (f_equal (@rev N)) in E. rewrite rev_new, rev_rpl in E. discriminate. Qed.
Lemma new_inj : forall k k', new_of k = new_of k' -> k = k'.
Proof. intros k k' E. unfold new_of in E. now apply app_inv_tail in E. Qed.
Lemma rpl_inj : forall k k', rpl_of k = rpl_of k' -> k = k'.
Proof. intros k k' E. unfold rpl_of in E. now apply app_inv_tail in E. Qed.

(** names DirDBM creates *)
Definition allowed (n : path) : Prop := exists k, keyok k /\ (n = k \/ n = new_of k \/ n = rpl_of k).

Lemma allowed_key : forall k, keyok k -> allowed k.
Proof. intros k H. exists k. tauto. Qed.
Lemma allowed_new : forall k, keyok k -> allowed (new_of k).
Proof. intros k H. exists k. tauto. Qed.
Lemma allowed_rpl : forall k, keyok k -> allowed (rpl_of k).
Proof. intros k H. exists k. tauto. Qed.

Lemma allowed_is_new : forall n, allowed n -> is_new n = true -> exists k, keyok k /\ n = new_of k.
Proof.
  intros n (k & Hk & [-> | [-> | ->]]) H.
  - now rewrite is_new_key in H.
  - now exists k.
  - now rewrite is_new_rpl in H.
Qed.
Lemma allowed_is_rpl : forall n, allowed n -> is_rpl n = true -> exists k, keyok k /\ n = rpl_of k.
Proof.
  intros n (k & Hk & [-> | [-> | ->]]) H.
  - now rewrite is_rpl_key in H.
  - now rewrite is_rpl_new in H.
  - now exists k.
Qed.

(** ---- well-formedness is kept by every step that only names allowed files ---- *)
Definition dbstep (st : step) : Prop :=
  match st with
  | SCreat p | SAppend p _ | SUnlink p => allowed p
  | SRename a b => allowed a /\ allowed b
  | _ => False
  end.

Lemma wf_names_remove : forall s p,
  (forall n nd, lookup s n = Some nd -> (exists c, nd = File c) /\ allowed n) ->
  forall n nd, lookup (remove s p) n = Some nd -> (exists c, nd = File c) /\ allowed n.
Proof.
  intros s p H n nd E. rewrite lookup_remove in E. destruct (path_eqb n p); [discriminate | now apply H].
Qed.

Lemma wf_names_update : forall s p c,
  allowed p ->
  (forall n nd, lookup s n = Some nd -> (exists c, nd = File c) /\ allowed n) ->
  forall n nd, lookup (update s p (File c)) n = Some nd -> (exists c, nd = File c) /\ allowed n.
Proof.
  intros s p c Hp H n nd E. rewrite lookup_update in E. destruct (path_eqb n p) eqn:Ep.
  - apply path_eqb_eq in Ep. subst. inversion E. split; [now exists c | assumption].
  - now apply H.
Qed.

Lemma wf_apply : forall s st s', wf s -> dbstep st -> apply s st = Some s' -> wf s'.
Proof.
  intros s st s' [Hn Hw] Hd E. split; [now apply NoDup_keys_apply with s st|].
  unfold allowed in *. fold (allowed) in *.
  destruct st; cbn in E, Hd; try contradiction.
  - destruct (lookup s p) as [[| |]|]; inversion E; subst; now apply wf_names_update.
  - destruct (lookup s p) as [[| |]|]; inversion E; subst; now apply wf_names_update.
  - destruct (lookup s p) as [[| |]|]; inversion E; subst; now apply wf_names_remove.
  - destruct Hd as [Ha Hb]. destruct (lookup s a) as [n|] eqn:La; [|discriminate].
    destruct (Hw a n La) as [[c ->] _].
    destruct (path_eqb a b); [inversion E; now subst|].
    destruct (lookup s b) as [[| |]|]; inversion E; subst;
      (apply wf_names_update; [assumption | now apply wf_names_remove]).
Qed.

Lemma wf_run : forall l s, wf s -> Forall dbstep l -> wf (run s l).
Proof.
  induction l as [|st l IH]; intros s H HF; [assumption|]. inversion HF; subst. cbn.
  destruct (apply s st) as [s'|] eqn:E; [|assumption]. apply IH; [now apply wf_apply with s st | assumption].
Qed.

Lemma wf_file : forall s n nd, wf s -> lookup s n = Some nd -> exists c, nd = File c.
Proof. intros s n nd [_ H] E. now destruct (H n nd E). Qed.
Lemma wf_allowed : forall s n nd, wf s -> lookup s n = Some nd -> allowed n.
Proof. intros s n nd [_ H] E. now destruct (H n nd E). Qed.

(** ---- views ---- *)
Lemma view_frame : forall s s' k,
  lookup s' k = lookup s k -> lookup s' (rpl_of k) = lookup s (rpl_of k) -> view s' k = view s k.
Proof. intros s s' k H1 H2. unfold view, read. now rewrite H1, H2. Qed.

Lemma view_clean : forall s k, keyok k -> clean s -> view s k = read s k.
Proof.
  intros s k Hk Hc. unfold view. destruct (read s k); [reflexivity|].
  unfold read. now rewrite (proj2 (Hc k Hk)).
Qed.
