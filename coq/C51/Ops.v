(** C51 proofs, part 3: operations, crashes inside them, histories. *)
From Coq Require Import List NArith Bool Arith Lia.
From TwLib Require Import Fs.
From C51 Require Import Model Names Recovery.
Import ListNotations.

Lemma app_split_cases : forall {A} (l1 l2 pre suf : list A),
  l1 ++ l2 = pre ++ suf ->
  (exists m, l1 = pre ++ m /\ suf = m ++ l2) \/ (exists m, pre = l1 ++ m /\ l2 = m ++ suf).
Proof.
  induction l1 as [|x l1 IH]; intros l2 pre suf H.
  - right. exists pre. now split.
  - destruct pre as [|y pre].
    + left. exists (x :: l1). now split.
    + cbn in H. injection H as <- H. destruct (IH l2 pre suf H) as [[m [-> ->]] | [m [-> ->]]].
      * left. now exists m.
      * right. now exists m.
Qed.

Lemma Forall_prefix : forall {A} (P : A -> Prop) pre m, Forall P (pre ++ m) -> Forall P pre.
Proof. intros A P pre m H. apply Forall_app in H. tauto. Qed.

(** writing a temporary that does not exist yet *)
Lemma head_run : forall s t v, lookup s t = None ->
  let h := SCreat t :: write_steps t v in
  run_ok s h = true /\ lookup (run s h) t = Some (File v) /\ forall q, q <> t -> lookup (run s h) q = lookup s q.
Proof.
  intros s t v Hn. cbn zeta. cbn [run run_ok apply]. rewrite Hn.
  destruct (run_write_steps v (update s t (File [])) t []) as (W1 & W2 & W3); [apply lookup_update_eq|].
  cbn [app] in W2. split; [assumption|]. split; [assumption|].
  intros q Hq. rewrite (W3 q Hq). apply lookup_update_neq. congruence.
Qed.

Lemma head_prefix_frame : forall s t v pre m, SCreat t :: write_steps t v = pre ++ m ->
  forall q, q <> t -> lookup (run s pre) q = lookup s q.
Proof.
  intros s t v pre m E q Hq. apply run_frame. apply (Forall_prefix _ pre m). rewrite <- E.
  constructor; [cbn; intros [H|[]]; congruence | now apply write_steps_touch].
Qed.

Lemma op_prog_touches : forall s o st, In st (op_prog s o) -> forall q, In q (touches st) ->
  q = key_of o \/ q = new_of (key_of o) \/ q = rpl_of (key_of o).
Proof.
  intros s o st H q Hq. destruct o as [k v | k]; cbn [op_prog key_of] in *.
  - destruct (fits k); [|contradiction]. destruct (exists_ s k).
    + destruct H as [<-|H]; [destruct Hq as [<-|[]]; tauto|].
      apply in_app_or in H as [H|[<-|[<-|[]]]].
      * unfold write_steps in H. apply in_map_iff in H as (b & <- & _). destruct Hq as [<-|[]]; tauto.
      * destruct Hq as [<-|[]]; tauto.
      * destruct Hq as [<-|[<-|[]]]; tauto.
    + destruct H as [<-|H]; [destruct Hq as [<-|[]]; tauto|].
      apply in_app_or in H as [H|[<-|[]]].
      * unfold write_steps in H. apply in_map_iff in H as (b & <- & _). destruct Hq as [<-|[]]; tauto.
      * destruct Hq as [<-|[<-|[]]]; tauto.
  - destruct H as [<-|[]]. destruct Hq as [<-|[]]. tauto.
Qed.

Lemma op_prog_dbstep : forall s o, keyok (key_of o) -> Forall dbstep (op_prog s o).
Proof.
  intros s o Hk. apply Forall_forall. intros st H.
  pose proof (op_prog_touches s o st H) as T.
  assert (A : forall q, In q (touches st) -> allowed q).
  { intros q Hq. destruct (T q Hq) as [-> | [-> | ->]];
      [now apply allowed_key | now apply allowed_new | now apply allowed_rpl]. }
  destruct o as [k v | k]; cbn [op_prog] in H.
  - destruct (fits k); [|contradiction]. destruct (exists_ s k).
    + destruct H as [<-|H]; [cbn; apply A; now left|].
      apply in_app_or in H as [H|[<-|[<-|[]]]].
      * unfold write_steps in H. apply in_map_iff in H as (b & <- & _). cbn. apply A. now left.
      * cbn. apply A. now left.
      * cbn. split; apply A; cbn; tauto.
    + destruct H as [<-|H]; [cbn; apply A; now left|].
      apply in_app_or in H as [H|[<-|[]]].
      * unfold write_steps in H. apply in_map_iff in H as (b & <- & _). cbn. apply A. now left.
      * cbn. split; apply A; cbn; tauto.
  - destruct H as [<-|[]]. cbn. apply A. now left.
Qed.

(** outside the key's three names nothing changes, at any crash point *)
Lemma op_outside : forall s o pre suf, op_prog s o = pre ++ suf ->
  forall q, q <> key_of o -> q <> new_of (key_of o) -> q <> rpl_of (key_of o) ->
  lookup (run s pre) q = lookup s q.
Proof.
  intros s o pre suf E q Q1 Q2 Q3. apply run_frame. apply Forall_forall. intros st Hst Hin.
  assert (Hst' : In st (op_prog s o)) by (rewrite E; apply in_or_app; now left).
  destruct (op_prog_touches s o st Hst' q Hin) as [-> | [-> | ->]]; contradiction.
Qed.

Lemma others_view : forall s s' k0 k,
  (forall q, q <> k0 -> q <> new_of k0 -> q <> rpl_of k0 -> lookup s' q = lookup s q) ->
  keyok k0 -> keyok k -> k <> k0 -> view s' k = view s k.
Proof.
  intros s s' k0 k H Hk0 Hk Hne. apply view_frame; apply H.
  - assumption.
  - now apply key_ne_new.
  - now apply key_ne_rpl.
  - intro E. symmetry in E. now apply (key_ne_rpl k0 k).
  - intro E. symmetry in E. now apply (new_ne_rpl k0 k).
  - intro E. apply rpl_inj in E. contradiction.
Qed.

Lemma read_of_lookup : forall s p c, lookup s p = Some (File c) -> read s p = Some c.
Proof. intros s p c H. unfold read. now rewrite H. Qed.
Lemma read_of_none : forall s p, lookup s p = None -> read s p = None.
Proof. intros s p H. unfold read. now rewrite H. Qed.

(** the key's own view at every crash point of one operation: old or new *)
Lemma op_crash_key : forall s o pre suf,
  wf s -> clean s -> keyok (key_of o) -> op_prog s o = pre ++ suf ->
  view (run s pre) (key_of o) = read s (key_of o)
  \/ view (run s pre) (key_of o) = spec_op o (key_of o) (read s (key_of o)).
Proof.
  intros s o pre suf Hwf Hcl Hk E. destruct (Hcl _ Hk) as [Cn Cr].
  destruct o as [k v | k]; cbn [key_of] in *; cbn [spec_op]; rewrite ?path_eqb_refl.
  - (* set *)
    cbn [op_prog] in E. destruct (fits k) eqn:Ef; cbn [andb].
    2:{ (* the temporary's name does not fit: the set is refused before it starts *)
        left. destruct pre; [|discriminate]. cbn [run]. now apply view_clean. }
    unfold exists_ in E.
    assert (Nk_new : k <> new_of k) by now apply key_ne_new.
    assert (Nk_rpl : k <> rpl_of k) by now apply key_ne_rpl.
    destruct (lookup s k) as [nd|] eqn:Lk.
    + (* replace: k.rpl, remove k, rename *)
      destruct (wf_file s k nd Hwf Lk) as [c ->].
      change (SCreat (rpl_of k) :: write_steps (rpl_of k) v ++ [SUnlink k; SRename (rpl_of k) k])
        with ((SCreat (rpl_of k) :: write_steps (rpl_of k) v) ++ [SUnlink k; SRename (rpl_of k) k]) in E.
      destruct (app_split_cases _ _ _ _ E) as [[m [E1 _]] | [m [E1 E2]]].
      * left. unfold view.
        rewrite (read_of_lookup _ k c) by (rewrite (head_prefix_frame s _ v pre m E1) by assumption; exact Lk).
        symmetry. now apply read_of_lookup.
      * destruct (head_run s (rpl_of k) v Cr) as (H1 & H2 & H3).
        set (s2 := run s (SCreat (rpl_of k) :: write_steps (rpl_of k) v)) in *.
        subst pre. rewrite run_app by assumption. fold s2.
        assert (L2k : lookup s2 k = Some (File c)) by (rewrite H3 by assumption; exact Lk).
        destruct m as [|a m].
        -- left. cbn [run]. unfold view. rewrite (read_of_lookup _ k c L2k). symmetry. now apply read_of_lookup.
        -- cbn in E2. injection E2 as <- E2. right. cbn [run apply]. rewrite L2k.
           assert (L3r : lookup (remove s2 k) (rpl_of k) = Some (File v))
             by (rewrite lookup_remove_neq by assumption; exact H2).
           destruct m as [|b m].
           ++ cbn [run]. unfold view. rewrite (read_of_none _ k) by apply lookup_remove_eq.
              now apply read_of_lookup.
           ++ cbn in E2. injection E2 as <- E2. cbn [run apply]. rewrite L3r.
              assert (Ne : path_eqb (rpl_of k) k = false) by (apply path_eqb_neq; congruence).
              rewrite Ne, lookup_remove_eq.
              assert (m = []) as -> by (destruct m; [reflexivity | discriminate]).
              cbn [run]. unfold view. now rewrite (read_of_lookup _ k v) by apply lookup_update_eq.
    + (* new key: k.new, rename *)
      change (SCreat (new_of k) :: write_steps (new_of k) v ++ [SRename (new_of k) k])
        with ((SCreat (new_of k) :: write_steps (new_of k) v) ++ [SRename (new_of k) k]) in E.
      assert (Keep : forall s', lookup s' k = None -> lookup s' (rpl_of k) = None -> view s' k = read s k).
      { intros s' A B. unfold view. now rewrite (read_of_none s' k A), (read_of_none s' _ B), (read_of_none s k Lk). }
      destruct (app_split_cases _ _ _ _ E) as [[m [E1 _]] | [m [E1 E2]]].
      * left. apply Keep.
        -- rewrite (head_prefix_frame s _ v pre m E1) by assumption. exact Lk.
        -- rewrite (head_prefix_frame s _ v pre m E1) by (intro X; symmetry in X; now apply (new_ne_rpl k k)). exact Cr.
      * destruct (head_run s (new_of k) v Cn) as (H1 & H2 & H3).
        set (s2 := run s (SCreat (new_of k) :: write_steps (new_of k) v)) in *.
        subst pre. rewrite run_app by assumption. fold s2.
        assert (L2k : lookup s2 k = None) by (rewrite H3 by assumption; exact Lk).
        destruct m as [|a m].
        -- left. cbn [run]. apply Keep; [assumption|].
           rewrite H3 by (intro X; symmetry in X; now apply (new_ne_rpl k k)). exact Cr.
        -- cbn in E2. injection E2 as <- E2. right. cbn [run apply]. rewrite H2.
           assert (Ne : path_eqb (new_of k) k = false) by (apply path_eqb_neq; congruence).
           rewrite Ne, L2k.
           assert (m = []) as -> by (destruct m; [reflexivity | discriminate]).
           cbn [run]. unfold view. now rewrite (read_of_lookup _ k v) by apply lookup_update_eq.
  - (* delete *)
    cbn [op_prog] in E. destruct pre as [|a pre].
    + left. cbn [run]. now apply view_clean.
    + cbn in E. injection E as <- E. assert (pre = []) as -> by (destruct pre; [reflexivity | discriminate]).
      cbn [run apply]. destruct (lookup s k) as [[c| |t]|] eqn:Lk.
      * right. unfold view. rewrite (read_of_none _ k) by apply lookup_remove_eq.
        apply read_of_none. rewrite lookup_remove_neq by now apply key_ne_rpl. exact Cr.
      * left. now apply view_clean.
      * right. unfold view. rewrite (read_of_none _ k) by apply lookup_remove_eq.
        apply read_of_none. rewrite lookup_remove_neq by now apply key_ne_rpl. exact Cr.
      * left. now apply view_clean.
Qed.

(** O1: a crash at any point of one operation *)
Lemma op_crash : forall s o pre suf,
  wf s -> clean s -> keyok (key_of o) -> op_prog s o = pre ++ suf ->
  wf (run s pre)
  /\ (forall k, keyok k -> k <> key_of o -> view (run s pre) k = read s k)
  /\ (view (run s pre) (key_of o) = read s (key_of o)
      \/ view (run s pre) (key_of o) = spec_op o (key_of o) (read s (key_of o))).
Proof.
  intros s o pre suf Hwf Hcl Hk E. split; [|split].
  - apply wf_run; [assumption|]. apply (Forall_prefix _ pre suf). rewrite <- E. now apply op_prog_dbstep.
  - intros k Hkk Hne. rewrite <- (view_clean s k Hkk Hcl).
    apply others_view with (key_of o); auto. intros q Q1 Q2 Q3. now apply op_outside with o suf.
  - now apply op_crash_key with suf.
Qed.

(** O2: a completed operation *)
Lemma op_complete : forall s o,
  wf s -> clean s -> keyok (key_of o) ->
  let s' := run s (op_prog s o) in
  wf s' /\ clean s' /\ forall k, keyok k -> read s' k = spec_op o k (read s k).
Proof.
  intros s o Hwf Hcl Hk s'.
  assert (Hwf' : wf s') by (apply wf_run; [assumption | now apply op_prog_dbstep]).
  assert (Out : forall q, q <> key_of o -> q <> new_of (key_of o) -> q <> rpl_of (key_of o) -> lookup s' q = lookup s q).
  { intros q Q1 Q2 Q3. apply op_outside with o []; [now rewrite app_nil_r | assumption..]. }
  destruct (Hcl _ Hk) as [Cn Cr].
  (* the three names of the key itself *)
  assert (Own : lookup s' (new_of (key_of o)) = None /\ lookup s' (rpl_of (key_of o)) = None
                /\ read s' (key_of o) = spec_op o (key_of o) (read s (key_of o))).
  { subst s'. destruct o as [k v | k]; cbn [key_of] in *; cbn [spec_op]; rewrite ?path_eqb_refl.
    - cbn [op_prog]. destruct (fits k) eqn:Ef; cbn [andb].
      2:{ cbn [run]. split; [exact Cn | split; [exact Cr | reflexivity]]. }
      unfold exists_.
      assert (Nk_new : k <> new_of k) by now apply key_ne_new.
      assert (Nk_rpl : k <> rpl_of k) by now apply key_ne_rpl.
      assert (Nnr : new_of k <> rpl_of k) by apply new_ne_rpl.
      destruct (lookup s k) as [nd|] eqn:Lk.
      + destruct (wf_file s k nd Hwf Lk) as [c ->].
        change (SCreat (rpl_of k) :: write_steps (rpl_of k) v ++ [SUnlink k; SRename (rpl_of k) k])
          with ((SCreat (rpl_of k) :: write_steps (rpl_of k) v) ++ [SUnlink k; SRename (rpl_of k) k]).
        destruct (head_run s (rpl_of k) v Cr) as (H1 & H2 & H3).
        rewrite run_app by assumption.
        set (s2 := run s (SCreat (rpl_of k) :: write_steps (rpl_of k) v)) in *.
        assert (L2k : lookup s2 k = Some (File c)) by (rewrite H3 by assumption; exact Lk).
        cbn [run apply]. rewrite L2k. rewrite lookup_remove_neq by assumption. rewrite H2.
        assert (Ne : path_eqb (rpl_of k) k = false) by (apply path_eqb_neq; congruence).
        rewrite Ne, lookup_remove_eq. repeat split.
        * rewrite lookup_update_neq by assumption. rewrite lookup_remove_neq by congruence.
          rewrite lookup_remove_neq by assumption. rewrite H3 by assumption. exact Cn.
        * rewrite lookup_update_neq by assumption. apply lookup_remove_eq.
        * apply read_of_lookup. apply lookup_update_eq.
      + change (SCreat (new_of k) :: write_steps (new_of k) v ++ [SRename (new_of k) k])
          with ((SCreat (new_of k) :: write_steps (new_of k) v) ++ [SRename (new_of k) k]).
        destruct (head_run s (new_of k) v Cn) as (H1 & H2 & H3).
        rewrite run_app by assumption.
        set (s2 := run s (SCreat (new_of k) :: write_steps (new_of k) v)) in *.
        assert (L2k : lookup s2 k = None) by (rewrite H3 by assumption; exact Lk).
        cbn [run apply]. rewrite H2.
        assert (Ne : path_eqb (new_of k) k = false) by (apply path_eqb_neq; congruence).
        rewrite Ne, L2k. repeat split.
        * rewrite lookup_update_neq by assumption. apply lookup_remove_eq.
        * rewrite lookup_update_neq by assumption. rewrite lookup_remove_neq by assumption.
          rewrite H3 by congruence. exact Cr.
        * apply read_of_lookup. apply lookup_update_eq.
    - cbn [op_prog run apply].
      assert (Nk_new : k <> new_of k) by now apply key_ne_new.
      assert (Nk_rpl : k <> rpl_of k) by now apply key_ne_rpl.
      destruct (lookup s k) as [[c| |t]|] eqn:Lk.
      + repeat split; [rewrite lookup_remove_neq by assumption; exact Cn
                      | rewrite lookup_remove_neq by assumption; exact Cr
                      | apply read_of_none; apply lookup_remove_eq].
      + destruct (wf_file s k _ Hwf Lk) as [c E]. discriminate.
      + destruct (wf_file s k _ Hwf Lk) as [c E]. discriminate.
      + repeat split; [exact Cn | exact Cr | now apply read_of_none]. }
  destruct Own as (O1 & O2 & O3).
  split; [assumption|]. split.
  - intros k Hkk. destruct (path_eqb k (key_of o)) eqn:Ek.
    + apply path_eqb_eq in Ek. subst k. now split.
    + apply path_eqb_neq in Ek. destruct (Hcl k Hkk) as [A B]. split.
      * rewrite Out; [exact A | | |].
        -- intro X. symmetry in X. now apply (key_ne_new (key_of o) k).
        -- intro X. apply new_inj in X. contradiction.
        -- apply new_ne_rpl.
      * rewrite Out; [exact B | | |].
        -- intro X. symmetry in X. now apply (key_ne_rpl (key_of o) k).
        -- intro X. symmetry in X. now apply (new_ne_rpl (key_of o) k).
        -- intro X. apply rpl_inj in X. contradiction.
  - intros k Hkk. destruct (path_eqb k (key_of o)) eqn:Ek.
    + apply path_eqb_eq in Ek. subst k. exact O3.
    + assert (Sp : spec_op o k (read s k) = read s k) by (destruct o; cbn [spec_op key_of] in *; now rewrite Ek).
      rewrite Sp. apply path_eqb_neq in Ek. unfold read. rewrite Out; [reflexivity | assumption | |].
      * now apply key_ne_new.
      * now apply key_ne_rpl.
Qed.

(** histories of completed operations *)
Lemma ops_complete : forall ops s,
  wf s -> clean s -> Forall (fun o => keyok (key_of o)) ops ->
  wf (run_ops s ops) /\ clean (run_ops s ops)
  /\ forall k, keyok k -> read (run_ops s ops) k = spec_ops ops k (read s k).
Proof.
  induction ops as [|o ops IH]; intros s Hwf Hcl HF.
  - cbn. auto.
  - inversion HF as [|? ? Hk HF']; subst.
    destruct (op_complete s o Hwf Hcl Hk) as (W & C & R).
    destruct (IH _ W C HF') as (W' & C' & R'). cbn [run_ops spec_ops].
    split; [assumption|]. split; [assumption|]. intros k Hkk. rewrite (R' k Hkk). now rewrite (R k Hkk).
Qed.

(** ---- the end-to-end statements ---- *)

(** after any completed history, a crash at any point of the next operation, any number of crashed
    recovery attempts and one completed recovery: every other key holds its last completed value,
    the interrupted key its old or its new value, and no temporary remains *)
Lemma crash_recover_final : forall s0 done cur pre suf sr,
  wf s0 -> clean s0 -> Forall (fun o => keyok (key_of o)) (done ++ [cur]) ->
  let s1 := run_ops s0 done in
  op_prog s1 cur = pre ++ suf ->
  rec_reach (run s1 pre) sr ->
  let sf := recover sr in
  wf sf /\ clean sf
  /\ (forall k, keyok k -> k <> key_of cur -> read sf k = spec_ops done k (read s0 k))
  /\ (read sf (key_of cur) = spec_ops done (key_of cur) (read s0 (key_of cur))
      \/ read sf (key_of cur) = spec_ops (done ++ [cur]) (key_of cur) (read s0 (key_of cur))).
Proof.
  intros s0 done cur pre suf sr Hwf Hcl HF s1 E Hreach sf.
  apply Forall_app in HF as [HF1 HF2]. inversion HF2 as [|? ? Hk _]; subst.
  destruct (ops_complete done s0 Hwf Hcl HF1) as (W1 & C1 & R1). fold s1 in W1, C1, R1.
  destruct (op_crash s1 cur pre suf W1 C1 Hk E) as (Wc & Vo & Vk).
  destruct (rec_reach_view _ _ Hreach Wc) as (Wr & Vr).
  destruct (recover_complete sr Wr) as (Wf & Cf & Rf). fold sf in Wf, Cf, Rf.
  split; [assumption|]. split; [assumption|]. split.
  - intros k Hkk Hne. rewrite (Rf k Hkk), (Vr k Hkk), (Vo k Hkk Hne). now apply R1.
  - rewrite (Rf _ Hk), (Vr _ Hk).
    assert (Sp : spec_ops (done ++ [cur]) (key_of cur) (read s0 (key_of cur))
                 = spec_op cur (key_of cur) (spec_ops done (key_of cur) (read s0 (key_of cur)))).
    { clear. generalize (read s0 (key_of cur)). induction done as [|o done IH]; intro x; [reflexivity|]. cbn. apply IH. }
    rewrite Sp, <- (R1 _ Hk). exact Vk.
Qed.

(** recovery is idempotent, also under crashes: whatever crashed attempts precede it, a completed
    recovery shows the same key/value pairs as one that was never interrupted *)
Lemma recovery_idempotent : forall s sr, wf s -> rec_reach s sr ->
  (forall k, keyok k -> read (recover sr) k = read (recover s) k)
  /\ clean (recover sr) /\ wf (recover sr).
Proof.
  intros s sr Hwf H. destruct (rec_reach_view s sr H Hwf) as (Wr & Vr).
  destruct (recover_complete sr Wr) as (W1 & C1 & R1). destruct (recover_complete s Hwf) as (_ & _ & R2).
  split; [|now split]. intros k Hk. rewrite (R1 k Hk), (R2 k Hk). now apply Vr.
Qed.

(** every file left after recovery is a key's file (never *.new / *.rpl) *)
Lemma recovered_names : forall s n nd, wf s -> lookup (recover s) n = Some nd ->
  keyok n /\ exists c, nd = File c.
Proof.
  intros s n nd Hwf E. destruct (recover_complete s Hwf) as (W & C & _).
  destruct (wf_file _ n nd W E) as [c ->]. split; [|now exists c].
  destruct (wf_allowed _ n _ W E) as (k & Hk & [-> | [-> | ->]]).
  - assumption.
  - rewrite (proj1 (C k Hk)) in E. discriminate.
  - rewrite (proj2 (C k Hk)) in E. discriminate.
Qed.

(** non-trivial instance: replace crashed between remove and rename, plus a stray partial k.new *)
Example ex_recover :
  let a := [97]%N in let b := [98]%N in
  let s := [(rpl_of a, File [1;2]%N); (new_of b, File [7]%N); ([99]%N, File [5]%N)] in
  recover_prog s = [SUnlink (new_of b); SRename (rpl_of a) a]
  /\ read (recover s) a = Some [1;2]%N /\ read (recover s) b = None /\ read (recover s) [99]%N = Some [5]%N.
Proof. repeat split; vm_compute; reflexivity. Qed.

(** reopening after a history that was not interrupted shows exactly the abstract database *)
Lemma reopen_after_history : forall s0 ops k,
  wf s0 -> clean s0 -> Forall (fun o => keyok (key_of o)) ops -> keyok k ->
  read (recover (run_ops s0 ops)) k = spec_ops ops k (read s0 k).
Proof.
  intros s0 ops k Hwf Hcl HF Hk. destruct (ops_complete ops s0 Hwf Hcl HF) as (W & C & R).
  destruct (recover_complete _ W) as (_ & _ & Rf). rewrite (Rf k Hk), (view_clean _ k Hk C). now apply R.
Qed.

Lemma empty_wf_clean : wf [] /\ clean [].
Proof. split; [split; [constructor | intros n nd H; discriminate] | intros k _; now split]. Qed.

(** NAME_MAX: a 252-byte file name (a raw key of 184-186 bytes) fits in a directory entry, its temporaries do
    not; the set has no steps and the abstract dictionary ignores it.  248 bytes is the longest storable name. *)
Example ex_name_max :
  fits (repeat 107%N 248) = true /\ fits (repeat 107%N 252) = false
  /\ op_prog [] (DSet (repeat 107%N 252) [1]%N) = []
  /\ spec_op (DSet (repeat 107%N 252) [1]%N) (repeat 107%N 252) None = None.
Proof. repeat split; vm_compute; reflexivity. Qed.
