(** C51: printers used by the correspondence check only. *)
From Coq Require Import List NArith Bool String.
From TwLib Require Import Show Fs.
From C51 Require Import Model.
Import ListNotations.
Local Open Scope string_scope.

Definition show_node (n : option node) : string :=
  match n with
  | None => "-"
  | Some (File c) => "f" ++ show_hex c
  | Some Dir => "d"
  | Some (Link t) => "l" ++ show_hex t
  end.

Definition show_state (names : list path) (s : fs) : string :=
  String.concat "," (map (fun n => show_node (lookup s n)) names).

Definition show_step (st : step) : string :=
  match st with
  | SCreat p => "c:" ++ show_hex p
  | SCreatX p => "x:" ++ show_hex p
  | SAppend p b => "a:" ++ show_hex p ++ ":" ++ show_hex [b]
  | SUnlink p => "u:" ++ show_hex p
  | SRename a b => "r:" ++ show_hex a ++ ":" ++ show_hex b
  | SMkdir p => "m:" ++ show_hex p
  | SRmdir p => "rd:" ++ show_hex p
  | SSymlink t p => "s:" ++ show_hex t ++ ":" ++ show_hex p
  end.

(** the step list of a history, operation by operation *)
Fixpoint hist_steps (s : fs) (ops : list dop) : list step :=
  match ops with
  | [] => []
  | o :: r => op_prog s o ++ hist_steps (run s (op_prog s o)) r
  end.

Inductive case :=
| CHist (names : list path) (s : fs) (ops : list dop)
    (* "S:" steps of the history | "C:" state after every prefix | "V:" that state after a recovery *)
| CRec (names : list path) (s : fs).
    (* "S:" recovery steps (the harness compares them as a set: glob order is the directory's) |
       "R:" the recovered state *)

Definition run_show (c : case) : string :=
  match c with
  | CHist names s ops =>
      let l := hist_steps s ops in
      "S:" ++ String.concat ";" (map show_step l)
      ++ "|C:" ++ String.concat ";" (map (fun pre => show_state names (run s pre)) (prefixes l))
      ++ "|V:" ++ String.concat ";" (map (fun pre => show_state names (recover (run s pre))) (prefixes l))
  | CRec names s =>
      "S:" ++ String.concat ";" (map show_step (recover_prog s))
      ++ "|R:" ++ show_state names (recover s)
  end.
