(** C51 property theorems (nothing else lives here; each is closed by [exact]).

    The file system is TwLib.Fs restricted to the database directory.  [keyok k]: k is a file name
    DirDBM._encode can produce (non-empty, no '.').  [wf s]: only DirDBM's own regular files
    (k, k.new, k.rpl), each name once; [clean s]: no k.new / k.rpl.  [run_ops s0 done] is the state
    after the operations [done] all completed; [op_prog s cur = pre ++ suf] makes [run s pre] the
    state left by a crash of [cur] after ANY prefix of its system calls (a write is one step per
    byte); [rec_reach sc sr]: [sr] is reached from [sc] by ANY number of recovery attempts each
    crashing after any prefix of its steps; [recover] is a recovery that completes.
    [spec_ops ops k old] is the value of key k in the abstract dictionary after [ops]. *)
From Coq Require Import List NArith Bool.
From TwLib Require Import Fs.
From C51 Require Import Model Names Recovery Ops.
Import ListNotations.

(** every other key: value of its last completed operation; the interrupted key: old or new;
    for every history, every crash point, every nesting of crashes inside recovery *)
Theorem interrupted_key_old_or_new_and_others_last_completed : forall s0 done cur pre suf sr,
  wf s0 -> clean s0 -> Forall (fun o => keyok (key_of o)) (done ++ [cur]) ->
  let s1 := run_ops s0 done in
  op_prog s1 cur = pre ++ suf ->
  rec_reach (run s1 pre) sr ->
  let sf := recover sr in
  wf sf /\ clean sf
  /\ (forall k, keyok k -> k <> key_of cur -> read sf k = spec_ops done k (read s0 k))
  /\ (read sf (key_of cur) = spec_ops done (key_of cur) (read s0 (key_of cur))
      \/ read sf (key_of cur) = spec_ops (done ++ [cur]) (key_of cur) (read s0 (key_of cur))).
Proof. exact crash_recover_final. Qed.
Print Assumptions interrupted_key_old_or_new_and_others_last_completed.

Theorem recover_yields_last_completed_values : forall s0 ops k,
  wf s0 -> clean s0 -> Forall (fun o => keyok (key_of o)) ops -> keyok k ->
  read (recover (run_ops s0 ops)) k = spec_ops ops k (read s0 k).
Proof. exact reopen_after_history. Qed.
Print Assumptions recover_yields_last_completed_values.

(** after a completed recovery every remaining file is a key's file holding a complete value
    (which value: the two theorems above); no *.new / *.rpl survives *)
Theorem no_partial_or_stray_visible : forall s n nd, wf s -> lookup (recover s) n = Some nd ->
  keyok n /\ exists c, nd = File c.
Proof. exact recovered_names. Qed.
Print Assumptions no_partial_or_stray_visible.

Theorem recovery_idempotent_under_crash : forall s sr, wf s -> rec_reach s sr ->
  (forall k, keyok k -> read (recover sr) k = read (recover s) k)
  /\ clean (recover sr) /\ wf (recover sr).
Proof. exact recovery_idempotent. Qed.
Print Assumptions recovery_idempotent_under_crash.

(** a crash anywhere inside recovery changes no key's visible value (and a further recovery can start) *)
Theorem crash_inside_recovery_changes_no_key : forall s pre suf, wf s -> recover_prog s = pre ++ suf ->
  wf (run s pre) /\ forall k, keyok k -> view (run s pre) k = view s k.
Proof. exact recover_crash. Qed.
Print Assumptions crash_inside_recovery_changes_no_key.

(** the hypotheses are satisfiable: a freshly created database *)
Theorem empty_database_is_well_formed_and_clean : wf [] /\ clean [].
Proof. exact empty_wf_clean. Qed.
Print Assumptions empty_database_is_well_formed_and_clean.
