(** C51 proofs, part 2: recovery. *)
From Coq Require Import List NArith Bool Arith Lia.
From TwLib Require Import Fs.
From C51 Require Import Model Names.
Import ListNotations.

Definition isfile (s : fs) (p : path) : Prop := exists c, lookup s p = Some (File c).

(** the three kinds of step recovery performs, with the situation in which it performs them *)
Inductive vsafe (s : fs) : step -> Prop :=
| vs_new : forall k, keyok k -> isfile s (new_of k) -> vsafe s (SUnlink (new_of k))
| vs_drop : forall k, keyok k -> isfile s (rpl_of k) -> isfile s k -> vsafe s (SUnlink (rpl_of k))
| vs_move : forall k, keyok k -> isfile s (rpl_of k) -> lookup s k = None -> vsafe s (SRename (rpl_of k) k).

Lemma vsafe_dbstep : forall s st, vsafe s st -> dbstep st.
Proof.
  intros s st H. destruct H; cbn.
  - now apply allowed_new.
  - now apply allowed_rpl.
  - split; [now apply allowed_rpl | now apply allowed_key].
Qed.

(** a safe step succeeds, keeps well-formedness and keeps every key's view *)
Lemma vsafe_step : forall s st, wf s -> vsafe s st ->
  exists s', apply s st = Some s' /\ wf s' /\ forall k, keyok k -> view s' k = view s k.
Proof.
  intros s st Hwf H. pose proof (vsafe_dbstep s st H) as Hd. destruct H as [k0 Hk [c Hc] | k0 Hk [c Hc] [c' Hc'] | k0 Hk [c Hc] Hn].
  - (* unlink k0.new *)
    exists (remove s (new_of k0)). cbn. rewrite Hc. split; [reflexivity|].
    split; [apply wf_apply with s (SUnlink (new_of k0)); auto; cbn; now rewrite Hc|].
    intros k Hkk. apply view_frame; apply lookup_remove_neq.
    + intro E. now apply (key_ne_new k k0 Hkk).
    + apply new_ne_rpl.
  - (* unlink k0.rpl while k0 exists *)
    exists (remove s (rpl_of k0)). cbn. rewrite Hc. split; [reflexivity|].
    split; [apply wf_apply with s (SUnlink (rpl_of k0)); auto; cbn; now rewrite Hc|].
    intros k Hkk. destruct (path_eqb k k0) eqn:E.
    + apply path_eqb_eq in E. subst k. unfold view, read.
      rewrite lookup_remove_neq by (intro E; now apply (key_ne_rpl k0 k0 Hkk)). now rewrite Hc'.
    + apply path_eqb_neq in E. apply view_frame; apply lookup_remove_neq.
      * intro E'. now apply (key_ne_rpl k k0 Hkk).
      * intro E'. apply rpl_inj in E'. congruence.
  - (* rename k0.rpl -> k0 while k0 is absent *)
    assert (Ne : path_eqb (rpl_of k0) k0 = false).
    { apply path_eqb_neq. intro E. now apply (key_ne_rpl k0 k0 Hk). }
    assert (Ap : apply s (SRename (rpl_of k0) k0) = Some (update (remove s (rpl_of k0)) k0 (File c))).
    { cbn. now rewrite Hc, Ne, Hn. }
    exists (update (remove s (rpl_of k0)) k0 (File c)). split; [assumption|].
    split; [now apply wf_apply with s (SRename (rpl_of k0) k0)|].
    intros k Hkk. destruct (path_eqb k k0) eqn:E.
    + apply path_eqb_eq in E. subst k. unfold view, read. rewrite lookup_update_eq, Hn, Hc. reflexivity.
    + apply path_eqb_neq in E. apply view_frame.
      * rewrite lookup_update_neq by congruence. apply lookup_remove_neq.
        intro E'. now apply (key_ne_rpl k k0 Hkk).
      * rewrite lookup_update_neq by (intro E'; now apply (key_ne_rpl k0 k Hk)).
        apply lookup_remove_neq. intro E'. apply rpl_inj in E'. congruence.
Qed.

(** a list of steps each of which is safe when its turn comes *)
Inductive safe_seq : fs -> list step -> Prop :=
| ss_nil : forall s, safe_seq s []
| ss_cons : forall s st s' l, vsafe s st -> apply s st = Some s' -> safe_seq s' l -> safe_seq s (st :: l).

Lemma safe_seq_app : forall l1 l2 s, safe_seq s l1 -> safe_seq (run s l1) l2 -> safe_seq s (l1 ++ l2).
Proof.
  induction l1 as [|st l1 IH]; intros l2 s H1 H2; [assumption|].
  inversion H1 as [|? ? s' ? Hv Ha Hs]; subst. cbn in H2. rewrite Ha in H2.
  cbn. apply ss_cons with s'; auto.
Qed.

(** every prefix of a safe sequence runs without refusal and preserves wf and all views *)
Lemma safe_seq_prefix : forall pre suf s, wf s -> safe_seq s (pre ++ suf) ->
  run_ok s pre = true /\ wf (run s pre) /\ (forall k, keyok k -> view (run s pre) k = view s k)
  /\ safe_seq (run s pre) suf.
Proof.
  induction pre as [|st pre IH]; intros suf s Hwf H.
  - cbn. auto.
  - cbn [app] in H. inversion H as [|? ? s' ? Hv Ha Hs]; subst.
    destruct (vsafe_step s st Hwf Hv) as (s'' & Ha' & Hwf' & Hview). rewrite Ha in Ha'. inversion Ha'; subst s''.
    destruct (IH suf s' Hwf' Hs) as (I1 & I2 & I3 & I4). cbn. rewrite Ha.
    split; [assumption|]. split; [assumption|]. split; [|assumption].
    intros k Hk. rewrite (I3 k Hk). now apply Hview.
Qed.

(** ---- first loop: remove every *.new ---- *)
Lemma phase1_safe : forall names s,
  NoDup names -> (forall n, In n names -> exists k, keyok k /\ n = new_of k /\ isfile s n) ->
  safe_seq s (map SUnlink names).
Proof.
  induction names as [|n names IH]; intros s Hnd H; [constructor|].
  inversion Hnd as [|? ? Hnin Hnd']; subst.
  destruct (H n (or_introl eq_refl)) as (k & Hk & -> & [c Hc]).
  cbn [map]. apply ss_cons with (remove s (new_of k)).
  - apply vs_new; [assumption | now exists c].
  - cbn. now rewrite Hc.
  - apply IH; [assumption|]. intros n' Hn'. destruct (H n' (or_intror Hn')) as (k' & Hk' & -> & [c' Hc']).
    exists k'. split; [assumption|]. split; [reflexivity|]. exists c'.
    rewrite lookup_remove_neq; [assumption|]. intro E. apply Hnin. now rewrite E.
Qed.

Lemma phase1_effect : forall names s,
  (forall n, In n names -> isfile s n) -> NoDup names ->
  (forall n, In n names -> lookup (run s (map SUnlink names)) n = None)
  /\ (forall q, ~ In q names -> lookup (run s (map SUnlink names)) q = lookup s q).
Proof.
  induction names as [|n names IH]; intros s H Hnd.
  - cbn. split; [intros n [] | reflexivity].
  - inversion Hnd as [|? ? Hnin Hnd']; subst. destruct (H n (or_introl eq_refl)) as [c Hc].
    cbn [map run apply]. rewrite Hc.
    destruct (IH (remove s n)) as [I1 I2]; [|assumption|].
    { intros n' Hn'. destruct (H n' (or_intror Hn')) as [c' Hc']. exists c'.
      rewrite lookup_remove_neq; [assumption|]. intro E. apply Hnin. now rewrite E. }
    split.
    + intros n' [<-|Hn']; [|now apply I1]. rewrite (I2 n Hnin). apply lookup_remove_eq.
    + intros q Hq. rewrite I2 by (intro Hin; apply Hq; now right). apply lookup_remove_neq.
      intro E. apply Hq. now left.
Qed.

(** ---- second loop ---- *)
Lemma rec_rpl_safe : forall s k, wf s -> keyok k -> isfile s (rpl_of k) -> vsafe s (rec_rpl s (rpl_of k)).
Proof.
  intros s k Hwf Hk Hf. unfold rec_rpl. rewrite strip4_rpl. unfold exists_.
  destruct (lookup s k) as [nd|] eqn:E.
  - destruct (wf_file s k nd Hwf E) as [c ->]. apply vs_drop; [assumption | assumption | now exists c].
  - now apply vs_move.
Qed.

Lemma rec_rpl_touches : forall s k q, In q (touches (rec_rpl s (rpl_of k))) -> q = rpl_of k \/ q = k.
Proof.
  intros s k q. unfold rec_rpl. rewrite strip4_rpl. destruct (exists_ s k); cbn; intuition (subst; auto).
Qed.

Lemma phase2_safe : forall names s,
  wf s -> NoDup names -> (forall n, In n names -> exists k, keyok k /\ n = rpl_of k /\ isfile s n) ->
  safe_seq s (rec_rpls s names)
  /\ (forall n, In n names -> lookup (run s (rec_rpls s names)) n = None)
  /\ (forall k, keyok k -> lookup (run s (rec_rpls s names)) (new_of k) = lookup s (new_of k)).
Proof.
  induction names as [|n names IH]; intros s Hwf Hnd H.
  - cbn. split; [constructor|]. split; [intros n []| reflexivity].
  - inversion Hnd as [|? ? Hnin Hnd']; subst.
    destruct (H n (or_introl eq_refl)) as (k & Hk & -> & Hf).
    pose proof (rec_rpl_safe s k Hwf Hk Hf) as Hv.
    destruct (vsafe_step s _ Hwf Hv) as (s' & Ha & Hwf' & _).
    cbn [rec_rpls]. assert (R1 : run s [rec_rpl s (rpl_of k)] = s') by (cbn; now rewrite Ha).
    rewrite R1.
    assert (Fr : forall q, q <> rpl_of k -> q <> k -> lookup s' q = lookup s q).
    { intros q Q1 Q2. apply apply_frame with (rec_rpl s (rpl_of k)); [assumption|].
      intro Hin. apply rec_rpl_touches in Hin. tauto. }
    assert (Gone : lookup s' (rpl_of k) = None).
    { clear - Ha Hk Hf. unfold rec_rpl in Ha. rewrite strip4_rpl in Ha. destruct Hf as [c Hc].
      destruct (exists_ s k); cbn in Ha; rewrite Hc in Ha.
      - inversion Ha. apply lookup_remove_eq.
      - assert (Ne : path_eqb (rpl_of k) k = false).
        { apply path_eqb_neq. intro E. now apply (key_ne_rpl k k Hk). }
        rewrite Ne in Ha.
        assert (Ne' : k <> rpl_of k) by (intro E; now apply (key_ne_rpl k k Hk)).
        destruct (lookup s k) as [[| |]|]; inversion Ha;
          (rewrite lookup_update_neq by assumption; apply lookup_remove_eq). }
    destruct (IH s' Hwf' Hnd') as (I1 & I2 & I3).
    { intros n' Hn'. destruct (H n' (or_intror Hn')) as (k' & Hk' & -> & [c' Hc']).
      exists k'. split; [assumption|]. split; [reflexivity|]. exists c'. rewrite Fr; [assumption | |].
      - intro E. apply Hnin. now rewrite <- E.
      - intro E. now apply (key_ne_rpl k k' Hk). }
    split; [apply ss_cons with s'; assumption|].
    cbn [run]. rewrite Ha. split.
    + intros n' [<-|Hn']; [|now apply I2].
      (* later steps touch other .rpl names and their keys only *)
      assert (Stay : forall names0 s0, wf s0 ->
                (forall n, In n names0 -> exists k', keyok k' /\ n = rpl_of k' /\ isfile s0 n) -> NoDup names0 ->
                ~ In (rpl_of k) names0 ->
                lookup (run s0 (rec_rpls s0 names0)) (rpl_of k) = lookup s0 (rpl_of k)).
      { clear - Hk. induction names0 as [|m names0 IHn]; intros s0 Hw0 H0 Hnd0 Hnin0; [reflexivity|].
        inversion Hnd0 as [|? ? Hm Hnd0']; subst.
        destruct (H0 m (or_introl eq_refl)) as (km & Hkm & -> & Hfm).
        pose proof (rec_rpl_safe s0 km Hw0 Hkm Hfm) as Hv0.
        destruct (vsafe_step s0 _ Hw0 Hv0) as (s1 & Ha0 & Hw1 & _).
        cbn [rec_rpls run]. rewrite Ha0.
        assert (Fr0 : forall q, q <> rpl_of km -> q <> km -> lookup s1 q = lookup s0 q).
        { intros q Q1 Q2. apply apply_frame with (rec_rpl s0 (rpl_of km)); [assumption|].
          intro Hin. apply rec_rpl_touches in Hin. tauto. }
        assert (R : run s0 [rec_rpl s0 (rpl_of km)] = s1) by (cbn; now rewrite Ha0).
        try rewrite R. rewrite IHn; auto.
        - apply Fr0; [intro E; apply Hnin0; left; now rewrite E | intro E; symmetry in E; now apply (key_ne_rpl km k Hkm)].
        - intros n Hn. destruct (H0 n (or_intror Hn)) as (k' & Hk' & -> & [c' Hc']).
          exists k'. split; [assumption|]. split; [reflexivity|]. exists c'. rewrite Fr0; [assumption | |].
          + intro E. apply Hm. now rewrite <- E.
          + intro E. now apply (key_ne_rpl km k' Hkm).
        - intro Hin. apply Hnin0. now right. }
      rewrite Stay; auto.
      intros n' Hn'. destruct (H n' (or_intror Hn')) as (k' & Hk' & -> & [c' Hc']).
      exists k'. split; [assumption|]. split; [reflexivity|]. exists c'. rewrite Fr; [assumption | |].
      * intro E. apply Hnin. now rewrite <- E.
      * intro E. now apply (key_ne_rpl k k' Hk).
    + intros k' Hk'. rewrite I3 by assumption. apply Fr.
      * apply new_ne_rpl.
      * intro E. symmetry in E. now apply (key_ne_new k k' Hk).
Qed.

(** ---- the whole recovery ---- *)
Lemma glob_new_names : forall s, wf s ->
  forall n, In n (glob s is_new) -> exists k, keyok k /\ n = new_of k /\ isfile s n.
Proof.
  intros s Hwf n Hin. apply glob_In in Hin as [[nd E] Hn].
  destruct (allowed_is_new n (wf_allowed s n nd Hwf E) Hn) as (k & Hk & ->).
  exists k. split; [assumption|]. split; [reflexivity|]. destruct (wf_file s _ nd Hwf E) as [c ->]. now exists c.
Qed.

Lemma glob_rpl_names : forall s, wf s ->
  forall n, In n (glob s is_rpl) -> exists k, keyok k /\ n = rpl_of k /\ isfile s n.
Proof.
  intros s Hwf n Hin. apply glob_In in Hin as [[nd E] Hn].
  destruct (allowed_is_rpl n (wf_allowed s n nd Hwf E) Hn) as (k & Hk & ->).
  exists k. split; [assumption|]. split; [reflexivity|]. destruct (wf_file s _ nd Hwf E) as [c ->]. now exists c.
Qed.

Lemma recover_safe : forall s, wf s -> safe_seq s (recover_prog s).
Proof.
  intros s Hwf. unfold recover_prog.
  assert (S1 : safe_seq s (map SUnlink (glob s is_new))).
  { apply phase1_safe; [apply NoDup_glob; apply Hwf | now apply glob_new_names]. }
  apply safe_seq_app; [assumption|].
  destruct (safe_seq_prefix (map SUnlink (glob s is_new)) [] s Hwf) as (_ & Hwf1 & _ & _);
    [now rewrite app_nil_r|].
  apply phase2_safe; [assumption | apply NoDup_glob; apply Hwf1 | now apply glob_rpl_names].
Qed.

(** R1: a crash anywhere in recovery keeps wf and every key's view *)
Lemma recover_crash : forall s pre suf, wf s -> recover_prog s = pre ++ suf ->
  wf (run s pre) /\ forall k, keyok k -> view (run s pre) k = view s k.
Proof.
  intros s pre suf Hwf E. pose proof (recover_safe s Hwf) as H. rewrite E in H.
  destruct (safe_seq_prefix pre suf s Hwf H) as (_ & H2 & H3 & _). now split.
Qed.

(** R2: a completed recovery leaves a clean database showing exactly the views *)
Lemma recover_complete : forall s, wf s ->
  wf (recover s) /\ clean (recover s) /\ forall k, keyok k -> read (recover s) k = view s k.
Proof.
  intros s Hwf. unfold recover.
  pose proof (recover_safe s Hwf) as Hs.
  destruct (safe_seq_prefix (recover_prog s) [] s Hwf) as (Hok & Hwf' & Hview & _); [now rewrite app_nil_r|].
  assert (Hc : clean (run s (recover_prog s))).
  { unfold recover_prog in *.
    set (l1 := map SUnlink (glob s is_new)) in *. set (s1 := run s l1) in *.
    assert (Ok1 : run_ok s l1 = true /\ wf s1).
    { assert (S1 : safe_seq s l1) by (apply phase1_safe; [apply NoDup_glob; apply Hwf | now apply glob_new_names]).
      destruct (safe_seq_prefix l1 [] s Hwf) as (A & B & _ & _); [now rewrite app_nil_r|]. now split. }
    destruct Ok1 as [Ok1 Hwf1].
    destruct (phase1_effect (glob s is_new) s) as [P1 P2];
      [intros n Hn; now destruct (glob_new_names s Hwf n Hn) as (_ & _ & _ & F) | apply NoDup_glob; apply Hwf|].
    fold l1 in P1, P2. fold s1 in P1, P2.
    destruct (phase2_safe (glob s1 is_rpl) s1 Hwf1) as (_ & Q2 & Q3);
      [apply NoDup_glob; apply Hwf1 | now apply glob_rpl_names|].
    rewrite run_app by assumption. fold s1.
    intros k Hk. split.
    - rewrite Q3 by assumption.
      destruct (lookup s (new_of k)) as [nd|] eqn:E.
      + apply P1. apply glob_In. split; [now exists nd | now apply is_new_new].
      + destruct (in_dec (list_eq_dec N.eq_dec) (new_of k) (glob s is_new)) as [Hin|Hnin];
          [now apply P1 | now rewrite P2].
    - destruct (lookup s1 (rpl_of k)) as [nd|] eqn:E.
      + apply Q2. apply glob_In. split; [now exists nd | now apply is_rpl_rpl].
      + (* nothing creates a .rpl file during recovery *)
        pose proof (recover_safe s Hwf) as Hs'. unfold recover_prog in Hs'. fold l1 in Hs'. fold s1 in Hs'.
        destruct (lookup (run s1 (rec_rpls s1 (glob s1 is_rpl))) (rpl_of k)) as [nd|] eqn:E2; [|reflexivity].
        exfalso.
        assert (Mono : forall l s0, safe_seq s0 l -> forall q, lookup s0 (rpl_of q) = None ->
                         lookup (run s0 l) (rpl_of q) = None).
        { clear. induction l as [|st l IHl]; intros s0 H q Hq; [assumption|].
          inversion H as [|? ? s' ? Hv Ha Hss]; subst. cbn. rewrite Ha. apply IHl; [assumption|].
          destruct Hv as [k0 Hk0 _ | k0 Hk0 _ _ | k0 Hk0 _ _]; cbn in Ha.
          - destruct (lookup s0 (new_of k0)) as [[| |]|]; inversion Ha; subst.
            all: rewrite lookup_remove; destruct (path_eqb (rpl_of q) (new_of k0)); auto.
          - destruct (lookup s0 (rpl_of k0)) as [[| |]|]; inversion Ha; subst.
            all: rewrite lookup_remove; destruct (path_eqb (rpl_of q) (rpl_of k0)); auto.
          - destruct (lookup s0 (rpl_of k0)) as [n0|]; [|discriminate].
            destruct (path_eqb (rpl_of k0) k0); [inversion Ha; now subst|].
            assert (G : lookup (update (remove s0 (rpl_of k0)) k0 n0) (rpl_of q) = None).
            { rewrite lookup_update_neq by (intro E'; now apply (key_ne_rpl k0 q Hk0)).
              rewrite lookup_remove. destruct (path_eqb (rpl_of q) (rpl_of k0)); auto. }
            destruct (lookup s0 k0) as [[| |]|]; destruct n0; inversion Ha; subst; exact G. }
        assert (S2 : safe_seq s1 (rec_rpls s1 (glob s1 is_rpl))).
        { apply phase2_safe; [assumption | apply NoDup_glob; apply Hwf1 | now apply glob_rpl_names]. }
        rewrite (Mono _ _ S2 k E) in E2. discriminate. }
  split; [assumption|]. split; [assumption|].
  intros k Hk. rewrite <- (Hview k Hk). symmetry. now apply view_clean.
Qed.

(** nested crashes *)
Lemma rec_reach_view : forall s s', rec_reach s s' -> wf s ->
  wf s' /\ forall k, keyok k -> view s' k = view s k.
Proof.
  intros s s' H. induction H as [s | s pre suf s' E _ IH]; intro Hwf.
  - now split.
  - destruct (recover_crash s pre suf Hwf E) as [Hw Hv]. destruct (IH Hw) as [Hw' Hv'].
    split; [assumption|]. intros k Hk. rewrite (Hv' k Hk). now apply Hv.
Qed.
