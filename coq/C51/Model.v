(** C51: twisted.persisted.dirdbm.DirDBM on TwLib.Fs (the flat namespace is the database directory).

    A key is the file name [_encode] produces: non-empty, no '.' (base64 alphabet plus '_', '-', '=').
      d[k] = v   k absent:  write k.new, rename k.new -> k
                 k present: write k.rpl, remove k, rename k.rpl -> k
      del d[k]   remove k
      DirDBM(dir) on an existing directory (recovery):
                 for f in glob("*.new"): remove f
                 for f in glob("*.rpl"): remove f if exists(f[:-4]) else rename f -> f[:-4]
    [_writeFile] is open(path, "wb") + write + flush + close: one [SCreat] and one [SAppend] per byte, so
    a crash after any prefix of the steps includes partial writes of every length. *)
From Coq Require Import List NArith Bool.
From TwLib Require Import Fs.
Import ListNotations.

Definition sfx_new : path := [46; 110; 101; 119]%N.   (* ".new" *)
Definition sfx_rpl : path := [46; 114; 112; 108]%N.   (* ".rpl" *)
Definition new_of (k : path) : path := k ++ sfx_new.
Definition rpl_of (k : path) : path := k ++ sfx_rpl.

(** glob "*.new" / "*.rpl": the suffix, and '*' does not match a leading '.' *)
Definition ends_new (n : path) : bool :=
  match rev n with
  | a :: b :: c :: d :: _ => N.eqb a 119 && N.eqb b 101 && N.eqb c 110 && N.eqb d 46
  | _ => false
  end.
Definition ends_rpl (n : path) : bool :=
  match rev n with
  | a :: b :: c :: d :: _ => N.eqb a 108 && N.eqb b 112 && N.eqb c 114 && N.eqb d 46
  | _ => false
  end.
Definition hidden (n : path) : bool := match n with a :: _ => N.eqb a 46 | [] => false end.
Definition is_new (n : path) : bool := ends_new n && negb (hidden n).
Definition is_rpl (n : path) : bool := ends_rpl n && negb (hidden n).
(** f[:-4] *)
Definition strip4 (n : path) : path := rev (skipn 4 (rev n)).

Inductive dop := DSet (k : path) (v : list N) | DDel (k : path).

Definition key_of (o : dop) : path := match o with DSet k _ | DDel k => k end.

(** NAME_MAX: a directory entry holds at most 255 bytes.  The temporary of a set is the key's file name
    plus a 4-byte extension; when that does not fit, open() refuses it (ENAMETOOLONG), the set raises
    OSError before anything is created and the store is unchanged: the operation has no steps.  (File
    names of 252..255 bytes therefore can never be stored; raw keys of 184..186 bytes encode to 252.) *)
Definition NAME_MAX : nat := 255.
Definition fits (k : path) : bool := Nat.leb (length k + 4) NAME_MAX.

(** the system calls of one operation, decided (as the code does) by whether the key's file exists *)
Definition op_prog (s : fs) (o : dop) : list step :=
  match o with
  | DSet k v =>
      if fits k then
        if exists_ s k
        then SCreat (rpl_of k) :: write_steps (rpl_of k) v ++ [SUnlink k; SRename (rpl_of k) k]
        else SCreat (new_of k) :: write_steps (new_of k) v ++ [SRename (new_of k) k]
      else []
  | DDel k => [SUnlink k]
  end.

(** a history of completed operations *)
Fixpoint run_ops (s : fs) (ops : list dop) : fs :=
  match ops with
  | [] => s
  | o :: r => run_ops (run s (op_prog s o)) r
  end.

(** recovery: second loop, the decision for each file is taken when its turn comes *)
Definition rec_rpl (s : fs) (n : path) : step :=
  if exists_ s (strip4 n) then SUnlink n else SRename n (strip4 n).

Fixpoint rec_rpls (s : fs) (names : list path) : list step :=
  match names with
  | [] => []
  | n :: r => let st := rec_rpl s n in st :: rec_rpls (run s [st]) r
  end.

Definition recover_prog (s : fs) : list step :=
  let l1 := map SUnlink (glob s is_new) in
  let s1 := run s l1 in
  l1 ++ rec_rpls s1 (glob s1 is_rpl).

Definition recover (s : fs) : fs := run s (recover_prog s).

(** ---- specification ---- *)

(** key names *)
Definition keyok (k : path) : Prop := k <> [] /\ ~ In 46%N k.

(** what a reopened database will show for key [k], read off a (possibly crashed) state:
    the key's own file if there is one, else a complete replacement waiting to be renamed *)
Definition view (s : fs) (k : path) : option (list N) :=
  match read s k with
  | Some c => Some c
  | None => read s (rpl_of k)
  end.

(** the abstract database: the effect of an operation on one key *)
Definition spec_op (o : dop) (k : path) (old : option (list N)) : option (list N) :=
  match o with
  | DSet k' v => if path_eqb k k' && fits k' then Some v else old
  | DDel k' => if path_eqb k k' then None else old
  end.

Fixpoint spec_ops (ops : list dop) (k : path) (old : option (list N)) : option (list N) :=
  match ops with
  | [] => old
  | o :: r => spec_ops r k (spec_op o k old)
  end.

(** only DirDBM's own files, all regular, each name once *)
Definition wf (s : fs) : Prop :=
  NoDup (keys s)
  /\ forall n nd, lookup s n = Some nd ->
       (exists c, nd = File c) /\ exists k, keyok k /\ (n = k \/ n = new_of k \/ n = rpl_of k).

(** no temporary of either kind *)
Definition clean (s : fs) : Prop :=
  forall k, keyok k -> lookup s (new_of k) = None /\ lookup s (rpl_of k) = None.

(** states reachable from [s] by recovery attempts that crash after any prefix of their steps
    (each new attempt recomputes its program from the state it finds) *)
Inductive rec_reach : fs -> fs -> Prop :=
| rr_refl : forall s, rec_reach s s
| rr_crash : forall s pre suf s', recover_prog s = pre ++ suf -> rec_reach (run s pre) s' -> rec_reach s s'.
