From Coq Require Import List NArith Bool.
From TwLib Require Import HttpClientBytes Uri.
From C27 Require Import Model Proofs.
Import ListNotations.
Theorem stub_t : forall cfg m u hs, snd (run cfg false m u hs []) = Waiting.
Proof. exact stub. Qed.
Print Assumptions stub_t.
