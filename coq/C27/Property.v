(** C27 property theorems: RedirectAgent / BrowserLikeRedirectAgent (twisted.web.client), repaired
    by fixes/C27-redirect-base-uri.patch.  [run cfg false] is the repaired agent, [run cfg true] the
    code at the pinned commit.  Every theorem is for ALL configurations (status lists, limit,
    sensitive names), methods, URIs, header sets and response chains of ANY length.
    [tw_urljoin], [same_origin] are the transcriptions of urllib's urljoin/urldefrag and of
    URI.fromBytes in Lib/Uri.v. *)
From Coq Require Import List NArith Bool.
From TwLib Require Import HttpClientBytes Uri.
From C27 Require Import Model Spec Proofs.
Import ListNotations.
Local Open Scope N_scope.

(** the first request is the caller's; every later request goes to the Location of the response
    just received, resolved against the URI of the request that response answered *)
Theorem target_resolved_against_redirecting_request : forall cfg method uri hs resps,
  let reqs := fst (run cfg false method uri hs resps) in
  hd_error reqs = Some (mkRequest method uri hs) /\ chain_ok uri resps (tl reqs).
Proof. exact run_chain. Qed.
Print Assumptions target_resolved_against_redirecting_request.

(** FULL statement above is FALSE of the unrepaired code (finding F9):
    http://a.example/p/q -> 302 http://b.example/x/y/ -> 302 "z" : third request to http://a.example/p/z *)
Theorem target_resolved_against_redirecting_request_legacy_refuted :
  exists cfg method uri hs resps,
    ~ chain_ok uri resps (tl (fst (run cfg true method uri hs resps))).
Proof. exact (ex_intro _ f9_cfg (ex_intro _ GET (ex_intro _ f9_uri (ex_intro _ None (ex_intro _ f9_resps legacy_refuted))))). Qed.
Print Assumptions target_resolved_against_redirecting_request_legacy_refuted.

(** never more than redirectLimit redirects are followed; InfiniteRedirection is reported exactly
    when the limit has been used up  (both for the repaired and the unrepaired code) *)
Theorem at_most_limit_followed : forall cfg legacy method uri hs resps,
  let r := run cfg legacy method uri hs resps in
  N.of_nat (length (tl (fst r))) <= limit cfg
  /\ (forall c, snd r = ErrInfinite c -> N.of_nat (length (tl (fst r))) = limit cfg).
Proof. exact run_limit. Qed.
Print Assumptions at_most_limit_followed.

(** each followed redirect keeps the method (which is then GET or HEAD) for the status codes of
    _redirectResponses (301/302/307/308 for RedirectAgent; 307 for BrowserLikeRedirectAgent) and uses
    GET for those of _seeOtherResponses (303; 301/302/303/308 for the browser-like agent) *)
Theorem method_preserved_307_308_else_GET_per_docs : forall cfg legacy method uri hs resps,
  methods_ok cfg method resps (tl (fst (run cfg legacy method uri hs resps))).
Proof. exact run_methods. Qed.
Print Assumptions method_preserved_307_308_else_GET_per_docs.

(** a request that carries a header whose name is sensitive goes to the origin (scheme, host, port)
    of the original request; non-sensitive headers are never dropped; the header set is the
    caller's or the caller's minus the sensitive names, nothing else *)
Theorem sensitive_headers_only_to_original_origin : forall cfg legacy method uri hs resps,
  Forall (fun q => (carries_sensitive cfg q -> same_origin uri (q_uri q) = true)
                   /\ match q_headers q, hs with
                      | Some h, Some h0 => strip cfg h = strip cfg h0 /\ (h = h0 \/ h = strip cfg h0)
                      | None, None => True
                      | _, _ => False
                      end)
         (tl (fst (run cfg legacy method uri hs resps))).
Proof. exact run_sensitive. Qed.
Print Assumptions sensitive_headers_only_to_original_origin.

(** several chains in flight through ONE agent, their pending requests answered in ANY interleaving
    ([sched] says which chain is answered next): the agent carries no state of its own - everything
    a chain needs travels in its own Deferred's callback arguments - so each chain ends exactly as
    if it had run alone against the responses it was given; every theorem above therefore holds per
    chain whatever else goes on through the same agent *)
Theorem interleaving_of_chains_cannot_matter : forall cfg sched chains j m u hs resps,
  nth_error chains j = Some (m, u, hs, resps) ->
  let sts := map (fun c : bytes * bytes * option headers * list response =>
                    let '(m, u, hs, resps) := c in c_start m u hs resps) chains in
  exists st, nth_error (sched_run cfg sched sts) j = Some st
             /\ (c_reqs st, c_out st) = run cfg false m u hs (firstn (count_occ PeanoNat.Nat.eq_dec sched j) resps).
Proof. exact interleaving_independent. Qed.
Print Assumptions interleaving_of_chains_cannot_matter.
