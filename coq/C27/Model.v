(** C27 Model: twisted.web.client.RedirectAgent (and BrowserLikeRedirectAgent: the two status
    lists are parameters) as a recursion over the chain of responses the wrapped agent returns.

    [follow] models _handleResponse/_handleRedirect WITH the repair of
    fixes/C27-redirect-base-uri.patch: a Location is resolved against the URI of the request that
    received the redirect ([cur]); the sensitive-header decision still compares with the origin of
    the original request ([orig]).  [follow_legacy] is the code at the pinned commit (it resolves
    against [orig] at every hop: finding F9).  No proofs here. *)
From Coq Require Import List NArith Bool.
From TwLib Require Import HttpClientBytes Uri.
Import ListNotations.
Local Open Scope N_scope.

Definition GET : bytes := [71; 69; 84].
Definition HEAD : bytes := [72; 69; 65; 68].

Definition headers := list (bytes * list bytes).     (* canonical name, values *)

Record request := mkRequest {
  q_method : bytes;
  q_uri : bytes;
  q_headers : option headers }.                       (* None = the caller passed headers=None *)

(** a response of the wrapped agent: status code and its Location values *)
Record response := mkResponse { p_code : N; p_locations : list bytes }.

Inductive outcome :=
| Final (code : N)                (* the Deferred fires with this response *)
| ErrInfinite (code : N)          (* ResponseFailed[InfiniteRedirection] *)
| ErrNoLocation (code : N)        (* ResponseFailed[RedirectWithNoLocation] *)
| ErrPageRedirect (code : N)      (* ResponseFailed[PageRedirect]: 301/302/307/308 on a non-GET/HEAD *)
| Waiting.                        (* the wrapped agent has not answered yet *)

Record config := mkConfig {
  redirect_codes : list N;        (* _redirectResponses *)
  see_other_codes : list N;       (* _seeOtherResponses *)
  limit : N;                      (* redirectLimit *)
  sensitive : list bytes }.       (* _sensitiveHeaderNames (canonical), defaults included *)

Definition default_sensitive : list bytes :=
  [[65; 117; 116; 104; 111; 114; 105; 122; 97; 116; 105; 111; 110];
   [67; 111; 111; 107; 105; 101];
   [67; 111; 111; 107; 105; 101; 50];
   [80; 114; 111; 120; 121; 45; 65; 117; 116; 104; 111; 114; 105; 122; 97; 116; 105; 111; 110];
   [87; 87; 87; 45; 65; 117; 116; 104; 101; 110; 116; 105; 99; 97; 116; 101]].

Definition memN (x : N) (l : list N) : bool := existsb (N.eqb x) l.

Definition strip (cfg : config) (hs : headers) : headers :=
  filter (fun h => negb (memb_bytes (fst h) (sensitive cfg))) hs.

Section Agent.
  Variable cfg : config.
  (** which URI a Location is resolved against: repaired = the current request's *)
  Variable legacy : bool.

  Fixpoint follow (resps : list response) (method orig cur : bytes) (hs : option headers)
           (count : N) : list request * outcome :=
    match resps with
    | [] => ([], Waiting)
    | r :: rest =>
        let redirect (m : bytes) :=
          if limit cfg <=? count then ([], ErrInfinite (p_code r))
          else match p_locations r with
               | [] => ([], ErrNoLocation (p_code r))
               | loc :: _ =>
                   let location := tw_urljoin (if legacy then orig else cur) loc in
                   let hs' := match hs with
                              | None => None
                              | Some h => if same_origin orig location then Some h
                                          else Some (strip cfg h)
                              end in
                   let '(reqs, out) := follow rest m orig location hs' (count + 1) in
                   (mkRequest m location hs' :: reqs, out)
               end in
        if memN (p_code r) (redirect_codes cfg) then
          if eqb_bytes method GET || eqb_bytes method HEAD then redirect method
          else ([], ErrPageRedirect (p_code r))
        else if memN (p_code r) (see_other_codes cfg) then redirect GET
        else ([], Final (p_code r))
    end.

  (** RedirectAgent.request *)
  Definition run (method uri : bytes) (hs : option headers) (resps : list response)
    : list request * outcome :=
    let '(reqs, out) := follow resps method uri uri hs 0 in
    (mkRequest method uri hs :: reqs, out).
End Agent.

(** * several redirect chains in flight through ONE agent, answered in any interleaving.

    The agent keeps no per-request state of its own: everything a chain needs (method, original URI,
    current URI, headers, count) travels in the callback arguments of its own Deferred.  [cstate] is
    that per-chain state plus what the chain has issued so far; answering the pending request of
    chain [i] touches chain [i] only. *)
Record cstate := mkC {
  c_left : list response;      (* what the wrapped agent will answer to this chain, in order *)
  c_method : bytes;
  c_orig : bytes;
  c_cur : bytes;
  c_hs : option headers;
  c_count : N;
  c_reqs : list request;       (* requests issued so far, in order *)
  c_out : outcome }.

Definition is_waiting (o : outcome) : bool := match o with Waiting => true | _ => false end.

Definition c_start (method uri : bytes) (hs : option headers) (resps : list response) : cstate :=
  mkC resps method uri uri hs 0 [mkRequest method uri hs] Waiting.

Section Interleaved.
  Variable cfg : config.

  (** the wrapped agent answers this chain's pending request *)
  Definition advance (st : cstate) : cstate :=
    if negb (is_waiting (c_out st)) then st
    else match c_left st with
         | [] => st
         | r :: rest =>
             let '(reqs, out) := follow cfg false [r] (c_method st) (c_orig st) (c_cur st) (c_hs st) (c_count st) in
             match reqs with
             | q :: _ => mkC rest (q_method q) (c_orig st) (q_uri q) (q_headers q) (c_count st + 1)
                             (c_reqs st ++ [q]) out
             | [] => mkC rest (c_method st) (c_orig st) (c_cur st) (c_hs st) (c_count st) (c_reqs st) out
             end
         end.

  Fixpoint update_nth {A} (i : nat) (f : A -> A) (l : list A) : list A :=
    match l, i with
    | [], _ => []
    | x :: r, O => f x :: r
    | x :: r, S i' => x :: update_nth i' f r
    end.

  (** [sched] = which chain is answered next, step after step *)
  Fixpoint sched_run (sched : list nat) (sts : list cstate) : list cstate :=
    match sched with
    | [] => sts
    | i :: r => sched_run r (update_nth i advance sts)
    end.
End Interleaved.
