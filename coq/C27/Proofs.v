(** C27 proofs: every statement is for all configurations, methods, URIs, header sets and
    response chains of any length. *)
From Coq Require Import List NArith Bool Arith Lia.
From TwLib Require Import HttpClientBytes Uri.
From C27 Require Import Model Spec.
Import ListNotations.
Local Open Scope N_scope.

(** one unfolding of [follow] in a form convenient for case analysis *)
Inductive step_result :=
| SStop (o : outcome)
| SGo (m : bytes) (location : bytes) (hs' : option headers).

Definition step (cfg : config) (legacy : bool) (r : response) (method orig cur : bytes)
           (hs : option headers) (count : N) : step_result :=
  let redirect (m : bytes) :=
    if limit cfg <=? count then SStop (ErrInfinite (p_code r))
    else match p_locations r with
         | [] => SStop (ErrNoLocation (p_code r))
         | loc :: _ =>
             let location := tw_urljoin (if legacy then orig else cur) loc in
             SGo m location
                 (match hs with
                  | None => None
                  | Some h => if same_origin orig location then Some h else Some (strip cfg h)
                  end)
         end in
  if memN (p_code r) (redirect_codes cfg) then
    if eqb_bytes method GET || eqb_bytes method HEAD then redirect method
    else SStop (ErrPageRedirect (p_code r))
  else if memN (p_code r) (see_other_codes cfg) then redirect GET
  else SStop (Final (p_code r)).

Lemma follow_step : forall cfg legacy r rest method orig cur hs count,
  follow cfg legacy (r :: rest) method orig cur hs count =
  match step cfg legacy r method orig cur hs count with
  | SStop o => ([], o)
  | SGo m location hs' =>
      let '(reqs, out) := follow cfg legacy rest m orig location hs' (count + 1) in
      (mkRequest m location hs' :: reqs, out)
  end.
Proof.
  intros. cbn [follow]. unfold step.
  destruct (memN (p_code r) (redirect_codes cfg)).
  - destruct (eqb_bytes method GET || eqb_bytes method HEAD); [|reflexivity].
    destruct (limit cfg <=? count); [reflexivity|].
    destruct (p_locations r); reflexivity.
  - destruct (memN (p_code r) (see_other_codes cfg)); [|reflexivity].
    destruct (limit cfg <=? count); [reflexivity|].
    destruct (p_locations r); reflexivity.
Qed.

(** what a [SGo] step guarantees *)
Lemma step_go : forall cfg legacy r method orig cur hs count m location hs',
  step cfg legacy r method orig cur hs count = SGo m location hs' ->
  count < limit cfg
  /\ (exists loc others, p_locations r = loc :: others
                         /\ location = tw_urljoin (if legacy then orig else cur) loc)
  /\ ((memN (p_code r) (redirect_codes cfg) = true /\ m = method /\ (method = GET \/ method = HEAD))
      \/ (memN (p_code r) (redirect_codes cfg) = false /\ memN (p_code r) (see_other_codes cfg) = true
          /\ m = GET))
  /\ hs' = match hs with
           | None => None
           | Some h => if same_origin orig location then Some h else Some (strip cfg h)
           end.
Proof.
  intros cfg legacy r method orig cur hs count m location hs' H. unfold step in H.
  destruct (memN (p_code r) (redirect_codes cfg)) eqn:Er.
  - destruct (eqb_bytes method GET || eqb_bytes method HEAD) eqn:Em; [|discriminate].
    destruct (limit cfg <=? count) eqn:El; [discriminate|].
    destruct (p_locations r) as [|loc others] eqn:Eloc; [discriminate|].
    inversion H; subst. apply N.leb_gt in El.
    repeat split; try assumption; eauto.
    left. repeat split.
    apply orb_true_iff in Em. destruct Em as [Em | Em]; apply eqb_bytes_spec in Em; auto.
  - destruct (memN (p_code r) (see_other_codes cfg)) eqn:Es; [|discriminate].
    destruct (limit cfg <=? count) eqn:El; [discriminate|].
    destruct (p_locations r) as [|loc others] eqn:Eloc; [discriminate|].
    inversion H; subst. apply N.leb_gt in El.
    repeat split; try assumption; eauto.
Qed.

(** * target_resolved_against_redirecting_request *)
Lemma follow_chain : forall cfg resps method orig cur hs count,
  chain_ok cur resps (fst (follow cfg false resps method orig cur hs count)).
Proof.
  induction resps as [|r rest IH]; intros method orig cur hs count; [exact I|].
  rewrite follow_step.
  destruct (step cfg false r method orig cur hs count) as [o | m location hs'] eqn:Es; [exact I|].
  apply step_go in Es. destruct Es as (_ & (loc & others & Hl & Hloc) & _ & _).
  specialize (IH m orig location hs' (count + 1)).
  destruct (follow cfg false rest m orig location hs' (count + 1)) as [reqs out].
  cbn [fst chain_ok q_uri] in *. split; [|assumption]. eauto.
Qed.

Lemma run_chain : forall cfg method uri hs resps,
  let reqs := fst (run cfg false method uri hs resps) in
  hd_error reqs = Some (mkRequest method uri hs) /\ chain_ok uri resps (tl reqs).
Proof.
  intros. unfold reqs, run.
  pose proof (follow_chain cfg resps method uri uri hs 0) as H.
  destruct (follow cfg false resps method uri uri hs 0) as [rs out]. cbn in *. auto.
Qed.

(** * at_most_limit_followed *)
Lemma follow_limit : forall cfg legacy resps method orig cur hs count,
  N.of_nat (length (fst (follow cfg legacy resps method orig cur hs count))) + count <= N.max (limit cfg) count.
Proof.
  induction resps as [|r rest IH]; intros method orig cur hs count; [cbn; lia|].
  rewrite follow_step.
  destruct (step cfg legacy r method orig cur hs count) as [o | m location hs'] eqn:Es; [cbn; lia|].
  apply step_go in Es. destruct Es as (Hlt & _).
  specialize (IH m orig location hs' (count + 1)).
  destruct (follow cfg legacy rest m orig location hs' (count + 1)) as [reqs out].
  cbn [fst length] in *. lia.
Qed.

Lemma follow_infinite : forall cfg legacy resps method orig cur hs count c,
  snd (follow cfg legacy resps method orig cur hs count) = ErrInfinite c ->
  count <= limit cfg ->
  N.of_nat (length (fst (follow cfg legacy resps method orig cur hs count))) + count = limit cfg.
Proof.
  induction resps as [|r rest IH]; intros method orig cur hs count c Ho Hc; [discriminate|].
  rewrite follow_step in *.
  destruct (step cfg legacy r method orig cur hs count) as [o | m location hs'] eqn:Es.
  - cbn [fst snd length] in *. subst o. unfold step in Es.
    destruct (memN (p_code r) (redirect_codes cfg)).
    + destruct (eqb_bytes method GET || eqb_bytes method HEAD); [|discriminate].
      destruct (limit cfg <=? count) eqn:El.
      * apply N.leb_le in El. lia.
      * destruct (p_locations r); discriminate.
    + destruct (memN (p_code r) (see_other_codes cfg)); [|discriminate].
      destruct (limit cfg <=? count) eqn:El.
      * apply N.leb_le in El. lia.
      * destruct (p_locations r); discriminate.
  - apply step_go in Es. destruct Es as (Hlt & _).
    specialize (IH m orig location hs' (count + 1) c).
    destruct (follow cfg legacy rest m orig location hs' (count + 1)) as [reqs out].
    cbn [fst snd length] in *. specialize (IH Ho). lia.
Qed.

Lemma run_limit : forall cfg legacy method uri hs resps,
  let r := run cfg legacy method uri hs resps in
  N.of_nat (length (tl (fst r))) <= limit cfg
  /\ (forall c, snd r = ErrInfinite c -> N.of_nat (length (tl (fst r))) = limit cfg).
Proof.
  intros. unfold r, run.
  pose proof (follow_limit cfg legacy resps method uri uri hs 0) as H1.
  pose proof (follow_infinite cfg legacy resps method uri uri hs 0) as H2.
  destruct (follow cfg legacy resps method uri uri hs 0) as [rs out]. cbn [fst snd tl] in *.
  split; [lia|]. intros c Hc. specialize (H2 c Hc). lia.
Qed.

(** * method_preserved_307_308_else_GET_per_docs *)
Lemma follow_methods : forall cfg legacy resps method orig cur hs count,
  methods_ok cfg method resps (fst (follow cfg legacy resps method orig cur hs count)).
Proof.
  induction resps as [|r rest IH]; intros method orig cur hs count; [exact I|].
  rewrite follow_step.
  destruct (step cfg legacy r method orig cur hs count) as [o | m location hs'] eqn:Es; [exact I|].
  apply step_go in Es. destruct Es as (_ & _ & Hm & _).
  specialize (IH m orig location hs' (count + 1)).
  destruct (follow cfg legacy rest m orig location hs' (count + 1)) as [reqs out].
  cbn [fst methods_ok q_method] in *. split; [|assumption].
  destruct Hm as [(H1 & H2 & H3) | (H1 & H2 & H3)]; [left | right]; subst; auto.
Qed.

(** * sensitive_headers_only_to_original_origin *)
Lemma strip_no_sensitive : forall cfg h x,
  In x (strip cfg h) -> memb_bytes (fst x) (sensitive cfg) = false.
Proof.
  intros cfg h x H. unfold strip in H. apply filter_In in H. destruct H as [_ H].
  now apply negb_true_iff in H.
Qed.

Lemma strip_idem : forall cfg h, strip cfg (strip cfg h) = strip cfg h.
Proof.
  intros cfg h. unfold strip. induction h as [|x h IH]; [reflexivity|].
  cbn [filter]. destruct (negb (memb_bytes (fst x) (sensitive cfg))) eqn:E.
  - cbn [filter]. rewrite E. now rewrite IH.
  - assumption.
Qed.

Definition stripped_view (cfg : config) (hs : option headers) : option headers :=
  match hs with None => None | Some h => Some (strip cfg h) end.

Lemma follow_sensitive : forall cfg legacy resps method orig cur hs count,
  Forall (fun q => (carries_sensitive cfg q -> same_origin orig (q_uri q) = true)
                   /\ stripped_view cfg (q_headers q) = stripped_view cfg hs
                   /\ (q_headers q = hs \/ q_headers q = stripped_view cfg hs))
         (fst (follow cfg legacy resps method orig cur hs count)).
Proof.
  induction resps as [|r rest IH]; intros method orig cur hs count; [constructor|].
  rewrite follow_step.
  destruct (step cfg legacy r method orig cur hs count) as [o | m location hs'] eqn:Es; [constructor|].
  apply step_go in Es. destruct Es as (_ & _ & _ & Hh).
  specialize (IH m orig location hs' (count + 1)).
  destruct (follow cfg legacy rest m orig location hs' (count + 1)) as [reqs out].
  cbn [fst] in *.
  assert (Hview : stripped_view cfg hs' = stripped_view cfg hs).
  { subst hs'. destruct hs as [h|]; [|reflexivity].
    destruct (same_origin orig location); [reflexivity|]. cbn. now rewrite strip_idem. }
  assert (Hcase : hs' = hs \/ hs' = stripped_view cfg hs).
  { subst hs'. destruct hs as [h|]; [|now left].
    destruct (same_origin orig location); [now left | now right]. }
  constructor.
  - cbn [q_headers q_uri]. repeat split; try assumption.
    intros (h & x & Hq & Hin & Hs). subst hs'.
    destruct hs as [h0|]; [|discriminate].
    destruct (same_origin orig location) eqn:Eo; [reflexivity|].
    inversion Hq; subst h. apply strip_no_sensitive in Hin. congruence.
  - eapply Forall_impl; [|exact IH]. cbn beta. intros q (H1 & H2 & H3).
    repeat split; [assumption | congruence |].
    destruct Hcase as [Hc | Hc]; rewrite Hc in *.
    + assumption.
    + right. destruct H3 as [H3 | H3]; [assumption|].
      rewrite H3. destruct hs as [h|]; [|reflexivity]. cbn. now rewrite strip_idem.
Qed.

Lemma run_methods : forall cfg legacy method uri hs resps,
  methods_ok cfg method resps (tl (fst (run cfg legacy method uri hs resps))).
Proof.
  intros. unfold run.
  pose proof (follow_methods cfg legacy resps method uri uri hs 0) as H.
  destruct (follow cfg legacy resps method uri uri hs 0). exact H.
Qed.

Lemma run_sensitive : forall cfg legacy method uri hs resps,
  Forall (fun q => (carries_sensitive cfg q -> same_origin uri (q_uri q) = true)
                   /\ match q_headers q, hs with
                      | Some h, Some h0 => strip cfg h = strip cfg h0 /\ (h = h0 \/ h = strip cfg h0)
                      | None, None => True
                      | _, _ => False
                      end)
         (tl (fst (run cfg legacy method uri hs resps))).
Proof.
  intros. unfold run.
  pose proof (follow_sensitive cfg legacy resps method uri uri hs 0) as H.
  destruct (follow cfg legacy resps method uri uri hs 0) as [reqs out]. cbn [fst tl] in *.
  eapply Forall_impl; [|exact H]. cbn beta. intros q (H1 & H2 & H3). split; [assumption|].
  unfold stripped_view in *.
  destruct (q_headers q) as [h|], hs as [h0|]; try discriminate; try exact I;
    try (destruct H3; discriminate).
  split; [congruence|]. destruct H3 as [H3 | H3]; inversion H3; auto.
Qed.

(** * F9: the code at the pinned commit resolves against the original URI *)
Definition f9_cfg : config := mkConfig [301; 302; 307; 308] [303] 20 default_sensitive.
Definition f9_uri : bytes := [104;116;116;112;58;47;47;97;46;101;120;97;109;112;108;101;47;112;47;113].
  (* http://a.example/p/q *)
Definition f9_resps : list response :=
  [mkResponse 302 [[104;116;116;112;58;47;47;98;46;101;120;97;109;112;108;101;47;120;47;121;47]];
     (* http://b.example/x/y/ *)
   mkResponse 302 [[122]];                                        (* z *)
   mkResponse 200 []].

Lemma legacy_refuted :
  ~ chain_ok f9_uri f9_resps (tl (fst (run f9_cfg true GET f9_uri None f9_resps))).
Proof.
  remember (tl (fst (run f9_cfg true GET f9_uri None f9_resps))) as reqs eqn:E.
  vm_compute in E. subst reqs. unfold f9_resps.
  cbn [chain_ok p_locations q_uri].
  intros (_ & (loc & others & Hl & Hu) & _).
  inversion Hl; subst loc others. vm_compute in Hu. discriminate Hu.
Qed.

Lemma legacy_third_request :
  map q_uri (fst (run f9_cfg true GET f9_uri None f9_resps)) =
  [f9_uri;
   [104;116;116;112;58;47;47;98;46;101;120;97;109;112;108;101;47;120;47;121;47];
   [104;116;116;112;58;47;47;97;46;101;120;97;109;112;108;101;47;112;47;122]]  (* http://a.example/p/z *)
  /\ map q_uri (fst (run f9_cfg false GET f9_uri None f9_resps)) =
  [f9_uri;
   [104;116;116;112;58;47;47;98;46;101;120;97;109;112;108;101;47;120;47;121;47];
   [104;116;116;112;58;47;47;98;46;101;120;97;109;112;108;101;47;120;47;121;47;122]]. (* .../x/y/z *)
Proof. split; vm_compute; reflexivity. Qed.

(** the two agree as long as at most one redirect is followed *)
Lemma legacy_agrees_first_hop : forall cfg r method uri hs,
  step cfg true r method uri uri hs 0 = step cfg false r method uri uri hs 0.
Proof. reflexivity. Qed.

(** a non-trivial instance: sensitive headers are dropped on the cross-origin hop and stay dropped *)
Example sensitive_example :
  let auth : bytes * list bytes := (nth 0 default_sensitive [], [[115]]) in
  let acc : bytes * list bytes := ([65; 99; 99; 101; 112; 116], [[42]]) in
  map q_headers (fst (run f9_cfg false GET f9_uri (Some [auth; acc]) f9_resps)) =
  [Some [auth; acc]; Some [acc]; Some [acc]].
Proof. vm_compute. reflexivity. Qed.

(** * several chains through one agent: the interleaving cannot matter *)
Section InterleavedFacts.
  Variable cfg : config.

  Lemma follow_cons : forall r rest method orig cur hs count,
    follow cfg false (r :: rest) method orig cur hs count =
    let '(reqs1, out1) := follow cfg false [r] method orig cur hs count in
    match reqs1 with
    | q :: _ =>
        let '(reqs2, out2) := follow cfg false rest (q_method q) orig (q_uri q) (q_headers q) (count + 1) in
        (q :: reqs2, out2)
    | [] => ([], out1)
    end.
  Proof.
    intros. rewrite (follow_step cfg false r rest), (follow_step cfg false r []).
    destruct (step cfg false r method orig cur hs count) as [o | m location hs']; [reflexivity|].
    cbn [follow q_method q_uri q_headers].
    destruct (follow cfg false rest m orig location hs' (count + 1)); reflexivity.
  Qed.

  Fixpoint iter {A} (n : nat) (f : A -> A) (x : A) : A :=
    match n with O => x | S n' => iter n' f (f x) end.

  Lemma advance_done : forall st, is_waiting (c_out st) = false -> advance cfg st = st.
  Proof. intros st H. unfold advance. now rewrite H. Qed.

  Lemma iter_advance_done : forall n st, is_waiting (c_out st) = false -> iter n (advance cfg) st = st.
  Proof. induction n as [|n IH]; intros st H; [reflexivity|]. cbn. rewrite advance_done by assumption. now apply IH. Qed.

  Lemma iter_advance_empty : forall n st, c_left st = [] -> iter n (advance cfg) st = st.
  Proof.
    induction n as [|n IH]; intros st H; [reflexivity|]. cbn.
    assert (E : advance cfg st = st) by (unfold advance; rewrite H; now destruct (negb _)).
    rewrite E. now apply IH.
  Qed.

  (** answering a chain [n] times = following the first [n] responses of its script *)
  Lemma iter_advance_follow : forall n st,
    c_out st = Waiting ->
    let F := follow cfg false (firstn n (c_left st)) (c_method st) (c_orig st) (c_cur st) (c_hs st) (c_count st) in
    c_reqs (iter n (advance cfg) st) = c_reqs st ++ fst F /\ c_out (iter n (advance cfg) st) = snd F.
  Proof.
    induction n as [|n IH]; intros st Hw; cbn zeta.
    - cbn. rewrite app_nil_r. auto.
    - destruct (c_left st) as [|r rest] eqn:El.
      + rewrite iter_advance_empty by assumption. cbn. rewrite app_nil_r. auto.
      + cbn [firstn]. rewrite follow_cons.
        cbn [iter]. unfold advance at 2 4. rewrite Hw, El. cbn [is_waiting negb].
        destruct (follow cfg false [r] (c_method st) (c_orig st) (c_cur st) (c_hs st) (c_count st))
          as [reqs1 out1] eqn:E1.
        destruct reqs1 as [|q reqs1'].
        * (* the chain ended with this response *)
          assert (Ho : is_waiting out1 = false).
          { rewrite (follow_step cfg false r []) in E1.
            destruct (step cfg false r (c_method st) (c_orig st) (c_cur st) (c_hs st) (c_count st)) as [o|m l h] eqn:Es.
            - inversion E1; subst. unfold step in Es.
              destruct (memN (p_code r) (redirect_codes cfg)).
              + destruct (eqb_bytes (c_method st) GET || eqb_bytes (c_method st) HEAD); [|inversion Es; reflexivity].
                destruct (limit cfg <=? c_count st); [inversion Es; reflexivity|].
                destruct (p_locations r); inversion Es; reflexivity.
              + destruct (memN (p_code r) (see_other_codes cfg)); [|inversion Es; reflexivity].
                destruct (limit cfg <=? c_count st); [inversion Es; reflexivity|].
                destruct (p_locations r); inversion Es; reflexivity.
            - cbn in E1. inversion E1. }
          rewrite iter_advance_done by (cbn; assumption). cbn. rewrite app_nil_r. auto.
        * (* a redirect was followed *)
          assert (Ho : out1 = Waiting).
          { rewrite (follow_step cfg false r []) in E1.
            destruct (step cfg false r (c_method st) (c_orig st) (c_cur st) (c_hs st) (c_count st)) as [o|m l h].
            - inversion E1.
            - cbn in E1. inversion E1. reflexivity. }
          subst out1.
          set (st' := mkC rest (q_method q) (c_orig st) (q_uri q) (q_headers q) (c_count st + 1) (c_reqs st ++ [q]) Waiting).
          destruct (IH st' eq_refl) as [H1 H2]. cbn zeta in H1, H2. cbn [st' c_left c_method c_orig c_cur c_hs c_count c_reqs] in H1, H2.
          destruct (follow cfg false (firstn n rest) (q_method q) (c_orig st) (q_uri q) (q_headers q) (c_count st + 1))
            as [reqs2 out2].
          cbn [fst snd] in *. rewrite H1, H2. rewrite <- app_assoc. auto.
  Qed.

  Lemma update_nth_nth : forall {A} i j (f : A -> A) l,
    nth_error (update_nth i f l) j = if Nat.eqb i j then option_map f (nth_error l j) else nth_error l j.
  Proof.
    intros A i. induction i as [|i IH]; intros j f l; destruct l as [|x l]; destruct j; cbn; try reflexivity.
    - now destruct (Nat.eqb i j).
    - apply IH.
  Qed.

  (** chain [j] after any schedule: its own state, advanced as many times as it was answered *)
  Lemma sched_run_nth : forall sched sts j,
    nth_error (sched_run cfg sched sts) j
    = option_map (iter (count_occ Nat.eq_dec sched j) (advance cfg)) (nth_error sts j).
  Proof.
    induction sched as [|i sched IH]; intros sts j.
    - cbn. now destruct (nth_error sts j).
    - cbn [sched_run count_occ]. rewrite IH, update_nth_nth.
      destruct (Nat.eq_dec i j) as [-> | Hne].
      + rewrite Nat.eqb_refl. destruct (nth_error sts j); reflexivity.
      + apply Nat.eqb_neq in Hne. rewrite Hne. reflexivity.
  Qed.

  (** ... which is the chain run on its own against the responses it has been given *)
  Lemma interleaving_independent : forall sched chains j m u hs resps,
    nth_error chains j = Some (m, u, hs, resps) ->
    let sts := map (fun c : bytes * bytes * option headers * list response =>
                      let '(m, u, hs, resps) := c in c_start m u hs resps) chains in
    exists st, nth_error (sched_run cfg sched sts) j = Some st
               /\ (c_reqs st, c_out st) = run cfg false m u hs (firstn (count_occ Nat.eq_dec sched j) resps).
  Proof.
    intros sched chains j m u hs resps Hj sts.
    rewrite sched_run_nth. unfold sts. rewrite nth_error_map, Hj. cbn [option_map].
    eexists. split; [reflexivity|].
    destruct (iter_advance_follow (count_occ Nat.eq_dec sched j) (c_start m u hs resps) eq_refl) as [H1 H2].
    cbn zeta in H1, H2. cbn [c_start c_left c_method c_orig c_cur c_hs c_count c_reqs] in H1, H2.
    rewrite H1, H2. unfold run.
    destruct (follow cfg false (firstn (count_occ Nat.eq_dec sched j) resps) m u u hs 0). reflexivity.
  Qed.
End InterleavedFacts.
