(** C27 Spec: what the property says about the list of requests a redirect-following agent
    issues, as predicates over (responses received, requests issued).  No proofs here. *)
From Coq Require Import List NArith Bool.
From TwLib Require Import HttpClientBytes Uri.
From C27 Require Import Model.
Import ListNotations.
Local Open Scope N_scope.

(** [reqs] are the requests issued after the request to [cur]; [resps] the responses received, in
    order, starting with the answer to the request to [cur]: each request goes to the Location of
    the response just received, resolved against the URI that response answered *)
Fixpoint chain_ok (cur : bytes) (resps : list response) (reqs : list request) : Prop :=
  match reqs with
  | [] => True
  | q :: reqs' =>
      match resps with
      | r :: resps' =>
          (exists loc others, p_locations r = loc :: others /\ q_uri q = tw_urljoin cur loc)
          /\ chain_ok (q_uri q) resps' reqs'
      | [] => False
      end
  end.

(** the method of each followed redirect: kept (and it is GET or HEAD) for the codes of
    _redirectResponses, GET for the codes of _seeOtherResponses *)
Fixpoint methods_ok (cfg : config) (m : bytes) (resps : list response) (reqs : list request) : Prop :=
  match reqs with
  | [] => True
  | q :: reqs' =>
      match resps with
      | r :: resps' =>
          ((memN (p_code r) (redirect_codes cfg) = true /\ q_method q = m /\ (m = GET \/ m = HEAD))
           \/ (memN (p_code r) (redirect_codes cfg) = false /\ memN (p_code r) (see_other_codes cfg) = true
               /\ q_method q = GET))
          /\ methods_ok cfg (q_method q) resps' reqs'
      | [] => False
      end
  end.

Definition carries_sensitive (cfg : config) (q : request) : Prop :=
  exists h x, q_headers q = Some h /\ In x h /\ memb_bytes (fst x) (sensitive cfg) = true.
