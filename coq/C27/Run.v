(** C27: printers used by the correspondence check only. *)
From Coq Require Import List NArith Bool String.
From TwLib Require Import Show HttpClientBytes Uri.
From C27 Require Import Model.
Import ListNotations.
Local Open Scope string_scope.

Definition show_headers (hs : option headers) : string :=
  match hs with
  | None => "-"
  | Some l => "{" ++ String.concat ";" (map (fun h : bytes * list bytes =>
                 show_hex (fst h) ++ "=" ++ String.concat "," (map show_hex (snd h))) l) ++ "}"
  end.

Definition show_request (q : request) : string :=
  show_hex (q_method q) ++ ":" ++ show_hex (q_uri q) ++ ":" ++ show_headers (q_headers q).

Definition show_outcome (o : outcome) : string :=
  match o with
  | Final c => "final:" ++ show_N c
  | ErrInfinite c => "err:InfiniteRedirection:" ++ show_N c
  | ErrNoLocation c => "err:RedirectWithNoLocation:" ++ show_N c
  | ErrPageRedirect c => "err:PageRedirect:" ++ show_N c
  | Waiting => "waiting"
  end.

Inductive case :=
| CChain (cfg : config) (method uri : bytes) (hs : option headers) (resps : list response)
| CJoin (base ref : bytes)
| CMulti (cfg : config) (chains : list (bytes * bytes * option headers * list response)) (sched : list nat).

Definition show_origin (u : bytes) : string :=
  let '(s, h, p) := origin u in show_hex s ++ "," ++ show_hex h ++ "," ++ show_N p.

Definition run_show (c : case) : string :=
  match c with
  | CChain cfg m u hs resps =>
      let '(reqs, out) := run cfg false m u hs resps in
      String.concat " " (map show_request reqs) ++ "|" ++ show_outcome out
      ++ match out with Final _ => "/" ++ show_nat (List.length reqs - 1) | _ => "" end
  | CJoin b r => let j := tw_urljoin b r in show_hex j ++ "|" ++ show_origin j
  | CMulti cfg chains sched =>
      let sts := map (fun c : bytes * bytes * option headers * list response =>
                        let '(m, u, hs, resps) := c in c_start m u hs resps) chains in
      String.concat " ## "
        (map (fun st => String.concat " " (map show_request (c_reqs st)) ++ "|" ++ show_outcome (c_out st)
                        ++ match c_out st with Final _ => "/" ++ show_nat (List.length (c_reqs st) - 1) | _ => "" end)
             (sched_run cfg sched sts))
  end.
