(** C47: printers used by the correspondence check only. *)
From Coq Require Import List Arith NArith Bool String.
From TwLib Require Import Show PyBytes Seg.
From C47 Require Import Model.
Import ListNotations.
Local Open Scope string_scope.

Definition show_addr (v6 udp : bool) (h : bytes) (p : N) : string :=
  (if udp then "U" else "T") ++ (if v6 then "6" else "4") ++ "(" ++ show_hex h ++ ":" ++ show_N p ++ ")".

Definition show_info (i : option info) : string :=
  match i with
  | Some (Inet v6 udp s d sp dp) => "peer=" ++ show_addr v6 udp s sp ++ " host=" ++ show_addr v6 udp d dp
  | Some (Unix s d) => "peer=X(" ++ show_hex s ++ ") host=X(" ++ show_hex d ++ ")"
  | _ => "peer=- host=-"
  end.

(** the address pairs seen from inside the wrapped protocol's dataReceived calls (consecutive duplicates merged) *)
Definition show_pair_of (i : option info) : string :=
  match i with
  | Some (Inet v6 udp s d sp dp) => show_addr v6 udp s sp ++ ">" ++ show_addr v6 udp d dp
  | Some (Unix s d) => "X(" ++ show_hex s ++ ")>X(" ++ show_hex d ++ ")"
  | _ => "->-"
  end.
Fixpoint dedupe (prev : string) (l : list string) : list string :=
  match l with
  | [] => []
  | x :: r => if String.eqb x prev then dedupe prev r else x :: dedupe x r
  end.
Definition show_seen (tags : list (option info * N)) : string :=
  match tags with
  | [] => "none"
  | _ => String.concat "+" (dedupe "" (map (fun t => show_pair_of (fst t)) tags))
  end.

Definition show_result_in (seen : string) (r : list N * wstate) : string :=
  show_info (final_info (snd r)) ++ " in=" ++ seen ++ " data=" ++ show_hex (fst r) ++
  (match snd r with None => " |closed" | Some _ => " |open" end).

(** [orig = true]: the unrepaired wrapper (version chosen from the first delivery only) *)
Definition run_show (c : bool * list bytes) : string :=
  let (orig, cs) := c in
  let seen := if orig then "n/a" else show_seen (fst (run wfeed_tagged winit cs)) in
  show_result_in seen (run (if orig then wfeed_orig else wfeed) winit cs).

From TwLib Require Import FramingShow.
(** one case = a single chunking, or (stream, lim): the whole family [split_family lim stream] *)
Definition run_case (c : (bool * list bytes) + (bool * nat * bytes)) : string :=
  match c with
  | inl c1 => run_show c1
  | inr (orig, lim, s) => summary (map (fun cs => run_show (orig, cs)) (split_family lim s))
  end.
