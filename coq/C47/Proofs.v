(** C47 proofs. *)
From Coq Require Import List Arith NArith Bool Lia.
From TwLib Require Import PyBytes Seg.
From C47 Require Import Model.
Import ListNotations.

Lemma firstn_app_le : forall (b c : bytes) k, k <= length b -> firstn k (b ++ c) = firstn k b.
Proof. intros b c k H. rewrite firstn_app. replace (k - length b) with 0 by lia. simpl. apply app_nil_r. Qed.
Lemma skipn_app_le : forall (b c : bytes) k, k <= length b -> skipn k (b ++ c) = skipn k b ++ c.
Proof. intros b c k H. rewrite skipn_app. replace (k - length b) with 0 by lia. reflexivity. Qed.
Lemma nth_byte_app : forall (b c : bytes) k, k < length b -> nth_byte k (b ++ c) = nth_byte k b.
Proof. intros b c k H. unfold nth_byte. now apply app_nth1. Qed.
Lemma sub_app : forall (b c : bytes) from len, from + len <= length b -> sub from len (b ++ c) = sub from len b.
Proof.
  intros b c from len H. unfold sub. rewrite skipn_app_le by lia. apply firstn_app_le. rewrite skipn_length. lia.
Qed.

(** * the three conditions of the wrapper *)
Lemma v2cond_length : forall d, v2cond d = true -> 16 <= length d.
Proof. intros d H. unfold v2cond in H. apply andb_true_iff in H as [H _]. apply andb_true_iff in H as [H _]. now apply Nat.leb_le. Qed.

Lemma v2cond_app : forall d c, v2cond d = true -> v2cond (d ++ c) = true.
Proof.
  intros d c H. pose proof (v2cond_length d H) as Hl. unfold v2cond in *.
  rewrite firstn_app_le, nth_byte_app by lia.
  apply andb_true_iff in H as [H H3]. apply andb_true_iff in H as [H1 H2]. rewrite H2, H3.
  assert (E : 16 <=? length (d ++ c) = true) by (apply Nat.leb_le; rewrite app_length; lia). now rewrite E.
Qed.

Lemma v1cond_length : forall d, v1cond d = true -> 8 <= length d.
Proof. intros d H. unfold v1cond in H. apply andb_true_iff in H as [H _]. now apply Nat.leb_le. Qed.

Lemma v1cond_app : forall d c, v1cond d = true -> v1cond (d ++ c) = true.
Proof.
  intros d c H. pose proof (v1cond_length d H) as Hl. unfold v1cond in *.
  rewrite firstn_app_le by lia. apply andb_true_iff in H as [H1 H2]. rewrite H2.
  assert (E : 8 <=? length (d ++ c) = true) by (apply Nat.leb_le; rewrite app_length; lia). now rewrite E.
Qed.

(** a buffer that starts with "PROXY" does not start with the version 2 signature *)
Lemma v1cond_not_v2 : forall d, v1cond d = true -> v2cond d = false.
Proof.
  intros d H. unfold v1cond in H. apply andb_true_iff in H as [_ H]. unfold v2cond.
  destruct d as [|x d]; [discriminate|]. simpl in H. apply andb_true_iff in H as [Hx _].
  apply N.eqb_eq in Hx. subst x. simpl. rewrite andb_false_r. reflexivity.
Qed.

(** * per-phase stability *)
Definition Good (p : phase) (b : bytes) : Prop := match p with InV2 => 16 <= length b | _ => True end.

Lemma CRLF_ne : CRLF <> []. Proof. discriminate. Qed.

Lemma v1_prefix_stable : forall b c ev x' r, v1_drain b = (ev, Some (x', r)) ->
  v1_drain (b ++ c) = let (ev', s') := wdrain x' (r ++ c) in (ev ++ ev', s').
Proof.
  intros b c ev x' r H. unfold v1_drain in H.
  destruct (split1 CRLF b) as [[header remaining]|] eqn:Hs.
  - destruct (107 <? length header + 2) eqn:Hl; [discriminate|].
    destruct (v1_parse header) as [i|] eqn:Hp; [|discriminate]. inversion H; subst.
    unfold v1_drain. rewrite (split1_app _ _ c _ _ Hs), Hl, Hp. simpl. reflexivity.
  - destruct (107 <? length b); [discriminate|]. inversion H as [[He Hx Hr]]. subst ev x' r. simpl. destruct (v1_drain (b ++ c)); reflexivity.
Qed.

Lemma v1_close_stable : forall b c ev, v1_drain b = (ev, None) -> v1_drain (b ++ c) = (ev, None).
Proof.
  intros b c ev H. unfold v1_drain in *.
  destruct (split1 CRLF b) as [[header remaining]|] eqn:Hs.
  - rewrite (split1_app _ _ c _ _ Hs).
    destruct (107 <? length header + 2); [assumption|].
    destruct (v1_parse header); [discriminate | assumption].
  - destruct (107 <? length b) eqn:Hl; [|discriminate]. inversion H; subst. apply Nat.ltb_lt in Hl.
    destruct (split1 CRLF (b ++ c)) as [[header remaining]|] eqn:Hs2.
    + pose proof (split1_late _ _ _ _ _ CRLF_ne Hs Hs2) as Hlate. simpl in Hlate.
      assert (E : 107 <? length header + 2 = true) by (apply Nat.ltb_lt; lia). now rewrite E.
    + assert (E : 107 <? length (b ++ c) = true) by (apply Nat.ltb_lt; rewrite app_length; lia). now rewrite E.
Qed.

Lemma v2_prefix_stable : forall b c ev x' r, 16 <= length b -> v2_drain b = (ev, Some (x', r)) ->
  v2_drain (b ++ c) = let (ev', s') := wdrain x' (r ++ c) in (ev ++ ev', s').
Proof.
  intros b c ev x' r Hl H. unfold v2_drain in H.
  assert (E : length b <? 16 = false) by (apply Nat.ltb_ge; lia). rewrite E in H.
  destruct (length b <? 16 + N.to_nat (be_to_N (sub 14 2 b))) eqn:Hsz.
  - inversion H as [[He Hx Hr]]. subst ev x' r. simpl. destruct (v2_drain (b ++ c)); reflexivity.
  - apply Nat.ltb_ge in Hsz.
    destruct (v2_parse (firstn (16 + N.to_nat (be_to_N (sub 14 2 b))) b)) as [i|] eqn:Hp; [|discriminate].
    inversion H; subst. unfold v2_drain.
    assert (E2 : length (b ++ c) <? 16 = false) by (apply Nat.ltb_ge; rewrite app_length; lia). rewrite E2.
    rewrite sub_app by lia.
    assert (E3 : length (b ++ c) <? 16 + N.to_nat (be_to_N (sub 14 2 b)) = false) by (apply Nat.ltb_ge; rewrite app_length; lia).
    rewrite E3. rewrite firstn_app_le by lia. rewrite Hp. rewrite skipn_app_le by lia. simpl. reflexivity.
Qed.

Lemma v2_close_stable : forall b c ev, 16 <= length b -> v2_drain b = (ev, None) -> v2_drain (b ++ c) = (ev, None).
Proof.
  intros b c ev Hl H. unfold v2_drain in *.
  assert (E : length b <? 16 = false) by (apply Nat.ltb_ge; lia). rewrite E in H.
  assert (E2 : length (b ++ c) <? 16 = false) by (apply Nat.ltb_ge; rewrite app_length; lia). rewrite E2.
  rewrite sub_app by lia.
  destruct (length b <? 16 + N.to_nat (be_to_N (sub 14 2 b))) eqn:Hsz; [discriminate|]. apply Nat.ltb_ge in Hsz.
  assert (E3 : length (b ++ c) <? 16 + N.to_nat (be_to_N (sub 14 2 b)) = false) by (apply Nat.ltb_ge; rewrite app_length; lia).
  rewrite E3. rewrite firstn_app_le by lia.
  destruct (v2_parse (firstn (16 + N.to_nat (be_to_N (sub 14 2 b))) b)); [discriminate | assumption].
Qed.

Lemma w_prefix_stable : prefix_stable_on wdrain Good.
Proof.
  intros x b c ev x' r Hg H. destruct x as [| | |i]; simpl in *.
  - destruct (v2cond b) eqn:H2.
    + rewrite (v2cond_app _ c H2). apply v2_prefix_stable; [now apply v2cond_length | assumption].
    + destruct (v1cond b) eqn:H1.
      * pose proof (v1cond_not_v2 _ (v1cond_app _ c H1)) as Hn. rewrite Hn, (v1cond_app _ c H1).
        now apply v1_prefix_stable.
      * destruct (may_become_header b); [|discriminate]. inversion H as [[He Hx Hr]]. subst ev x' r. simpl.
        destruct (v2cond (b ++ c)); [destruct (v2_drain (b ++ c)); reflexivity|].
        destruct (v1cond (b ++ c)); [destruct (v1_drain (b ++ c)); reflexivity|].
        destruct (may_become_header (b ++ c)); reflexivity.
  - now apply v1_prefix_stable.
  - now apply v2_prefix_stable.
  - inversion H; subst. simpl. reflexivity.
Qed.

(** a buffer that can no longer become a header stays that way.  [agree p d]: [p] and [d] coincide
    as far as both go; the slice comparisons of the code are instances of it. *)
Fixpoint agree (p d : bytes) : bool :=
  match p, d with
  | x :: p', y :: d' => N.eqb x y && agree p' d'
  | _, _ => true
  end.

Lemma agree_app_false : forall p d c, agree p d = false -> agree p (d ++ c) = false.
Proof.
  induction p as [|x p IH]; intros d c H; [discriminate|].
  destruct d as [|y d]; [discriminate|]. simpl in *.
  apply andb_false_iff in H as [H|H]; [now rewrite H | rewrite (IH d c H); apply andb_false_r].
Qed.

Lemma beq_firstn_full : forall p d, beq (firstn (length p) d) p = (length p <=? length d) && agree p d.
Proof.
  induction p as [|x p IH]; intros d; [reflexivity|].
  destruct d as [|y d]; [reflexivity|]. simpl. rewrite IH, (N.eqb_sym y x).
  destruct (N.eqb x y); simpl; [reflexivity | now rewrite andb_false_r].
Qed.

Lemma beq_firstn_any : forall p d, beq (firstn (length p) d) (firstn (length d) p) = agree p d.
Proof.
  induction p as [|x p IH]; intros d.
  - simpl. destruct d; reflexivity.
  - destruct d as [|y d]; [reflexivity|]. simpl. now rewrite IH, (N.eqb_sym y x).
Qed.

Definition nib (d : bytes) : bool := (N.land (nth_byte 12 d) 240 =? 32)%N.

Lemma v1_char : forall d, v1cond d = (8 <=? length d) && agree PROXY d.
Proof.
  intros d. unfold v1cond. replace (firstn 5 d) with (firstn (length PROXY) d) by reflexivity. rewrite beq_firstn_full.
  destruct (8 <=? length d) eqn:E; [|reflexivity]. apply Nat.leb_le in E.
  assert (E5 : length PROXY <=? length d = true) by (apply Nat.leb_le; simpl; lia). now rewrite E5.
Qed.

Lemma v2_char : forall d, v2cond d = (16 <=? length d) && agree V2PREFIX d && nib d.
Proof.
  intros d. unfold v2cond, nib. replace (firstn 12 d) with (firstn (length V2PREFIX) d) by reflexivity. rewrite beq_firstn_full.
  destruct (16 <=? length d) eqn:E; [|reflexivity]. apply Nat.leb_le in E.
  assert (E5 : length V2PREFIX <=? length d = true) by (apply Nat.leb_le; simpl; lia). now rewrite E5.
Qed.

Lemma may_char : forall d, may_become_header d =
  ((length d <? 16) && agree V2PREFIX d && ((length d <? 13) || nib d)) || ((length d <? 8) && agree PROXY d).
Proof.
  intros d. unfold may_become_header, nib. replace (firstn 12 d) with (firstn (length V2PREFIX) d) by reflexivity.
  replace (firstn 5 d) with (firstn (length PROXY) d) by reflexivity.
  now rewrite !beq_firstn_any.
Qed.

Lemma hopeless_stable : forall d c, v2cond d = false -> v1cond d = false -> may_become_header d = false ->
  v2cond (d ++ c) = false /\ v1cond (d ++ c) = false /\ may_become_header (d ++ c) = false.
Proof.
  intros d c H2 H1 Hm. rewrite v2_char in H2. rewrite v1_char in H1. rewrite may_char in Hm.
  apply orb_false_iff in Hm as [Hm2 Hm1].
  assert (A1 : agree PROXY d = false).
  { destruct (agree PROXY d); [|reflexivity]. rewrite andb_true_r in *.
    destruct (8 <=? length d) eqn:E; [discriminate|]. apply Nat.leb_gt in E.
    assert (E' : length d <? 8 = true) by now apply Nat.ltb_lt. rewrite E' in Hm1. discriminate. }
  assert (A2 : agree V2PREFIX d = false \/ (13 <= length d /\ nib d = false)).
  { destruct (agree V2PREFIX d); [right | now left]. rewrite andb_true_r in *.
    destruct (16 <=? length d) eqn:E.
    - apply Nat.leb_le in E. simpl in H2. split; [lia | assumption].
    - apply Nat.leb_gt in E. assert (E' : length d <? 16 = true) by now apply Nat.ltb_lt. rewrite E' in Hm2. simpl in Hm2.
      apply orb_false_iff in Hm2 as [E13 Hn]. apply Nat.ltb_ge in E13. split; assumption. }
  rewrite v2_char, v1_char, may_char. rewrite (agree_app_false _ _ c A1), !andb_false_r, orb_false_r.
  destruct A2 as [A2|[L13 Hn]].
  - rewrite (agree_app_false _ _ c A2), !andb_false_r. repeat split; reflexivity.
  - assert (Hn' : nib (d ++ c) = false) by (unfold nib in *; rewrite nth_byte_app by lia; assumption).
    assert (E13 : length (d ++ c) <? 13 = false) by (apply Nat.ltb_ge; rewrite app_length; lia).
    rewrite Hn', E13, !andb_false_r. repeat split; reflexivity.
Qed.

Lemma w_close_stable : close_stable_on wdrain Good.
Proof.
  intros x b c ev Hg H. destruct x as [| | |i]; simpl in *.
  - destruct (v2cond b) eqn:H2.
    + rewrite (v2cond_app _ c H2). apply v2_close_stable; [now apply v2cond_length | assumption].
    + destruct (v1cond b) eqn:H1.
      * pose proof (v1cond_not_v2 _ (v1cond_app _ c H1)) as Hn. rewrite Hn, (v1cond_app _ c H1).
        now apply v1_close_stable.
      * destruct (may_become_header b) eqn:Hm; [discriminate|]. inversion H; subst.
        destruct (hopeless_stable b c H2 H1 Hm) as (E2 & E1 & Em). now rewrite E2, E1, Em.
  - now apply v1_close_stable.
  - now apply v2_close_stable.
  - discriminate.
Qed.

Lemma good_ext : good_extends Good.
Proof. intros [| | |i] b c H; simpl in *; try exact I. rewrite app_length. lia. Qed.

Lemma good_dr : good_drains wdrain Good.
Proof.
  intros x b ev x' r Hg H. destruct x' as [| | |i]; simpl; try exact I.
  destruct x as [| | |j]; simpl in *.
  - destruct (v2cond b) eqn:H2.
    + pose proof (v2cond_length _ H2) as Hl. unfold v2_drain in H.
      assert (E : length b <? 16 = false) by (apply Nat.ltb_ge; lia). rewrite E in H.
      destruct (length b <? _); [inversion H; subst; simpl in *; assumption|].
      destruct (v2_parse _); inversion H.
    + destruct (v1cond b).
      * unfold v1_drain in H. destruct (split1 CRLF b) as [[h rem]|].
        -- destruct (107 <? length h + 2); [discriminate|]. destruct (v1_parse h); inversion H.
        -- destruct (107 <? length b); inversion H.
      * destruct (may_become_header b); inversion H.
  - unfold v1_drain in H. destruct (split1 CRLF b) as [[h rem]|].
    + destruct (107 <? length h + 2); [discriminate|]. destruct (v1_parse h); inversion H.
    + destruct (107 <? length b); inversion H.
  - unfold v2_drain in H. destruct (length b <? 16); [discriminate|].
    destruct (length b <? _); [inversion H; subst; simpl in *; assumption|].
    destruct (v2_parse _); inversion H.
  - inversion H.
Qed.

(** * every segmentation gives what the whole stream gives *)
Theorem w_run : forall cs s, chunks cs s -> run wfeed winit cs = wdrain Choosing s.
Proof.
  intros cs s Hc. unfold wfeed, winit.
  apply (buffered_inv_from_empty w_prefix_stable w_close_stable good_ext good_dr); [exact I | reflexivity | exact Hc].
Qed.

(** * closing never comes with (or after) delivering bytes; delivered bytes are a suffix of the stream *)
Lemma closed_nothing_delivered : forall s ev, wdrain Choosing s = (ev, None) -> ev = [].
Proof.
  intros s ev H. simpl in H.
  assert (V1 : forall b e, v1_drain b = (e, None) -> e = []).
  { intros b e Hb. unfold v1_drain in Hb. destruct (split1 CRLF b) as [[h rem]|].
    - destruct (107 <? length h + 2); [now inversion Hb|]. destruct (v1_parse h); [discriminate | now inversion Hb].
    - destruct (107 <? length b); [now inversion Hb | discriminate]. }
  assert (V2 : forall b e, v2_drain b = (e, None) -> e = []).
  { intros b e Hb. unfold v2_drain in Hb. destruct (length b <? 16); [now inversion Hb|].
    destruct (length b <? _); [discriminate|]. destruct (v2_parse _); [discriminate | now inversion Hb]. }
  destruct (v2cond s); [eauto|]. destruct (v1cond s); [eauto|].
  destruct (may_become_header s); [discriminate | now inversion H].
Qed.

Lemma delivered_is_suffix : forall s ev i r, wdrain Choosing s = (ev, Some (Pass i, r)) ->
  r = [] /\
  ((exists line, s = line ++ CRLF ++ ev /\ v1_parse line = Some i /\ length line + 2 <= 107) \/
   (exists h, s = h ++ ev /\ v2_parse h = Some i /\ 16 <= length h)).
Proof.
  intros s ev i r H. simpl in H.
  assert (V1 : v1_drain s = (ev, Some (Pass i, r)) ->
               r = [] /\ exists line, s = line ++ CRLF ++ ev /\ v1_parse line = Some i /\ length line + 2 <= 107).
  { intros Hb. unfold v1_drain in Hb. destruct (split1 CRLF s) as [[h rem]|] eqn:Hs.
    - destruct (107 <? length h + 2) eqn:Hl; [discriminate|]. apply Nat.ltb_ge in Hl.
      destruct (v1_parse h) eqn:Hp; [|discriminate]. inversion Hb; subst.
      split; [reflexivity|]. exists h. split; [now apply split1_sound | split; [assumption | lia]].
    - destruct (107 <? length s); discriminate. }
  assert (V2 : v2_drain s = (ev, Some (Pass i, r)) ->
               r = [] /\ exists h, s = h ++ ev /\ v2_parse h = Some i /\ 16 <= length h).
  { intros Hb. unfold v2_drain in Hb. destruct (length s <? 16) eqn:H16; [discriminate|]. apply Nat.ltb_ge in H16.
    destruct (length s <? 16 + N.to_nat (be_to_N (sub 14 2 s))) eqn:Hsz; [discriminate|]. apply Nat.ltb_ge in Hsz.
    destruct (v2_parse (firstn _ s)) eqn:Hp; [|discriminate]. inversion Hb; subst.
    split; [reflexivity|]. exists (firstn (16 + N.to_nat (be_to_N (sub 14 2 s))) s).
    split; [symmetry; apply firstn_skipn | split; [assumption | rewrite firstn_length; lia]]. }
  destruct (v2cond s).
  - destruct (V2 H) as [Hr Hh]. split; [assumption | now right].
  - destruct (v1cond s).
    + destruct (V1 H) as [Hr Hh]. split; [assumption | now left].
    + destruct (may_become_header s); discriminate.
Qed.

(** * the addresses are in place before the first application byte is passed on *)
Lemma wdrain_emits_pass : forall x b ev s, wdrain x b = (ev, s) -> ev <> [] -> exists i, s = Some (Pass i, []).
Proof.
  intros x b ev s H Hne.
  assert (V1 : forall e s', v1_drain b = (e, s') -> e <> [] -> exists i, s' = Some (Pass i, [])).
  { intros e s' Hb He. unfold v1_drain in Hb. destruct (split1 CRLF b) as [[h rem]|].
    - destruct (107 <? length h + 2); [inversion Hb; subst; congruence|].
      destruct (v1_parse h) as [i|]; inversion Hb; subst; [eauto | congruence].
    - destruct (107 <? length b); inversion Hb; subst; congruence. }
  assert (V2 : forall e s', v2_drain b = (e, s') -> e <> [] -> exists i, s' = Some (Pass i, [])).
  { intros e s' Hb He. unfold v2_drain in Hb. destruct (length b <? 16); [inversion Hb; subst; congruence|].
    destruct (length b <? _); [inversion Hb; subst; congruence|].
    destruct (v2_parse _) as [i|]; inversion Hb; subst; [eauto | congruence]. }
  destruct x as [| | |i]; simpl in H.
  - destruct (v2cond b); [eauto|]. destruct (v1cond b); [eauto|].
    destruct (may_become_header b); inversion H; subst; congruence.
  - eauto.
  - eauto.
  - inversion H; subst. eauto.
Qed.

Lemma wfeed_pass : forall i b c, wfeed (Some (Pass i, b)) c = (b ++ c, Some (Pass i, [])).
Proof. reflexivity. Qed.

Lemma run_cons_proj : forall (E : Type) (feed : wstate -> bytes -> list E * wstate) s c cs,
  run feed s (c :: cs) = (fst (feed s c) ++ fst (run feed (snd (feed s c)) cs), snd (run feed (snd (feed s c)) cs)).
Proof. intros E feed s c cs. cbn [run]. destruct (feed s c) as [e s1]. cbn [fst snd]. destruct (run feed s1 cs). reflexivity. Qed.

Lemma wfeed_tagged_pass : forall i b c,
  wfeed_tagged (Some (Pass i, b)) c = (map (fun x => (Some i, x)) (b ++ c), Some (Pass i, [])).
Proof. reflexivity. Qed.

Lemma run_tagged_pass : forall cs i b, final_info (snd (run wfeed_tagged (Some (Pass i, b)) cs)) = Some i /\
  forall t, In t (fst (run wfeed_tagged (Some (Pass i, b)) cs)) -> fst t = Some i.
Proof.
  induction cs as [|c cs IH]; intros i b.
  - simpl. split; [reflexivity | intros t []].
  - rewrite run_cons_proj, wfeed_tagged_pass. cbn [fst snd]. destruct (IH i []) as [Hf Ht].
    split; [exact Hf|]. intros t Hin. apply in_app_or in Hin as [Hin|Hin]; [|now apply Ht].
    apply in_map_iff in Hin as (x & <- & _). reflexivity.
Qed.

Lemma run_tagged_all : forall cs s t, In t (fst (run wfeed_tagged s cs)) ->
  fst t = final_info (snd (run wfeed_tagged s cs)) /\ fst t <> None.
Proof.
  induction cs as [|c cs IH]; intros s t Hin; [destruct Hin|].
  rewrite run_cons_proj in *. cbn [fst snd] in *.
  apply in_app_or in Hin as [Hin|Hin]; [|now apply IH].
  unfold wfeed_tagged in Hin. cbn [fst] in Hin. apply in_map_iff in Hin as (x & <- & Hx). cbn [fst].
  assert (Hp : exists i, snd (wfeed s c) = Some (Pass i, [])).
  { destruct s as [[ph b]|]; [|destruct Hx]. simpl in *. destruct (wdrain ph (b ++ c)) as [ev s1] eqn:Hw. cbn [fst snd] in *.
    eapply wdrain_emits_pass; eauto. intros ->. destruct Hx. }
  destruct Hp as [i Hi].
  assert (Hs : snd (wfeed_tagged s c) = Some (Pass i, [])) by (unfold wfeed_tagged; cbn [snd]; exact Hi).
  rewrite Hs, Hi. destruct (run_tagged_pass cs i []) as [Hf _]. cbn [final_info]. split; [symmetry; exact Hf | discriminate].
Qed.

(** * what a well-formed header yields *)
Lemma v1_header_result : forall line payload i,
  clean CRLF line -> length line + 2 <= 107 -> startswith PROXY line = true -> 6 <= length line ->
  v1_parse line = Some i ->
  wdrain Choosing (line ++ CRLF ++ payload) = (payload, Some (Pass i, [])).
Proof.
  intros line payload i Hc Hl Hs H6 Hp. cbn [wdrain].
  assert (H1 : v1cond (line ++ CRLF ++ payload) = true).
  { unfold v1cond. apply andb_true_iff. split.
    - apply Nat.leb_le. rewrite !app_length. simpl. lia.
    - rewrite firstn_app_le by lia. apply startswith_spec in Hs as [rest ->].
      change 5 with (length PROXY). rewrite firstn_app, firstn_all, Nat.sub_diag. simpl. reflexivity. }
  rewrite (v1cond_not_v2 _ H1), H1. unfold v1_drain. rewrite (split1_clean _ _ _ Hc).
  assert (E : 107 <? length line + 2 = false) by (apply Nat.ltb_ge; lia). now rewrite E, Hp.
Qed.

Lemma v2_header_result : forall vc fp body payload i,
  N.land vc 240 = 32%N -> (N.of_nat (length body) < 65536)%N ->
  v2_parse (V2PREFIX ++ [vc; fp] ++ N_to_be 2 (N.of_nat (length body)) ++ body) = Some i ->
  wdrain Choosing ((V2PREFIX ++ [vc; fp] ++ N_to_be 2 (N.of_nat (length body)) ++ body) ++ payload) = (payload, Some (Pass i, [])).
Proof.
  intros vc fp body payload i Hv Hlen Hp.
  pose proof (N_to_be_length 2 (N.of_nat (length body))) as Hbl.
  pose proof (be_roundtrip 2 (N.of_nat (length body)) Hlen) as Hrt.
  remember (N_to_be 2 (N.of_nat (length body))) as lenb eqn:Hlb. clear Hlb.
  destruct lenb as [|l0 [|l1 [|? ?]]]; simpl in Hbl; try discriminate.
  remember (V2PREFIX ++ [vc; fp] ++ [l0; l1] ++ body) as h eqn:Hh.
  assert (Hlh : length h = 16 + length body) by (subst h; simpl; reflexivity).
  assert (Hsub : sub 14 2 (h ++ payload) = [l0; l1]) by (subst h; reflexivity).
  assert (H2 : v2cond (h ++ payload) = true).
  { rewrite v2_char.
    assert (E16 : 16 <=? length (h ++ payload) = true) by (apply Nat.leb_le; rewrite app_length; lia).
    assert (Ea : agree V2PREFIX (h ++ payload) = true) by (subst h; vm_compute; reflexivity).
    assert (En : nib (h ++ payload) = true).
    { unfold nib, nth_byte. subst h. cbn [V2PREFIX app nth]. rewrite Hv. reflexivity. }
    now rewrite E16, Ea, En. }
  cbn [wdrain]. rewrite H2. unfold v2_drain.
  assert (E : length (h ++ payload) <? 16 = false) by (apply Nat.ltb_ge; rewrite app_length; lia). rewrite E.
  rewrite Hsub, Hrt, Nat2N.id.
  assert (E2 : length (h ++ payload) <? 16 + length body = false) by (apply Nat.ltb_ge; rewrite app_length; lia). rewrite E2.
  rewrite <- Hlh. rewrite firstn_app, firstn_all, Nat.sub_diag. simpl firstn. rewrite app_nil_r, Hp.
  rewrite skipn_app, skipn_all, Nat.sub_diag. reflexivity.
Qed.

(** the fields of a version 1 TCP line *)
Definition no_space (t : bytes) : bool := forallb (fun x => negb (N.eqb x 32)) t.

Lemma no_space_split : forall t rest, no_space t = true -> split1 SP (t ++ SP ++ rest) = Some (t, rest).
Proof.
  induction t as [|x t IH]; intros rest H.
  - reflexivity.
  - simpl in H. apply andb_true_iff in H as [Hx Ht]. apply negb_true_iff in Hx.
    change ((x :: t) ++ SP ++ rest) with (x :: (t ++ SP ++ rest)). rewrite split1_unfold.
    assert (E : startswith SP (x :: t ++ SP ++ rest) = false).
    { unfold SP. cbn [startswith]. rewrite (N.eqb_sym 32 x), Hx. reflexivity. }
    rewrite E. now rewrite (IH rest Ht).
Qed.

Lemma no_space_none : forall t, no_space t = true -> split1 SP t = None.
Proof.
  induction t as [|x t IH]; intros H; [reflexivity|].
  simpl in H. apply andb_true_iff in H as [Hx Ht]. apply negb_true_iff in Hx.
  rewrite split1_unfold.
  assert (E : startswith SP (x :: t) = false) by (unfold SP; cbn [startswith]; rewrite (N.eqb_sym 32 x), Hx; reflexivity).
  rewrite E. now rewrite (IH Ht).
Qed.

Lemma digits_no_space : forall t, all_digits t = true -> no_space t = true.
Proof.
  intros t H. unfold all_digits in H. destruct t as [|x t]; [discriminate|].
  unfold no_space. apply forallb_forall. intros y Hy. rewrite forallb_forall in H. specialize (H y Hy).
  unfold is_digit in H. apply andb_true_iff in H as [H1 _]. apply N.leb_le in H1.
  apply negb_true_iff. apply N.eqb_neq. lia.
Qed.

Lemma v1_parse_tcp : forall (v6 : bool) src dst sport dport,
  no_space src = true -> no_space dst = true -> all_digits sport = true -> all_digits dport = true ->
  v1_parse (PROXY ++ SP ++ (if v6 then TCP6 else TCP4) ++ SP ++ src ++ SP ++ dst ++ SP ++ sport ++ SP ++ dport)
  = Some (Inet v6 false src dst (digits_to_N sport) (digits_to_N dport)).
Proof.
  intros v6 src dst sport dport Hs Hd Hsp Hdp. unfold v1_parse.
  rewrite (no_space_split PROXY _ eq_refl). cbn [beq PROXY negb]. rewrite !N.eqb_refl. cbn [andb negb].
  rewrite (no_space_split (if v6 then TCP6 else TCP4) _ ltac:(destruct v6; reflexivity)).
  rewrite (no_space_split src _ Hs), (no_space_split dst _ Hd), (no_space_split sport _ (digits_no_space _ Hsp)).
  rewrite (no_space_none dport (digits_no_space _ Hdp)).
  unfold port_of. rewrite Hsp, Hdp. destruct v6; reflexivity.
Qed.

(** * the unrepaired wrapper closes a valid connection whose first delivery is short (finding F19) *)
Lemma orig_witness :
  let h := (PROXY ++ SP ++ TCP4 ++ SP ++ [49] ++ SP ++ [50] ++ SP ++ [51] ++ SP ++ [52] ++ CRLF ++ [120])%N in
  run wfeed_orig winit [h] = ([120%N], Some (Pass (Inet false false [49%N] [50%N] 3 4), [])) /\
  run wfeed_orig winit [firstn 5 h; skipn 5 h] = ([], None) /\
  run wfeed winit [firstn 5 h; skipn 5 h] = ([120%N], Some (Pass (Inet false false [49%N] [50%N] 3 4), [])).
Proof. vm_compute. repeat split. Qed.
