(** C47: the property theorems with their proof scripts (Property.v restates each and closes it by [exact]). *)
From Coq Require Import Lia.
From Coq Require Import List Arith NArith Bool.
From TwLib Require Import PyBytes Seg.
From C47 Require Import Model Proofs.
Import ListNotations.

Lemma header_parsed_any_segmentation_proof : forall cs s, chunks cs s ->
  run wfeed winit cs = run wfeed winit [s].
Proof. intros cs s Hc. rewrite (w_run cs s Hc), (w_run [s] s (chunks_whole s)). reflexivity. 
Qed.



(** a connection that gets closed has not passed a single byte to the application *)
Lemma invalid_stream_closes_without_delivery_proof : forall cs,
  snd (run wfeed winit cs) = None -> fst (run wfeed winit cs) = [].
Proof.
  intros cs H. rewrite (w_run cs (concat cs) eq_refl) in *.
  destruct (wdrain Choosing (concat cs)) as [ev s] eqn:Hd. simpl in *. subst s.
  eapply closed_nothing_delivered; eauto.
Qed.



(** a stream whose first bytes are neither (the beginning of) the version 2 signature nor of
    "PROXY" is closed, however it is delivered *)
Lemma unrecognisable_start_closes_proof : forall cs s, chunks cs s ->
  v2cond s = false -> v1cond s = false -> may_become_header s = false ->
  run wfeed winit cs = ([], None).
Proof. intros cs s Hc H2 H1 Hm. rewrite (w_run cs s Hc). simpl. now rewrite H2, H1, Hm. 
Qed.



(** once a header is accepted, the application has received exactly the bytes after the header:
    the stream is header ++ delivered bytes, nothing lost, duplicated or reordered, and the reported
    addresses are those of that header *)
Lemma payload_exact_proof : forall cs i r, snd (run wfeed winit cs) = Some (Pass i, r) ->
  r = [] /\
  ((exists line, concat cs = line ++ CRLF ++ fst (run wfeed winit cs) /\ v1_parse line = Some i /\ length line + 2 <= 107) \/
   (exists h, concat cs = h ++ fst (run wfeed winit cs) /\ v2_parse h = Some i /\ 16 <= length h)).
Proof.
  intros cs i r H. rewrite (w_run cs (concat cs) eq_refl) in *.
  destruct (wdrain Choosing (concat cs)) as [ev s] eqn:Hd. simpl in *. subst s.
  eapply delivered_is_suffix; eauto.
Qed.



(** version 1, TCP4/TCP6: any space-free address tokens, decimal ports, at most 107 bytes with the
    CRLF: the addresses and ports of the header are reported and the payload arrives exactly *)
Lemma v1_tcp_header_any_segmentation_proof : forall (v6 : bool) src dst sport dport payload cs,
  let line := PROXY ++ SP ++ (if v6 then TCP6 else TCP4) ++ SP ++ src ++ SP ++ dst ++ SP ++ sport ++ SP ++ dport in
  no_space src = true -> no_space dst = true -> all_digits sport = true -> all_digits dport = true ->
  clean CRLF line -> length line + 2 <= 107 ->
  chunks cs (line ++ CRLF ++ payload) ->
  run wfeed winit cs = (payload, Some (Pass (Inet v6 false src dst (digits_to_N sport) (digits_to_N dport)), [])).
Proof.
  intros v6 src dst sport dport payload cs line Hs Hd Hsp Hdp Hc Hl Hch.
  rewrite (w_run cs _ Hch). apply v1_header_result; try assumption.
  - unfold line. apply startswith_app.
  - unfold line. rewrite !app_length. destruct v6; simpl; lia.
  - now apply v1_parse_tcp.
Qed.



(** version 1, UNKNOWN (with or without further text): accepted, no address, payload exact *)
Lemma v1_unknown_header_any_segmentation_proof : forall text payload cs,
  let line := PROXY ++ SP ++ UNKNOWN ++ text in
  (text = [] \/ exists t, text = SP ++ t) ->
  clean CRLF line -> length line + 2 <= 107 ->
  chunks cs (line ++ CRLF ++ payload) ->
  run wfeed winit cs = (payload, Some (Pass NoAddr, [])).
Proof.
  intros text payload cs line Ht Hc Hl Hch.
  rewrite (w_run cs _ Hch). apply v1_header_result; try assumption.
  - unfold line. apply startswith_app.
  - unfold line. rewrite !app_length. simpl. lia.
  - unfold line, v1_parse. rewrite (no_space_split PROXY _ eq_refl). cbn [beq PROXY negb]. rewrite !N.eqb_refl. cbn [andb negb].
    destruct Ht as [->|[t ->]].
    + rewrite app_nil_r. rewrite (no_space_none UNKNOWN eq_refl). reflexivity.
    + rewrite (no_space_split UNKNOWN t eq_refl). reflexivity.
Qed.



(** version 2: signature, version/command byte with high nibble 2, family/protocol byte, 16-bit
    length, that many bytes (addresses + TLVs), then the payload *)
Lemma v2_header_any_segmentation_proof : forall vc fp body payload i cs,
  N.land vc 240 = 32%N -> (N.of_nat (length body) < 65536)%N ->
  v2_parse (V2PREFIX ++ [vc; fp] ++ N_to_be 2 (N.of_nat (length body)) ++ body) = Some i ->
  chunks cs ((V2PREFIX ++ [vc; fp] ++ N_to_be 2 (N.of_nat (length body)) ++ body) ++ payload) ->
  run wfeed winit cs = (payload, Some (Pass i, [])).
Proof.
  intros vc fp body payload i cs Hv Hl Hp Hch. rewrite (w_run cs _ Hch). now apply v2_header_result.
Qed.



(** version 2, LOCAL command (health checks of the proxy itself): the family/protocol byte and the address block are
    ignored, whatever they are -- all 256 values of the byte, any declared length *)
Lemma v2_local_parse : forall fp l0 l1 body, v2_parse (V2PREFIX ++ [32%N; fp] ++ [l0; l1] ++ body) = Some NoAddr.
Proof. intros fp l0 l1 body. vm_compute. reflexivity. Qed.

Lemma v2_local_header_any_segmentation_proof : forall fp body payload cs,
  (N.of_nat (length body) < 65536)%N ->
  chunks cs ((V2PREFIX ++ [32%N; fp] ++ N_to_be 2 (N.of_nat (length body)) ++ body) ++ payload) ->
  run wfeed winit cs = (payload, Some (Pass NoAddr, [])).
Proof.
  intros fp body payload cs Hl Hch.
  apply (v2_header_any_segmentation_proof 32%N fp body payload NoAddr cs); [reflexivity | exact Hl | | exact Hch].
  pose proof (N_to_be_length 2 (N.of_nat (length body))) as Hbl.
  destruct (N_to_be 2 (N.of_nat (length body))) as [|l0 [|l1 [|? ?]]]; simpl in Hbl; try discriminate.
  apply v2_local_parse.
Qed.


Lemma addresses_known_before_first_byte_proof : forall cs t,
  In t (fst (run wfeed_tagged winit cs)) ->
  fst t = final_info (snd (run wfeed_tagged winit cs)) /\ fst t <> None.
Proof. intros cs t. apply run_tagged_all. Qed.

Lemma tagged_run_is_run_proof : forall cs s,
  map snd (fst (run wfeed_tagged s cs)) = fst (run wfeed s cs) /\ snd (run wfeed_tagged s cs) = snd (run wfeed s cs).
Proof.
  induction cs as [|c cs IH]; intros s; [split; reflexivity|].
  cbn [run]. unfold wfeed_tagged at 1 3. destruct (wfeed s c) as [ev s1]. cbn [fst snd].
  destruct (IH s1) as [H1 H2]. destruct (run wfeed_tagged s1 cs) as [e' s2]. destruct (run wfeed s1 cs) as [e'' s2'].
  cbn [fst snd] in *. subst. split; [|reflexivity]. rewrite map_app, map_map. cbn [snd]. now rewrite map_id.
Qed.

(** the wrapper as it is at the pinned commit closes a valid connection whose first delivery has
    fewer than 8 bytes, although it accepts the same stream delivered at once (finding F19) *)
Lemma short_first_chunk_refuted_proof : exists cs1 cs2,
  concat cs1 = concat cs2 /\ snd (run wfeed_orig winit cs1) <> None /\ snd (run wfeed_orig winit cs2) = None.
Proof.
  destruct orig_witness as (H1 & H2 & _).
  eexists _, _. split; [|split].
  2: { rewrite H1. discriminate. }
  2: { rewrite H2. reflexivity. }
  simpl. reflexivity.
Qed.



(** the hypotheses are inhabited: a TCP4-over-v2 header with a TLV, cut inside the signature and inside the addresses *)
Lemma v2_example_proof :
  let h := (V2PREFIX ++ [33; 17] ++ [0; 15] ++ [192; 168; 0; 1; 10; 0; 0; 2; 0; 80; 1; 187; 4; 0; 0])%N in
  v2_parse h = Some (Inet false false [49; 57; 50; 46; 49; 54; 56; 46; 48; 46; 49] [49; 48; 46; 48; 46; 48; 46; 50] 80 443)%N /\
  run wfeed winit [firstn 7 h; skipn 7 (firstn 20 h); skipn 20 h ++ [71; 69; 84]%N]
  = ([71; 69; 84]%N, Some (Pass (Inet false false [49; 57; 50; 46; 49; 54; 56; 46; 48; 46; 49] [49; 48; 46; 48; 46; 48; 46; 50] 80 443)%N, [])).
Proof. vm_compute. split; reflexivity. 
Qed.
