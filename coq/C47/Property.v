(** C47 property theorems.  [run wfeed winit cs] delivers the chunks [cs] to a fresh (repaired)
    HAProxyProtocolWrapper and returns (bytes handed to the wrapped protocol, final state);
    state [None] = the connection was closed, [Some (Pass i, _)] = header parsed with addresses [i].
    Every statement is for every stream and EVERY segmentation of it. *)
From Coq Require Import List Arith NArith Bool.
From TwLib Require Import PyBytes Seg.
From C47 Require Import Model Proofs Theorems.
Import ListNotations.

Theorem header_parsed_any_segmentation : forall cs s, chunks cs s ->
  run wfeed winit cs = run wfeed winit [s].
Proof. exact header_parsed_any_segmentation_proof. Qed.
Print Assumptions header_parsed_any_segmentation.



(** a connection that gets closed has not passed a single byte to the application *)
Theorem invalid_stream_closes_without_delivery : forall cs,
  snd (run wfeed winit cs) = None -> fst (run wfeed winit cs) = [].
Proof. exact invalid_stream_closes_without_delivery_proof. Qed.
Print Assumptions invalid_stream_closes_without_delivery.



(** a stream whose first bytes are neither (the beginning of) the version 2 signature nor of
    "PROXY" is closed, however it is delivered *)
Theorem unrecognisable_start_closes : forall cs s, chunks cs s ->
  v2cond s = false -> v1cond s = false -> may_become_header s = false ->
  run wfeed winit cs = ([], None).
Proof. exact unrecognisable_start_closes_proof. Qed.
Print Assumptions unrecognisable_start_closes.



(** once a header is accepted, the application has received exactly the bytes after the header:
    the stream is header ++ delivered bytes, nothing lost, duplicated or reordered, and the reported
    addresses are those of that header *)
Theorem payload_exact : forall cs i r, snd (run wfeed winit cs) = Some (Pass i, r) ->
  r = [] /\
  ((exists line, concat cs = line ++ CRLF ++ fst (run wfeed winit cs) /\ v1_parse line = Some i /\ length line + 2 <= 107) \/
   (exists h, concat cs = h ++ fst (run wfeed winit cs) /\ v2_parse h = Some i /\ 16 <= length h)).
Proof. exact payload_exact_proof. Qed.
Print Assumptions payload_exact.



(** version 1, TCP4/TCP6: any space-free address tokens, decimal ports, at most 107 bytes with the
    CRLF: the addresses and ports of the header are reported and the payload arrives exactly *)
Theorem v1_tcp_header_any_segmentation : forall (v6 : bool) src dst sport dport payload cs,
  let line := PROXY ++ SP ++ (if v6 then TCP6 else TCP4) ++ SP ++ src ++ SP ++ dst ++ SP ++ sport ++ SP ++ dport in
  no_space src = true -> no_space dst = true -> all_digits sport = true -> all_digits dport = true ->
  clean CRLF line -> length line + 2 <= 107 ->
  chunks cs (line ++ CRLF ++ payload) ->
  run wfeed winit cs = (payload, Some (Pass (Inet v6 false src dst (digits_to_N sport) (digits_to_N dport)), [])).
Proof. exact v1_tcp_header_any_segmentation_proof. Qed.
Print Assumptions v1_tcp_header_any_segmentation.



(** version 1, UNKNOWN (with or without further text): accepted, no address, payload exact *)
Theorem v1_unknown_header_any_segmentation : forall text payload cs,
  let line := PROXY ++ SP ++ UNKNOWN ++ text in
  (text = [] \/ exists t, text = SP ++ t) ->
  clean CRLF line -> length line + 2 <= 107 ->
  chunks cs (line ++ CRLF ++ payload) ->
  run wfeed winit cs = (payload, Some (Pass NoAddr, [])).
Proof. exact v1_unknown_header_any_segmentation_proof. Qed.
Print Assumptions v1_unknown_header_any_segmentation.



(** version 2: signature, version/command byte with high nibble 2, family/protocol byte, 16-bit
    length, that many bytes (addresses + TLVs), then the payload *)
Theorem v2_header_any_segmentation : forall vc fp body payload i cs,
  N.land vc 240 = 32%N -> (N.of_nat (length body) < 65536)%N ->
  v2_parse (V2PREFIX ++ [vc; fp] ++ N_to_be 2 (N.of_nat (length body)) ++ body) = Some i ->
  chunks cs ((V2PREFIX ++ [vc; fp] ++ N_to_be 2 (N.of_nat (length body)) ++ body) ++ payload) ->
  run wfeed winit cs = (payload, Some (Pass i, [])).
Proof. exact v2_header_any_segmentation_proof. Qed.
Print Assumptions v2_header_any_segmentation.



(** version 2, LOCAL command: accepted with no addresses for EVERY family/protocol byte (the specification says the
    receiver must ignore it) and every address block / TLV bytes of the declared length; payload exact *)
Theorem v2_local_header_any_segmentation : forall fp body payload cs,
  (N.of_nat (length body) < 65536)%N ->
  chunks cs ((V2PREFIX ++ [32%N; fp] ++ N_to_be 2 (N.of_nat (length body)) ++ body) ++ payload) ->
  run wfeed winit cs = (payload, Some (Pass NoAddr, [])).
Proof. exact v2_local_header_any_segmentation_proof. Qed.
Print Assumptions v2_local_header_any_segmentation.

(** [wfeed_tagged] attaches to every byte passed to the wrapped protocol the addresses getPeer()/getHost() report to it
    WHILE it receives that byte.  For every stream and segmentation -- in particular when the end of the header and the
    first application bytes arrive in one delivery -- every delivered byte already sees the header's addresses: the ones
    reported at the end, never "none yet" *)
Theorem addresses_known_before_first_byte : forall cs t,
  In t (fst (run wfeed_tagged winit cs)) ->
  fst t = final_info (snd (run wfeed_tagged winit cs)) /\ fst t <> None.
Proof. exact addresses_known_before_first_byte_proof. Qed.
Print Assumptions addresses_known_before_first_byte.

(** ... where the tagged run delivers the same bytes and ends in the same state as the plain one *)
Theorem tagged_run_is_run : forall cs s,
  map snd (fst (run wfeed_tagged s cs)) = fst (run wfeed s cs) /\ snd (run wfeed_tagged s cs) = snd (run wfeed s cs).
Proof. exact tagged_run_is_run_proof. Qed.
Print Assumptions tagged_run_is_run.

(** the wrapper as it is at the pinned commit closes a valid connection whose first delivery has
    fewer than 8 bytes, although it accepts the same stream delivered at once (finding F19) *)
Theorem short_first_chunk_refuted : exists cs1 cs2,
  concat cs1 = concat cs2 /\ snd (run wfeed_orig winit cs1) <> None /\ snd (run wfeed_orig winit cs2) = None.
Proof. exact short_first_chunk_refuted_proof. Qed.
Print Assumptions short_first_chunk_refuted.



(** the hypotheses are inhabited: a TCP4-over-v2 header with a TLV, cut inside the signature and inside the addresses *)
Example v2_example :
  let h := (V2PREFIX ++ [33; 17] ++ [0; 15] ++ [192; 168; 0; 1; 10; 0; 0; 2; 0; 80; 1; 187; 4; 0; 0])%N in
  v2_parse h = Some (Inet false false [49; 57; 50; 46; 49; 54; 56; 46; 48; 46; 49] [49; 48; 46; 48; 46; 48; 46; 50] 80 443)%N /\
  run wfeed winit [firstn 7 h; skipn 7 (firstn 20 h); skipn 20 h ++ [71; 69; 84]%N]
  = ([71; 69; 84]%N, Some (Pass (Inet false false [49; 57; 50; 46; 49; 54; 56; 46; 48; 46; 49] [49; 48; 46; 48; 46; 48; 46; 50] 80 443)%N, [])).
Proof. exact v2_example_proof. Qed.
