(** C47: HAProxyProtocolWrapper.dataReceived with V1Parser / V2Parser (src/twisted/protocols/haproxy),
    as REPAIRED by fixes/C47-*.patch:
      - the wrapper buffers deliveries until the header version can be told (was: first delivery only),
      - V1Parser.feed refuses a line longer than 107 bytes also when its CRLF has arrived (was: only while it had not),
      - "PROXY UNKNOWN" needs no trailing space, malformed ports/addresses give InvalidProxyHeader (was: ValueError escaping).
    The receiver is "append to a buffer, then look at the whole buffer" in four phases
    ([Choosing] -> [InV1] | [InV2] -> [Pass info]); events are the bytes handed to the wrapped
    protocol; state [None] = loseConnection was called.
    Field syntax is modelled as lax as the code is (any space-free token is an address, see design.d/C47.md);
    a port is modelled for tokens made of ASCII digits only (int() of other tokens is outside the model). *)
From Coq Require Import List Arith NArith Bool.
From TwLib Require Import PyBytes Seg.
Import ListNotations.

Inductive info :=
| NoAddr                                                   (* UNKNOWN / LOCAL / UNSPEC: getPeer, getHost fall back to the transport *)
| Inet (v6 udp : bool) (src dst : bytes) (sport dport : N)   (* IPv4Address / IPv6Address (type, host text, port) *)
| Unix (src dst : bytes).                                  (* UNIXAddress *)

Inductive phase := Choosing | InV1 | InV2 | Pass (i : info).

Definition CRLF : bytes := [13; 10]%N.
Definition SP : bytes := [32]%N.
Definition PROXY : bytes := [80; 82; 79; 88; 89]%N.
Definition UNKNOWN : bytes := [85; 78; 75; 78; 79; 87; 78]%N.
Definition TCP4 : bytes := [84; 67; 80; 52]%N.
Definition TCP6 : bytes := [84; 67; 80; 54]%N.
Definition V2PREFIX : bytes := [13; 10; 13; 10; 0; 13; 10; 81; 85; 73; 84; 10]%N.

(** ** version 1 *)
Definition all_digits (b : bytes) : bool := match b with [] => false | _ => forallb is_digit b end.

(** int(token) for tokens of ASCII digits; anything else: ValueError -> MissingAddressData (repaired) *)
Definition port_of (tok : bytes) : option N := if all_digits tok then Some (digits_to_N tok) else None.

(** V1Parser.parse *)
Definition v1_parse (line : bytes) : option info :=
  match split1 SP line with                                  (* proxyStr, line = line.split(b" ", 1) *)
  | None => None
  | Some (proxyStr, l1) =>
      if negb (beq proxyStr PROXY) then None
      else
        let '(proto, l2) := match split1 SP l1 with            (* networkProtocol, _, line = line.partition(b" ") *)
                            | Some (p, r) => (p, r)
                            | None => (l1, [])
                            end in
        if beq proto UNKNOWN then Some NoAddr
        else if beq proto TCP4 || beq proto TCP6 then
          match split1 SP l2 with None => None | Some (src, l3) =>
          match split1 SP l3 with None => None | Some (dst, l4) =>
          match split1 SP l4 with None => None | Some (sport, l5) =>
          let dport := match split1 SP l5 with Some (a, _) => a | None => l5 end in   (* line.split(b" ")[0] *)
          match port_of sport, port_of dport with
          | Some sp, Some dp => Some (Inet (beq proto TCP6) false src dst sp dp)
          | _, _ => None
          end end end end
        else None
  end.

(** ** version 2 *)
Definition nth_byte (n : nat) (b : bytes) : N := nth n b 0%N.

Fixpoint rstrip0 (b : bytes) : bytes :=                       (* bytes.rstrip(b"\x00") *)
  match b with
  | [] => []
  | x :: r => match rstrip0 r with
              | [] => if N.eqb x 0 then [] else [x]
              | r' => x :: r'
              end
  end.

(** "%i" % byte joined by "." *)
Definition dot : bytes := [46]%N.
Definition ipv4_text (b : bytes) : bytes := join dot (map N_to_digits b).

(** "%x" *)
Definition hexdig (n : N) : N := if (n <? 10)%N then (48 + n)%N else (87 + n)%N.
Fixpoint hex_fuel (fuel : nat) (n : N) (acc : bytes) : bytes :=
  match fuel with
  | 0 => acc
  | S f => if (n <? 16)%N then hexdig n :: acc else hex_fuel f (n / 16)%N (hexdig (n mod 16) :: acc)
  end.
Definition N_to_hex (n : N) : bytes := hex_fuel 8 n [].
Fixpoint groups16 (b : bytes) : list N :=
  match b with
  | hi :: lo :: r => (hi * 256 + lo)%N :: groups16 r
  | _ => []
  end.
Definition colon : bytes := [58]%N.
Definition ipv6_text (b : bytes) : bytes := join colon (map N_to_hex (groups16 b)).

Definition sub (from len : nat) (b : bytes) : bytes := firstn len (skipn from b).   (* b[from:from+len] *)

(** V2Parser.parse on a header of exactly 16 + length bytes *)
Definition v2_parse (h : bytes) : option info :=
  if negb (beq (firstn 12 h) V2PREFIX) then None
  else
    let vc := nth_byte 12 h in
    let fp := nth_byte 13 h in
    let version := N.land vc 240 in
    let command := N.land vc 15 in
    if negb (N.eqb version 32) || negb ((command =? 0) || (command =? 1))%N then None
    else if (command =? 0)%N then Some NoAddr                          (* LOCAL *)
    else
      let family := N.land fp 240 in
      let proto := N.land fp 15 in
      if negb ((family =? 0) || (family =? 16) || (family =? 32) || (family =? 48))%N then None
      else if negb ((proto =? 0) || (proto =? 1) || (proto =? 2))%N then None
      else if ((family =? 0) || (proto =? 0))%N then Some NoAddr       (* UNSPEC *)
      else
        let body := skipn 16 h in
        if (family =? 48)%N then
          if length body <? 216 then None                             (* struct.error -> MissingAddressData *)
          else Some (Unix (rstrip0 (sub 0 108 body)) (rstrip0 (sub 108 108 body)))
        else if (family =? 16)%N then
          if length body <? 12 then None
          else Some (Inet false (proto =? 2)%N (ipv4_text (sub 0 4 body)) (ipv4_text (sub 4 4 body))
                          (be_to_N (sub 8 2 body)) (be_to_N (sub 10 2 body)))
        else
          if length body <? 36 then None
          else Some (Inet true (proto =? 2)%N (ipv6_text (sub 0 16 body)) (ipv6_text (sub 16 16 body))
                          (be_to_N (sub 32 2 body)) (be_to_N (sub 34 2 body))).

(** ** the wrapper *)
Definition wstate := option (phase * bytes).
Definition winit : wstate := Some (Choosing, []).

Definition v2cond (d : bytes) : bool :=
  (16 <=? length d) && beq (firstn 12 d) V2PREFIX && (N.land (nth_byte 12 d) 240 =? 32)%N.
Definition v1cond (d : bytes) : bool := (8 <=? length d) && beq (firstn 5 d) PROXY.
Definition may_become_header (d : bytes) : bool :=
  ((length d <? 16) && beq (firstn 12 d) (firstn (length d) V2PREFIX)
     && ((length d <? 13) || (N.land (nth_byte 12 d) 240 =? 32)%N))
  || ((length d <? 8) && beq (firstn 5 d) (firstn (length d) PROXY)).

(** V1Parser.feed on the accumulated buffer *)
Definition v1_drain (buf : bytes) : list N * wstate :=
  match split1 CRLF buf with
  | None => if 107 <? length buf then ([], None) else ([], Some (InV1, buf))
  | Some (header, remaining) =>
      if 107 <? length header + 2 then ([], None)                       (* repaired *)
      else match v1_parse header with
           | None => ([], None)
           | Some i => (remaining, Some (Pass i, []))
           end
  end.

(** V2Parser.feed on the accumulated buffer *)
Definition v2_drain (buf : bytes) : list N * wstate :=
  if length buf <? 16 then ([], None)
  else
    let size := 16 + N.to_nat (be_to_N (sub 14 2 buf)) in
    if length buf <? size then ([], Some (InV2, buf))
    else match v2_parse (firstn size buf) with
         | None => ([], None)
         | Some i => (skipn size buf, Some (Pass i, []))
         end.

Definition wdrain (p : phase) (buf : bytes) : list N * wstate :=
  match p with
  | Pass i => (buf, Some (Pass i, []))                                  (* wrappedProtocol.dataReceived(data) *)
  | InV1 => v1_drain buf
  | InV2 => v2_drain buf
  | Choosing =>
      if v2cond buf then v2_drain buf
      else if v1cond buf then v1_drain buf
      else if may_become_header buf then ([], Some (Choosing, buf))     (* repaired: wait *)
      else ([], None)                                                   (* self.loseConnection() *)
  end.

Definition wfeed : wstate -> bytes -> list N * wstate := bfeed wdrain.

(** the wrapper as it is at the pinned commit: the version is chosen from the first delivery alone *)
Definition wfeed_orig (s : wstate) (c : bytes) : list N * wstate :=
  match s with
  | Some (Choosing, _) =>
      if v2cond c then v2_drain c else if v1cond c then v1_drain c else ([], None)
  | _ => wfeed s c
  end.

Definition final_info (s : wstate) : option info :=
  match s with Some (Pass i, _) => Some i | _ => None end.

(** every byte handed to the wrapped protocol, together with the addresses getPeer()/getHost() report to the wrapped
    protocol WHILE it receives that byte (the wrapper stores the parsed header before it passes on what followed it) *)
Definition wfeed_tagged (s : wstate) (c : bytes) : list (option info * N) * wstate :=
  let r := wfeed s c in (map (fun b => (final_info (snd r), b)) (fst r), snd r).
