(** C19 proofs: _parseRequestLine (repaired) accepts exactly the RFC 9112 request lines. *)
From Coq Require Import List NArith Bool Arith Lia ZifyBool.
From TwLib Require Import HttpGrammar.
From C22 Require Import Gen Model.
From C19 Require Import Model.
Import ListNotations.

Lemma mem_above : forall t c bound, forallb (fun x => N.ltb x bound) t = true -> (bound <= c)%N -> mem c t = false.
Proof.
  induction t as [|x t IH]; intros c bound H Hc; [reflexivity|].
  simpl in H. apply andb_true_iff in H. destruct H as [H1 H2].
  unfold mem. simpl. fold (mem c t). rewrite (IH c bound H2 Hc).
  destruct (N.eqb c x) eqn:E; [apply N.eqb_eq in E; lia|reflexivity].
Qed.

Lemma below_128_cases : forall (P : N -> bool),
  forallb (fun n => P (N.of_nat n)) (seq 0 128) = true -> forall c, (c < 128)%N -> P c = true.
Proof.
  intros P H c Hc. rewrite forallb_forall in H.
  specialize (H (N.to_nat c)). rewrite N2Nat.id in H. apply H. apply in_seq. lia.
Qed.

(* the regenerated table of _istoken is RFC 9110's tchar *)
Lemma is_tchar_rfc_eq : forall c, is_tchar c = is_tchar_rfc c.
Proof.
  intros c. destruct (N.ltb c 128) eqn:E.
  - apply Bool.eqb_prop. apply (below_128_cases (fun c => Bool.eqb (is_tchar c) (is_tchar_rfc c))); [|lia].
    vm_compute. reflexivity.
  - assert (Hc : (128 <= c)%N) by lia.
    unfold is_tchar. rewrite (mem_above token_chars c 128 ltac:(vm_compute; reflexivity) Hc).
    unfold is_tchar_rfc, is_DIGIT, is_ALPHA, between.
    change (existsb (N.eqb c) tchar_specials) with (mem c tchar_specials).
    rewrite (mem_above tchar_specials c 128 ltac:(vm_compute; reflexivity) Hc).
    symmetry. lia.
Qed.

Lemma istoken_rfc : forall b, istoken b = rfc_token b.
Proof.
  intros b. unfold istoken, rfc_token. f_equal.
  - induction b as [|x r IH]; simpl; [reflexivity|]. rewrite is_tchar_rfc_eq, IH. reflexivity.
  - destruct b; reflexivity.
Qed.

Lemma target_ok_vchar : forall c, target_ok true c = is_VCHAR c.
Proof. intros c. unfold target_ok, is_VCHAR, between. lia. Qed.

Lemma forallb_ext : forall (f g : N -> bool) l, (forall c, f c = g c) -> forallb f l = forallb g l.
Proof. intros f g l H. induction l as [|x r IH]; simpl; [reflexivity|]. rewrite H, IH. reflexivity. Qed.

Lemma octets_eqb_eq : forall a b, octets_eqb a b = true <-> a = b.
Proof.
  induction a as [|x a IH]; intros [|y b]; simpl; split; intros H; try reflexivity; try discriminate.
  - apply andb_true_iff in H. destruct H as [H1 H2]. apply N.eqb_eq in H1. apply IH in H2. subst. reflexivity.
  - inversion H; subst. rewrite N.eqb_refl. simpl. apply IH. reflexivity.
Qed.

(** find_byte / split_first *)
Lemma find_byte_split : forall c b i, find_byte c b = Some i ->
  b = firstn i b ++ c :: skipn (S i) b /\ find_byte c (firstn i b) = None.
Proof.
  induction b as [|x r IH]; intros i H; [discriminate|].
  simpl in H. destruct (N.eqb x c) eqn:E.
  - inversion H; subst. apply N.eqb_eq in E. subst. split; reflexivity.
  - destruct (find_byte c r) as [j|] eqn:Ef; [|discriminate]. inversion H; subst.
    destruct (IH j eq_refl) as [H1 H2]. split.
    + simpl. f_equal. exact H1.
    + simpl. rewrite E, H2. reflexivity.
Qed.

Lemma find_byte_app_first : forall c l r, find_byte c l = None -> find_byte c (l ++ c :: r) = Some (length l).
Proof.
  induction l as [|x l IH]; intros r H; simpl.
  - rewrite N.eqb_refl. reflexivity.
  - simpl in H. destruct (N.eqb x c); [discriminate|].
    destruct (find_byte c l) eqn:E; [discriminate|]. rewrite (IH r eq_refl). reflexivity.
Qed.

Lemma find_byte_none_forall : forall c l, forallb (fun x => negb (N.eqb x c)) l = true -> find_byte c l = None.
Proof.
  induction l as [|x l IH]; simpl; intros H; [reflexivity|].
  apply andb_true_iff in H. destruct H as [H1 H2]. apply negb_true_iff in H1. rewrite H1, (IH H2). reflexivity.
Qed.

Lemma split_first_app : forall c l r, find_byte c l = None -> split_first c (l ++ c :: r) = Some (l, r).
Proof.
  intros c l r H. unfold split_first. rewrite (find_byte_app_first c l r H).
  rewrite firstn_app, Nat.sub_diag, firstn_O, app_nil_r, firstn_all.
  replace (S (length l)) with (length (l ++ [c])) by (rewrite app_length; simpl; lia).
  replace (l ++ c :: r) with ((l ++ [c]) ++ r) by (rewrite <- app_assoc; reflexivity).
  rewrite skipn_app, Nat.sub_diag, skipn_all. reflexivity.
Qed.

Lemma no_sp_token : forall m, rfc_token m = true -> find_byte SP m = None.
Proof.
  intros m H. unfold rfc_token in H. apply andb_true_iff in H. destruct H as [H _].
  apply find_byte_none_forall. revert H. induction m as [|x m IH]; simpl; intros H; [reflexivity|].
  apply andb_true_iff in H. destruct H as [H1 H2]. rewrite (IH H2), andb_true_r.
  destruct (N.eqb x SP) eqn:E; [|reflexivity]. apply N.eqb_eq in E. subst. vm_compute in H1. discriminate.
Qed.

Lemma no_sp_vchars : forall t, forallb is_VCHAR t = true -> find_byte SP t = None.
Proof.
  intros t H. apply find_byte_none_forall. revert H. induction t as [|x t IH]; simpl; intros H; [reflexivity|].
  apply andb_true_iff in H. destruct H as [H1 H2]. rewrite (IH H2), andb_true_r.
  destruct (N.eqb x SP) eqn:E; [|reflexivity]. apply N.eqb_eq in E. subst. vm_compute in H1. discriminate.
Qed.

Theorem request_line_exact : forall line m t v,
  parse_request_line true line = Some (m, t, v) <->
  (line = m ++ SP :: t ++ SP :: v /\ rfc_request_line_fields m t v = true).
Proof.
  intros line m t v. split.
  - intros H. unfold parse_request_line in H.
    unfold split_first in H.
    destruct (find_byte SP line) as [i|] eqn:E1; [|discriminate].
    destruct (find_byte_split _ _ _ E1) as [H1 _].
    remember (skipn (S i) line) as r1 eqn:Hr1. remember (firstn i line) as m0 eqn:Hm0.
    destruct (find_byte SP r1) as [j|] eqn:E2; [|discriminate].
    destruct (find_byte_split _ _ _ E2) as [H2 _].
    remember (skipn (S j) r1) as v0 eqn:Hv0. remember (firstn j r1) as t0 eqn:Ht0.
    destruct (find_byte SP v0) eqn:E3; [discriminate|].
    match type of H with (if ?c then _ else _) = _ => destruct c eqn:Ec end; [|discriminate].
    injection H as <- <- <-.
    split.
    + rewrite H1 at 1. f_equal. f_equal. exact H2.
    + rewrite istoken_rfc in Ec.
      rewrite (forallb_ext (target_ok true) is_VCHAR) in Ec by apply target_ok_vchar.
      apply andb_true_iff in Ec. destruct Ec as [Ec Hv]. apply andb_true_iff in Ec. destruct Ec as [Ec Hne].
      apply andb_true_iff in Ec. destruct Ec as [Hm Ht].
      unfold rfc_request_line_fields. rewrite Hm, Hne, Ht, Hv. reflexivity.
  - intros [Hl Hf]. subst line. unfold rfc_request_line_fields in Hf.
    apply andb_true_iff in Hf. destruct Hf as [Hf Hv]. apply andb_true_iff in Hf. destruct Hf as [Hf Ht].
    apply andb_true_iff in Hf. destruct Hf as [Hm Hne].
    unfold parse_request_line.
    rewrite (split_first_app SP m (t ++ SP :: v) (no_sp_token m Hm)).
    rewrite (split_first_app SP t v (no_sp_vchars t Ht)).
    assert (Hvs : find_byte SP v = None).
    { apply orb_true_iff in Hv. destruct Hv as [Hv|Hv]; apply octets_eqb_eq in Hv; subst; reflexivity. }
    rewrite Hvs, istoken_rfc, Hm, Hne, Hv.
    rewrite (forallb_ext (target_ok true) is_VCHAR) by apply target_ok_vchar. rewrite Ht. reflexivity.
Qed.
