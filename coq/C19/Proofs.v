(** C19 proofs: the framing decision against RFC 9112 6.3; witnesses for findings F4 and F4b. *)
From Coq Require Import List NArith Bool Arith Lia.
From TwLib Require Import HttpGrammar.
From C22 Require Import Model.
From C19 Require Import Model.
Import ListNotations.

Definition is_cl (kv : bytes * bytes) : bool := octets_eqb (lower (fst kv)) content_length_name.
Definition is_te (kv : bytes * bytes) : bool := octets_eqb (lower (fst kv)) transfer_encoding_name.
Definition cls_of (hs : list (bytes * bytes)) : list bytes := map snd (filter is_cl hs).
Definition tes_of (hs : list (bytes * bytes)) : list bytes := map snd (filter is_te hs).
(* no Transfer-Encoding field whose value is "identity" (finding F4b) *)
Definition no_identity (hs : list (bytes * bytes)) : bool :=
  forallb (fun kv => negb (is_te kv && octets_eqb (lower (snd kv)) identity_name)) hs.
(* no Content-Length longer than int() converts *)
Definition cl_short (hs : list (bytes * bytes)) : bool :=
  forallb (fun kv => negb (is_cl kv) || Nat.leb (length (snd kv)) int_max_str_digits) hs.

Definition to_framing (d : dec) : framing :=
  match d with DNone => FNoBody | DLen n => FLength n | DChunk => FChunked end.

Lemma cl_not_te : forall kv, is_cl kv = true -> is_te kv = false.
Proof.
  intros kv H. unfold is_cl, is_te in *. destruct (octets_eqb (lower (fst kv)) transfer_encoding_name) eqn:E; [|reflexivity].
  exfalso. revert H E. generalize (lower (fst kv)). intros l H E.
  assert (forall a b c, octets_eqb a b = true -> octets_eqb a c = true -> octets_eqb b c = true).
  { induction a as [|x a IH]; intros [|y b] [|z c]; simpl; try discriminate; auto.
    intros H1 H2. apply andb_true_iff in H1. apply andb_true_iff in H2.
    destruct H1 as [Hxy Hab], H2 as [Hxz Hac].
    apply N.eqb_eq in Hxy. apply N.eqb_eq in Hxz. subst. rewrite N.eqb_refl. simpl. eauto. }
  specialize (H0 _ _ _ H E). vm_compute in H0. discriminate.
Qed.

Ltac fin_step :=
  match goal with
  | |- context [match ?x with _ => _ end] =>
      first [is_var x | match x with map _ _ => idtac end]; destruct x
  end.
Ltac fin :=
  unfold rfc_request_framing;
  repeat (fin_step; simpl);
  repeat match goal with H : all_digits _ = _ |- _ => rewrite H | H : octets_eqb _ _ = _ |- _ => rewrite H end;
  try reflexivity.

Lemma choose_spec : forall hs cur, no_identity hs = true -> cl_short hs = true ->
  choose hs cur =
  match cls_of hs, tes_of hs with
  | [], [] => Some cur
  | c, t => match cur with
            | DNone => match rfc_request_framing c t with
                       | Some FNoBody => Some DNone
                       | Some (FLength n) => Some (DLen n)
                       | Some FChunked => Some DChunk
                       | None => None
                       end
            | _ => None
            end
  end.
Proof.
  induction hs as [|[n v] r IH]; intros cur Hid Hsh.
  - reflexivity.
  - simpl in Hid, Hsh. apply andb_true_iff in Hid. destruct Hid as [Hid1 Hid].
    apply andb_true_iff in Hsh. destruct Hsh as [Hsh1 Hsh].
    unfold cls_of, tes_of in *. simpl filter. cbn [choose]. unfold choose1.
    change (octets_eqb (lower n) content_length_name) with (is_cl (n, v)).
    change (octets_eqb (lower n) transfer_encoding_name) with (is_te (n, v)).
    change (octets_eqb (lower n) content_length_name) with (is_cl (n, v)) in Hsh1.
    change (octets_eqb (lower n) transfer_encoding_name) with (is_te (n, v)) in Hid1.
    destruct (is_cl (n, v)) eqn:Ecl.
    + rewrite (cl_not_te _ Ecl). simpl map. simpl in Hsh1. rewrite Hsh1, andb_true_r.
      destruct (all_digits v) eqn:Ed.
      * destruct cur; [|fin|fin].
        rewrite (IH (DLen (decimal v)) Hid Hsh). fin.
      * fin.
    + destruct (is_te (n, v)) eqn:Ete.
      * simpl map. cbn [snd andb] in Hid1.
        apply negb_true_iff in Hid1. rewrite Hid1.
        destruct (octets_eqb (lower v) chunked_name) eqn:Ech.
        -- destruct cur; [|fin|fin].
           rewrite (IH DChunk Hid Hsh). fin.
        -- fin.
      * rewrite (IH cur Hid Hsh). reflexivity.
Qed.

Lemma framing_partial : forall hs, no_identity hs = true -> cl_short hs = true ->
  option_map to_framing (choose hs DNone) = rfc_request_framing (cls_of hs) (tes_of hs).
Proof.
  intros hs H1 H2. rewrite (choose_spec hs DNone H1 H2).
  destruct (cls_of hs) as [|c cl], (tes_of hs) as [|t tl]; try reflexivity;
    match goal with |- context [rfc_request_framing ?a ?b] => destruct (rfc_request_framing a b) as [[| |]|] end;
    reflexivity.
Qed.

(** findings *)
Definition te_identity_headers : list (bytes * bytes) :=
  [(transfer_encoding_name, identity_name); (content_length_name, [51]%N)].
Lemma te_identity_refuted :
  option_map to_framing (choose te_identity_headers DNone) <>
  rfc_request_framing (cls_of te_identity_headers) (tes_of te_identity_headers).
Proof. vm_compute. discriminate. Qed.

Definition f4_line : bytes := [71;69;84;32;47;127;32;72;84;84;80;47;49;46;49]%N.   (* GET /<DEL> HTTP/1.1 *)
Lemma f4_refuted : exists m t v, parse_request_line false f4_line = Some (m, t, v) /\
  rfc_request_line_fields m t v = false.
Proof. vm_compute. eexists _, _, _. split; reflexivity. Qed.
Lemma f4_repaired : parse_request_line true f4_line = None.
Proof. vm_compute. reflexivity. Qed.
