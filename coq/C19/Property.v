(** C19 property theorems (model = HTTPChannel with the two C19 fix patches; see Model.v).
    Spec = Lib/HttpGrammar.v (RFC 9110 5.6.2, RFC 9112 3 and 6.3, written from the RFC text). *)
From Coq Require Import List NArith Bool Arith.
From TwLib Require Import HttpGrammar.
From C22 Require Import Model.
From C19 Require Import Model Proofs.
Import ListNotations.

(** The framing decision taken field by field by _maybeChooseTransferDecoder (any number of fields, any
    order, any spelling of names and values) is the RFC 9112 6.3 decision on the lists of Content-Length
    and Transfer-Encoding values -- provided no Transfer-Encoding value is "identity" (finding F4b) and no
    Content-Length has more digits than int() converts (those are refused although numeric).
    FULL statement (false of the code, see the next theorem): the same without [no_identity]. *)
Theorem framing_decision_agrees_with_rfc_partial : forall hs : list (bytes * bytes),
  no_identity hs = true -> cl_short hs = true ->
  option_map to_framing (choose hs DNone) = rfc_request_framing (cls_of hs) (tes_of hs).
Proof. exact framing_partial. Qed.
Print Assumptions framing_decision_agrees_with_rfc_partial.

(** finding F4b (known finding, not repaired): Transfer-Encoding: identity with Content-Length: 3 is
    framed by the Content-Length; RFC 9112 6.3 demands rejection *)
Theorem framing_decision_agrees_with_rfc_refuted : exists hs : list (bytes * bytes),
  cl_short hs = true /\
  option_map to_framing (choose hs DNone) <> rfc_request_framing (cls_of hs) (tes_of hs).
Proof. exists te_identity_headers. split; [reflexivity|exact te_identity_refuted]. Qed.
Print Assumptions framing_decision_agrees_with_rfc_refuted.

(** finding F4 (repaired by fixes/C19-request-target-octal-slip.patch): the pinned code accepts a
    request line whose target contains DEL (0x7f), which is not a VCHAR; the repaired code refuses it *)
Theorem target_bytes_refuted_in_pinned_code : exists line m t v,
  parse_request_line false line = Some (m, t, v) /\ rfc_request_line_fields m t v = false /\
  parse_request_line true line = None.
Proof.
  destruct f4_refuted as (m & t & v & H1 & H2).
  exists f4_line, m, t, v. split; [exact H1|split; [exact H2|exact f4_repaired]].
Qed.
Print Assumptions target_bytes_refuted_in_pinned_code.

(** ---- stream level (serve_stream = the whole connection delivered in one piece; by C18's theorems
    every other way of delivering it gives the same requests) ---- *)
From TwLib Require Import HttpRender.
From C19 Require Import ReqLine Pipeline.

(** _parseRequestLine (repaired) accepts exactly the RFC 9112 request lines: method token, SP, a
    non-empty target of visible ASCII, SP, HTTP/1.0 or HTTP/1.1 -- nothing else *)
Theorem request_line_accepts_exactly_rfc : forall line m t v : bytes,
  parse_request_line true line = Some (m, t, v) <->
  (line = m ++ SP :: t ++ SP :: v /\ rfc_request_line_fields m t v = true).
Proof. exact request_line_exact. Qed.
Print Assumptions request_line_accepts_exactly_rfc.

(** framing agrees with the RFC on well-formed streams: any pipeline of requests written as RFC 9112
    prescribes (canonical field lines with any RFC field values, body framed by Content-Length or by
    the chunked coding with any extensions / trailers, or absent; within the server's header limits),
    followed by anything, is parsed into exactly those requests with exactly those bodies, and parsing
    resumes exactly at the first byte after the last body *)
Theorem framing_agrees_with_rfc : forall (qs : list wreq) (tail : bytes),
  Forall wf_wreq qs -> forallb keeps_alive qs = true ->
  serve_stream true (flat_map render qs ++ tail) =
  let '(rs, e) := serve_stream true tail in (map parsed qs ++ rs, e).
Proof. exact pipeline. Qed.
Print Assumptions framing_agrees_with_rfc.

(** ... so whatever the bodies contain (e.g. the bytes of a request), the application sees the written
    requests and nothing else *)
Theorem no_body_byte_parsed_as_request : forall (qs : list wreq),
  Forall wf_wreq qs -> forallb keeps_alive qs = true ->
  serve_stream true (flat_map render qs) = (map parsed qs, EWait).
Proof. exact pipeline_complete. Qed.
Print Assumptions no_body_byte_parsed_as_request.

(** after a request that ends the connection (Connection: close, HTTP/1.0) nothing is processed *)
Theorem nothing_processed_after_last_request : forall (qs : list wreq) (q : wreq) (junk : bytes),
  Forall wf_wreq qs -> forallb keeps_alive qs = true -> wf_wreq q -> keeps_alive q = false ->
  serve_stream true (flat_map render qs ++ render q ++ junk) = (map parsed qs ++ [parsed q], EClosed).
Proof. exact pipeline_close. Qed.
Print Assumptions nothing_processed_after_last_request.

(** a request line that is not an RFC request line is answered with 400 and nothing after it is
    processed, the requests before it having been delivered *)
Theorem invalid_request_line_is_400_and_stops : forall (qs : list wreq) (l junk : bytes),
  Forall wf_wreq qs -> forallb keeps_alive qs = true ->
  find_crlf l = None -> l <> [] -> (N.of_nat (length l) <= total_headers_size)%N ->
  (forall m t v, l = request_line m t v -> rfc_request_line_fields m t v = false) ->
  serve_stream true (flat_map render qs ++ l ++ CRLFo ++ junk) = (map parsed qs, EBad).
Proof. exact bad_request_line. Qed.
Print Assumptions invalid_request_line_is_400_and_stops.
