(** C19 property theorems (model = HTTPChannel with the two C19 fix patches; see Model.v).
    Spec = Lib/HttpGrammar.v (RFC 9110 5.6.2, RFC 9112 3 and 6.3, written from the RFC text). *)
From Coq Require Import List NArith Bool Arith.
From TwLib Require Import HttpGrammar.
From C22 Require Import Model.
From C19 Require Import Model Proofs.
Import ListNotations.

(** The framing decision taken field by field by _maybeChooseTransferDecoder (any number of fields, any
    order, any spelling of names and values) is the RFC 9112 6.3 decision on the lists of Content-Length
    and Transfer-Encoding values -- provided no Transfer-Encoding value is "identity" (finding F4b) and no
    Content-Length has more digits than int() converts (those are refused although numeric).
    FULL statement (false of the code, see the next theorem): the same without [no_identity]. *)
Theorem framing_decision_agrees_with_rfc_partial : forall hs : list (bytes * bytes),
  no_identity hs = true -> cl_short hs = true ->
  option_map to_framing (choose hs DNone) = rfc_request_framing (cls_of hs) (tes_of hs).
Proof. exact framing_partial. Qed.
Print Assumptions framing_decision_agrees_with_rfc_partial.

(** finding F4b (known finding, not repaired): Transfer-Encoding: identity with Content-Length: 3 is
    framed by the Content-Length; RFC 9112 6.3 demands rejection *)
Theorem framing_decision_agrees_with_rfc_refuted : exists hs : list (bytes * bytes),
  cl_short hs = true /\
  option_map to_framing (choose hs DNone) <> rfc_request_framing (cls_of hs) (tes_of hs).
Proof. exists te_identity_headers. split; [reflexivity|exact te_identity_refuted]. Qed.
Print Assumptions framing_decision_agrees_with_rfc_refuted.

(** finding F4 (repaired by fixes/C19-request-target-octal-slip.patch): the pinned code accepts a
    request line whose target contains DEL (0x7f), which is not a VCHAR; the repaired code refuses it *)
Theorem target_bytes_refuted_in_pinned_code : exists line m t v,
  parse_request_line false line = Some (m, t, v) /\ rfc_request_line_fields m t v = false /\
  parse_request_line true line = None.
Proof.
  destruct f4_refuted as (m & t & v & H1 & H2).
  exists f4_line, m, t, v. split; [exact H1|split; [exact H2|exact f4_repaired]].
Qed.
Print Assumptions target_bytes_refuted_in_pinned_code.

(** ---- stream level (serve_stream = the whole connection delivered in one piece; by C18's theorems
    every other way of delivering it gives the same requests) ---- *)
From TwLib Require Import HttpRender.
From C19 Require Import ReqLine HeadersBlock Pipeline.

(** _parseRequestLine (repaired) accepts exactly the RFC 9112 request lines: method token, SP, a
    non-empty target of visible ASCII, SP, HTTP/1.0 or HTTP/1.1 -- nothing else *)
Theorem request_line_accepts_exactly_rfc : forall line m t v : bytes,
  parse_request_line true line = Some (m, t, v) <->
  (line = m ++ SP :: t ++ SP :: v /\ rfc_request_line_fields m t v = true).
Proof. exact request_line_exact. Qed.
Print Assumptions request_line_accepts_exactly_rfc.

(** framing agrees with the RFC on well-formed streams.  [wf_wreq]: an RFC request line; any number of
    fields "token ':' octets" each optionally continued on obs-fold lines (1*(SP/HTAB) text), any OWS
    around the values; the field values as the RFC reads them (obs-fold -> SP, OWS trimmed: [f_value])
    determine the framing by RFC 9112 6.3 ([rfc_request_framing] = Some ..); the body is absent / has the
    Content-Length / is chunked with any extensions and trailers; within the server's limits.  Any
    pipeline of such requests followed by ANYTHING is parsed into exactly those requests (field names
    lower-cased, values = [f_value]) with exactly those bodies, and parsing resumes at the first byte
    after the last body *)
Theorem framing_agrees_with_rfc : forall (qs : list wreq) (tail : bytes),
  Forall wf_wreq qs -> forallb keeps_alive qs = true ->
  serve_stream true (flat_map render qs ++ tail) =
  let '(rs, e) := serve_stream true tail in (map parsed qs ++ rs, e).
Proof. exact pipeline. Qed.
Print Assumptions framing_agrees_with_rfc.

(** ... so whatever the bodies contain (e.g. the bytes of a request), the application sees the written
    requests and nothing else *)
Theorem no_body_byte_parsed_as_request : forall (qs : list wreq),
  Forall wf_wreq qs -> forallb keeps_alive qs = true ->
  serve_stream true (flat_map render qs) = (map parsed qs, EWait).
Proof. exact pipeline_complete. Qed.
Print Assumptions no_body_byte_parsed_as_request.

(** after a request that ends the connection (Connection: close, HTTP/1.0) nothing is processed *)
Theorem nothing_processed_after_last_request : forall (qs : list wreq) (q : wreq) (junk : bytes),
  Forall wf_wreq qs -> forallb keeps_alive qs = true -> wf_wreq q -> keeps_alive q = false ->
  serve_stream true (flat_map render qs ++ render q ++ junk) = (map parsed qs ++ [parsed q], EClosed).
Proof. exact pipeline_close. Qed.
Print Assumptions nothing_processed_after_last_request.

(** the first malformed request.  [malformed_head bad]: [bad] starts with (a) a non-empty line that is
    not an RFC request line, or (b) an RFC request line, any well-formed fields, then a line that is not
    an RFC field line (no colon, a name that is not a token, NUL in the value) followed by any further
    line that is not a continuation, or (c) a complete head of well-formed fields whose Content-Length /
    Transfer-Encoding values RFC 9112 6.3 refuses (both present, repeated, non-numeric, unsupported
    coding; 'identity' excepted, finding F4b).  Every stream consisting of i well-formed keep-alive
    requests followed by such a head -- and then anything at all -- delivers exactly those i requests,
    is answered with 400, and nothing after the malformed head is processed. *)
Theorem first_malformed_request_is_400_and_stops : forall (qs : list wreq) (bad : bytes),
  Forall wf_wreq qs -> forallb keeps_alive qs = true -> malformed_head bad ->
  serve_stream true (flat_map render qs ++ bad) = (map parsed qs, EBad).
Proof. exact first_malformed. Qed.
Print Assumptions first_malformed_request_is_400_and_stops.

(** the three cases separately, for a malformed head at the very start *)
Theorem invalid_request_line_is_400 : forall (l junk : bytes), find_crlf l = None -> l <> [] ->
  (forall m t v, l = request_line m t v -> rfc_request_line_fields m t v = false) ->
  serve_stream true (l ++ CRLFo ++ junk) = ([], EBad).
Proof. exact bad_line_first. Qed.
Print Assumptions invalid_request_line_is_400.

Theorem invalid_field_line_is_400 : forall (m t v : bytes) (fs : list field) x (r nl junk : bytes),
  rfc_request_line_fields m t v = true -> forallb wf_field fs = true ->
  find_crlf (x :: r) = None -> is_ows x = false -> rfc_field_line (x :: r) = false ->
  find_crlf nl = None -> match nl with [] => True | y :: _ => is_ows y = false end ->
  serve_stream true (request_line m t v ++ CRLFo ++ flat_map field_lines fs ++ (x :: r) ++ CRLFo ++ nl ++ CRLFo ++ junk)
  = ([], EBad).
Proof. exact bad_field_first. Qed.
Print Assumptions invalid_field_line_is_400.

Theorem conflicting_framing_is_400 : forall (m t v : bytes) (fs : list field) (junk : bytes),
  rfc_request_line_fields m t v = true -> forallb wf_field fs = true ->
  no_identity (vals fs) = true -> cl_short (vals fs) = true ->
  rfc_request_framing (cls_of (vals fs)) (tes_of (vals fs)) = None ->
  serve_stream true (render_head m t v fs ++ junk) = ([], EBad).
Proof. exact bad_framing_first. Qed.
Print Assumptions conflicting_framing_is_400.
