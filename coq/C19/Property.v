(** C19 property theorems (model = HTTPChannel with the two C19 fix patches; see Model.v).
    Spec = Lib/HttpGrammar.v (RFC 9110 5.6.2, RFC 9112 3 and 6.3, written from the RFC text). *)
From Coq Require Import List NArith Bool Arith.
From TwLib Require Import HttpGrammar.
From C22 Require Import Model.
From C19 Require Import Model Proofs.
Import ListNotations.

(** The framing decision taken field by field by _maybeChooseTransferDecoder (any number of fields, any
    order, any spelling of names and values) is the RFC 9112 6.3 decision on the lists of Content-Length
    and Transfer-Encoding values -- provided no Transfer-Encoding value is "identity" (finding F4b) and no
    Content-Length has more digits than int() converts (those are refused although numeric).
    FULL statement (false of the code, see the next theorem): the same without [no_identity]. *)
Theorem framing_decision_agrees_with_rfc_partial : forall hs : list (bytes * bytes),
  no_identity hs = true -> cl_short hs = true ->
  option_map to_framing (choose hs DNone) = rfc_request_framing (cls_of hs) (tes_of hs).
Proof. exact framing_partial. Qed.
Print Assumptions framing_decision_agrees_with_rfc_partial.

(** finding F4b (known finding, not repaired): Transfer-Encoding: identity with Content-Length: 3 is
    framed by the Content-Length; RFC 9112 6.3 demands rejection *)
Theorem framing_decision_agrees_with_rfc_refuted : exists hs : list (bytes * bytes),
  cl_short hs = true /\
  option_map to_framing (choose hs DNone) <> rfc_request_framing (cls_of hs) (tes_of hs).
Proof. exists te_identity_headers. split; [reflexivity|exact te_identity_refuted]. Qed.
Print Assumptions framing_decision_agrees_with_rfc_refuted.

(** finding F4 (repaired by fixes/C19-request-target-octal-slip.patch): the pinned code accepts a
    request line whose target contains DEL (0x7f), which is not a VCHAR; the repaired code refuses it *)
Theorem target_bytes_refuted_in_pinned_code : exists line m t v,
  parse_request_line false line = Some (m, t, v) /\ rfc_request_line_fields m t v = false /\
  parse_request_line true line = None.
Proof.
  destruct f4_refuted as (m & t & v & H1 & H2).
  exists f4_line, m, t, v. split; [exact H1|split; [exact H2|exact f4_repaired]].
Qed.
Print Assumptions target_bytes_refuted_in_pinned_code.
