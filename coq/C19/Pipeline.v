(** C19 proofs: a pipeline of well-formed requests (RFC rendering, Lib/HttpRender.v) is parsed back
    exactly -- each request gets exactly its body, no body byte is parsed as a request. *)
From Coq Require Import List NArith Bool Arith Lia ZifyBool.
From TwLib Require Import HttpGrammar HttpRender.
From C22 Require Import Gen Model Proofs SegProofs RoundTrip Final Lengths.
From C19 Require Import Model Proofs ReqLine.
Import ListNotations.

Arguments find_crlf : simpl never.
Arguments firstn : simpl nomatch.
Arguments skipn : simpl nomatch.
Opaque total_headers_size max_headers.

(** ---- strip / sanitize on well-formed values ---- *)
Lemma lstrip_id : forall l, match l with [] => True | x :: _ => is_ws x = false end -> lstrip l = l.
Proof. intros [|x l] H; simpl; [reflexivity|]. rewrite H. reflexivity. Qed.

Lemma rev_head_last : forall (v : bytes), v <> [] -> rev v = last v 0%N :: rev (removelast v).
Proof.
  intros v H. rewrite (app_removelast_last 0%N H) at 1. rewrite rev_unit. reflexivity.
Qed.

Lemma strip_sp_value : forall v, wf_field_value v = true -> strip (SP :: v) = v.
Proof.
  intros v H. unfold strip. rewrite !rev_append_rev, !app_nil_r.
  unfold wf_field_value in H. apply andb_true_iff in H. destruct H as [_ H].
  change (lstrip (SP :: v)) with (lstrip v).
  destruct v as [|x r]; [reflexivity|].
  apply andb_true_iff in H. destruct H as [H1 H2]. apply negb_true_iff in H1. apply negb_true_iff in H2.
  rewrite (lstrip_id (x :: r)) by exact H1.
  rewrite (rev_head_last (x :: r)) by discriminate.
  rewrite lstrip_id by exact H2. rewrite <- rev_head_last by discriminate. apply rev_involutive.
Qed.

Lemma sanitize_id : forall v, forallb is_field_octet v = true -> sanitize v = v.
Proof.
  induction v as [|x r IH]; intros H; [reflexivity|].
  simpl in H. apply andb_true_iff in H. destruct H as [H1 H2].
  unfold is_field_octet in H1. apply andb_true_iff in H1. destruct H1 as [H1 Hlf].
  apply andb_true_iff in H1. destruct H1 as [_ Hcr].
  apply negb_true_iff in Hcr. apply negb_true_iff in Hlf.
  simpl. rewrite Hcr, Hlf, (IH H2). reflexivity.
Qed.

Lemma no_nul : forall v, forallb is_field_octet v = true -> existsb (N.eqb 0) v = false.
Proof.
  induction v as [|x r IH]; intros H; [reflexivity|].
  simpl in H. apply andb_true_iff in H. destruct H as [H1 H2].
  unfold is_field_octet in H1. apply andb_true_iff in H1. destruct H1 as [H1 _].
  apply andb_true_iff in H1. destruct H1 as [H0 _]. apply negb_true_iff in H0.
  destruct x as [|p]; [simpl in H0; discriminate|]. simpl. apply IH. exact H2.
Qed.

(** ---- no CR in tokens / targets / values: lines contain no CRLF ---- *)
Definition not_cr (c : N) : bool := negb (N.eqb c CR).

Lemma forallb_imp : forall (p q : N -> bool) l, (forall c, p c = true -> q c = true) ->
  forallb p l = true -> forallb q l = true.
Proof.
  intros p q l H. induction l as [|x r IH]; simpl; [reflexivity|]. intros H1.
  apply andb_true_iff in H1. destruct H1 as [H1 H2]. rewrite (H _ H1), (IH H2). reflexivity.
Qed.

Lemma tchar_not_cr : forall c, is_tchar_rfc c = true -> not_cr c = true.
Proof. intros c H. unfold not_cr. destruct (N.eqb c CR) eqn:E; [|reflexivity]. apply N.eqb_eq in E. subst. vm_compute in H. discriminate. Qed.
Lemma vchar_not_cr : forall c, is_VCHAR c = true -> not_cr c = true.
Proof. intros c H. unfold not_cr. destruct (N.eqb c CR) eqn:E; [|reflexivity]. apply N.eqb_eq in E. subst. vm_compute in H. discriminate. Qed.
Lemma field_octet_not_cr : forall c, is_field_octet c = true -> not_cr c = true.
Proof.
  intros c H. unfold is_field_octet in H. apply andb_true_iff in H. destruct H as [H _].
  apply andb_true_iff in H. destruct H as [_ H]. exact H.
Qed.

Lemma token_chars_ok : forall m, rfc_token m = true -> forallb is_tchar_rfc m = true /\ m <> [].
Proof.
  intros m H. unfold rfc_token in H. apply andb_true_iff in H. destruct H as [H1 H2].
  split; [exact H1|]. destruct m; [discriminate|discriminate].
Qed.

Lemma request_line_no_crlf : forall m t v, rfc_request_line_fields m t v = true ->
  find_crlf (request_line m t v) = None.
Proof.
  intros m t v H. apply find_crlf_no_cr. fold not_cr.
  change (fun c : N => negb (N.eqb c CR)) with not_cr.
  unfold rfc_request_line_fields in H.
  apply andb_true_iff in H. destruct H as [H Hv]. apply andb_true_iff in H. destruct H as [H Ht].
  apply andb_true_iff in H. destruct H as [Hm _].
  unfold request_line. rewrite forallb_app. simpl. rewrite forallb_app. simpl.
  destruct (token_chars_ok m Hm) as [Hm' _].
  rewrite (forallb_imp _ _ m tchar_not_cr Hm'), (forallb_imp _ _ t vchar_not_cr Ht). simpl.
  apply orb_true_iff in Hv. destruct Hv as [Hv|Hv]; apply octets_eqb_eq in Hv; subst; reflexivity.
Qed.

Lemma field_line_no_crlf : forall f, wf_field f = true -> find_crlf (field_line f) = None.
Proof.
  intros [n v] H. apply find_crlf_no_cr. change (fun c : N => negb (N.eqb c CR)) with not_cr.
  unfold wf_field in H. simpl in H. apply andb_true_iff in H. destruct H as [Hn Hv].
  unfold wf_field_value in Hv. apply andb_true_iff in Hv. destruct Hv as [Hv _].
  unfold field_line. simpl. rewrite forallb_app. simpl.
  destruct (token_chars_ok n Hn) as [Hn' _].
  rewrite (forallb_imp _ _ n tchar_not_cr Hn'), (forallb_imp _ _ v field_octet_not_cr Hv). reflexivity.
Qed.

Lemma read_line_at : forall l rest, find_crlf l = None -> read_line (l ++ CRLFo ++ rest) = Some (l, rest).
Proof.
  intros l rest H. change (l ++ CRLFo ++ rest) with (l ++ CR :: LF :: rest).
  unfold read_line. rewrite (find_crlf_at l rest H).
  rewrite firstn_app_exact.
  replace (length l + 2) with (length (l ++ [CR; LF])) by (rewrite app_length; simpl; lia).
  replace (l ++ CR :: LF :: rest) with ((l ++ [CR; LF]) ++ rest) by (rewrite <- app_assoc; reflexivity).
  rewrite skipn_app_exact. reflexivity.
Qed.

(** ---- one well-formed field through headerReceived ---- *)
Lemma no_colon_token : forall n, rfc_token n = true -> find_byte COLON n = None.
Proof.
  intros n H. destruct (token_chars_ok n H) as [H1 _]. apply find_byte_none_forall.
  clear H. induction n as [|x n IH]; simpl in *; [reflexivity|].
  apply andb_true_iff in H1. destruct H1 as [Hx Hn]. rewrite (IH Hn), andb_true_r.
  destruct (N.eqb x COLON) eqn:E; [|reflexivity]. apply N.eqb_eq in E. subst. vm_compute in Hx. discriminate.
Qed.

Lemma header_received_wf : forall h f d,
  wf_field f = true -> choose1 (h_dec h) (fst f) (snd f) = Some d -> h_count h < max_headers ->
  header_received h (field_line f) = Some (mkh d (h_hdrs h ++ [(lower (fst f), snd f)]) (S (h_count h))).
Proof.
  intros h [n v] d Hw Hc Hcount. simpl in *. unfold wf_field in Hw. simpl in Hw.
  apply andb_true_iff in Hw. destruct Hw as [Hn Hv].
  unfold header_received, field_line. simpl fst. simpl snd.
  change COLONo with COLON. rewrite (split_first_app COLON n (SP :: v) (no_colon_token n Hn)).
  rewrite istoken_rfc, Hn. rewrite (strip_sp_value v Hv).
  pose proof Hv as Hv'. unfold wf_field_value in Hv'. apply andb_true_iff in Hv'. destruct Hv' as [Hoct _].
  rewrite (no_nul v Hoct), Hc, (sanitize_id v Hoct).
  destruct (Nat.ltb max_headers (S (h_count h))) eqn:E; [lia|reflexivity].
Qed.

(** ---- the header block ---- *)
Definition norm (f : bytes * bytes) : bytes * bytes := (lower (fst f), snd f).

Fixpoint fold_fields (h : hst) (fs : list (bytes * bytes)) : option hst :=
  match fs with
  | [] => Some h
  | f :: r => match header_received h (field_line f) with Some h' => fold_fields h' r | None => None end
  end.

Lemma fold_fields_wf : forall fs h d,
  forallb wf_field fs = true -> choose fs (h_dec h) = Some d -> h_count h + length fs <= max_headers ->
  fold_fields h fs = Some (mkh d (h_hdrs h ++ map norm fs) (h_count h + length fs)).
Proof.
  induction fs as [|[n v] r IH]; intros h d Hw Hc Hn.
  - simpl in *. inversion Hc; subst. rewrite app_nil_r, Nat.add_0_r. destruct h; reflexivity.
  - simpl in Hw. apply andb_true_iff in Hw. destruct Hw as [Hf Hr].
    cbn [choose] in Hc. destruct (choose1 (h_dec h) n v) as [d1|] eqn:E1; [|discriminate].
    cbn [fold_fields]. simpl length in Hn.
    rewrite (header_received_wf h (n, v) d1 Hf E1) by lia.
    rewrite (IH (mkh d1 (h_hdrs h ++ [(lower (fst (n, v)), snd (n, v))]) (S (h_count h))) d Hr Hc) by (simpl; lia).
    simpl. f_equal. f_equal.
    + rewrite <- app_assoc. reflexivity.
    + lia.
Qed.

Definition fields_size (fs : list (bytes * bytes)) : N :=
  fold_right (fun f acc => (N.of_nat (length (field_line f)) + acc)%N) 0%N fs.

Lemma field_line_head : forall f, wf_field f = true ->
  exists c r, field_line f = c :: r /\ is_ws c = false.
Proof.
  intros [n v] H. unfold wf_field in H. simpl in H. apply andb_true_iff in H. destruct H as [Hn _].
  destruct (token_chars_ok n Hn) as [Hc Hne]. destruct n as [|c n]; [congruence|].
  exists c, (n ++ COLONo :: SP :: v). split; [reflexivity|].
  simpl in Hc. apply andb_true_iff in Hc. destruct Hc as [Hc _].
  unfold is_ws. destruct (N.eqb c SP) eqn:E1; [apply N.eqb_eq in E1; subst; vm_compute in Hc; discriminate|].
  destruct (N.eqb c HTAB) eqn:E2; [apply N.eqb_eq in E2; subst; vm_compute in Hc; discriminate|]. reflexivity.
Qed.

Lemma headers_loop_fields : forall fs pend h size fuel rest h1 h',
  length fs < fuel -> (size + fields_size fs <= total_headers_size)%N ->
  forallb wf_field fs = true -> flush h pend = Some h1 -> fold_fields h1 fs = Some h' ->
  headers_loop fuel (flat_map (fun f => field_line f ++ CRLFo) fs ++ CRLFo ++ rest) pend h size = HDone h' rest.
Proof.
  induction fs as [|f r IH]; intros pend h size fuel rest h1 h' Hfuel Hsize Hw Hfl Hfold.
  - destruct fuel as [|fuel]; [simpl in Hfuel; lia|]. cbn [flat_map app headers_loop].
    change (CRLFo ++ rest) with ([] ++ CRLFo ++ rest). rewrite (read_line_at [] rest eq_refl).
    simpl length. simpl in Hsize. change (N.of_nat 0) with 0%N.
    destruct (N.ltb total_headers_size (size + 0)) eqn:E; [lia|].
    rewrite Hfl. simpl in Hfold. inversion Hfold; subst. reflexivity.
  - destruct fuel as [|fuel]; [simpl in Hfuel; lia|]. simpl in Hw. apply andb_true_iff in Hw. destruct Hw as [Hf Hr].
    cbn [flat_map]. rewrite <- !app_assoc. cbn [headers_loop].
    rewrite (read_line_at (field_line f) _ (field_line_no_crlf f Hf)).
    cbn [fields_size fold_right] in Hsize. fold (fields_size r) in Hsize.
    destruct (N.ltb total_headers_size (size + N.of_nat (length (field_line f)))) eqn:E; [lia|].
    destruct (field_line_head f Hf) as (c & tl & Hl & Hws). rewrite Hl at 1. rewrite Hws, Hfl.
    cbn [fold_fields] in Hfold. destruct (header_received h1 (field_line f)) as [h2|] eqn:Eh; [|discriminate].
    apply (IH (field_line f) h1 _ fuel rest h2 h'); try assumption.
    + simpl in Hfuel. lia.
    + lia.
    + unfold flush. rewrite Hl. rewrite <- Hl. exact Eh.
Qed.

(** ---- fuel of the whole-stream parser ---- *)
Lemma read_line_len : forall s line rest, read_line s = Some (line, rest) -> length rest + 2 <= length s.
Proof.
  intros s line rest H. unfold read_line in H. destruct (find_crlf s) as [i|] eqn:E; [|discriminate].
  inversion H; subst. pose proof (find_crlf_bound _ _ E). rewrite skipn_length. lia.
Qed.

Lemma headers_loop_len : forall fuel s pend h size h' r2,
  headers_loop fuel s pend h size = HDone h' r2 -> length r2 + 2 <= length s.
Proof.
  induction fuel as [|fuel IH]; intros s pend h size h' r2 H; [discriminate|].
  cbn [headers_loop] in H. destruct (read_line s) as [[line rest]|] eqn:Er; [|discriminate].
  pose proof (read_line_len _ _ _ Er) as Hl.
  destruct (N.ltb _ _); [discriminate|].
  destruct line as [|c l].
  - destruct (flush h pend); [|discriminate]. inversion H; subst. exact Hl.
  - destruct (is_ws c).
    + apply IH in H. lia.
    + destruct (flush h pend); [|discriminate]. apply IH in H. lia.
Qed.

Lemma serve_S : forall f s sk size0, serve true (S f) s sk size0 =
  match read_line s with
  | None => ([], EWait)
  | Some (line, rest) =>
      let size := (size0 + N.of_nat (length line))%N in
      if N.ltb total_headers_size size then ([], EBad) else
      if (is_nil line && negb sk)%bool then serve true f rest true size else
      match parse_request_line true line with
      | None => ([], EBad)
      | Some (m, t, v) =>
          match headers_loop (S (length rest)) rest [] (mkh DNone [] 0) size with
          | HBad => ([], EBad)
          | HWait => ([], EWait)
          | HDone h rest2 =>
              let deliver body rest3 :=
                let r := mkreq m t v (h_hdrs h) body in
                if persistent v (h_hdrs h)
                then let '(rs, e) := serve true f rest3 false 0%N in (r :: rs, e)
                else ([r], EClosed) in
              match h_dec h with
              | DNone => deliver [] rest2
              | DLen n =>
                  if N.leb n (N.of_nat (length rest2))
                  then deliver (firstn (N.to_nat n) rest2) (skipn (N.to_nat n) rest2)
                  else ([], EWait)
              | DChunk =>
                  match rest2 with
                  | [] => ([], EWait)
                  | _ =>
                      match decode true default_maxtr [rest2] with
                      | (body, Finished extra) => deliver body extra
                      | (_, Failed _) => ([], EBad)
                      | (_, Need) => ([], EWait)
                      end
                  end
              end
          end
      end
  end.
Proof. reflexivity. Qed.

Lemma serve_fuel : forall f1 f2 s sk size0, length s < f1 -> length s < f2 ->
  serve true f1 s sk size0 = serve true f2 s sk size0.
Proof.
  induction f1 as [|f1 IH]; intros f2 s sk size0 H1 H2; [lia|].
  destruct f2 as [|f2]; [lia|]. rewrite !serve_S.
  destruct (read_line s) as [[line rest]|] eqn:Er; [|reflexivity].
  pose proof (read_line_len _ _ _ Er) as Hl. cbv zeta.
  destruct (N.ltb _ _); [reflexivity|].
  destruct (is_nil line && negb sk)%bool; [apply IH; lia|].
  destruct (parse_request_line true line) as [[[m t] v]|]; [|reflexivity].
  destruct (headers_loop _ rest [] _ _) as [| |h rest2] eqn:Eh; try reflexivity.
  pose proof (headers_loop_len _ _ _ _ _ _ _ Eh) as Hl2.
  destruct (h_dec h) as [|n|].
  - destruct (persistent v (h_hdrs h)); [|reflexivity]. rewrite (IH f2) by lia. reflexivity.
  - destruct (N.leb n (N.of_nat (length rest2))); [|reflexivity].
    destruct (persistent v (h_hdrs h)); [|reflexivity].
    rewrite (IH f2) by (rewrite skipn_length; lia). reflexivity.
  - destruct rest2 as [|r0 rl]; [reflexivity|].
    destruct (decode true default_maxtr _) as [body [|extra|e]] eqn:Ed; try reflexivity.
    pose proof (decode_fin_length _ _ _ _ _ Ed) as Hx.
    destruct (persistent v (h_hdrs h)); [|reflexivity]. rewrite (IH f2) by lia. reflexivity.
Qed.

(** ---- one well-formed request at the front of the stream ---- *)
Inductive wire_ok : framing -> bytes -> bytes -> Prop :=
| WNone : wire_ok FNoBody [] []
| WLen : forall body, wire_ok (FLength (N.of_nat (length body))) body body
| WChunk : forall cs z ze ts,
    forallb wf_chunk cs = true -> wf_last z ze = true -> forallb wf_trailer ts = true ->
    (trailers_size ts + 2 <= default_maxtr)%N ->
    wire_ok FChunked (encode cs z ze ts) (concat (map c_data cs)).

Lemma fields_len : forall fs : list (bytes * bytes),
  length fs <= length (flat_map (fun f => field_line f ++ CRLFo) fs).
Proof.
  induction fs as [|f r IH]; simpl; [lia|]. rewrite !app_length. simpl. lia.
Qed.

Lemma request_parsed : forall m t v fs fr wire body rest,
  rfc_request_line_fields m t v = true ->
  forallb wf_field fs = true ->
  length fs <= max_headers ->
  (N.of_nat (length (request_line m t v)) + fields_size fs <= total_headers_size)%N ->
  no_identity fs = true -> cl_short fs = true ->
  rfc_request_framing (cls_of fs) (tes_of fs) = Some fr ->
  wire_ok fr wire body ->
  serve_stream true (render_head m t v fs ++ wire ++ rest) =
    (let r := mkreq m t v (map norm fs) body in
     if persistent v (map norm fs)
     then let '(rs, e) := serve_stream true rest in (r :: rs, e)
     else ([r], EClosed)).
Proof.
  intros m t v fs fr wire body rest Hrl Hw Hcount Hsize Hid Hsh Hfr Hwire.
  pose proof (framing_partial fs Hid Hsh) as Hfp. rewrite Hfr in Hfp.
  destruct (choose fs DNone) as [d|] eqn:Ech; [|discriminate]. simpl in Hfp. inversion Hfp as [Hd]; clear Hfp.
  pose proof (fold_fields_wf fs (mkh DNone [] 0) d Hw Ech ltac:(simpl; lia)) as Hfold. simpl in Hfold.
  set (rest1 := flat_map (fun f => field_line f ++ CRLFo) fs ++ CRLFo ++ wire ++ rest).
  assert (Hs : render_head m t v fs ++ wire ++ rest = request_line m t v ++ CRLFo ++ rest1).
  { unfold render_head, rest1. rewrite <- !app_assoc. reflexivity. }
  rewrite Hs. unfold serve_stream. rewrite serve_S.
  rewrite (read_line_at _ rest1 (request_line_no_crlf m t v Hrl)). cbv zeta.
  assert (Hfs : (0 <= fields_size fs)%N) by lia.
  destruct (N.ltb total_headers_size (0 + N.of_nat (length (request_line m t v)))) eqn:E1; [lia|].
  assert (Hnil : is_nil (request_line m t v) = false).
  { unfold rfc_request_line_fields in Hrl. apply andb_true_iff in Hrl. destruct Hrl as [Hrl _].
    apply andb_true_iff in Hrl. destruct Hrl as [Hrl _]. apply andb_true_iff in Hrl. destruct Hrl as [Hm _].
    destruct (token_chars_ok m Hm) as [_ Hne]. destruct m; [congruence|reflexivity]. }
  rewrite Hnil. cbn [andb].
  rewrite (proj2 (request_line_exact (request_line m t v) m t v) (conj eq_refl Hrl)).
  unfold rest1 at 2.
  assert (Hfuel : length fs < S (length rest1)).
  { pose proof (fields_len fs) as Hfl. unfold rest1. rewrite app_length. apply Nat.lt_succ_r.
    eapply Nat.le_trans; [exact Hfl|apply Nat.le_add_r]. }
  rewrite (headers_loop_fields fs [] (mkh DNone [] 0) (0 + N.of_nat (length (request_line m t v)))%N
             (S (length rest1)) (wire ++ rest) (mkh DNone [] 0) _ Hfuel ltac:(lia) Hw eq_refl Hfold).
  cbn [h_dec h_hdrs].
  assert (Hrec : forall r3, length r3 <= length (wire ++ rest) ->
            serve true (length (request_line m t v ++ CRLFo ++ rest1)) r3 false 0%N = serve_stream true r3).
  { intros r3 Hr3. unfold serve_stream. apply serve_fuel; [|lia].
    unfold rest1. rewrite !app_length in *. simpl. lia. }
  destruct Hwire as [|body0|cs z ze ts Hcs Hl Hts Hsz].
  - destruct d; simpl in Hd; try discriminate. cbn [app]. rewrite Hrec by (simpl; lia). reflexivity.
  - destruct d as [|n|]; simpl in Hd; try discriminate. inversion Hd; subst n.
    destruct (N.leb (N.of_nat (length body0)) (N.of_nat (length (body0 ++ rest)))) eqn:E2;
      [|rewrite app_length in E2; lia].
    rewrite Nat2N.id, firstn_app_exact, skipn_app_exact. rewrite Hrec by (rewrite app_length; lia). reflexivity.
  - destruct d; simpl in Hd; try discriminate.
    assert (Hne : encode cs z ze ts ++ rest <> []).
    { unfold encode. destruct (wf_last_spec z ze Hl) as [Hz _]. destruct (hexint_digits _ _ Hz) as [_ Hzn].
      destruct (flat_map enc_chunk cs); [|discriminate]. simpl. unfold enc_sizeline. destruct z; [congruence|discriminate]. }
    destruct (encode cs z ze ts ++ rest) as [|e0 el] eqn:Ee; [congruence|].
    match goal with |- context [decode true default_maxtr ?a] =>
      replace (decode true default_maxtr a) with (concat (map c_data cs), Finished rest)
        by (symmetry; apply (roundtrip default_maxtr cs z ze ts rest); try assumption;
            simpl; rewrite app_nil_r; symmetry; exact Ee)
    end.
    rewrite Hrec by (first [rewrite <- Ee, app_length; lia | rewrite app_length; lia]). reflexivity.
Qed.

(** ---- pipelines ---- *)
Record wreq := mkw { w_m : bytes; w_t : bytes; w_v : bytes; w_fields : list (bytes * bytes);
                     w_fr : framing; w_wire : bytes; w_body : bytes }.

(* a request as RFC 9112 lets a client write it (canonical field lines), within the server's limits *)
Definition wf_wreq (q : wreq) : Prop :=
  rfc_request_line_fields (w_m q) (w_t q) (w_v q) = true /\
  forallb wf_field (w_fields q) = true /\
  length (w_fields q) <= max_headers /\
  (N.of_nat (length (request_line (w_m q) (w_t q) (w_v q))) + fields_size (w_fields q) <= total_headers_size)%N /\
  no_identity (w_fields q) = true /\ cl_short (w_fields q) = true /\
  rfc_request_framing (cls_of (w_fields q)) (tes_of (w_fields q)) = Some (w_fr q) /\
  wire_ok (w_fr q) (w_wire q) (w_body q).

Definition render (q : wreq) : bytes := render_head (w_m q) (w_t q) (w_v q) (w_fields q) ++ w_wire q.
Definition parsed (q : wreq) : req := mkreq (w_m q) (w_t q) (w_v q) (map norm (w_fields q)) (w_body q).
Definition keeps_alive (q : wreq) : bool := persistent (w_v q) (map norm (w_fields q)).

Lemma one_request : forall q rest, wf_wreq q ->
  serve_stream true (render q ++ rest) =
  if keeps_alive q then let '(rs, e) := serve_stream true rest in (parsed q :: rs, e) else ([parsed q], EClosed).
Proof.
  intros q rest (H1 & H2 & H3 & H4 & H5 & H6 & H7 & H8). unfold render. rewrite <- app_assoc.
  apply (request_parsed _ _ _ _ (w_fr q)); assumption.
Qed.

Lemma pipeline : forall qs tail, Forall wf_wreq qs -> forallb keeps_alive qs = true ->
  serve_stream true (flat_map render qs ++ tail) =
  let '(rs, e) := serve_stream true tail in (map parsed qs ++ rs, e).
Proof.
  induction qs as [|q qs IH]; intros tail Hw Hk.
  - simpl. destruct (serve_stream true tail). reflexivity.
  - inversion Hw as [|? ? Hq Hqs]; subst. simpl in Hk. apply andb_true_iff in Hk. destruct Hk as [Hk1 Hk2].
    simpl flat_map. rewrite <- app_assoc. rewrite (one_request q _ Hq), Hk1, (IH tail Hqs Hk2).
    destruct (serve_stream true tail). reflexivity.
Qed.

Lemma pipeline_complete : forall qs, Forall wf_wreq qs -> forallb keeps_alive qs = true ->
  serve_stream true (flat_map render qs) = (map parsed qs, EWait).
Proof.
  intros qs Hw Hk. rewrite <- (app_nil_r (flat_map render qs)). rewrite (pipeline qs [] Hw Hk).
  simpl. rewrite app_nil_r. reflexivity.
Qed.

Lemma pipeline_close : forall qs q junk, Forall wf_wreq qs -> forallb keeps_alive qs = true ->
  wf_wreq q -> keeps_alive q = false ->
  serve_stream true (flat_map render qs ++ render q ++ junk) = (map parsed qs ++ [parsed q], EClosed).
Proof.
  intros qs q junk Hw Hk Hq Hc. rewrite (pipeline qs _ Hw Hk), (one_request q junk Hq), Hc. reflexivity.
Qed.

Lemma bad_request_line : forall qs l junk, Forall wf_wreq qs -> forallb keeps_alive qs = true ->
  find_crlf l = None -> l <> [] -> (N.of_nat (length l) <= total_headers_size)%N ->
  (forall m t v, l = request_line m t v -> rfc_request_line_fields m t v = false) ->
  serve_stream true (flat_map render qs ++ l ++ CRLFo ++ junk) = (map parsed qs, EBad).
Proof.
  intros qs l junk Hw Hk Hnc Hne Hsz Hbad. rewrite (pipeline qs _ Hw Hk).
  unfold serve_stream. rewrite serve_S, (read_line_at l junk Hnc). cbv zeta.
  destruct (N.ltb total_headers_size (0 + N.of_nat (length l))) eqn:E; [lia|].
  assert (Hn : is_nil l = false) by (destruct l; [congruence|reflexivity]). rewrite Hn. cbn [andb].
  destruct (parse_request_line true l) as [[[m t] v]|] eqn:Ep.
  - apply request_line_exact in Ep. destruct Ep as [El Hf]. rewrite (Hbad m t v El) in Hf. discriminate.
  - rewrite app_nil_r. reflexivity.
Qed.

(** a non-trivial instance of [wf_wreq]: POST /a HTTP/1.1, a Host field, Transfer-Encoding: chunked,
    two chunks (the second chunk's data is the text of a request line), one trailer line *)
Definition ex_chunks : list chunk :=
  [mkchunk [51]%N None [97; 98; 99]%N;
   mkchunk [49; 48]%N (Some [120; 61; 121]%N) [71;69;84;32;47;101;32;72;84;84;80;47;49;46;49;13]%N].
Definition ex_req : wreq :=
  mkw [80;79;83;84]%N [47;97]%N HTTP_1_1
      [([72;111;115;116]%N, [104]%N);
       ([84;114;97;110;115;102;101;114;45;69;110;99;111;100;105;110;103]%N, [67;104;117;110;107;101;100]%N)]
      FChunked (encode ex_chunks [48]%N None [[84;58;32;118]%N]) (concat (map c_data ex_chunks)).
Example ex_req_wf : wf_wreq ex_req /\ keeps_alive ex_req = true.
Proof.
  split; [|vm_compute; reflexivity].
  unfold wf_wreq.
  refine (conj _ (conj _ (conj _ (conj _ (conj _ (conj _ (conj _ _))))))).
  - vm_compute; reflexivity.
  - vm_compute; reflexivity.
  - apply Nat.leb_le. vm_compute. reflexivity.
  - apply N.leb_le. vm_compute. reflexivity.
  - vm_compute; reflexivity.
  - vm_compute; reflexivity.
  - vm_compute; reflexivity.
  - apply WChunk; try (vm_compute; reflexivity). apply N.leb_le. vm_compute. reflexivity.
Qed.
