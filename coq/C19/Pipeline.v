(** C19 proofs: pipelines of requests written as RFC 9112 allows are parsed back exactly; the first
    malformed request is answered with 400 after the well-formed ones and nothing after it is processed. *)
From Coq Require Import List NArith Bool Arith Lia ZifyBool.
From TwLib Require Import HttpGrammar HttpRender.
From C22 Require Import Gen Model Proofs SegProofs RoundTrip Final Lengths.
From C19 Require Import Model Proofs ReqLine HeadersBlock.
Import ListNotations.

Arguments find_crlf : simpl never.
Arguments firstn : simpl nomatch.
Arguments skipn : simpl nomatch.
Opaque total_headers_size max_headers.

(** ---- fuel of the whole-stream parser ---- *)
Lemma read_line_len : forall s line rest, read_line s = Some (line, rest) -> length rest + 2 <= length s.
Proof.
  intros s line rest H. unfold read_line in H. destruct (find_crlf s) as [i|] eqn:E; [|discriminate].
  inversion H; subst. pose proof (find_crlf_bound _ _ E). rewrite skipn_length. lia.
Qed.

Lemma headers_loop_len : forall fuel s pend h size h' r2,
  headers_loop fuel s pend h size = HDone h' r2 -> length r2 + 2 <= length s.
Proof.
  induction fuel as [|fuel IH]; intros s pend h size h' r2 H; [discriminate|].
  cbn [headers_loop] in H. destruct (read_line s) as [[line rest]|] eqn:Er; [|discriminate].
  pose proof (read_line_len _ _ _ Er) as Hl.
  destruct (N.ltb _ _); [discriminate|].
  destruct line as [|c l].
  - destruct (flush h pend); [|discriminate]. inversion H; subst. exact Hl.
  - destruct (is_ws c).
    + apply IH in H. lia.
    + destruct (flush h pend); [|discriminate]. apply IH in H. lia.
Qed.

Lemma serve_S : forall f s sk size0, serve true (S f) s sk size0 =
  match read_line s with
  | None => ([], EWait)
  | Some (line, rest) =>
      let size := (size0 + N.of_nat (length line))%N in
      if N.ltb total_headers_size size then ([], EBad) else
      if (is_nil line && negb sk)%bool then serve true f rest true size else
      match parse_request_line true line with
      | None => ([], EBad)
      | Some (m, t, v) =>
          match headers_loop (S (length rest)) rest [] (mkh DNone [] 0) size with
          | HBad => ([], EBad)
          | HWait => ([], EWait)
          | HDone h rest2 =>
              let deliver body rest3 :=
                let r := mkreq m t v (h_hdrs h) body in
                if persistent v (h_hdrs h)
                then let '(rs, e) := serve true f rest3 false 0%N in (r :: rs, e)
                else ([r], EClosed) in
              match h_dec h with
              | DNone => deliver [] rest2
              | DLen n =>
                  if N.leb n (N.of_nat (length rest2))
                  then deliver (firstn (N.to_nat n) rest2) (skipn (N.to_nat n) rest2)
                  else ([], EWait)
              | DChunk =>
                  match rest2 with
                  | [] => ([], EWait)
                  | _ =>
                      match decode true default_maxtr [rest2] with
                      | (body, Finished extra) => deliver body extra
                      | (_, Failed _) => ([], EBad)
                      | (_, Need) => ([], EWait)
                      end
                  end
              end
          end
      end
  end.
Proof. reflexivity. Qed.

Lemma serve_fuel : forall f1 f2 s sk size0, length s < f1 -> length s < f2 ->
  serve true f1 s sk size0 = serve true f2 s sk size0.
Proof.
  induction f1 as [|f1 IH]; intros f2 s sk size0 H1 H2; [lia|].
  destruct f2 as [|f2]; [lia|]. rewrite !serve_S.
  destruct (read_line s) as [[line rest]|] eqn:Er; [|reflexivity].
  pose proof (read_line_len _ _ _ Er) as Hl. cbv zeta.
  destruct (N.ltb _ _); [reflexivity|].
  destruct (is_nil line && negb sk)%bool; [apply IH; lia|].
  destruct (parse_request_line true line) as [[[m t] v]|]; [|reflexivity].
  destruct (headers_loop _ rest [] _ _) as [| |h rest2] eqn:Eh; try reflexivity.
  pose proof (headers_loop_len _ _ _ _ _ _ _ Eh) as Hl2.
  destruct (h_dec h) as [|n|].
  - destruct (persistent v (h_hdrs h)); [|reflexivity]. rewrite (IH f2) by lia. reflexivity.
  - destruct (N.leb n (N.of_nat (length rest2))); [|reflexivity].
    destruct (persistent v (h_hdrs h)); [|reflexivity].
    rewrite (IH f2) by (rewrite skipn_length; lia). reflexivity.
  - destruct rest2 as [|r0 rl]; [reflexivity|].
    destruct (decode true default_maxtr _) as [body [|extra|e]] eqn:Ed; try reflexivity.
    pose proof (decode_fin_length _ _ _ _ _ Ed) as Hx.
    destruct (persistent v (h_hdrs h)); [|reflexivity]. rewrite (IH f2) by lia. reflexivity.
Qed.

(** ---- one request at the front of the stream ---- *)
Definition vals (fs : list field) : list (bytes * bytes) := map field_pair fs.

Inductive wire_ok : framing -> bytes -> bytes -> Prop :=
| WNone : wire_ok FNoBody [] []
| WLen : forall body, wire_ok (FLength (N.of_nat (length body))) body body
| WChunk : forall cs z ze ts,
    forallb wf_chunk cs = true -> wf_last z ze = true -> forallb wf_trailer ts = true ->
    (trailers_size ts + 2 <= default_maxtr)%N ->
    wire_ok FChunked (encode cs z ze ts) (concat (map c_data cs)).

Lemma conts_lines_len : forall cs : list (octets * octets),
  length cs <= length (flat_map (fun c => cont_line c ++ CRLFo) cs).
Proof. induction cs as [|c cs IH]; simpl; [lia|]. rewrite !app_length. simpl. lia. Qed.

Lemma block_lines_len : forall fs : list field, block_lines fs <= length (flat_map field_lines fs).
Proof.
  induction fs as [|f r IH]; [simpl; lia|].
  cbn [block_lines fold_right flat_map]. fold (block_lines r). rewrite app_length.
  unfold field_lines at 1. rewrite !app_length. change (length CRLFo) with 2.
  pose proof (conts_lines_len (f_conts f)). lia.
Qed.

(* the head of a request whose request line is fine: what [serve] does next *)
Lemma serve_head : forall f m t v rest1,
  rfc_request_line_fields m t v = true ->
  serve true (S f) (request_line m t v ++ CRLFo ++ rest1) false 0%N =
  if N.ltb total_headers_size (N.of_nat (length (request_line m t v))) then ([], EBad) else
  match headers_loop (S (length rest1)) rest1 [] (mkh DNone [] 0) (N.of_nat (length (request_line m t v))) with
  | HBad => ([], EBad)
  | HWait => ([], EWait)
  | HDone h rest2 =>
      let deliver body rest3 :=
        let r := mkreq m t v (h_hdrs h) body in
        if persistent v (h_hdrs h)
        then let '(rs, e) := serve true f rest3 false 0%N in (r :: rs, e)
        else ([r], EClosed) in
      match h_dec h with
      | DNone => deliver [] rest2
      | DLen n =>
          if N.leb n (N.of_nat (length rest2))
          then deliver (firstn (N.to_nat n) rest2) (skipn (N.to_nat n) rest2)
          else ([], EWait)
      | DChunk =>
          match rest2 with
          | [] => ([], EWait)
          | _ =>
              match decode true default_maxtr [rest2] with
              | (body, Finished extra) => deliver body extra
              | (_, Failed _) => ([], EBad)
              | (_, Need) => ([], EWait)
              end
          end
      end
  end.
Proof.
  intros f m t v rest1 Hrl. rewrite serve_S.
  rewrite (read_line_at _ rest1 (request_line_no_crlf m t v Hrl)). cbv zeta. rewrite N.add_0_l.
  destruct (N.ltb total_headers_size (N.of_nat (length (request_line m t v)))); [reflexivity|].
  assert (Hnil : is_nil (request_line m t v) = false).
  { unfold rfc_request_line_fields in Hrl. apply andb_true_iff in Hrl. destruct Hrl as [Hrl _].
    apply andb_true_iff in Hrl. destruct Hrl as [Hrl _]. apply andb_true_iff in Hrl. destruct Hrl as [Hm _].
    destruct (token_chars_ok m Hm) as [_ Hne]. unfold request_line. destruct m; [congruence|reflexivity]. }
  rewrite Hnil. cbn [andb].
  rewrite (proj2 (request_line_exact (request_line m t v) m t v) (conj eq_refl Hrl)). reflexivity.
Qed.

Lemma request_parsed : forall m t v fs fr wire body rest,
  rfc_request_line_fields m t v = true ->
  forallb wf_field fs = true ->
  length fs <= max_headers ->
  (N.of_nat (length (request_line m t v)) + fields_size fs <= total_headers_size)%N ->
  no_identity (vals fs) = true -> cl_short (vals fs) = true ->
  rfc_request_framing (cls_of (vals fs)) (tes_of (vals fs)) = Some fr ->
  wire_ok fr wire body ->
  serve_stream true (render_head m t v fs ++ wire ++ rest) =
    (let r := mkreq m t v (map norm fs) body in
     if persistent v (map norm fs)
     then let '(rs, e) := serve_stream true rest in (r :: rs, e)
     else ([r], EClosed)).
Proof.
  intros m t v fs fr wire body rest Hrl Hw Hcount Hsize Hid Hsh Hfr Hwire.
  pose proof (framing_partial (vals fs) Hid Hsh) as Hfp. rewrite Hfr in Hfp.
  destruct (choose (vals fs) DNone) as [d|] eqn:Ech; [|discriminate]. simpl in Hfp. inversion Hfp as [Hd]; clear Hfp.
  pose proof (fold_fields_choose fs (mkh DNone [] 0) Hw ltac:(simpl; lia)) as Hfold.
  cbn [h_dec h_count h_hdrs] in Hfold. fold (vals fs) in Hfold. rewrite Ech in Hfold. simpl in Hfold.
  destruct (Nat.ltb max_headers (length fs)) eqn:Ecnt; [lia|].
  set (rest1 := flat_map field_lines fs ++ CRLFo ++ wire ++ rest).
  assert (Hs : render_head m t v fs ++ wire ++ rest = request_line m t v ++ CRLFo ++ rest1).
  { unfold render_head, rest1. rewrite <- !app_assoc. reflexivity. }
  rewrite Hs. unfold serve_stream. rewrite (serve_head _ m t v rest1 Hrl).
  assert (Hfs0 : (0 <= fields_size fs)%N) by lia.
  destruct (N.ltb total_headers_size (N.of_nat (length (request_line m t v)))) eqn:E1; [lia|].
  pose proof (block_lines_len fs) as Hbl.
  assert (Hle : block_lines fs <= length rest1).
  { unfold rest1. rewrite app_length. eapply Nat.le_trans; [exact Hbl|apply Nat.le_add_r]. }
  replace (S (length rest1)) with (block_lines fs + S (length rest1 - block_lines fs)) by lia.
  unfold rest1 at 2.
  assert (Hrsz : (N.of_nat (length (request_line m t v)) <= total_headers_size)%N) by lia.
  rewrite (block_end fs (mkh DNone [] 0) _ (length rest1 - block_lines fs) (wire ++ rest) Hw Hrsz).
  destruct (N.ltb total_headers_size (N.of_nat (length (request_line m t v)) + fields_size fs)) eqn:E2; [lia|].
  rewrite Hfold. cbn [h_dec h_hdrs].
  assert (Hrec : forall r3, length r3 <= length (wire ++ rest) ->
            serve true (length (request_line m t v ++ CRLFo ++ rest1)) r3 false 0%N = serve_stream true r3).
  { intros r3 Hr3. unfold serve_stream. apply serve_fuel; [|lia].
    unfold rest1. rewrite !app_length in *. simpl. lia. }
  destruct Hwire as [|body0|cs z ze ts Hcs Hl Hts Hsz].
  - destruct d; simpl in Hd; try discriminate. cbn [app]. rewrite Hrec by (simpl; lia). reflexivity.
  - destruct d as [|n|]; simpl in Hd; try discriminate. inversion Hd; subst n.
    destruct (N.leb (N.of_nat (length body0)) (N.of_nat (length (body0 ++ rest)))) eqn:E3;
      [|rewrite app_length in E3; lia].
    rewrite Nat2N.id, firstn_app_exact, skipn_app_exact. rewrite Hrec by (rewrite app_length; lia). reflexivity.
  - destruct d; simpl in Hd; try discriminate.
    assert (Hne : encode cs z ze ts ++ rest <> []).
    { unfold encode. destruct (wf_last_spec z ze Hl) as [Hz _]. destruct (hexint_digits _ _ Hz) as [_ Hzn].
      destruct (flat_map enc_chunk cs); [|discriminate]. simpl. unfold enc_sizeline. destruct z; [congruence|discriminate]. }
    destruct (encode cs z ze ts ++ rest) as [|e0 el] eqn:Ee; [congruence|].
    match goal with |- context [decode true default_maxtr ?a] =>
      replace (decode true default_maxtr a) with (concat (map c_data cs), Finished rest)
        by (symmetry; apply (roundtrip default_maxtr cs z ze ts rest); try assumption;
            simpl; rewrite app_nil_r; symmetry; exact Ee)
    end.
    rewrite Hrec by (first [rewrite <- Ee, app_length; lia | rewrite app_length; lia]). reflexivity.
Qed.

(** ---- pipelines ---- *)
Record wreq := mkw { w_m : bytes; w_t : bytes; w_v : bytes; w_fields : list field;
                     w_fr : framing; w_wire : bytes; w_body : bytes }.

(* a request as RFC 9112 lets a client write it, within the server's limits (500 fields, 16384 header bytes) *)
Definition wf_wreq (q : wreq) : Prop :=
  rfc_request_line_fields (w_m q) (w_t q) (w_v q) = true /\
  forallb wf_field (w_fields q) = true /\
  length (w_fields q) <= max_headers /\
  (N.of_nat (length (request_line (w_m q) (w_t q) (w_v q))) + fields_size (w_fields q) <= total_headers_size)%N /\
  no_identity (vals (w_fields q)) = true /\ cl_short (vals (w_fields q)) = true /\
  rfc_request_framing (cls_of (vals (w_fields q))) (tes_of (vals (w_fields q))) = Some (w_fr q) /\
  wire_ok (w_fr q) (w_wire q) (w_body q).

Definition render (q : wreq) : bytes := render_head (w_m q) (w_t q) (w_v q) (w_fields q) ++ w_wire q.
Definition parsed (q : wreq) : req := mkreq (w_m q) (w_t q) (w_v q) (map norm (w_fields q)) (w_body q).
Definition keeps_alive (q : wreq) : bool := persistent (w_v q) (map norm (w_fields q)).

Lemma one_request : forall q rest, wf_wreq q ->
  serve_stream true (render q ++ rest) =
  if keeps_alive q then let '(rs, e) := serve_stream true rest in (parsed q :: rs, e) else ([parsed q], EClosed).
Proof.
  intros q rest (H1 & H2 & H3 & H4 & H5 & H6 & H7 & H8). unfold render. rewrite <- app_assoc.
  apply (request_parsed _ _ _ _ (w_fr q)); assumption.
Qed.

Lemma pipeline : forall qs tail, Forall wf_wreq qs -> forallb keeps_alive qs = true ->
  serve_stream true (flat_map render qs ++ tail) =
  let '(rs, e) := serve_stream true tail in (map parsed qs ++ rs, e).
Proof.
  induction qs as [|q qs IH]; intros tail Hw Hk.
  - simpl. destruct (serve_stream true tail). reflexivity.
  - inversion Hw as [|? ? Hq Hqs]; subst. simpl in Hk. apply andb_true_iff in Hk. destruct Hk as [Hk1 Hk2].
    simpl flat_map. rewrite <- app_assoc. rewrite (one_request q _ Hq), Hk1, (IH tail Hqs Hk2).
    destruct (serve_stream true tail). reflexivity.
Qed.

Lemma pipeline_complete : forall qs, Forall wf_wreq qs -> forallb keeps_alive qs = true ->
  serve_stream true (flat_map render qs) = (map parsed qs, EWait).
Proof.
  intros qs Hw Hk. rewrite <- (app_nil_r (flat_map render qs)). rewrite (pipeline qs [] Hw Hk).
  simpl. rewrite app_nil_r. reflexivity.
Qed.

Lemma pipeline_close : forall qs q junk, Forall wf_wreq qs -> forallb keeps_alive qs = true ->
  wf_wreq q -> keeps_alive q = false ->
  serve_stream true (flat_map render qs ++ render q ++ junk) = (map parsed qs ++ [parsed q], EClosed).
Proof.
  intros qs q junk Hw Hk Hq Hc. rewrite (pipeline qs _ Hw Hk), (one_request q junk Hq), Hc. reflexivity.
Qed.

(** ---- the first malformed request: 400, and nothing after it is processed ---- *)
Lemma bad_line_first : forall l junk, find_crlf l = None -> l <> [] ->
  (forall m t v, l = request_line m t v -> rfc_request_line_fields m t v = false) ->
  serve_stream true (l ++ CRLFo ++ junk) = ([], EBad).
Proof.
  intros l junk Hnc Hne Hbad. unfold serve_stream. rewrite serve_S, (read_line_at l junk Hnc). cbv zeta.
  destruct (N.ltb total_headers_size (0 + N.of_nat (length l))); [reflexivity|].
  assert (Hn : is_nil l = false) by (destruct l; [congruence|reflexivity]). rewrite Hn. cbn [andb].
  destruct (parse_request_line true l) as [[[m t] v]|] eqn:Ep; [|reflexivity].
  apply request_line_exact in Ep. destruct Ep as [El Hf]. rewrite (Hbad m t v El) in Hf. discriminate.
Qed.

(* the Spec's recogniser and headerReceived agree on refusing a line *)
Lemma split_colon_first : forall l, split_colon l = split_first COLON l.
Proof.
  unfold split_first. induction l as [|x r IH]; [reflexivity|].
  simpl. change COLONo with COLON. destruct (N.eqb x COLON); [reflexivity|].
  rewrite IH. destruct (find_byte COLON r); reflexivity.
Qed.

Lemma exists_drop : forall (p : N -> bool) b, (forall c, is_ows c = true -> p c = false) ->
  existsb p (drop_ows b) = existsb p b.
Proof.
  intros p b Hp. induction b as [|x r IH]; [reflexivity|]. simpl. destruct (is_ows x) eqn:E; [|reflexivity].
  rewrite IH, (Hp x E). reflexivity.
Qed.
Lemma exists_rev : forall (p : N -> bool) b, existsb p (rev b) = existsb p b.
Proof.
  induction b as [|x r IH]; [reflexivity|]. simpl. rewrite existsb_app, IH. simpl. rewrite orb_false_r. apply orb_comm.
Qed.
Lemma nul_trim : forall v, existsb (N.eqb 0) (trim_ows v) = existsb (N.eqb 0) v.
Proof.
  intros v. assert (Hp : forall c, is_ows c = true -> N.eqb 0 c = false).
  { intros c Hc. destruct (N.eqb 0 c) eqn:E; [|reflexivity]. apply N.eqb_eq in E. subst. vm_compute in Hc. discriminate. }
  unfold trim_ows. rewrite exists_rev, (exists_drop _ _ Hp), exists_rev, (exists_drop _ _ Hp). reflexivity.
Qed.

Lemma not_field_line_refused : forall l, rfc_field_line l = false -> forall h, header_received h l = None.
Proof.
  intros l H h. unfold rfc_field_line in H. rewrite split_colon_first in H. unfold header_received.
  destruct (split_first COLON l) as [[n v0]|]; [|reflexivity].
  rewrite istoken_rfc. destruct (rfc_token n); [|reflexivity]. simpl in H.
  rewrite strip_trim, nul_trim. apply negb_false_iff in H. rewrite H. reflexivity.
Qed.

Lemma bad_field_first : forall m t v fs x r nl junk,
  rfc_request_line_fields m t v = true -> forallb wf_field fs = true ->
  find_crlf (x :: r) = None -> is_ows x = false -> rfc_field_line (x :: r) = false ->
  find_crlf nl = None -> match nl with [] => True | y :: _ => is_ows y = false end ->
  serve_stream true (request_line m t v ++ CRLFo ++ flat_map field_lines fs ++ (x :: r) ++ CRLFo ++ nl ++ CRLFo ++ junk)
  = ([], EBad).
Proof.
  intros m t v fs x r nl junk Hrl Hw Hnc Hx Hbad Hnl Hnlw.
  unfold serve_stream. rewrite (serve_head _ m t v _ Hrl).
  destruct (N.ltb total_headers_size (N.of_nat (length (request_line m t v)))) eqn:E1; [reflexivity|].
  set (rest1 := flat_map field_lines fs ++ (x :: r) ++ CRLFo ++ nl ++ CRLFo ++ junk).
  pose proof (block_lines_len fs) as Hbl.
  assert (Hle : block_lines fs + 2 <= length rest1).
  { unfold rest1. rewrite app_length. apply Nat.add_le_mono; [exact Hbl|]. rewrite app_length. simpl. lia. }
  replace (S (length rest1)) with (block_lines fs + S (S (length rest1 - block_lines fs - 1))) by lia.
  assert (Hrsz : (N.of_nat (length (request_line m t v)) <= total_headers_size)%N) by lia.
  remember (length rest1 - block_lines fs - 1) as fu eqn:Hfu. clear Hfu. unfold rest1.
  rewrite (block_bad_line fs (mkh DNone [] 0) (N.of_nat (length (request_line m t v))) fu x r nl junk Hw Hrsz Hnc Hx
             (not_field_line_refused _ Hbad) Hnl Hnlw).
  reflexivity.
Qed.

Lemma bad_framing_first : forall m t v fs junk,
  rfc_request_line_fields m t v = true -> forallb wf_field fs = true ->
  no_identity (vals fs) = true -> cl_short (vals fs) = true ->
  rfc_request_framing (cls_of (vals fs)) (tes_of (vals fs)) = None ->
  serve_stream true (render_head m t v fs ++ junk) = ([], EBad).
Proof.
  intros m t v fs junk Hrl Hw Hid Hsh Hfr.
  pose proof (framing_partial (vals fs) Hid Hsh) as Hfp. rewrite Hfr in Hfp.
  destruct (choose (vals fs) DNone) as [d|] eqn:Ech; [discriminate|].
  pose proof (fold_fields_choose fs (mkh DNone [] 0) Hw ltac:(simpl; lia)) as Hfold.
  cbn [h_dec] in Hfold. fold (vals fs) in Hfold. rewrite Ech in Hfold.
  unfold render_head. rewrite <- !app_assoc.
  unfold serve_stream. rewrite (serve_head _ m t v _ Hrl).
  destruct (N.ltb total_headers_size (N.of_nat (length (request_line m t v)))) eqn:E1; [reflexivity|].
  set (rest1 := flat_map field_lines fs ++ CRLFo ++ junk).
  pose proof (block_lines_len fs) as Hbl.
  assert (Hle : block_lines fs <= length rest1).
  { unfold rest1. rewrite app_length. eapply Nat.le_trans; [exact Hbl|apply Nat.le_add_r]. }
  replace (S (length rest1)) with (block_lines fs + S (length rest1 - block_lines fs)) by lia.
  assert (Hrsz : (N.of_nat (length (request_line m t v)) <= total_headers_size)%N) by lia.
  remember (length rest1 - block_lines fs) as fu eqn:Hfu. clear Hfu. unfold rest1.
  rewrite (block_end fs (mkh DNone [] 0) (N.of_nat (length (request_line m t v))) fu junk Hw Hrsz).
  rewrite Hfold.
  destruct (N.ltb total_headers_size (N.of_nat (length (request_line m t v)) + fields_size fs)); reflexivity.
Qed.

Inductive malformed_head : bytes -> Prop :=
| MH_request_line : forall l junk, find_crlf l = None -> l <> [] ->
    (forall m t v, l = request_line m t v -> rfc_request_line_fields m t v = false) ->
    malformed_head (l ++ CRLFo ++ junk)
| MH_field_line : forall m t v fs x r nl junk,
    rfc_request_line_fields m t v = true -> forallb wf_field fs = true ->
    find_crlf (x :: r) = None -> is_ows x = false -> rfc_field_line (x :: r) = false ->
    find_crlf nl = None -> match nl with [] => True | y :: _ => is_ows y = false end ->
    malformed_head (request_line m t v ++ CRLFo ++ flat_map field_lines fs ++ (x :: r) ++ CRLFo ++ nl ++ CRLFo ++ junk)
| MH_framing : forall m t v fs junk,
    rfc_request_line_fields m t v = true -> forallb wf_field fs = true ->
    no_identity (vals fs) = true -> cl_short (vals fs) = true ->
    rfc_request_framing (cls_of (vals fs)) (tes_of (vals fs)) = None ->
    malformed_head (render_head m t v fs ++ junk).

Lemma first_malformed : forall qs bad, Forall wf_wreq qs -> forallb keeps_alive qs = true ->
  malformed_head bad ->
  serve_stream true (flat_map render qs ++ bad) = (map parsed qs, EBad).
Proof.
  intros qs bad Hw Hk Hb. rewrite (pipeline qs bad Hw Hk).
  assert (Hs : serve_stream true bad = ([], EBad)).
  { destruct Hb.
    - apply bad_line_first; assumption.
    - apply bad_field_first; assumption.
    - apply bad_framing_first; assumption. }
  rewrite Hs, app_nil_r. reflexivity.
Qed.

(** a non-trivial instance of [wf_wreq]: POST /a HTTP/1.1; "Host:<HTAB> h <HTAB>" ; Transfer-Encoding with the
    value on an obs-fold continuation line; two chunks (the second one's data is the text of a request line),
    one trailer line *)
Definition ex_chunks : list chunk :=
  [mkchunk [51]%N None [97; 98; 99]%N;
   mkchunk [49; 48]%N (Some [120; 61; 121]%N) [71;69;84;32;47;101;32;72;84;84;80;47;49;46;49;13]%N].
Definition ex_req : wreq :=
  mkw [80;79;83;84]%N [47;97]%N HTTP_1_1
      [mkfield [72;111;115;116]%N [9;32;104;32;9]%N [];
       mkfield [84;114;97;110;115;102;101;114;45;69;110;99;111;100;105;110;103]%N [32]%N
               [([32;9]%N, [67;104;117;110;107;101;100]%N)]]
      FChunked (encode ex_chunks [48]%N None [[84;58;32;118]%N]) (concat (map c_data ex_chunks)).
Example ex_req_wf : wf_wreq ex_req /\ keeps_alive ex_req = true /\
  map norm (w_fields ex_req) = [([104;111;115;116]%N, [104]%N);
    ([116;114;97;110;115;102;101;114;45;101;110;99;111;100;105;110;103]%N, [67;104;117;110;107;101;100]%N)].
Proof.
  split; [|split; vm_compute; reflexivity].
  unfold wf_wreq.
  refine (conj _ (conj _ (conj _ (conj _ (conj _ (conj _ (conj _ _))))))).
  - vm_compute; reflexivity.
  - vm_compute; reflexivity.
  - apply Nat.leb_le. vm_compute. reflexivity.
  - apply N.leb_le. vm_compute. reflexivity.
  - vm_compute; reflexivity.
  - vm_compute; reflexivity.
  - vm_compute; reflexivity.
  - apply WChunk; try (vm_compute; reflexivity). apply N.leb_le. vm_compute. reflexivity.
Qed.
