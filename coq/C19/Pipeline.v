(** C19 proofs: a pipeline of well-formed requests (RFC rendering, Lib/HttpRender.v) is parsed back
    exactly -- each request gets exactly its body, no body byte is parsed as a request. *)
From Coq Require Import List NArith Bool Arith Lia ZifyBool.
From TwLib Require Import HttpGrammar HttpRender.
From C22 Require Import Gen Model Proofs SegProofs RoundTrip Final.
From C19 Require Import Model Proofs ReqLine.
Import ListNotations.

Arguments find_crlf : simpl never.
Arguments firstn : simpl nomatch.
Arguments skipn : simpl nomatch.
Opaque total_headers_size max_headers.

(** ---- strip / sanitize on well-formed values ---- *)
Lemma lstrip_id : forall l, match l with [] => True | x :: _ => is_ws x = false end -> lstrip l = l.
Proof. intros [|x l] H; simpl; [reflexivity|]. rewrite H. reflexivity. Qed.

Lemma rev_head_last : forall (v : bytes), v <> [] -> rev v = last v 0%N :: rev (removelast v).
Proof.
  intros v H. rewrite (app_removelast_last 0%N H) at 1. rewrite rev_unit. reflexivity.
Qed.

Lemma strip_sp_value : forall v, wf_field_value v = true -> strip (SP :: v) = v.
Proof.
  intros v H. unfold strip. rewrite !rev_append_rev, !app_nil_r.
  unfold wf_field_value in H. apply andb_true_iff in H. destruct H as [_ H].
  change (lstrip (SP :: v)) with (lstrip v).
  destruct v as [|x r]; [reflexivity|].
  apply andb_true_iff in H. destruct H as [H1 H2]. apply negb_true_iff in H1. apply negb_true_iff in H2.
  rewrite (lstrip_id (x :: r)) by exact H1.
  rewrite (rev_head_last (x :: r)) by discriminate.
  rewrite lstrip_id by exact H2. rewrite <- rev_head_last by discriminate. apply rev_involutive.
Qed.

Lemma sanitize_id : forall v, forallb is_field_octet v = true -> sanitize v = v.
Proof.
  induction v as [|x r IH]; intros H; [reflexivity|].
  simpl in H. apply andb_true_iff in H. destruct H as [H1 H2].
  unfold is_field_octet in H1. apply andb_true_iff in H1. destruct H1 as [H1 Hlf].
  apply andb_true_iff in H1. destruct H1 as [_ Hcr].
  apply negb_true_iff in Hcr. apply negb_true_iff in Hlf.
  simpl. rewrite Hcr, Hlf, (IH H2). reflexivity.
Qed.

Lemma no_nul : forall v, forallb is_field_octet v = true -> existsb (N.eqb 0) v = false.
Proof.
  induction v as [|x r IH]; intros H; [reflexivity|].
  simpl in H. apply andb_true_iff in H. destruct H as [H1 H2].
  unfold is_field_octet in H1. apply andb_true_iff in H1. destruct H1 as [H1 _].
  apply andb_true_iff in H1. destruct H1 as [H0 _]. apply negb_true_iff in H0.
  destruct x as [|p]; [simpl in H0; discriminate|]. simpl. apply IH. exact H2.
Qed.

(** ---- no CR in tokens / targets / values: lines contain no CRLF ---- *)
Definition not_cr (c : N) : bool := negb (N.eqb c CR).

Lemma forallb_imp : forall (p q : N -> bool) l, (forall c, p c = true -> q c = true) ->
  forallb p l = true -> forallb q l = true.
Proof.
  intros p q l H. induction l as [|x r IH]; simpl; [reflexivity|]. intros H1.
  apply andb_true_iff in H1. destruct H1 as [H1 H2]. rewrite (H _ H1), (IH H2). reflexivity.
Qed.

Lemma tchar_not_cr : forall c, is_tchar_rfc c = true -> not_cr c = true.
Proof. intros c H. unfold not_cr. destruct (N.eqb c CR) eqn:E; [|reflexivity]. apply N.eqb_eq in E. subst. vm_compute in H. discriminate. Qed.
Lemma vchar_not_cr : forall c, is_VCHAR c = true -> not_cr c = true.
Proof. intros c H. unfold not_cr. destruct (N.eqb c CR) eqn:E; [|reflexivity]. apply N.eqb_eq in E. subst. vm_compute in H. discriminate. Qed.
Lemma field_octet_not_cr : forall c, is_field_octet c = true -> not_cr c = true.
Proof.
  intros c H. unfold is_field_octet in H. apply andb_true_iff in H. destruct H as [H _].
  apply andb_true_iff in H. destruct H as [_ H]. exact H.
Qed.

Lemma token_chars_ok : forall m, rfc_token m = true -> forallb is_tchar_rfc m = true /\ m <> [].
Proof.
  intros m H. unfold rfc_token in H. apply andb_true_iff in H. destruct H as [H1 H2].
  split; [exact H1|]. destruct m; [discriminate|discriminate].
Qed.

Lemma request_line_no_crlf : forall m t v, rfc_request_line_fields m t v = true ->
  find_crlf (request_line m t v) = None.
Proof.
  intros m t v H. apply find_crlf_no_cr. fold not_cr.
  change (fun c : N => negb (N.eqb c CR)) with not_cr.
  unfold rfc_request_line_fields in H.
  apply andb_true_iff in H. destruct H as [H Hv]. apply andb_true_iff in H. destruct H as [H Ht].
  apply andb_true_iff in H. destruct H as [Hm _].
  unfold request_line. rewrite forallb_app. simpl. rewrite forallb_app. simpl.
  destruct (token_chars_ok m Hm) as [Hm' _].
  rewrite (forallb_imp _ _ m tchar_not_cr Hm'), (forallb_imp _ _ t vchar_not_cr Ht). simpl.
  apply orb_true_iff in Hv. destruct Hv as [Hv|Hv]; apply octets_eqb_eq in Hv; subst; reflexivity.
Qed.

Lemma field_line_no_crlf : forall f, wf_field f = true -> find_crlf (field_line f) = None.
Proof.
  intros [n v] H. apply find_crlf_no_cr. change (fun c : N => negb (N.eqb c CR)) with not_cr.
  unfold wf_field in H. simpl in H. apply andb_true_iff in H. destruct H as [Hn Hv].
  unfold wf_field_value in Hv. apply andb_true_iff in Hv. destruct Hv as [Hv _].
  unfold field_line. simpl. rewrite forallb_app. simpl.
  destruct (token_chars_ok n Hn) as [Hn' _].
  rewrite (forallb_imp _ _ n tchar_not_cr Hn'), (forallb_imp _ _ v field_octet_not_cr Hv). reflexivity.
Qed.

Lemma read_line_at : forall l rest, find_crlf l = None -> read_line (l ++ CRLFo ++ rest) = Some (l, rest).
Proof.
  intros l rest H. change (l ++ CRLFo ++ rest) with (l ++ CR :: LF :: rest).
  unfold read_line. rewrite (find_crlf_at l rest H).
  rewrite firstn_app_exact.
  replace (length l + 2) with (length (l ++ [CR; LF])) by (rewrite app_length; simpl; lia).
  replace (l ++ CR :: LF :: rest) with ((l ++ [CR; LF]) ++ rest) by (rewrite <- app_assoc; reflexivity).
  rewrite skipn_app_exact. reflexivity.
Qed.

(** ---- one well-formed field through headerReceived ---- *)
Lemma no_colon_token : forall n, rfc_token n = true -> find_byte COLON n = None.
Proof.
  intros n H. destruct (token_chars_ok n H) as [H1 _]. apply find_byte_none_forall.
  clear H. induction n as [|x n IH]; simpl in *; [reflexivity|].
  apply andb_true_iff in H1. destruct H1 as [Hx Hn]. rewrite (IH Hn), andb_true_r.
  destruct (N.eqb x COLON) eqn:E; [|reflexivity]. apply N.eqb_eq in E. subst. vm_compute in Hx. discriminate.
Qed.

Lemma header_received_wf : forall h f d,
  wf_field f = true -> choose1 (h_dec h) (fst f) (snd f) = Some d -> h_count h < max_headers ->
  header_received h (field_line f) = Some (mkh d (h_hdrs h ++ [(lower (fst f), snd f)]) (S (h_count h))).
Proof.
  intros h [n v] d Hw Hc Hcount. simpl in *. unfold wf_field in Hw. simpl in Hw.
  apply andb_true_iff in Hw. destruct Hw as [Hn Hv].
  unfold header_received, field_line. simpl fst. simpl snd.
  change COLONo with COLON. rewrite (split_first_app COLON n (SP :: v) (no_colon_token n Hn)).
  rewrite istoken_rfc, Hn. rewrite (strip_sp_value v Hv).
  pose proof Hv as Hv'. unfold wf_field_value in Hv'. apply andb_true_iff in Hv'. destruct Hv' as [Hoct _].
  rewrite (no_nul v Hoct), Hc, (sanitize_id v Hoct).
  destruct (Nat.ltb max_headers (S (h_count h))) eqn:E; [lia|reflexivity].
Qed.

(** ---- the header block ---- *)
Definition norm (f : bytes * bytes) : bytes * bytes := (lower (fst f), snd f).

Fixpoint fold_fields (h : hst) (fs : list (bytes * bytes)) : option hst :=
  match fs with
  | [] => Some h
  | f :: r => match header_received h (field_line f) with Some h' => fold_fields h' r | None => None end
  end.

Lemma fold_fields_wf : forall fs h d,
  forallb wf_field fs = true -> choose fs (h_dec h) = Some d -> h_count h + length fs <= max_headers ->
  fold_fields h fs = Some (mkh d (h_hdrs h ++ map norm fs) (h_count h + length fs)).
Proof.
  induction fs as [|[n v] r IH]; intros h d Hw Hc Hn.
  - simpl in *. inversion Hc; subst. rewrite app_nil_r, Nat.add_0_r. destruct h; reflexivity.
  - simpl in Hw. apply andb_true_iff in Hw. destruct Hw as [Hf Hr].
    cbn [choose] in Hc. destruct (choose1 (h_dec h) n v) as [d1|] eqn:E1; [|discriminate].
    cbn [fold_fields]. simpl length in Hn.
    rewrite (header_received_wf h (n, v) d1 Hf E1) by lia.
    rewrite (IH (mkh d1 (h_hdrs h ++ [(lower (fst (n, v)), snd (n, v))]) (S (h_count h))) d Hr Hc) by (simpl; lia).
    simpl. f_equal. f_equal.
    + rewrite <- app_assoc. reflexivity.
    + lia.
Qed.

Definition fields_size (fs : list (bytes * bytes)) : N :=
  fold_right (fun f acc => (N.of_nat (length (field_line f)) + acc)%N) 0%N fs.

Lemma field_line_head : forall f, wf_field f = true ->
  exists c r, field_line f = c :: r /\ is_ws c = false.
Proof.
  intros [n v] H. unfold wf_field in H. simpl in H. apply andb_true_iff in H. destruct H as [Hn _].
  destruct (token_chars_ok n Hn) as [Hc Hne]. destruct n as [|c n]; [congruence|].
  exists c, (n ++ COLONo :: SP :: v). split; [reflexivity|].
  simpl in Hc. apply andb_true_iff in Hc. destruct Hc as [Hc _].
  unfold is_ws. destruct (N.eqb c SP) eqn:E1; [apply N.eqb_eq in E1; subst; vm_compute in Hc; discriminate|].
  destruct (N.eqb c HTAB) eqn:E2; [apply N.eqb_eq in E2; subst; vm_compute in Hc; discriminate|]. reflexivity.
Qed.

Lemma headers_loop_fields : forall fs pend h size fuel rest h1 h',
  length fs < fuel -> (size + fields_size fs <= total_headers_size)%N ->
  forallb wf_field fs = true -> flush h pend = Some h1 -> fold_fields h1 fs = Some h' ->
  headers_loop fuel (flat_map (fun f => field_line f ++ CRLFo) fs ++ CRLFo ++ rest) pend h size = HDone h' rest.
Proof.
  induction fs as [|f r IH]; intros pend h size fuel rest h1 h' Hfuel Hsize Hw Hfl Hfold.
  - destruct fuel as [|fuel]; [simpl in Hfuel; lia|]. cbn [flat_map app headers_loop].
    change (CRLFo ++ rest) with ([] ++ CRLFo ++ rest). rewrite (read_line_at [] rest eq_refl).
    simpl length. simpl in Hsize. change (N.of_nat 0) with 0%N.
    destruct (N.ltb total_headers_size (size + 0)) eqn:E; [lia|].
    rewrite Hfl. simpl in Hfold. inversion Hfold; subst. reflexivity.
  - destruct fuel as [|fuel]; [simpl in Hfuel; lia|]. simpl in Hw. apply andb_true_iff in Hw. destruct Hw as [Hf Hr].
    cbn [flat_map]. rewrite <- !app_assoc. cbn [headers_loop].
    rewrite (read_line_at (field_line f) _ (field_line_no_crlf f Hf)).
    cbn [fields_size fold_right] in Hsize. fold (fields_size r) in Hsize.
    destruct (N.ltb total_headers_size (size + N.of_nat (length (field_line f)))) eqn:E; [lia|].
    destruct (field_line_head f Hf) as (c & tl & Hl & Hws). rewrite Hl at 1. rewrite Hws, Hfl.
    cbn [fold_fields] in Hfold. destruct (header_received h1 (field_line f)) as [h2|] eqn:Eh; [|discriminate].
    apply (IH (field_line f) h1 _ fuel rest h2 h'); try assumption.
    + simpl in Hfuel. lia.
    + lia.
    + unfold flush. rewrite Hl. rewrite <- Hl. exact Eh.
Qed.
