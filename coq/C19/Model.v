(** C19: HTTP/1.1 server request framing (src/twisted/web/http.py: _parseRequestLine,
    HTTPChannel.lineReceived / headerReceived / _maybeChooseTransferDecoder / rawDataReceived /
    allContentReceived / checkPersistence) as a function of the WHOLE byte stream of a connection
    ([serve]); how the stream is cut into deliveries is C18's subject.

    [fixed = true] is the code with fixes/C19-request-target-octal-slip.patch (finding F4: target
    bytes > 126 refused; the pinned code, [fixed = false], refuses only > 176) and
    fixes/C19-content-length-too-many-digits.patch (a Content-Length of more than 4300 digits is a
    400; the pinned code lets int()'s ValueError escape from dataReceived -- that crash is not
    modelled, [fixed] does not change the model there).

    Python bytes methods used by the code and their model: split(b" ") into exactly three fields =
    two [split_first SP] and no further SP; split(b":", 1) = [split_first COLON]; strip(b" \t") =
    [strip]; lower() = [HttpGrammar.lower]; isdigit() = [all_digits]; int() = [decimal];
    LineReceiver's line splitting = [read_line] (delimiter CRLF; lines longer than MAX_LENGTH = 16384
    close the connection without a response and are outside the model).  The resource answers every
    request at once (the harness's Request.process finishes immediately). *)
From Coq Require Import List NArith Bool Arith.
From TwLib Require Import HttpGrammar.
From C22 Require Import Model.
Import ListNotations.

Definition COLON : N := 58%N.
Definition is_ws (c : N) : bool := (N.eqb c SP || N.eqb c HTAB)%bool.
Fixpoint lstrip (b : bytes) : bytes :=
  match b with x :: r => if is_ws x then lstrip r else b | [] => [] end.
Definition strip (b : bytes) : bytes := rev_append (lstrip (rev_append (lstrip b) [])) [].

(* Headers._sanitizeLinearWhitespace: b" ".join(value.splitlines()) -- every line break (CRLF, bare CR,
   bare LF) inside a value becomes one SP; a line break at the very end disappears *)
Fixpoint sanitize (b : bytes) : bytes :=
  match b with
  | [] => []
  | x :: r =>
      if N.eqb x 13 then
        match r with
        | [] => []
        | y :: r' => if N.eqb y 10
                     then match r' with [] => [] | _ => SP :: sanitize r' end
                     else SP :: sanitize r
        end
      else if N.eqb x 10 then match r with [] => [] | _ => SP :: sanitize r end
      else x :: sanitize r
  end.

Definition split_first (c : N) (b : bytes) : option (bytes * bytes) :=
  match find_byte c b with Some i => Some (firstn i b, skipn (S i) b) | None => None end.

Definition content_length_name : bytes := [99;111;110;116;101;110;116;45;108;101;110;103;116;104]%N.
Definition transfer_encoding_name : bytes :=
  [116;114;97;110;115;102;101;114;45;101;110;99;111;100;105;110;103]%N.
Definition connection_name : bytes := [99;111;110;110;101;99;116;105;111;110]%N.
Definition identity_name : bytes := [105;100;101;110;116;105;116;121]%N.
Definition close_name : bytes := [99;108;111;115;101]%N.

Definition max_headers : nat := 500.
Definition total_headers_size : N := 16384%N.
Definition int_max_str_digits : nat := 4300.

Inductive dec := DNone | DLen (n : N) | DChunk.

Section Chan.
  Variable fixed : bool.

  (** _parseRequestLine: None = ValueError *)
  Definition target_ok (c : N) : bool :=
    (negb (N.leb c 32) && negb (N.ltb (if fixed then 126 else 176) c))%bool.
  Definition parse_request_line (line : bytes) : option (bytes * bytes * bytes) :=
    match split_first SP line with
    | None => None
    | Some (m, r1) =>
        match split_first SP r1 with
        | None => None
        | Some (t, v) =>
            match find_byte SP v with
            | Some _ => None
            | None =>
                if (istoken m && forallb target_ok t && nonempty t
                    && (octets_eqb v HTTP_1_1 || octets_eqb v HTTP_1_0))%bool
                then Some (m, t, v) else None
            end
        end
    end.

  (** _maybeChooseTransferDecoder for one (canonicalised name, stripped value); None = 400 *)
  Definition choose1 (cur : dec) (name value : bytes) : option dec :=
    if octets_eqb (lower name) content_length_name then
      if (all_digits value && Nat.leb (length value) int_max_str_digits)%bool
      then match cur with DNone => Some (DLen (decimal value)) | _ => None end
      else None
    else if octets_eqb (lower name) transfer_encoding_name then
      if octets_eqb (lower value) chunked_name
      then match cur with DNone => Some DChunk | _ => None end
      else if octets_eqb (lower value) identity_name then Some cur
      else None
    else Some cur.

  Fixpoint choose (hs : list (bytes * bytes)) (cur : dec) : option dec :=
    match hs with
    | [] => Some cur
    | (n, v) :: r => match choose1 cur n v with Some d => choose r d | None => None end
    end.

  (* per-request header state: decoder choice, headers so far (in order), header count *)
  Record hst := mkh { h_dec : dec; h_hdrs : list (bytes * bytes); h_count : nat }.

  (** headerReceived: None = 400 *)
  Definition header_received (h : hst) (line : bytes) : option hst :=
    match split_first COLON line with
    | None => None
    | Some (name, v0) =>
        if istoken name then
          let v := strip v0 in
          if existsb (N.eqb 0) v then None else
          match choose1 (h_dec h) name v with
          | None => None
          | Some d =>
              if Nat.ltb max_headers (S (h_count h)) then None
              else Some (mkh d (h_hdrs h ++ [(lower name, sanitize v)]) (S (h_count h)))
          end
        else None
    end.

  Definition read_line (s : bytes) : option (bytes * bytes) :=
    match find_crlf s with Some i => Some (firstn i s, skipn (i + 2) s) | None => None end.

  Inductive hres := HBad | HWait | HDone (h : hst) (rest : bytes).

  Definition flush (h : hst) (pending : bytes) : option hst :=
    match pending with [] => Some h | _ => header_received h pending end.

  (** lineReceived after the request line, until the empty line *)
  Fixpoint headers_loop (fuel : nat) (s pending : bytes) (h : hst) (size : N) : hres :=
    match fuel with
    | O => HWait
    | S f =>
        match read_line s with
        | None => HWait
        | Some (line, rest) =>
            let size' := (size + N.of_nat (length line))%N in
            if N.ltb total_headers_size size' then HBad else
            match line with
            | [] => match flush h pending with Some h' => HDone h' rest | None => HBad end
            | c :: _ =>
                if is_ws c then headers_loop f rest (pending ++ SP :: lstrip line) h size'
                else match flush h pending with
                     | Some h' => headers_loop f rest line h' size'
                     | None => HBad
                     end
            end
        end
    end.

  Record req := mkreq { r_method : bytes; r_target : bytes; r_version : bytes;
                        r_headers : list (bytes * bytes); r_body : bytes }.
  Inductive ending := EBad | EClosed | EWait.

  (* checkPersistence *)
  Fixpoint first_value (n : bytes) (hs : list (bytes * bytes)) : option bytes :=
    match hs with [] => None | (k, v) :: r => if octets_eqb k n then Some v else first_value n r end.
  Fixpoint split_all (c : N) (fuel : nat) (b : bytes) : list bytes :=
    match fuel with
    | O => [b]
    | S f => match split_first c b with Some (x, r) => x :: split_all c f r | None => [b] end
    end.
  Definition persistent (version : bytes) (hs : list (bytes * bytes)) : bool :=
    if octets_eqb version HTTP_1_1 then
      match first_value connection_name hs with
      | Some v => negb (existsb (fun t => octets_eqb (lower t) close_name) (split_all SP (length v) v))
      | None => true
      end
    else false.

  (** the whole connection *)
  Fixpoint serve (fuel : nat) (s : bytes) (skipped_blank : bool) (size0 : N) : list req * ending :=
    match fuel with
    | O => ([], EWait)
    | S f =>
        match read_line s with
        | None => ([], EWait)
        | Some (line, rest) =>
            let size := (size0 + N.of_nat (length line))%N in
            if N.ltb total_headers_size size then ([], EBad) else
            if (is_nil line && negb skipped_blank)%bool then serve f rest true size else
            match parse_request_line line with
            | None => ([], EBad)
            | Some (m, t, v) =>
                match headers_loop (S (length rest)) rest [] (mkh DNone [] 0) size with
                | HBad => ([], EBad)
                | HWait => ([], EWait)
                | HDone h rest2 =>
                    let deliver body rest3 :=
                      let r := mkreq m t v (h_hdrs h) body in
                      if persistent v (h_hdrs h)
                      then let '(rs, e) := serve f rest3 false 0%N in (r :: rs, e)
                      else ([r], EClosed) in
                    match h_dec h with
                    | DNone => deliver [] rest2
                    | DLen n =>
                        if N.leb n (N.of_nat (length rest2))
                        then deliver (firstn (N.to_nat n) rest2) (skipn (N.to_nat n) rest2)
                        else ([], EWait)
                    | DChunk =>
                        match rest2 with
                        | [] => ([], EWait)
                        | _ =>
                            match decode true default_maxtr [rest2] with
                            | (body, Finished extra) => deliver body extra
                            | (_, Failed _) => ([], EBad)
                            | (_, Need) => ([], EWait)
                            end
                        end
                    end
                end
            end
        end
    end.

  Definition serve_stream (s : bytes) : list req * ending := serve (S (length s)) s false 0%N.
End Chan.
