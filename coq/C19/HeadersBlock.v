(** C19 proofs: what HTTPChannel.lineReceived / headerReceived ([headers_loop]) make of a header block
    written as RFC 9112 section 5 allows (Lib/HttpRender.v: any OWS around values, obs-fold
    continuation lines): an exact description, usable for acceptance and for rejection. *)
From Coq Require Import List NArith Bool Arith Lia ZifyBool.
From TwLib Require Import HttpGrammar HttpRender.
From C22 Require Import Gen Model Proofs SegProofs RoundTrip.
From C19 Require Import Model Proofs ReqLine.
Import ListNotations.

Arguments find_crlf : simpl never.
Arguments firstn : simpl nomatch.
Arguments skipn : simpl nomatch.
Opaque total_headers_size max_headers.

(** ---- strip = trim_ows; sanitize; NUL ---- *)
Lemma lstrip_drop : forall b, lstrip b = drop_ows b.
Proof. induction b as [|x r IH]; simpl; [reflexivity|]. change (is_ws x) with (is_ows x). destruct (is_ows x); [exact IH|reflexivity]. Qed.

Lemma strip_trim : forall b, strip b = trim_ows b.
Proof. intros b. unfold strip, trim_ows. rewrite !rev_append_rev, !app_nil_r, !lstrip_drop. reflexivity. Qed.

Lemma forallb_drop : forall (p : N -> bool) b, forallb p b = true -> forallb p (drop_ows b) = true.
Proof.
  induction b as [|x r IH]; simpl; intros H; [reflexivity|]. apply andb_true_iff in H. destruct H as [H1 H2].
  destruct (is_ows x); [apply IH; exact H2|]. simpl. rewrite H1, H2. reflexivity.
Qed.
Lemma forallb_rev : forall (p : N -> bool) b, forallb p (rev b) = forallb p b.
Proof.
  induction b as [|x r IH]; simpl; [reflexivity|]. rewrite forallb_app, IH. simpl. rewrite andb_true_r. apply andb_comm.
Qed.
Lemma forallb_trim : forall (p : N -> bool) b, forallb p b = true -> forallb p (trim_ows b) = true.
Proof.
  intros p b H. unfold trim_ows. rewrite forallb_rev. apply forallb_drop. rewrite forallb_rev. apply forallb_drop. exact H.
Qed.

Lemma sanitize_id : forall v, forallb is_field_octet v = true -> sanitize v = v.
Proof.
  induction v as [|x r IH]; intros H; [reflexivity|].
  simpl in H. apply andb_true_iff in H. destruct H as [H1 H2].
  unfold is_field_octet in H1. apply andb_true_iff in H1. destruct H1 as [H1 Hlf].
  apply andb_true_iff in H1. destruct H1 as [_ Hcr].
  apply negb_true_iff in Hcr. apply negb_true_iff in Hlf.
  simpl. rewrite Hcr, Hlf, (IH H2). reflexivity.
Qed.

Lemma no_nul : forall v, forallb is_field_octet v = true -> existsb (N.eqb 0) v = false.
Proof.
  induction v as [|x r IH]; intros H; [reflexivity|].
  simpl in H. apply andb_true_iff in H. destruct H as [H1 H2].
  unfold is_field_octet in H1. apply andb_true_iff in H1. destruct H1 as [H1 _].
  apply andb_true_iff in H1. destruct H1 as [H0 _]. apply negb_true_iff in H0.
  destruct x as [|p]; [simpl in H0; discriminate|]. simpl. apply IH. exact H2.
Qed.

(** ---- no CR in tokens / targets / values / whitespace: lines contain no CRLF ---- *)
Definition not_cr (c : N) : bool := negb (N.eqb c CR).

Lemma forallb_imp : forall (p q : N -> bool) l, (forall c, p c = true -> q c = true) ->
  forallb p l = true -> forallb q l = true.
Proof.
  intros p q l H. induction l as [|x r IH]; simpl; [reflexivity|]. intros H1.
  apply andb_true_iff in H1. destruct H1 as [H1 H2]. rewrite (H _ H1), (IH H2). reflexivity.
Qed.

Lemma tchar_not_cr : forall c, is_tchar_rfc c = true -> not_cr c = true.
Proof. intros c H. unfold not_cr. destruct (N.eqb c CR) eqn:E; [|reflexivity]. apply N.eqb_eq in E. subst. vm_compute in H. discriminate. Qed.
Lemma vchar_not_cr : forall c, is_VCHAR c = true -> not_cr c = true.
Proof. intros c H. unfold not_cr. destruct (N.eqb c CR) eqn:E; [|reflexivity]. apply N.eqb_eq in E. subst. vm_compute in H. discriminate. Qed.
Lemma ows_not_cr : forall c, is_ows c = true -> not_cr c = true.
Proof. intros c H. unfold not_cr. destruct (N.eqb c CR) eqn:E; [|reflexivity]. apply N.eqb_eq in E. subst. vm_compute in H. discriminate. Qed.
Lemma field_octet_not_cr : forall c, is_field_octet c = true -> not_cr c = true.
Proof.
  intros c H. unfold is_field_octet in H. apply andb_true_iff in H. destruct H as [H _].
  apply andb_true_iff in H. destruct H as [_ H]. exact H.
Qed.

Lemma token_chars_ok : forall m, rfc_token m = true -> forallb is_tchar_rfc m = true /\ m <> [].
Proof.
  intros m H. unfold rfc_token in H. apply andb_true_iff in H. destruct H as [H1 H2].
  split; [exact H1|]. destruct m; [discriminate|discriminate].
Qed.

Lemma no_cr_no_crlf : forall l, forallb not_cr l = true -> find_crlf l = None.
Proof. intros l H. apply find_crlf_no_cr. exact H. Qed.

Lemma request_line_no_crlf : forall m t v, rfc_request_line_fields m t v = true ->
  find_crlf (request_line m t v) = None.
Proof.
  intros m t v H. apply no_cr_no_crlf.
  unfold rfc_request_line_fields in H.
  apply andb_true_iff in H. destruct H as [H Hv]. apply andb_true_iff in H. destruct H as [H Ht].
  apply andb_true_iff in H. destruct H as [Hm _].
  unfold request_line. rewrite forallb_app. simpl. rewrite forallb_app. simpl.
  destruct (token_chars_ok m Hm) as [Hm' _].
  rewrite (forallb_imp _ _ m tchar_not_cr Hm'), (forallb_imp _ _ t vchar_not_cr Ht). simpl.
  apply orb_true_iff in Hv. destruct Hv as [Hv|Hv]; apply octets_eqb_eq in Hv; subst; reflexivity.
Qed.

Lemma wf_field_parts : forall f, wf_field f = true ->
  rfc_token (f_name f) = true /\ forallb is_field_octet (f_raw f) = true /\ forallb wf_cont (f_conts f) = true.
Proof.
  intros f H. unfold wf_field in H. apply andb_true_iff in H. destruct H as [H H3].
  apply andb_true_iff in H. destruct H as [H1 H2]. auto.
Qed.

Lemma wf_cont_parts : forall c, wf_cont c = true ->
  fst c <> [] /\ forallb is_ows (fst c) = true /\ forallb is_field_octet (snd c) = true /\
  drop_ows (snd c) = snd c.
Proof.
  intros [w s] H. unfold wf_cont in H. simpl in *.
  apply andb_true_iff in H. destruct H as [H H4]. apply andb_true_iff in H. destruct H as [H H3].
  apply andb_true_iff in H. destruct H as [H1 H2].
  repeat split; try assumption.
  - destruct w; [discriminate|discriminate].
  - destruct s as [|x r]; [reflexivity|]. simpl. apply negb_true_iff in H4. rewrite H4. reflexivity.
Qed.

Lemma first_line_no_crlf : forall f, wf_field f = true -> find_crlf (first_line f) = None.
Proof.
  intros f H. destruct (wf_field_parts f H) as (Hn & Hr & _). apply no_cr_no_crlf.
  unfold first_line. rewrite forallb_app. simpl.
  destruct (token_chars_ok _ Hn) as [Hn' _].
  rewrite (forallb_imp _ _ _ tchar_not_cr Hn'), (forallb_imp _ _ _ field_octet_not_cr Hr). reflexivity.
Qed.

Lemma cont_line_no_crlf : forall c, wf_cont c = true -> find_crlf (cont_line c) = None.
Proof.
  intros c H. destruct (wf_cont_parts c H) as (_ & Hw & Hs & _). apply no_cr_no_crlf.
  unfold cont_line. rewrite forallb_app.
  rewrite (forallb_imp _ _ _ ows_not_cr Hw), (forallb_imp _ _ _ field_octet_not_cr Hs). reflexivity.
Qed.

Lemma read_line_at : forall l rest, find_crlf l = None -> read_line (l ++ CRLFo ++ rest) = Some (l, rest).
Proof.
  intros l rest H. change (l ++ CRLFo ++ rest) with (l ++ CR :: LF :: rest).
  unfold read_line. rewrite (find_crlf_at l rest H).
  rewrite firstn_app_exact.
  replace (length l + 2) with (length (l ++ [CR; LF])) by (rewrite app_length; simpl; lia).
  replace (l ++ CR :: LF :: rest) with ((l ++ [CR; LF]) ++ rest) by (rewrite <- app_assoc; reflexivity).
  rewrite skipn_app_exact. reflexivity.
Qed.

(** ---- one logical (unfolded) field line through headerReceived: an equation ---- *)
Definition logical (f : field) : bytes := f_name f ++ COLONo :: f_unfolded f.

Lemma no_colon_token : forall n, rfc_token n = true -> find_byte COLON n = None.
Proof.
  intros n H. destruct (token_chars_ok n H) as [H1 _]. apply find_byte_none_forall.
  clear H. induction n as [|x n IH]; simpl in *; [reflexivity|].
  apply andb_true_iff in H1. destruct H1 as [Hx Hn]. rewrite (IH Hn), andb_true_r.
  destruct (N.eqb x COLON) eqn:E; [|reflexivity]. apply N.eqb_eq in E. subst. vm_compute in Hx. discriminate.
Qed.

Lemma conts_octets : forall cs, forallb wf_cont cs = true ->
  forallb is_field_octet (flat_map (fun c => SP :: snd c) cs) = true.
Proof.
  induction cs as [|c cs IH]; intros Hc; [reflexivity|].
  simpl in Hc. apply andb_true_iff in Hc. destruct Hc as [Hc1 Hc2].
  destruct (wf_cont_parts c Hc1) as (_ & _ & Hs & _).
  cbn [flat_map app forallb]. rewrite forallb_app. apply andb_true_iff. split; [reflexivity|].
  apply andb_true_iff. split; [exact Hs|exact (IH Hc2)].
Qed.

Lemma unfolded_octets : forall f, wf_field f = true -> forallb is_field_octet (f_unfolded f) = true.
Proof.
  intros f H. destruct (wf_field_parts f H) as (_ & Hr & Hc). unfold f_unfolded.
  rewrite forallb_app. apply andb_true_iff. split; [exact Hr|exact (conts_octets _ Hc)].
Qed.

Lemma header_received_logical : forall h f, wf_field f = true ->
  header_received h (logical f) =
  match choose1 (h_dec h) (f_name f) (f_value f) with
  | None => None
  | Some d => if Nat.ltb max_headers (S (h_count h)) then None
              else Some (mkh d (h_hdrs h ++ [(lower (f_name f), f_value f)]) (S (h_count h)))
  end.
Proof.
  intros h f Hw. destruct (wf_field_parts f Hw) as (Hn & _ & _).
  unfold header_received, logical. change COLONo with COLON.
  rewrite (split_first_app COLON (f_name f) (f_unfolded f) (no_colon_token _ Hn)).
  rewrite istoken_rfc, Hn. rewrite strip_trim. fold (f_value f).
  assert (Hv : forallb is_field_octet (f_value f) = true) by (apply forallb_trim, unfolded_octets; exact Hw).
  rewrite (no_nul _ Hv), (sanitize_id _ Hv). reflexivity.
Qed.

Lemma logical_head : forall f, wf_field f = true -> exists c r, logical f = c :: r /\ first_line f = c :: (skipn 1 (first_line f)) /\ is_ws c = false.
Proof.
  intros f H. destruct (wf_field_parts f H) as (Hn & _ & _).
  destruct (token_chars_ok _ Hn) as [Hc Hne]. unfold logical, first_line.
  destruct (f_name f) as [|c n]; [congruence|].
  exists c, (n ++ COLONo :: f_unfolded f). repeat split.
  simpl in Hc. apply andb_true_iff in Hc. destruct Hc as [Hc _].
  unfold is_ws. destruct (N.eqb c SP) eqn:E1; [apply N.eqb_eq in E1; subst; vm_compute in Hc; discriminate|].
  destruct (N.eqb c HTAB) eqn:E2; [apply N.eqb_eq in E2; subst; vm_compute in Hc; discriminate|]. reflexivity.
Qed.

(** ---- the physical lines of a header block ---- *)
Definition conts_size (cs : list (bytes * bytes)) : N :=
  fold_right (fun c acc => (N.of_nat (length (cont_line c)) + acc)%N) 0%N cs.
Definition unfold_conts (cs : list (bytes * bytes)) : bytes := flat_map (fun c => SP :: snd c) cs.

(** one line of the block through lineReceived *)
Lemma hl_step_ws : forall f x r rest pend h size, find_crlf (x :: r) = None -> is_ws x = true ->
  headers_loop (S f) ((x :: r) ++ CRLFo ++ rest) pend h size =
  if N.ltb total_headers_size (size + N.of_nat (length (x :: r))) then HBad
  else headers_loop f rest (pend ++ SP :: lstrip (x :: r)) h (size + N.of_nat (length (x :: r))).
Proof.
  intros f x r rest pend h size Hnc Hx. cbn [headers_loop]. rewrite (read_line_at (x :: r) rest Hnc).
  destruct (N.ltb _ _); [reflexivity|]. rewrite Hx. reflexivity.
Qed.

Lemma hl_step_new : forall f x r rest pend h size, find_crlf (x :: r) = None -> is_ws x = false ->
  headers_loop (S f) ((x :: r) ++ CRLFo ++ rest) pend h size =
  if N.ltb total_headers_size (size + N.of_nat (length (x :: r))) then HBad
  else match flush h pend with
       | Some h' => headers_loop f rest (x :: r) h' (size + N.of_nat (length (x :: r)))
       | None => HBad
       end.
Proof.
  intros f x r rest pend h size Hnc Hx. cbn [headers_loop]. rewrite (read_line_at (x :: r) rest Hnc).
  destruct (N.ltb _ _); [reflexivity|]. rewrite Hx. reflexivity.
Qed.

Lemma hl_step_end : forall f rest pend h size,
  headers_loop (S f) (CRLFo ++ rest) pend h size =
  if N.ltb total_headers_size size then HBad
  else match flush h pend with Some h' => HDone h' rest | None => HBad end.
Proof.
  intros f rest pend h size. cbn [headers_loop].
  change (CRLFo ++ rest) with ([] ++ CRLFo ++ rest). rewrite (read_line_at [] rest eq_refl).
  cbn [length]. change (N.of_nat 0) with 0%N. rewrite N.add_0_r. reflexivity.
Qed.

(* continuation lines: appended to the pending field (one SP + the line without its leading whitespace) *)
Lemma conts_loop : forall cs pend h size fuel tail, forallb wf_cont cs = true ->
  (size <= total_headers_size)%N ->
  headers_loop (length cs + fuel) (flat_map (fun c => cont_line c ++ CRLFo) cs ++ tail) pend h size =
  if N.ltb total_headers_size (size + conts_size cs) then HBad
  else headers_loop fuel tail (pend ++ unfold_conts cs) h (size + conts_size cs).
Proof.
  induction cs as [|c cs IH]; intros pend h size fuel tail Hw Hs.
  - simpl. rewrite app_nil_r, N.add_0_r. destruct (N.ltb total_headers_size size) eqn:E; [lia|reflexivity].
  - simpl in Hw. apply andb_true_iff in Hw. destruct Hw as [Hc Hcs].
    destruct (wf_cont_parts c Hc) as (Hne & Hws & _ & Hdrop).
    pose proof (cont_line_no_crlf c Hc) as Hnc.
    assert (Hstrip : lstrip (cont_line c) = snd c).
    { rewrite lstrip_drop. unfold cont_line. clear - Hws Hdrop. induction (fst c) as [|y w IHw]; simpl; [exact Hdrop|].
      simpl in Hws. apply andb_true_iff in Hws. destruct Hws as [Hy Hw]. rewrite Hy. apply IHw. exact Hw. }
    cbn [length Nat.add flat_map conts_size fold_right]. fold (conts_size cs). rewrite <- !app_assoc.
    destruct (cont_line c) as [|x r] eqn:Hl.
    { unfold cont_line in Hl. destruct (fst c); [congruence|discriminate]. }
    assert (Hx : is_ws x = true).
    { unfold cont_line in Hl. destruct (fst c) as [|y w]; [congruence|]. simpl in Hl. inversion Hl; subst.
      simpl in Hws. apply andb_true_iff in Hws. exact (proj1 Hws). }
    rewrite (hl_step_ws _ x r _ pend h size Hnc Hx).
    destruct (N.ltb total_headers_size (size + N.of_nat (length (x :: r)))) eqn:E1.
    + destruct (N.ltb total_headers_size (size + (N.of_nat (length (x :: r)) + conts_size cs))) eqn:E2; [reflexivity|lia].
    + rewrite (IH _ h _ fuel tail Hcs) by lia. rewrite Hstrip.
      cbn [unfold_conts flat_map]. fold (unfold_conts cs).
      rewrite <- !app_assoc. cbn [app]. rewrite N.add_assoc. reflexivity.
Qed.

(** ---- a whole block of well-formed fields: what state the channel is in after their lines ---- *)
Definition field_size (f : field) : N := (N.of_nat (length (first_line f)) + conts_size (f_conts f))%N.
Definition block_lines (fs : list field) : nat := fold_right (fun f n => S (length (f_conts f)) + n) 0 fs.

(* [None] = 400 somewhere inside; [Some (pending, h, size)] = the state in which the next line is read *)
Fixpoint block_outcome (fs : list field) (pend : bytes) (h : hst) (size : N) : option (bytes * hst * N) :=
  match fs with
  | [] => Some (pend, h, size)
  | f :: r =>
      if N.ltb total_headers_size (size + N.of_nat (length (first_line f))) then None else
      match flush h pend with
      | None => None
      | Some h1 =>
          if N.ltb total_headers_size (size + field_size f) then None
          else block_outcome r (logical f) h1 (size + field_size f)
      end
  end.

Lemma first_line_head : forall f, wf_field f = true -> exists x r, first_line f = x :: r /\ is_ws x = false.
Proof.
  intros f H. destruct (wf_field_parts f H) as (Hn & _ & _).
  destruct (token_chars_ok _ Hn) as [Hc Hne]. unfold first_line.
  destruct (f_name f) as [|c n]; [congruence|].
  exists c, (n ++ COLONo :: f_raw f). split; [reflexivity|].
  simpl in Hc. apply andb_true_iff in Hc. destruct Hc as [Hc _].
  unfold is_ws. destruct (N.eqb c SP) eqn:E1; [apply N.eqb_eq in E1; subst; vm_compute in Hc; discriminate|].
  destruct (N.eqb c HTAB) eqn:E2; [apply N.eqb_eq in E2; subst; vm_compute in Hc; discriminate|]. reflexivity.
Qed.

Lemma logical_unfold : forall f, first_line f ++ unfold_conts (f_conts f) = logical f.
Proof. intros f. unfold first_line, logical, f_unfolded, unfold_conts. rewrite <- app_assoc. reflexivity. Qed.

Lemma block_eq : forall fs pend h size fuel tail, forallb wf_field fs = true ->
  (size <= total_headers_size)%N ->
  headers_loop (block_lines fs + fuel) (flat_map field_lines fs ++ tail) pend h size =
  match block_outcome fs pend h size with
  | None => HBad
  | Some (p, h', s') => headers_loop fuel tail p h' s'
  end.
Proof.
  induction fs as [|f fs IH]; intros pend h size fuel tail Hw Hs; [reflexivity|].
  simpl in Hw. apply andb_true_iff in Hw. destruct Hw as [Hf Hfs].
  destruct (wf_field_parts f Hf) as (_ & _ & Hc).
  destruct (first_line_head f Hf) as (x & r & Hl & Hx).
  pose proof (first_line_no_crlf f Hf) as Hnc.
  cbn [block_lines fold_right flat_map block_outcome]. fold (block_lines fs).
  unfold field_lines. rewrite <- !app_assoc.
  replace (S (length (f_conts f)) + block_lines fs + fuel) with (S (length (f_conts f) + (block_lines fs + fuel))) by lia.
  rewrite Hl in *. rewrite (hl_step_new _ x r _ pend h size Hnc Hx).
  destruct (N.ltb total_headers_size (size + N.of_nat (length (x :: r)))) eqn:E1; [reflexivity|].
  destruct (flush h pend) as [h1|]; [|reflexivity].
  rewrite (conts_loop (f_conts f) (x :: r) h1 _ (block_lines fs + fuel) _ Hc) by lia.
  unfold field_size. rewrite Hl. rewrite <- N.add_assoc.
  destruct (N.ltb total_headers_size (size + (N.of_nat (length (x :: r)) + conts_size (f_conts f)))) eqn:E2; [reflexivity|].
  rewrite <- Hl, logical_unfold. rewrite Hl.
  apply IH; [exact Hfs|lia].
Qed.

Lemma block_outcome_size : forall fs pend h size p h' s', (size <= total_headers_size)%N ->
  block_outcome fs pend h size = Some (p, h', s') -> (s' <= total_headers_size)%N.
Proof.
  induction fs as [|f fs IH]; intros pend h size p h' s' Hs H.
  - inversion H; subst. exact Hs.
  - cbn [block_outcome] in H. destruct (N.ltb _ _); [discriminate|].
    destruct (flush h pend) as [h1|]; [|discriminate].
    destruct (N.ltb total_headers_size (size + field_size f)) eqn:E; [discriminate|].
    eapply IH; [|exact H]. lia.
Qed.

(** folding headerReceived over the unfolded field lines *)
Fixpoint fold_fields (h : hst) (fs : list field) : option hst :=
  match fs with
  | [] => Some h
  | f :: r => match header_received h (logical f) with Some h' => fold_fields h' r | None => None end
  end.

Definition fields_size (fs : list field) : N := fold_right (fun f acc => (field_size f + acc)%N) 0%N fs.


Definition norm (f : field) : bytes * bytes := (lower (f_name f), f_value f).

Lemma flush_logical : forall h f, wf_field f = true -> flush h (logical f) = header_received h (logical f).
Proof.
  intros h f H. destruct (wf_field_parts f H) as (Hn & _ & _). destruct (token_chars_ok _ Hn) as [_ Hne].
  unfold flush, logical. destruct (f_name f); [congruence|reflexivity].
Qed.

Lemma block_flush : forall fs pend h size p h' s', forallb wf_field fs = true ->
  block_outcome fs pend h size = Some (p, h', s') ->
  flush h' p = match flush h pend with None => None | Some h1 => fold_fields h1 fs end.
Proof.
  induction fs as [|f fs IH]; intros pend h size p h' s' Hw H.
  - inversion H; subst. simpl. destruct (flush h' p); reflexivity.
  - simpl in Hw. apply andb_true_iff in Hw. destruct Hw as [Hf Hfs].
    cbn [block_outcome] in H. destruct (N.ltb _ _); [discriminate|].
    destruct (flush h pend) as [h1|]; [|discriminate].
    destruct (N.ltb total_headers_size (size + field_size f)); [discriminate|].
    rewrite (IH _ _ _ _ _ _ Hfs H). rewrite (flush_logical h1 f Hf). reflexivity.
Qed.

Lemma block_outcome_total : forall fs pend h size p h' s',
  block_outcome fs pend h size = Some (p, h', s') -> s' = (size + fields_size fs)%N.
Proof.
  induction fs as [|f fs IH]; intros pend h size p h' s' H.
  - inversion H; subst. simpl. lia.
  - cbn [block_outcome] in H. destruct (N.ltb _ _); [discriminate|].
    destruct (flush h pend) as [h1|]; [|discriminate].
    destruct (N.ltb total_headers_size (size + field_size f)); [discriminate|].
    rewrite (IH _ _ _ _ _ _ H). cbn [fields_size fold_right]. fold (fields_size fs). lia.
Qed.

Lemma block_outcome_none : forall fs pend h size, forallb wf_field fs = true ->
  (size + fields_size fs <= total_headers_size)%N -> block_outcome fs pend h size = None ->
  match flush h pend with None => True | Some h1 => fold_fields h1 fs = None end.
Proof.
  induction fs as [|f fs IH]; intros pend h size Hw Hs H; [discriminate|].
  simpl in Hw. apply andb_true_iff in Hw. destruct Hw as [Hf Hfs].
  cbn [fields_size fold_right] in Hs. fold (fields_size fs) in Hs.
  cbn [block_outcome] in H. unfold field_size in *.
  destruct (N.ltb total_headers_size (size + N.of_nat (length (first_line f)))) eqn:E1; [lia|].
  destruct (flush h pend) as [h1|]; [|exact I].
  destruct (N.ltb total_headers_size (size + (N.of_nat (length (first_line f)) + conts_size (f_conts f)))) eqn:E2; [lia|].
  assert (Hs2 : (size + (N.of_nat (length (first_line f)) + conts_size (f_conts f)) + fields_size fs <= total_headers_size)%N) by lia.
  specialize (IH _ _ _ Hfs Hs2 H). rewrite (flush_logical h1 f Hf) in IH.
  cbn [fold_fields]. destruct (header_received h1 (logical f)); [exact IH|reflexivity].
Qed.

(** the complete block, ended by the empty line: an equation *)
Lemma block_end : forall fs h size fuel rest, forallb wf_field fs = true -> (size <= total_headers_size)%N ->
  headers_loop (block_lines fs + S fuel) (flat_map field_lines fs ++ CRLFo ++ rest) [] h size =
  if N.ltb total_headers_size (size + fields_size fs) then HBad
  else match fold_fields h fs with Some h' => HDone h' rest | None => HBad end.
Proof.
  intros fs h size fuel rest Hw Hs. rewrite (block_eq fs [] h size (S fuel) _ Hw Hs).
  destruct (block_outcome fs [] h size) as [[[p h'] s']|] eqn:Eb.
  - pose proof (block_outcome_total _ _ _ _ _ _ _ Eb) as Ht.
    pose proof (block_outcome_size _ _ _ _ _ _ _ Hs Eb) as Hle. subst s'.
    rewrite hl_step_end. destruct (N.ltb total_headers_size (size + fields_size fs)) eqn:E; [lia|].
    rewrite (block_flush _ _ _ _ _ _ _ Hw Eb). reflexivity.
  - destruct (N.ltb total_headers_size (size + fields_size fs)) eqn:E; [reflexivity|].
    pose proof (block_outcome_none fs [] h size Hw ltac:(lia) Eb) as Hn. simpl in Hn. rewrite Hn. reflexivity.
Qed.

(** a line that headerReceived refuses, followed by any line that is not a continuation: 400, whatever
    came before in the block *)
Lemma block_bad_line : forall fs h size fuel x r nl junk, forallb wf_field fs = true ->
  (size <= total_headers_size)%N ->
  find_crlf (x :: r) = None -> is_ws x = false -> (forall h0, header_received h0 (x :: r) = None) ->
  find_crlf nl = None -> match nl with [] => True | y :: _ => is_ws y = false end ->
  headers_loop (block_lines fs + S (S fuel)) (flat_map field_lines fs ++ (x :: r) ++ CRLFo ++ nl ++ CRLFo ++ junk) [] h size = HBad.
Proof.
  intros fs h size fuel x r nl junk Hw Hs Hnc Hx Hbad Hnl Hnlw.
  rewrite (block_eq fs [] h size (S (S fuel)) _ Hw Hs).
  destruct (block_outcome fs [] h size) as [[[p h'] s']|] eqn:Eb; [|reflexivity].
  rewrite (hl_step_new _ x r _ p h' s' Hnc Hx).
  destruct (N.ltb _ _); [reflexivity|]. destruct (flush h' p) as [h2|]; [|reflexivity].
  assert (Hfl : flush h2 (x :: r) = None) by (unfold flush; apply Hbad).
  destruct nl as [|y nl'].
  - cbn [app]. rewrite hl_step_end. destruct (N.ltb _ _); [reflexivity|]. rewrite Hfl. reflexivity.
  - rewrite (hl_step_new _ y nl' _ (x :: r) h2 _ Hnl Hnlw). destruct (N.ltb _ _); [reflexivity|]. rewrite Hfl. reflexivity.
Qed.

(** headerReceived over a block = the framing decision + the field count *)
Lemma fold_fields_choose : forall fs h, forallb wf_field fs = true -> h_count h <= max_headers ->
  fold_fields h fs =
  match choose (map field_pair fs) (h_dec h) with
  | None => None
  | Some d => if Nat.ltb max_headers (h_count h + length fs) then None
              else Some (mkh d (h_hdrs h ++ map norm fs) (h_count h + length fs))
  end.
Proof.
  induction fs as [|f fs IH]; intros h Hw Hc.
  - simpl. rewrite app_nil_r, Nat.add_0_r. destruct (Nat.ltb max_headers (h_count h)) eqn:E; [lia|].
    destruct h; reflexivity.
  - simpl in Hw. apply andb_true_iff in Hw. destruct Hw as [Hf Hfs].
    cbn [fold_fields map choose]. rewrite (header_received_logical h f Hf).
    unfold field_pair at 1. cbn [fst snd].
    destruct (choose1 (h_dec h) (f_name f) (f_value f)) as [d1|]; [|reflexivity].
    destruct (Nat.ltb max_headers (S (h_count h))) eqn:E1.
    + destruct (choose (map field_pair fs) d1); [|reflexivity].
      destruct (Nat.ltb max_headers (h_count h + length (f :: fs))) eqn:E2; [reflexivity|]. simpl in E2. lia.
    + rewrite (IH _ Hfs) by (simpl; lia). cbn [h_dec h_hdrs h_count].
      destruct (choose (map field_pair fs) d1); [|reflexivity].
      replace (S (h_count h) + length fs) with (h_count h + length (f :: fs)) by (simpl; lia).
      destruct (Nat.ltb max_headers (h_count h + length (f :: fs))); [reflexivity|].
      rewrite <- app_assoc. reflexivity.
Qed.
