(** C16 proofs: line receivers and IntNStringReceiver (netstrings are in ProofsNs.v). *)
From Coq Require Import List Arith NArith Bool Lia.
From TwLib Require Import PyBytes Seg.
From C16 Require Import Model.
Import ListNotations.

(* ------------------------------------------------------------------------------------------ *)
(** * generic consequences for a framed receiver started with an empty buffer *)
Section FramedRuns.
  Variable step : unit -> bytes -> step_result N ev unit.
  Hypothesis emit_shrinks : forall x b e x' r, step x b = Emit e x' r -> length r < length b.
  Hypothesis emit_stable : forall x b c e x' r, step x b = Emit e x' r -> step x (b ++ c) = Emit e x' (r ++ c).
  Hypothesis fail_stable : forall x b c e, step x b = Fail e -> step x (b ++ c) = Fail e.
  Hypothesis step_nil : step tt [] = Wait.

  Lemma framed_run : forall cs s, chunks cs s -> run (bfeed (fdrain step)) init cs = fdrain step tt s.
  Proof. intros cs s Hc. unfold init. apply framed_all_chunkings; assumption. Qed.

  Lemma framed_run_whole : forall cs s, chunks cs s ->
    run (bfeed (fdrain step)) init cs = run (bfeed (fdrain step)) init [s].
  Proof. intros cs s Hc. rewrite (framed_run cs s Hc), (framed_run [s] s (chunks_whole s)). reflexivity. Qed.
End FramedRuns.

(* ------------------------------------------------------------------------------------------ *)
(** * line receivers *)
Section Lines.
  Variables (max : nat) (delim : bytes).
  Hypothesis delim_ne : delim <> [].

  Let step := line_step max delim.

  Lemma delim_pos : 0 < length delim.
  Proof. destruct delim; [congruence | simpl; lia]. Qed.

  Lemma line_emit_shrinks : forall x b e x' r, step x b = Emit e x' r -> length r < length b.
  Proof.
    intros x b e x' r H. unfold step, line_step in H. destruct b as [|y b]; [discriminate|].
    destruct (split1 delim (y :: b)) as [[line rest]|] eqn:Hs.
    - destruct (max <? length line); [discriminate|]. inversion H; subst.
      pose proof (split1_length _ _ _ _ Hs). pose proof delim_pos. lia.
    - destruct (max + length delim <=? length (y :: b)); discriminate.
  Qed.

  Lemma line_emit_stable : forall x b c e x' r, step x b = Emit e x' r -> step x (b ++ c) = Emit e x' (r ++ c).
  Proof.
    intros x b c e x' r H. unfold step, line_step in *. destruct b as [|y b]; [discriminate|].
    change ((y :: b) ++ c) with (y :: (b ++ c)).
    destruct (split1 delim (y :: b)) as [[line rest]|] eqn:Hs.
    - change (y :: (b ++ c)) with ((y :: b) ++ c). rewrite (split1_app _ _ c _ _ Hs).
      destruct (max <? length line); [discriminate|]. inversion H; subst. reflexivity.
    - destruct (max + length delim <=? length (y :: b)); discriminate.
  Qed.

  Lemma line_fail_stable : forall x b c e, step x b = Fail e -> step x (b ++ c) = Fail e.
  Proof.
    intros x b c e H. unfold step, line_step in *. destruct b as [|y b]; [discriminate|].
    change ((y :: b) ++ c) with (y :: (b ++ c)).
    destruct (split1 delim (y :: b)) as [[line rest]|] eqn:Hs.
    - change (y :: (b ++ c)) with ((y :: b) ++ c). rewrite (split1_app _ _ c _ _ Hs).
      destruct (max <? length line); [assumption | discriminate].
    - destruct (max + length delim <=? length (y :: b)) eqn:Hl; [|discriminate].
      apply Nat.leb_le in Hl.
      change (y :: (b ++ c)) with ((y :: b) ++ c).
      destruct (split1 delim ((y :: b) ++ c)) as [[line rest]|] eqn:Hs2.
      + pose proof (split1_late _ _ _ _ _ delim_ne Hs Hs2) as Hlate.
        assert (Hlt : max <? length line = true) by (apply Nat.ltb_lt; lia). now rewrite Hlt.
      + assert (Hle : max + length delim <=? length ((y :: b) ++ c) = true).
        { apply Nat.leb_le. rewrite app_length. lia. }
        now rewrite Hle.
  Qed.

  Lemma line_step_nil : step tt [] = Wait.
  Proof. reflexivity. Qed.

  Definition lr_unfold := fdrain_unfold step line_emit_shrinks.

  (** every chunking gives what the whole stream gives *)
  Lemma lr_run : forall cs s, chunks cs s -> run (lr_feed max delim) init cs = lr_drain max delim tt s.
  Proof.
    intros cs s Hc. apply (framed_run step line_emit_shrinks line_emit_stable line_fail_stable line_step_nil cs s Hc).
  Qed.

  Lemma lr_seg_invariant : forall cs s, chunks cs s ->
    run (lr_feed max delim) init cs = run (lr_feed max delim) init [s].
  Proof.
    intros cs s Hc. apply (framed_run_whole step line_emit_shrinks line_emit_stable line_fail_stable line_step_nil cs s Hc).
  Qed.

  (** ** LineOnlyReceiver's split-everything formulation computes the same function *)
  Lemma last_cons_ne : forall (a : bytes) L, L <> [] -> last (a :: L) [] = last L [].
  Proof. intros a [|b L] H; [congruence | reflexivity]. Qed.
  Lemma removelast_cons_ne : forall (a : bytes) L, L <> [] -> removelast (a :: L) = a :: removelast L.
  Proof. intros a [|b L] H; [congruence | reflexivity]. Qed.

  Lemma lo_is_lr : forall all, lo_drain max delim tt all = lr_drain max delim tt all.
  Proof.
    intros all. remember (length all) as n eqn:Hn. revert all Hn.
    induction n as [n IH] using lt_wf_ind. intros all Hn.
    unfold lr_drain. fold step. rewrite lr_unfold.
    unfold lo_drain. rewrite split_all_unfold by assumption.
    unfold step at 1, line_step.
    destruct (split1 delim all) as [[line rest]|] eqn:Hs.
    - pose proof (split1_length _ _ _ _ Hs) as Hl. pose proof delim_pos as Hp.
      destruct all as [|y all']; [simpl in Hl; lia|].
      pose proof (split_all_nonempty delim rest delim_ne) as Hne.
      rewrite last_cons_ne, removelast_cons_ne by assumption.
      cbn [lo_lines]. destruct (max <? length line) eqn:Hm; [reflexivity|].
      specialize (IH (length rest) ltac:(lia) rest eq_refl).
      unfold lo_drain, lr_drain in IH. fold step in IH. rewrite <- IH.
      destruct (lo_lines max (removelast (split_all delim rest))) as [e closed].
      destruct closed; [reflexivity|].
      destruct (max + length delim <=? length (last (split_all delim rest) [])); reflexivity.
    - cbn [last removelast lo_lines]. destruct all as [|y all'].
      + pose proof delim_pos. assert (Hf : max + length delim <=? @length N [] = false) by (apply Nat.leb_gt; simpl; lia).
        rewrite Hf. reflexivity.
      + destruct (max + length delim <=? length (y :: all')); reflexivity.
  Qed.

  Lemma lo_feed_is_lr_feed : forall s c, lo_feed max delim s c = lr_feed max delim s c.
  Proof. intros [[[] b]|] c; simpl; [apply lo_is_lr | reflexivity]. Qed.

  Lemma lo_run_is_lr_run : forall cs s, run (lo_feed max delim) s cs = run (lr_feed max delim) s cs.
  Proof.
    induction cs as [|c cs IH]; intros s; simpl; [reflexivity|].
    rewrite lo_feed_is_lr_feed. destruct (lr_feed max delim s c) as [e s1]. now rewrite IH.
  Qed.

  (** ** reference framing, relationally: what is received for a stream built from lines *)
  Definition sendable (l : bytes) : Prop := clean delim l /\ length l <= max.

  Lemma lr_lines_then : forall ls tail, Forall sendable ls ->
    lr_drain max delim tt (concat (map (send_line delim) ls) ++ tail) =
    let (e, s) := lr_drain max delim tt tail in (map Line ls ++ e, s).
  Proof.
    induction ls as [|l ls IH]; intros tail HF.
    - simpl. destruct (lr_drain max delim tt tail); reflexivity.
    - inversion HF as [|? ? [Hc Hl] HF']; subst.
      cbn [map concat]. unfold send_line at 1. rewrite <- !app_assoc.
      unfold lr_drain. fold step. rewrite lr_unfold. unfold step at 1, line_step.
      rewrite (split1_clean _ _ _ Hc).
      assert (Hm : max <? length l = false) by (apply Nat.ltb_ge; lia). rewrite Hm.
      destruct (l ++ delim ++ concat (map (send_line delim) ls) ++ tail) eqn:Hz.
      { exfalso. apply (f_equal (@length N)) in Hz. rewrite !app_length in Hz. pose proof delim_pos. simpl in Hz. lia. }
      specialize (IH tail HF'). unfold lr_drain in IH. fold step in IH. rewrite IH.
      destruct (fdrain step tt tail). reflexivity.
  Qed.

  Lemma lr_tail_waits : forall tail, split1 delim tail = None -> length tail < max + length delim ->
    lr_drain max delim tt tail = ([], Some (tt, tail)).
  Proof.
    intros tail Hs Hl. unfold lr_drain. fold step. rewrite lr_unfold. unfold step, line_step. rewrite Hs.
    destruct tail; [reflexivity|].
    assert (Hf : max + length delim <=? length (n :: tail) = false) by (apply Nat.leb_gt; lia). now rewrite Hf.
  Qed.

  Lemma lr_tail_rejected : forall tail, split1 delim tail = None -> max + length delim <= length tail ->
    lr_drain max delim tt tail = ([TooLong; Close], None).
  Proof.
    intros tail Hs Hl. unfold lr_drain. fold step. rewrite lr_unfold. unfold step, line_step. rewrite Hs.
    destruct tail; [pose proof delim_pos; simpl in Hl; lia|].
    assert (Hf : max + length delim <=? length (n :: tail) = true) by (apply Nat.leb_le; lia). now rewrite Hf.
  Qed.

  Lemma lr_long_rejected : forall long rest, clean delim long -> max < length long ->
    lr_drain max delim tt (long ++ delim ++ rest) = ([TooLong; Close], None).
  Proof.
    intros long rest Hc Hl. unfold lr_drain. fold step. rewrite lr_unfold. unfold step, line_step.
    rewrite (split1_clean _ _ _ Hc).
    assert (Hm : max <? length long = true) by (apply Nat.ltb_lt; lia). rewrite Hm.
    destruct (long ++ delim ++ rest) eqn:Hz; [|reflexivity].
    exfalso. apply (f_equal (@length N)) in Hz. rewrite !app_length in Hz. simpl in Hz. lia.
  Qed.

  (** ** a longer line is never delivered *)
  Lemma lr_never_delivers_long : forall b l, In (Line l) (fst (lr_drain max delim tt b)) -> length l <= max.
  Proof.
    intros b. remember (length b) as n eqn:Hn. revert b Hn.
    induction n as [n IH] using lt_wf_ind. intros b Hn l Hin.
    unfold lr_drain in Hin. fold step in Hin. rewrite lr_unfold in Hin.
    destruct (step tt b) as [e [] r| |e] eqn:Hs.
    - pose proof (line_emit_shrinks _ _ _ _ _ Hs) as Hlt.
      unfold step, line_step in Hs. destruct b as [|y b]; [discriminate|].
      destruct (split1 delim (y :: b)) as [[line rest]|]; [|destruct (max + length delim <=? length (y :: b)); discriminate].
      destruct (max <? length line) eqn:Hm; [discriminate|]. inversion Hs; subst.
      destruct (fdrain step tt r) as [e' s'] eqn:Hd. simpl in Hin. destruct Hin as [Heq|Hin].
      + inversion Heq; subst. apply Nat.ltb_ge in Hm. exact Hm.
      + apply (IH (length r) ltac:(lia) r eq_refl l). unfold lr_drain. fold step. now rewrite Hd.
    - simpl in Hin. contradiction.
    - unfold step, line_step in Hs. destruct b as [|y b]; [discriminate|].
      destruct (split1 delim (y :: b)) as [[line rest]|].
      + destruct (max <? length line); [|discriminate]. inversion Hs; subst. simpl in Hin.
        destruct Hin as [H|[H|[]]]; discriminate.
      + destruct (max + length delim <=? length (y :: b)); [|discriminate]. inversion Hs; subst. simpl in Hin.
        destruct Hin as [H|[H|[]]]; discriminate.
  Qed.
End Lines.

(* ------------------------------------------------------------------------------------------ *)
(** * IntNStringReceiver *)
Section IntN.
  Variables (plen : nat) (max : N).
  Hypothesis plen_pos : 0 < plen.

  Let step := intn_step plen max.

  Lemma intn_emit_inv : forall x b e x' r, step x b = Emit e x' r ->
    plen <= length b /\
    let n := be_to_N (firstn plen b) in
    (n <= max)%N /\ plen + N.to_nat n <= length b /\
    e = [Str (firstn (N.to_nat n) (skipn plen b))] /\ r = skipn (plen + N.to_nat n) b.
  Proof.
    intros x b e x' r H. unfold step, intn_step in H.
    destruct (length b <? plen) eqn:H1; [discriminate|]. apply Nat.ltb_ge in H1.
    destruct (max <? be_to_N (firstn plen b))%N eqn:H2; [discriminate|]. apply N.ltb_ge in H2.
    destruct (N.of_nat (length b) <? N.of_nat plen + be_to_N (firstn plen b))%N eqn:H3; [discriminate|].
    apply N.ltb_ge in H3. inversion H; subst. cbv zeta. repeat split; try assumption; lia.
  Qed.

  Lemma intn_emit_shrinks : forall x b e x' r, step x b = Emit e x' r -> length r < length b.
  Proof.
    intros x b e x' r H. apply intn_emit_inv in H as (H1 & H2 & H3 & _ & ->). rewrite skipn_length. lia.
  Qed.

  Lemma firstn_app_le : forall (b c : bytes) k, k <= length b -> firstn k (b ++ c) = firstn k b.
  Proof. intros b c k H. rewrite firstn_app. replace (k - length b) with 0 by lia. simpl. apply app_nil_r. Qed.

  Lemma skipn_app_le : forall (b c : bytes) k, k <= length b -> skipn k (b ++ c) = skipn k b ++ c.
  Proof. intros b c k H. rewrite skipn_app. replace (k - length b) with 0 by lia. reflexivity. Qed.

  Lemma intn_emit_stable : forall x b c e x' r, step x b = Emit e x' r -> step x (b ++ c) = Emit e x' (r ++ c).
  Proof.
    intros x b c e x' r H. pose proof (intn_emit_inv _ _ _ _ _ H) as (H1 & H2 & H3 & -> & ->). cbv zeta in *.
    destruct x, x'. unfold step, intn_step. rewrite (firstn_app_le b c plen H1).
    assert (E1 : length (b ++ c) <? plen = false) by (apply Nat.ltb_ge; rewrite app_length; lia). rewrite E1.
    assert (E2 : (max <? be_to_N (firstn plen b))%N = false) by (apply N.ltb_ge; lia). rewrite E2.
    assert (E3 : (N.of_nat (length (b ++ c)) <? N.of_nat plen + be_to_N (firstn plen b))%N = false).
    { apply N.ltb_ge. rewrite app_length. lia. }
    rewrite E3. rewrite !(skipn_app_le b c) by lia.
    rewrite firstn_app_le by (rewrite skipn_length; lia). reflexivity.
  Qed.

  Lemma intn_fail_stable : forall x b c e, step x b = Fail e -> step x (b ++ c) = Fail e.
  Proof.
    intros x b c e H. unfold step, intn_step in *.
    destruct (length b <? plen) eqn:H1; [discriminate|]. apply Nat.ltb_ge in H1.
    assert (E1 : length (b ++ c) <? plen = false) by (apply Nat.ltb_ge; rewrite app_length; lia). rewrite E1.
    rewrite (firstn_app_le b c plen H1).
    destruct (max <? be_to_N (firstn plen b))%N; [assumption|].
    destruct (N.of_nat (length b) <? N.of_nat plen + be_to_N (firstn plen b))%N; discriminate.
  Qed.

  Lemma intn_step_nil : step tt [] = Wait.
  Proof. unfold step, intn_step. simpl. destruct plen; [lia | reflexivity]. Qed.

  Definition intn_unfold := fdrain_unfold step intn_emit_shrinks.

  Lemma intn_run : forall cs s, chunks cs s -> run (intn_feed plen max) init cs = intn_drain plen max tt s.
  Proof.
    intros cs s Hc. apply (framed_run step intn_emit_shrinks intn_emit_stable intn_fail_stable intn_step_nil cs s Hc).
  Qed.

  Lemma intn_seg_invariant : forall cs s, chunks cs s ->
    run (intn_feed plen max) init cs = run (intn_feed plen max) init [s].
  Proof.
    intros cs s Hc. apply (framed_run_whole step intn_emit_shrinks intn_emit_stable intn_fail_stable intn_step_nil cs s Hc).
  Qed.

  (** ** reference framing, relationally *)
  (** a string sendString accepts and the receiver's limit admits *)
  Definition sendable_str (s : bytes) : Prop :=
    (N.of_nat (length s) < 256 ^ N.of_nat plen)%N /\ (N.of_nat (length s) <= max)%N.

  Definition frame (s : bytes) : bytes := N_to_be plen (N.of_nat (length s)) ++ s.

  Lemma intn_send_frame : forall s, sendable_str s -> intn_send plen s = Some (frame s).
  Proof. intros s [H _]. unfold intn_send. apply N.ltb_lt in H. now rewrite H. Qed.

  Lemma intn_step_frame : forall s rest, sendable_str s -> step tt (frame s ++ rest) = Emit [Str s] tt rest.
  Proof.
    intros s rest [Hs Hm]. unfold frame.
    pose proof (N_to_be_length plen (N.of_nat (length s))) as Hl.
    pose proof (be_roundtrip plen (N.of_nat (length s)) Hs) as Hrt.
    remember (N_to_be plen (N.of_nat (length s))) as pre eqn:Hpre. clear Hpre.
    remember ((pre ++ s) ++ rest) as b eqn:Hb.
    assert (Hlen : length b = plen + length s + length rest) by (subst b; rewrite !app_length; lia).
    assert (Hfirst : firstn plen b = pre).
    { subst b. rewrite <- app_assoc. rewrite firstn_app_le by lia. rewrite <- Hl. apply firstn_all. }
    assert (Hskip : skipn plen b = s ++ rest).
    { subst b. rewrite <- app_assoc. rewrite <- Hl. rewrite skipn_app, skipn_all, Nat.sub_diag. reflexivity. }
    assert (Hskip2 : skipn (plen + length s) b = rest).
    { subst b. replace (plen + length s) with (length (pre ++ s)) by (rewrite app_length; lia).
      rewrite skipn_app, skipn_all, Nat.sub_diag. reflexivity. }
    unfold step, intn_step. rewrite Hfirst. unfold be_to_N in Hrt. unfold be_to_N. rewrite Hrt.
    assert (E1 : length b <? plen = false) by (apply Nat.ltb_ge; lia). rewrite E1.
    assert (E2 : (max <? N.of_nat (length s))%N = false) by (apply N.ltb_ge; lia). rewrite E2.
    assert (E3 : (N.of_nat (length b) <? N.of_nat plen + N.of_nat (length s))%N = false) by (apply N.ltb_ge; lia).
    rewrite E3. rewrite Nat2N.id, Hskip, Hskip2.
    rewrite firstn_app, firstn_all, Nat.sub_diag. cbn [firstn]. rewrite app_nil_r. reflexivity.
  Qed.

  Lemma intn_strings_then : forall ss tail, Forall sendable_str ss ->
    intn_drain plen max tt (concat (map frame ss) ++ tail) =
    let (e, s) := intn_drain plen max tt tail in (map Str ss ++ e, s).
  Proof.
    induction ss as [|s ss IH]; intros tail HF.
    - simpl. destruct (intn_drain plen max tt tail); reflexivity.
    - inversion HF as [|? ? Hs HF']; subst. cbn [map concat]. rewrite <- app_assoc.
      unfold intn_drain. fold step. rewrite intn_unfold. rewrite (intn_step_frame _ _ Hs).
      specialize (IH tail HF'). unfold intn_drain in IH. fold step in IH. rewrite IH.
      destruct (fdrain step tt tail). reflexivity.
  Qed.

  (** an incomplete tail: fewer bytes than a prefix, or an admissible prefix whose string is not yet complete *)
  Definition incomplete (tail : bytes) : Prop :=
    length tail < plen \/
    ((be_to_N (firstn plen tail) <= max)%N /\ (N.of_nat (length tail) < N.of_nat plen + be_to_N (firstn plen tail))%N).

  Lemma intn_tail_waits : forall tail, incomplete tail -> intn_drain plen max tt tail = ([], Some (tt, tail)).
  Proof.
    intros tail H. unfold intn_drain. fold step. rewrite intn_unfold. unfold step, intn_step.
    destruct (length tail <? plen) eqn:H1; [reflexivity|]. apply Nat.ltb_ge in H1.
    destruct H as [H|[H2 H3]]; [lia|].
    apply N.ltb_ge in H2. rewrite H2. apply N.ltb_lt in H3. rewrite H3. reflexivity.
  Qed.

  Lemma intn_tail_rejected : forall tail, plen <= length tail -> (max < be_to_N (firstn plen tail))%N ->
    intn_drain plen max tt tail = ([LenExceeded (be_to_N (firstn plen tail)); Close], None).
  Proof.
    intros tail H1 H2. unfold intn_drain. fold step. rewrite intn_unfold. unfold step, intn_step.
    apply Nat.ltb_ge in H1. rewrite H1. apply N.ltb_lt in H2. rewrite H2. reflexivity.
  Qed.

  Lemma intn_never_delivers_long : forall b s, In (Str s) (fst (intn_drain plen max tt b)) -> (N.of_nat (length s) <= max)%N.
  Proof.
    intros b. remember (length b) as n eqn:Hn. revert b Hn.
    induction n as [n IH] using lt_wf_ind. intros b Hn s Hin.
    unfold intn_drain in Hin. fold step in Hin. rewrite intn_unfold in Hin.
    destruct (step tt b) as [e [] r| |e] eqn:Hs.
    - pose proof (intn_emit_shrinks _ _ _ _ _ Hs) as Hlt.
      pose proof (intn_emit_inv _ _ _ _ _ Hs) as (H1 & H2 & H3 & -> & Hr). cbv zeta in *.
      destruct (fdrain step tt r) as [e' s'] eqn:Hd. simpl in Hin. destruct Hin as [Heq|Hin].
      + inversion Heq; subst s. rewrite firstn_length, skipn_length. lia.
      + apply (IH (length r) ltac:(lia) r eq_refl s). unfold intn_drain. fold step. now rewrite Hd.
    - simpl in Hin. contradiction.
    - unfold step, intn_step in Hs.
      destruct (length b <? plen); [discriminate|].
      destruct (max <? be_to_N (firstn plen b))%N.
      + inversion Hs; subst. simpl in Hin. destruct Hin as [H|[H|[]]]; discriminate.
      + destruct (N.of_nat (length b) <? N.of_nat plen + be_to_N (firstn plen b))%N; discriminate.
  Qed.
End IntN.

(* ------------------------------------------------------------------------------------------ *)
(** * the unrepaired LineOnlyReceiver is not segmentation invariant (finding F3) *)
Lemma lo_orig_witness :
  let cs1 := [[97; 98; 99; 13; 10]]%N in
  let cs2 := [[97; 98; 99; 13]; [10]]%N in
  concat cs1 = concat cs2 /\
  fst (run (lo_feed_orig 3 [13; 10]%N) init cs1) = [Line [97; 98; 99]%N] /\
  fst (run (lo_feed_orig 3 [13; 10]%N) init cs2) = [TooLong; Close].
Proof. vm_compute. repeat split. Qed.
