(** C16 proofs: NetstringReceiver. *)
From Coq Require Import List Arith NArith Bool Lia.
From TwLib Require Import PyBytes Seg.
From C16 Require Import Model Proofs.
Import ListNotations.

(** * digit spans *)
Lemma span_digits_split : forall b ds r, span_digits b = (ds, r) -> b = ds ++ r.
Proof.
  induction b as [|d b IH]; intros ds r H; simpl in H.
  - inversion H; reflexivity.
  - destruct (is_digit d).
    + destruct (span_digits b) as [ds' r'] eqn:Hs. inversion H; subst. simpl. f_equal. now apply IH.
    + inversion H; subst. reflexivity.
Qed.

Lemma span_digits_app_stop : forall b c ds x r, span_digits b = (ds, x :: r) ->
  span_digits (b ++ c) = (ds, x :: r ++ c).
Proof.
  induction b as [|d b IH]; intros c ds x r H; simpl in H.
  - inversion H.
  - simpl. destruct (is_digit d).
    + destruct (span_digits b) as [ds' r'] eqn:Hs. inversion H; subst.
      now rewrite (IH c ds' x r eq_refl).
    + inversion H; subst. reflexivity.
Qed.

Lemma span_digits_app_all : forall b c ds, span_digits b = (ds, []) ->
  span_digits (b ++ c) = let (ds2, r2) := span_digits c in (ds ++ ds2, r2).
Proof.
  induction b as [|d b IH]; intros c ds H; simpl in H.
  - inversion H; subst. simpl. destruct (span_digits c); reflexivity.
  - simpl. destruct (is_digit d).
    + destruct (span_digits b) as [ds' r'] eqn:Hs. inversion H; subst.
      rewrite (IH c ds' eq_refl). destruct (span_digits c). reflexivity.
    + inversion H.
Qed.

Section Netstring.
  Variable max : N.

  Let step := ns_step max.

  Lemma match_number_cons : forall y b,
    match_number (y :: b) = if N.eqb y 48 then Some ([y], b)
                            else match span_digits (y :: b) with ([], _) => None | (ds, rest) => Some (ds, rest) end.
  Proof. reflexivity. Qed.

  Lemma match_number_split : forall b ds r, match_number b = Some (ds, r) -> b = ds ++ r /\ ds <> [].
  Proof.
    intros b ds r H. unfold match_number in H. destruct b as [|x b]; [discriminate|].
    destruct (N.eqb x 48).
    - inversion H; subst. split; [reflexivity | discriminate].
    - destruct (span_digits (x :: b)) as [[|d ds'] r'] eqn:Hs; [discriminate|]. inversion H; subst.
      split; [now apply span_digits_split | discriminate].
  Qed.

  Lemma match_number_app_stop : forall b c ds x r, match_number b = Some (ds, x :: r) ->
    match_number (b ++ c) = Some (ds, x :: r ++ c).
  Proof.
    intros b c ds x r H. destruct b as [|y b]; [discriminate|].
    change ((y :: b) ++ c) with (y :: (b ++ c)). rewrite match_number_cons in *.
    destruct (N.eqb y 48).
    - inversion H; subst. reflexivity.
    - change (y :: (b ++ c)) with ((y :: b) ++ c).
      destruct (span_digits (y :: b)) as [[|d ds'] r'] eqn:Hs; [discriminate|]. inversion H; subst.
      now rewrite (span_digits_app_stop _ c _ _ _ Hs).
  Qed.

  Lemma match_number_none_app : forall b c, b <> [] -> match_number b = None -> match_number (b ++ c) = None.
  Proof.
    intros b c Hne H. destruct b as [|y b]; [congruence|].
    change ((y :: b) ++ c) with (y :: (b ++ c)). rewrite match_number_cons in *.
    destruct (N.eqb y 48); [discriminate|].
    simpl in *. destruct (is_digit y); [|reflexivity].
    destruct (span_digits b); discriminate.
  Qed.

  Lemma length_ok_zero : forall x, N.eqb x 48 = true -> length_ok max [x] = true.
  Proof.
    intros x Hx. apply N.eqb_eq in Hx. subst. unfold length_ok. apply andb_true_iff. split.
    - apply Nat.leb_le. unfold max_length_size. simpl. lia.
    - apply N.leb_le. unfold digits_to_N. simpl. lia.
  Qed.

  Lemma length_ok_app_false : forall ds ds2, length_ok max ds = false -> length_ok max (ds ++ ds2) = false.
  Proof.
    intros ds ds2 H. unfold length_ok in *. apply andb_false_iff in H. apply andb_false_iff.
    destruct H as [H|H].
    - left. apply Nat.leb_gt in H. apply Nat.leb_gt. rewrite app_length. lia.
    - right. apply N.leb_gt in H. apply N.leb_gt. unfold digits_to_N in *. rewrite dec_acc_app.
      pose proof (dec_acc_ge ds2 (dec_acc 0 ds)). lia.
  Qed.

  Lemma match_number_all_app : forall b c ds, match_number b = Some (ds, []) -> length_ok max ds = false ->
    exists ds' r', match_number (b ++ c) = Some (ds', r') /\ length_ok max ds' = false.
  Proof.
    intros b c ds H Hok. destruct b as [|y b]; [discriminate|].
    change ((y :: b) ++ c) with (y :: (b ++ c)). rewrite match_number_cons in *.
    destruct (N.eqb y 48) eqn:Hy.
    - inversion H; subst. rewrite (length_ok_zero _ Hy) in Hok. discriminate.
    - change (y :: (b ++ c)) with ((y :: b) ++ c).
      destruct (span_digits (y :: b)) as [[|d ds'] r'] eqn:Hs; [discriminate|]. inversion H; subst.
      rewrite (span_digits_app_all _ c _ Hs). destruct (span_digits c) as [ds2 r2].
      exists ((d :: ds') ++ ds2), r2. split; [reflexivity | now apply length_ok_app_false].
  Qed.

  (** ** the three local facts *)
  Lemma payload_emit_inv : forall n rest e x' r, ns_payload n rest = Emit e x' r ->
    n < length rest /\ skipn n rest = 44%N :: r /\ e = [Str (firstn n rest)].
  Proof.
    intros n rest e x' r H. unfold ns_payload in H.
    destruct (length rest <=? n) eqn:Hl; [discriminate|]. apply Nat.leb_gt in Hl.
    destruct (skipn n rest) as [|y r'] eqn:Hs; [discriminate|].
    destruct (N.eqb y 44) eqn:Hy; [|discriminate]. apply N.eqb_eq in Hy. inversion H; subst. auto.
  Qed.

  Lemma ns_emit_inv : forall x b e x' r, step x b = Emit e x' r ->
    exists ds rest, match_number b = Some (ds, 58%N :: rest) /\ length_ok max ds = true /\
                    ns_payload (N.to_nat (digits_to_N ds)) rest = Emit e x' r.
  Proof.
    intros x b e x' r H. unfold step, ns_step in H. destruct b as [|y b]; [discriminate|].
    destruct (match_number (y :: b)) as [[ds [|z rest]]|] eqn:Hm; try discriminate.
    - destruct (length_ok max ds); discriminate.
    - destruct (N.eqb z 58) eqn:Hz.
      + apply N.eqb_eq in Hz. subst z. destruct (length_ok max ds) eqn:Hok; [|discriminate]. eauto.
      + destruct (N.eqb z 10 && is_nil rest); [destruct (length_ok max ds)|]; discriminate.
  Qed.

  Lemma ns_emit_shrinks : forall x b e x' r, step x b = Emit e x' r -> length r < length b.
  Proof.
    intros x b e x' r H. apply ns_emit_inv in H as (ds & rest & Hm & _ & Hp).
    apply match_number_split in Hm as [-> _]. apply payload_emit_inv in Hp as (Hl & Hs & _).
    apply (f_equal (@length N)) in Hs. rewrite skipn_length in Hs. simpl in Hs.
    rewrite app_length. simpl. lia.
  Qed.

  Lemma skipn_app_le' : forall (b c : bytes) k, k <= length b -> skipn k (b ++ c) = skipn k b ++ c.
  Proof. intros b c k H. rewrite skipn_app. replace (k - length b) with 0 by lia. reflexivity. Qed.
  Lemma firstn_app_le' : forall (b c : bytes) k, k <= length b -> firstn k (b ++ c) = firstn k b.
  Proof. intros b c k H. rewrite firstn_app. replace (k - length b) with 0 by lia. simpl. apply app_nil_r. Qed.

  Lemma ns_emit_stable : forall x b c e x' r, step x b = Emit e x' r -> step x (b ++ c) = Emit e x' (r ++ c).
  Proof.
    intros x b c e x' r H. pose proof (ns_emit_inv _ _ _ _ _ H) as (ds & rest & Hm & Hok & Hp).
    pose proof (payload_emit_inv _ _ _ _ _ Hp) as (Hl & Hs & ->).
    unfold step, ns_step. destruct b as [|y b]; [discriminate|].
    change ((y :: b) ++ c) with (y :: (b ++ c)). change (y :: (b ++ c)) with ((y :: b) ++ c).
    rewrite (match_number_app_stop _ c _ _ _ Hm). rewrite N.eqb_refl, Hok.
    unfold ns_payload. rewrite app_length.
    assert (E : length rest + length c <=? N.to_nat (digits_to_N ds) = false) by (apply Nat.leb_gt; lia).
    rewrite E. rewrite skipn_app_le' by lia. rewrite Hs. cbn [app]. rewrite N.eqb_refl.
    rewrite firstn_app_le' by lia. destruct x'. reflexivity.
  Qed.

  Lemma ns_fail_inv : forall x b e, step x b = Fail e -> e = [Close].
  Proof.
    intros x b e H. unfold step, ns_step in H. destruct b as [|y b]; [discriminate|].
    destruct (match_number (y :: b)) as [[ds [|z rest]]|]; try (inversion H; reflexivity).
    - destruct (length_ok max ds); [discriminate | inversion H; reflexivity].
    - destruct (N.eqb z 58).
      + destruct (length_ok max ds); [|inversion H; reflexivity].
        unfold ns_payload in H. destruct (length rest <=? _); [discriminate|].
        destruct (skipn _ rest) as [|w r']; [inversion H; reflexivity|].
        destruct (N.eqb w 44); [discriminate | inversion H; reflexivity].
      + destruct (N.eqb z 10 && is_nil rest); [|inversion H; reflexivity].
        destruct (length_ok max ds); [discriminate | inversion H; reflexivity].
  Qed.

  Lemma ns_fail_stable : forall x b c e, step x b = Fail e -> step x (b ++ c) = Fail e.
  Proof.
    intros x b c e H. pose proof (ns_fail_inv _ _ _ H) as ->.
    unfold step, ns_step in *. destruct b as [|y b]; [discriminate|].
    change ((y :: b) ++ c) with (y :: (b ++ c)). change (y :: (b ++ c)) with ((y :: b) ++ c).
    destruct (match_number (y :: b)) as [[ds [|z rest]]|] eqn:Hm.
    - (* the buffer was a number only, already too long / too big *)
      destruct (length_ok max ds) eqn:Hok; [discriminate|].
      destruct (match_number_all_app _ c _ Hm Hok) as (ds' & r' & Hm' & Hok'). rewrite Hm'.
      destruct r' as [|w r']; [now rewrite Hok'|].
      destruct (N.eqb w 58); [now rewrite Hok'|].
      destruct (N.eqb w 10 && is_nil r'); [now rewrite Hok' | reflexivity].
    - rewrite (match_number_app_stop _ c _ _ _ Hm).
      destruct (N.eqb z 58) eqn:Hz.
      + destruct (length_ok max ds) eqn:Hok; [|reflexivity].
        unfold ns_payload in *. destruct (length rest <=? N.to_nat (digits_to_N ds)) eqn:Hl; [discriminate|].
        apply Nat.leb_gt in Hl. rewrite app_length.
        assert (E : length rest + length c <=? N.to_nat (digits_to_N ds) = false) by (apply Nat.leb_gt; lia).
        rewrite E. rewrite skipn_app_le' by lia.
        destruct (skipn (N.to_nat (digits_to_N ds)) rest) as [|w r'] eqn:Hs.
        * exfalso. apply (f_equal (@length N)) in Hs. rewrite skipn_length in Hs. simpl in Hs. lia.
        * cbn [app]. destruct (N.eqb w 44); [discriminate | reflexivity].
      + destruct (N.eqb z 10 && is_nil rest) eqn:Hq.
        * apply andb_true_iff in Hq as [Hz10 Hnil]. destruct rest; [|discriminate]. rewrite Hz10.
          destruct (length_ok max ds) eqn:Hok; [discriminate|]. cbn [app].
          destruct (is_nil c); reflexivity.
        * apply andb_false_iff in Hq. destruct (N.eqb z 10) eqn:Hz10; [|reflexivity].
          destruct Hq as [Hq|Hq]; [discriminate|]. destruct rest; [discriminate|]. reflexivity.
    - rewrite (match_number_none_app (y :: b) c); [reflexivity | discriminate | exact Hm].
  Qed.

  Lemma ns_step_nil : step tt [] = Wait.
  Proof. reflexivity. Qed.

  Definition ns_unfold := fdrain_unfold step ns_emit_shrinks.

  Lemma ns_run : forall cs s, chunks cs s -> run (ns_feed max) init cs = ns_drain max tt s.
  Proof.
    intros cs s Hc. apply (framed_run step ns_emit_shrinks ns_emit_stable ns_fail_stable ns_step_nil cs s Hc).
  Qed.

  Lemma ns_seg_invariant : forall cs s, chunks cs s -> run (ns_feed max) init cs = run (ns_feed max) init [s].
  Proof.
    intros cs s Hc. apply (framed_run_whole step ns_emit_shrinks ns_emit_stable ns_fail_stable ns_step_nil cs s Hc).
  Qed.

  (** ** reference framing, relationally: a valid netstring is NUMBER ":" payload "," where NUMBER is a
      canonical decimal numeral ([match_number] accepts exactly it) equal to the payload length *)
  Definition canonical (ds : bytes) : Prop := forall r, match_number (ds ++ 58%N :: r) = Some (ds, 58%N :: r).

  Definition netstring (ds s : bytes) : bytes := ds ++ 58%N :: s ++ [44%N].

  Definition valid (p : bytes * bytes) : Prop :=
    let (ds, s) := p in canonical ds /\ digits_to_N ds = N.of_nat (length s) /\ length_ok max ds = true.

  Lemma ns_step_netstring : forall ds s rest, valid (ds, s) -> step tt (netstring ds s ++ rest) = Emit [Str s] tt rest.
  Proof.
    intros ds s rest (Hc & Hv & Hok). unfold netstring. rewrite <- app_assoc. cbn [app].
    unfold step, ns_step. rewrite (Hc ((s ++ [44%N]) ++ rest)).
    destruct (ds ++ 58%N :: (s ++ [44%N]) ++ rest) eqn:Hz.
    { destruct ds; discriminate. }
    rewrite N.eqb_refl, Hok, Hv, Nat2N.id. unfold ns_payload.
    assert (E : length ((s ++ [44%N]) ++ rest) <=? length s = false).
    { apply Nat.leb_gt. rewrite !app_length. simpl. lia. }
    rewrite E. rewrite <- app_assoc. rewrite skipn_app, skipn_all, Nat.sub_diag. cbn [skipn app].
    rewrite N.eqb_refl. rewrite firstn_app, firstn_all, Nat.sub_diag. cbn [firstn]. now rewrite app_nil_r.
  Qed.

  Lemma ns_netstrings_then : forall ps tail, Forall valid ps ->
    ns_drain max tt (concat (map (fun p => netstring (fst p) (snd p)) ps) ++ tail) =
    let (e, s) := ns_drain max tt tail in (map (fun p => Str (snd p)) ps ++ e, s).
  Proof.
    induction ps as [|[ds s] ps IH]; intros tail HF.
    - simpl. destruct (ns_drain max tt tail); reflexivity.
    - inversion HF as [|? ? Hv HF']; subst. cbn [map concat fst snd]. rewrite <- app_assoc.
      unfold ns_drain. fold step. rewrite ns_unfold. rewrite (ns_step_netstring _ _ _ Hv).
      specialize (IH tail HF'). unfold ns_drain in IH. fold step in IH. rewrite IH.
      destruct (fdrain step tt tail). reflexivity.
  Qed.

  Lemma ns_never_delivers_long : forall b s, In (Str s) (fst (ns_drain max tt b)) -> (N.of_nat (length s) <= max)%N.
  Proof.
    intros b. remember (length b) as n eqn:Hn. revert b Hn.
    induction n as [n IH] using lt_wf_ind. intros b Hn s Hin.
    unfold ns_drain in Hin. fold step in Hin. rewrite ns_unfold in Hin.
    destruct (step tt b) as [e [] r| |e] eqn:Hs.
    - pose proof (ns_emit_shrinks _ _ _ _ _ Hs) as Hlt.
      pose proof (ns_emit_inv _ _ _ _ _ Hs) as (ds & rest & Hm & Hok & Hp).
      pose proof (payload_emit_inv _ _ _ _ _ Hp) as (Hl & _ & ->).
      destruct (fdrain step tt r) as [e' s'] eqn:Hd. simpl in Hin. destruct Hin as [Heq|Hin].
      + inversion Heq; subst s. rewrite firstn_length.
        unfold length_ok in Hok. apply andb_true_iff in Hok as [_ Hok]. apply N.leb_le in Hok. lia.
      + apply (IH (length r) ltac:(lia) r eq_refl s). unfold ns_drain. fold step. now rewrite Hd.
    - simpl in Hin. contradiction.
    - pose proof (ns_fail_inv _ _ _ Hs) as ->. simpl in Hin. destruct Hin as [H|[]]. discriminate.
  Qed.
End Netstring.

(* ------------------------------------------------------------------------------------------ *)
(** * what sendString writes: str(len(s)) is a canonical numeral of the right value and size *)
Section Decimal.
  Lemma span_all_digits : forall l x r, Forall digitp l -> is_digit x = false -> span_digits (l ++ x :: r) = (l, x :: r).
  Proof.
    induction l as [|d l IH]; intros x r HF Hx; simpl.
    - now rewrite Hx.
    - inversion HF as [|? ? Hd HF']; subst. unfold digitp in Hd. rewrite Hd. now rewrite (IH x r HF' Hx).
  Qed.

  Lemma N_to_digits_canonical : forall n, canonical (N_to_digits n).
  Proof.
    intros n r. destruct (N.eq_dec n 0) as [->|Hn]; [reflexivity|].
    destruct (digits_shape (S (N.to_nat (N.log2 n))) n [] (lt_pow10_log2 n) ltac:(lia))
      as (d & ds & Heq & Hd & Hd48 & Hds & _).
    unfold N_to_digits. rewrite Heq, app_nil_r. cbn [app]. rewrite match_number_cons, Hd48.
    change (d :: ds ++ 58%N :: r) with ((d :: ds) ++ 58%N :: r).
    rewrite span_all_digits; [reflexivity | now constructor | reflexivity].
  Qed.

  Variable max : N.

  Lemma clog10_spec : forall f k, (max <= 10 ^ N.of_nat (k + f))%N ->
    (max <= 10 ^ N.of_nat (clog10_fuel max f k (10 ^ N.of_nat k)))%N.
  Proof.
    induction f as [|f IH]; intros k H.
    - simpl. now rewrite Nat.add_0_r in H.
    - cbn [clog10_fuel]. destruct (max <=? 10 ^ N.of_nat k)%N eqn:Hle.
      + now apply N.leb_le in Hle.
      + replace (10 ^ N.of_nat k * 10)%N with (10 ^ N.of_nat (S k))%N by (rewrite pow10_succ; lia).
        apply IH. now replace (S k + f) with (k + S f) by lia.
  Qed.

  Lemma N_to_digits_length_ok : forall n, (n <= max)%N -> length_ok max (N_to_digits n) = true.
  Proof.
    intros n Hn. unfold length_ok. apply andb_true_iff. split.
    - apply Nat.leb_le. unfold max_length_size.
      pose proof (clog10_spec (S (N.to_nat (N.log2 max))) 0 ltac:(simpl plus; apply N.lt_le_incl, lt_pow10_log2)) as Hc.
      change (10 ^ N.of_nat 0)%N with 1%N in Hc.
      destruct (N.eq_dec n 0) as [->|Hn0]; [simpl; lia|].
      destruct (digits_shape (S (N.to_nat (N.log2 n))) n [] (lt_pow10_log2 n) ltac:(lia))
        as (d & ds & Heq & _ & _ & _ & Hlen).
      unfold N_to_digits. rewrite Heq, app_nil_r. cbn [length]. apply le_n_S.
      assert (Hle : (10 ^ N.of_nat (length ds) <= 10 ^ N.of_nat (clog10_fuel max (S (N.to_nat (N.log2 max))) 0 1))%N) by lia.
      apply N.pow_le_mono_r_iff in Hle; lia.
    - apply N.leb_le. now rewrite digits_to_N_to_digits.
  Qed.

  (** a string within the limit, framed by sendString, is a valid netstring for the receiver *)
  Lemma ns_send_valid : forall s, (N.of_nat (length s) <= max)%N ->
    ns_send s = netstring (N_to_digits (N.of_nat (length s))) s /\ valid max (N_to_digits (N.of_nat (length s)), s).
  Proof.
    intros s Hs. split; [reflexivity|]. repeat split.
    - apply N_to_digits_canonical.
    - apply digits_to_N_to_digits.
    - now apply N_to_digits_length_ok.
  Qed.
End Decimal.

Section NetstringSent.
  Variable max : N.

  Definition within (s : bytes) : Prop := (N.of_nat (length s) <= max)%N.

  Lemma ns_sent_then : forall ss tail, Forall within ss ->
    ns_drain max tt (concat (map ns_send ss) ++ tail) =
    let (e, s) := ns_drain max tt tail in (map Str ss ++ e, s).
  Proof.
    intros ss tail HF.
    pose (ps := map (fun s => (N_to_digits (N.of_nat (length s)), s)) ss).
    assert (Hv : Forall (valid max) ps).
    { unfold ps. apply Forall_forall. intros p Hin. apply in_map_iff in Hin as (s & <- & Hin).
      rewrite Forall_forall in HF. apply (ns_send_valid max s (HF s Hin)). }
    pose proof (ns_netstrings_then max ps tail Hv) as H.
    assert (E1 : map (fun p => netstring (fst p) (snd p)) ps = map ns_send ss).
    { unfold ps. rewrite map_map. reflexivity. }
    assert (E2 : map (fun p => Str (snd p)) ps = map Str ss).
    { unfold ps. rewrite map_map. reflexivity. }
    now rewrite E1, E2 in H.
  Qed.

  Lemma ns_overlong_rejected : forall n r, (max < n)%N ->
    ns_drain max tt (N_to_digits n ++ 58%N :: r) = ([Close], None).
  Proof.
    intros n r Hn. unfold ns_drain. rewrite (ns_unfold max). unfold ns_step.
    rewrite (N_to_digits_canonical n r). rewrite N.eqb_refl.
    assert (Hok : length_ok max (N_to_digits n) = false).
    { unfold length_ok. apply andb_false_iff. right. apply N.leb_gt. now rewrite digits_to_N_to_digits. }
    rewrite Hok. destruct (N_to_digits n ++ 58%N :: r) eqn:Hz; [|reflexivity].
    destruct (N_to_digits n); discriminate.
  Qed.

  Lemma ns_prefix_not_rejected : forall ss p q, Forall within ss -> concat (map ns_send ss) = p ++ q ->
    snd (ns_drain max tt p) <> None.
  Proof.
    intros ss p q HF Heq.
    apply (closed_monotone (framed_close_stable (ns_step max) (ns_emit_shrinks max) (ns_emit_stable max) (ns_fail_stable max)) tt p q).
    fold (ns_drain max). rewrite <- Heq.
    pose proof (ns_sent_then ss [] HF) as H. rewrite app_nil_r in H. rewrite H.
    unfold ns_drain. rewrite (ns_unfold max). simpl. discriminate.
  Qed.
End NetstringSent.
