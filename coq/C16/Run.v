(** C16: printers used by the correspondence check only. *)
From Coq Require Import List Arith NArith Bool String.
From TwLib Require Import Show PyBytes Seg.
From C16 Require Import Model.
Import ListNotations.
Local Open Scope string_scope.

Inductive case :=
| CLineOnly (max : nat) (delim : bytes) (cs : list bytes)
| CLineOnlyOrig (max : nat) (delim : bytes) (cs : list bytes)
| CLine (max : nat) (delim : bytes) (cs : list bytes)
| CIntN (plen : nat) (max : N) (cs : list bytes)
| CNet (max : N) (cs : list bytes).

Definition show_ev (e : ev) : string :=
  match e with
  | Line b => "L:" ++ show_hex b
  | Str b => "S:" ++ show_hex b
  | TooLong => "X"
  | LenExceeded n => "N:" ++ show_N n
  | Close => "C"
  end.

Definition show_result (r : list ev * rstate) : string :=
  String.concat " " (map show_ev (fst r)) ++ (match snd r with None => " |closed" | Some _ => " |open" end).

Definition run_show (c : case) : string :=
  match c with
  | CLineOnly max delim cs => show_result (run (lo_feed max delim) init cs)
  | CLineOnlyOrig max delim cs => show_result (run (lo_feed_orig max delim) init cs)
  | CLine max delim cs => show_result (run (lr_feed max delim) init cs)
  | CIntN plen max cs => show_result (run (intn_feed plen max) init cs)
  | CNet max cs => show_result (run (ns_feed max) init cs)
  end.

(** ---- whole families of chunkings of one stream in a single case (keeps the case files small) ---- *)

(** every composition of [s] (all 2^(n-1) ways to cut it), in the order the harness enumerates them *)
Fixpoint comps (s : bytes) : list (list bytes) :=
  match s with
  | [] => [[]]
  | x :: r =>
      match r with
      | [] => [[[x]]]
      | _ => flat_map (fun c => match c with
                                | [] => [[[x]]]
                                | h :: t => [(x :: h) :: t; [x] :: h :: t]
                                end) (comps r)
      end
  end.

(** the whole stream, every 2-split, every 3-split, byte by byte *)
Definition upto3 (s : bytes) : list (list bytes) :=
  let n := List.length s in
  ([[s]]
  ++ map (fun i => [firstn i s; skipn i s]) (seq 1 (n - 1))
  ++ flat_map (fun i => map (fun j => [firstn i s; firstn (j - i) (skipn i s); skipn j s]) (seq (i + 1) (n - 1 - i)))
              (seq 1 (n - 1))
  ++ [map (fun x => [x]) s])%list.

Fixpoint rle (prev : string) (k : nat) (l : list string) : list string :=
  match l with
  | [] => [show_nat k ++ "*" ++ prev]
  | r :: t => if String.eqb r prev then rle prev (S k) t else (show_nat k ++ "*" ++ prev) :: rle r 1 t
  end.
Definition summary (l : list string) : string :=
  match l with [] => "" | r :: t => String.concat ";" (rle r 1 t) end.

Inductive family := AllComps | UpTo3.
Definition enumerate (f : family) (s : bytes) := match f with AllComps => comps s | UpTo3 => upto3 s end.

(** [mk] builds the single-chunking case for a list of chunks *)
Definition run_family (mk : list bytes -> case) (f : family) (s : bytes) : string :=
  summary (map (fun cs => run_show (mk cs)) (enumerate f s)).

(** entry point of the correspondence check: a single chunking, or a family of chunkings of one stream *)
Definition run_case (c : case + ((list bytes -> case) * family * bytes)) : string :=
  match c with
  | inl c1 => run_show c1
  | inr (mk, f, s) => run_family mk f s
  end.
