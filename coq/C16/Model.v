(** C16: the framed-message receivers of src/twisted/protocols/basic.py as executable functions
    "buffer ++ delivery -> events, new buffer".  [None] as new state = the receiver asked the
    transport to close (the property speaks about events up to the first close request).

    Modelled:  LineOnlyReceiver.dataReceived        [lo_feed]   (literal: split, pop, for-loop, leftover test;
                                                                 leftover test as REPAIRED by fixes/C16-lineonly-maxlength.patch)
               LineReceiver.dataReceived, line mode  [lr_feed]   (literal while loop = iteration of [line_step])
               IntNStringReceiver.dataReceived       [intn_feed] (while loop = iteration of [intn_step]; prefix 1/2/4)
               NetstringReceiver.dataReceived        [ns_feed]   (buffer reading of the two-state machine, see design.d/C16.md)
    Not modelled: raw mode / setLineMode(extra), pauseProducing/resumeProducing, the [recvd]
    compatibility attribute, application callbacks that close the transport or re-enter. *)
From Coq Require Import List Arith NArith Bool.
From TwLib Require Import PyBytes Seg.
Import ListNotations.

Inductive ev :=
| Line (b : bytes)          (* lineReceived(b) *)
| Str (b : bytes)           (* stringReceived(b) *)
| TooLong                   (* lineLengthExceeded(_): the argument is documented as segmentation dependent *)
| LenExceeded (n : N)       (* lengthLimitExceeded(n) *)
| Close.                    (* transport.loseConnection() *)

Definition rstate := option (unit * bytes).     (* Seg.bstate with no extra parser mode *)
Definition init : rstate := Some (tt, []).

(* ------------------------------------------------------------------------------------------ *)
(** * line receivers.  [max] = MAX_LENGTH, [delim] = delimiter (non-empty) *)
Section Lines.
  Variables (max : nat) (delim : bytes).

  (** one iteration of LineReceiver's [while self._buffer and not self.paused] in line mode *)
  Definition line_step (_ : unit) (buf : bytes) : step_result N ev unit :=
    match buf with
    | [] => Wait                                         (* while self._buffer *)
    | _ =>
        match split1 delim buf with                        (* line, self._buffer = self._buffer.split(delimiter, 1) *)
        | None =>                                          (* except ValueError *)
            if max + length delim <=? length buf           (* len(self._buffer) >= MAX_LENGTH + len(delimiter) *)
            then Fail [TooLong; Close]
            else Wait
        | Some (line, rest) =>
            if max <? length line                          (* lineLength > self.MAX_LENGTH *)
            then Fail [TooLong; Close]
            else Emit [Line line] tt rest                  (* self.lineReceived(line) *)
        end
    end.

  Definition lr_drain := fdrain line_step.
  Definition lr_feed : rstate -> bytes -> list ev * rstate := bfeed lr_drain.

  (** LineOnlyReceiver: [for line in lines] *)
  Fixpoint lo_lines (ls : list bytes) : list ev * bool :=
    match ls with
    | [] => ([], false)
    | l :: r =>
        if max <? length l then ([TooLong; Close], true)   (* return self.lineLengthExceeded(line) *)
        else let (e, c) := lo_lines r in (Line l :: e, c)  (* self.lineReceived(line) *)
    end.

  Definition lo_drain (_ : unit) (all : bytes) : list ev * rstate :=
    let lines := split_all delim all in                    (* (self._buffer + data).split(self.delimiter) *)
    let buffer := last lines [] in                         (* self._buffer = lines.pop(-1) *)
    let (e, closed) := lo_lines (removelast lines) in
    if closed then (e, None)
    else if max + length delim <=? length buffer           (* REPAIRED leftover test (was: len(_buffer) > MAX_LENGTH) *)
         then (e ++ [TooLong; Close], None)
         else (e, Some (tt, buffer)).
  Definition lo_feed : rstate -> bytes -> list ev * rstate := bfeed lo_drain.

  (** the leftover test of the code as it is at the pinned commit (finding F3) *)
  Definition lo_drain_orig (_ : unit) (all : bytes) : list ev * rstate :=
    let lines := split_all delim all in
    let buffer := last lines [] in
    let (e, closed) := lo_lines (removelast lines) in
    if closed then (e, None)
    else if max <? length buffer                            (* len(self._buffer) > self.MAX_LENGTH *)
         then (e ++ [TooLong; Close], None)
         else (e, Some (tt, buffer)).
  Definition lo_feed_orig : rstate -> bytes -> list ev * rstate := bfeed lo_drain_orig.

  (** what sendLine writes *)
  Definition send_line (l : bytes) : bytes := l ++ delim.
End Lines.

(* ------------------------------------------------------------------------------------------ *)
(** * IntNStringReceiver.  [plen] = prefixLength (1, 2 or 4), [max] = MAX_LENGTH *)
Section IntN.
  Variables (plen : nat) (max : N).

  Definition intn_step (_ : unit) (buf : bytes) : step_result N ev unit :=
    if length buf <? plen then Wait                        (* while len(alldata) >= currentOffset + prefixLength *)
    else
      let n := be_to_N (firstn plen buf) in                (* (length,) = unpack(fmt, alldata[off:messageStart]) *)
      if (max <? n)%N then Fail [LenExceeded n; Close]     (* length > self.MAX_LENGTH *)
      else if (N.of_nat (length buf) <? N.of_nat plen + n)%N then Wait   (* len(alldata) < messageEnd: break *)
      else Emit [Str (firstn (N.to_nat n) (skipn plen buf))] tt (skipn (plen + N.to_nat n) buf).

  Definition intn_drain := fdrain intn_step.
  Definition intn_feed : rstate -> bytes -> list ev * rstate := bfeed intn_drain.

  (** sendString: refuses len(string) >= 2 ** (8 * prefixLength) *)
  Definition intn_send (s : bytes) : option bytes :=
    if (N.of_nat (length s) <? 256 ^ N.of_nat plen)%N then Some (N_to_be plen (N.of_nat (length s)) ++ s) else None.
End IntN.

(* ------------------------------------------------------------------------------------------ *)
(** * NetstringReceiver *)
Section Netstring.
  Variable max : N.       (* MAX_LENGTH >= 1 *)

  (** math.ceil(math.log10(MAX_LENGTH)) + 1: the least k with 10^k >= max, plus one *)
  Fixpoint clog10_fuel (fuel : nat) (k : nat) (p : N) : nat :=
    match fuel with
    | 0 => k
    | S f => if (max <=? p)%N then k else clog10_fuel f (S k) (p * 10)%N
    end.
  Definition max_length_size : nat := S (clog10_fuel (S (N.to_nat (N.log2 max))) 0 1%N).

  (** longest run of ASCII digits at the start *)
  Fixpoint span_digits (b : bytes) : bytes * bytes :=
    match b with
    | d :: r => if is_digit d then let (ds, rest) := span_digits r in (d :: ds, rest) else ([], b)
    | [] => ([], [])
    end.

  (** the number part of the regexes: NUMBER = 0 or [1-9][0-9]... at the start of [b] -> (number, what follows) *)
  Definition match_number (b : bytes) : option (bytes * bytes) :=
    match b with
    | [] => None
    | x :: r =>
        if N.eqb x 48 then Some ([x], r)                     (* "0": the first alternative; backtracking into the
                                                                second is impossible because it needs [1-9] *)
        else match span_digits b with
             | ([], _) => None
             | (ds, rest) => Some (ds, rest)
             end
    end.

  (** _extractLength: _checkStringSize, int(), > MAX_LENGTH *)
  Definition length_ok (ds : bytes) : bool :=
    (length ds <=? max_length_size) && (digits_to_N ds <=? max)%N.

  (** _consumePayload once the length is known: [n] payload bytes and the comma *)
  Definition ns_payload (n : nat) (rest : bytes) : step_result N ev unit :=
    if length rest <=? n then Wait                           (* IncompleteNetstring *)
    else match skipn n rest with
         | y :: rest' => if N.eqb y 44 then Emit [Str (firstn n rest)] tt rest'
                         else Fail [Close]                   (* _MISSING_COMMA *)
         | [] => Fail [Close]
         end.

  Definition is_nil (b : bytes) : bool := match b with [] => true | _ => false end.

  Definition ns_step (_ : unit) (b : bytes) : step_result N ev unit :=
    match b with
    | [] => Wait                                             (* while self._remainingData *)
    | _ =>
        match match_number b with
        | None => Fail [Close]                               (* _MISSING_LENGTH *)
        | Some (ds, []) =>                                   (* _LENGTH_PREFIX = NUMBER followed by $ *)
            if length_ok ds then Wait else Fail [Close]
        | Some (ds, x :: rest) =>
            if N.eqb x 58 then                               (* _LENGTH = NUMBER followed by a colon *)
              if length_ok ds then ns_payload (N.to_nat (digits_to_N ds)) rest
              else Fail [Close]                              (* _TOO_LONG *)
            else if N.eqb x 10 && is_nil rest then           (* "$" also matches before a final newline *)
              if length_ok ds then Wait else Fail [Close]
            else Fail [Close]                                (* _MISSING_LENGTH *)
        end
    end.

  Definition ns_drain := fdrain ns_step.
  Definition ns_feed : rstate -> bytes -> list ev * rstate := bfeed ns_drain.

  (** sendString / _formatNetstring *)
  Definition ns_send (s : bytes) : bytes := N_to_digits (N.of_nat (length s)) ++ [58%N] ++ s ++ [44%N].
End Netstring.
