(** C16: printers for the receivers with a reacting application (correspondence check only). *)
From Coq Require Import List Arith NArith Bool String.
From TwLib Require Import Show PyBytes Seg SegApp.
From C16 Require Import Model ModelApp Run.
Import ListNotations.
Local Open Scope string_scope.

Definition show_aev (e : aev) : string :=
  match e with
  | ALine b => "L:" ++ show_hex b
  | ARaw x => "R:" ++ show_hex [x]
  | AStr b => "S:" ++ show_hex b
  | ATooLong => "X"
  | ALenExceeded n => "N:" ++ show_N n
  | AClose => "C"
  end.

(** consecutive raw bytes are printed as one R:<hex> token *)
Fixpoint show_aevs (pending : bytes) (l : list aev) : list string :=
  let flush := match pending with [] => [] | _ => ["R:" ++ show_hex pending] end in
  match l with
  | [] => flush
  | ARaw x :: r => show_aevs (pending ++ [x])%list r
  | e :: r => (flush ++ show_aev e :: show_aevs [] r)%list
  end.

Definition show_app {X} (r : list aev * pstate N X) : string :=
  String.concat " " (show_aevs [] (fst r)) ++ (match snd r with None => " |closed" | Some _ => " |open" end).

(** resume until nothing is paused any more (what the harness does at the end of every case) *)
Fixpoint settle {X} (pf : pstate N X -> op N -> list aev * pstate N X) (fuel : nat) (s : pstate N X) : list aev * pstate N X :=
  match fuel, s with
  | S f, Some (_, _, true) => let (e, s1) := pf s (Resume N) in let (e', s2) := settle pf f s1 in ((e ++ e')%list, s2)
  | _, _ => ([], s)
  end.

Definition run_ops {X} (pf : pstate N X -> op N -> list aev * pstate N X) (s0 : pstate N X) (ops : list (op N)) : list aev * pstate N X :=
  let r := (fix go (s : pstate N X) (ops : list (op N)) :=
              match ops with
              | [] => ([], s)
              | o :: rest => let (e, s1) := pf s o in let (e', s2) := go s1 rest in ((e ++ e')%list, s2)
              end) s0 ops in
  let (e', s2) := settle pf (S (S (List.length (data_of ops)))) (snd r) in ((fst r ++ e')%list, s2).

Inductive appcase :=
| CLineApp (max : nat) (delim : bytes) (t : list (bytes * (option nat * bool))) (ops : list (op N))
| CLineAppFam (max : nat) (delim : bytes) (t : list (bytes * (option nat * bool))) (f : family) (s : bytes)
| CIntApp (plen : nat) (max : N) (t : list (bytes * (bool * bool))) (ops : list (op N))
| CIntAppFam (plen : nat) (max : N) (t : list (bytes * (bool * bool))) (f : family) (s : bytes)
(* the sending side: sendLine / sendString of each message on one connection, then everything written, cut in the middle,
   is given to a receiver of the same class *)
| CSendLine (only : bool) (max : nat) (delim : bytes) (ls : list bytes)
| CSendInt (plen : nat) (max : N) (ss : list bytes)
| CSendNs (max : N) (ss : list bytes).

Definition halves (w : bytes) : list bytes := [firstn (Nat.div2 (List.length w)) w; skipn (Nat.div2 (List.length w)) w].

Definition run_app (c : appcase) : string :=
  match c with
  | CLineApp max delim t ops =>
      show_app (run_ops (la_pfeed max delim (raw_table t) (pause_table t)) la_pinit ops)
  | CLineAppFam max delim t f s =>
      summary (map (fun cs => show_app (run_ops (la_pfeed max delim (raw_table t) (pause_table t)) la_pinit (map (@Data N) cs)))
                   (enumerate f s))
  | CIntApp plen max t ops =>
      show_app (run_ops (ia_pfeed plen max (switch_table t) (pause_table t)) ia_pinit ops)
  | CIntAppFam plen max t f s =>
      summary (map (fun cs => show_app (run_ops (ia_pfeed plen max (switch_table t) (pause_table t)) ia_pinit (map (@Data N) cs)))
                   (enumerate f s))
  | CSendLine only max delim ls =>
      let w := List.concat (map (send_line delim) ls) in
      "W:" ++ show_hex w ++ " => " ++ show_result (run (if only then lo_feed max delim else lr_feed max delim) init (halves w))
  | CSendInt plen max ss =>
      let calls := map (fun s => match intn_send plen s with Some _ => "OK" | None => "ERR" end) ss in
      let w := List.concat (map (fun s => match intn_send plen s with Some b => b | None => [] end) ss) in
      String.concat "," calls ++ " W:" ++ show_hex w ++ " => " ++ show_result (run (intn_feed plen max) init (halves w))
  | CSendNs max ss =>
      let w := List.concat (map ns_send ss) in
      "W:" ++ show_hex w ++ " => " ++ show_result (run (ns_feed max) init (halves w))
  end.

Definition run_any (c : (case + ((list bytes -> case) * family * bytes)) + appcase) : string :=
  match c with
  | inl c0 => run_case c0
  | inr a => run_app a
  end.
