(** C16 proofs for the receivers with a reacting application (raw mode, mode switches, pause/resume, recvd). *)
From Coq Require Import List Arith NArith Bool Lia.
From TwLib Require Import PyBytes Seg SegApp.
From C16 Require Import ModelApp.
Import ListNotations.

Lemma firstn_app_le : forall (A : Type) (b c : list A) k, k <= length b -> firstn k (b ++ c) = firstn k b.
Proof. intros A b c k H. rewrite firstn_app. replace (k - length b) with 0 by lia. simpl. apply app_nil_r. Qed.
Lemma skipn_app_le : forall (A : Type) (b c : list A) k, k <= length b -> skipn k (b ++ c) = skipn k b ++ c.
Proof. intros A b c k H. rewrite skipn_app. replace (k - length b) with 0 by lia. reflexivity. Qed.
Lemma firstn_app_ge : forall (A : Type) (b c : list A) k, length b <= k -> firstn k (b ++ c) = b ++ firstn (k - length b) c.
Proof. intros A b c k H. rewrite firstn_app. now rewrite firstn_all2 by lia. Qed.
Lemma skipn_app_ge : forall (A : Type) (b c : list A) k, length b <= k -> skipn k (b ++ c) = skipn (k - length b) c.
Proof. intros A b c k H. rewrite skipn_app. now rewrite skipn_all2 by lia. Qed.

(* ------------------------------------------------------------------------------------------ *)
Section LineApp.
  Variables (max : nat) (delim : bytes).
  Variable raw_of : bytes -> option nat.
  Variable pause_of : bytes -> bool.
  Hypothesis delim_ne : delim <> [].

  Let step := la_step max delim raw_of.
  Let stop := la_stop delim pause_of.

  Lemma delim_pos : 0 < length delim.
  Proof. destruct delim; [congruence | simpl; lia]. Qed.

  Lemma la_emit_shrinks : forall x b e x' r, step x b = Emit e x' r -> length r < length b.
  Proof.
    intros x b e x' r H. unfold step, la_step in H. destruct b as [|y b]; [discriminate|].
    destruct x as [|k].
    - destruct (split1 delim (y :: b)) as [[line rest]|] eqn:Hs.
      + destruct (max <? length line); [discriminate|]. inversion H; subst.
        pose proof (split1_length _ _ _ _ Hs). pose proof delim_pos. lia.
      + destruct (max + length delim <=? length (y :: b)); discriminate.
    - destruct (length (y :: b) <=? k) eqn:E.
      + inversion H; subst. simpl. lia.
      + apply Nat.leb_gt in E. inversion H; subst. rewrite skipn_length. simpl in *. lia.
  Qed.

  Lemma la_fail_stable : forall x b c e, step x b = Fail e -> step x (b ++ c) = Fail e.
  Proof.
    intros x b c e H. unfold step, la_step in *. destruct b as [|y b]; [discriminate|].
    change ((y :: b) ++ c) with (y :: (b ++ c)).
    destruct x as [|k].
    - destruct (split1 delim (y :: b)) as [[line rest]|] eqn:Hs.
      + change (y :: (b ++ c)) with ((y :: b) ++ c). rewrite (split1_app _ _ c _ _ Hs).
        destruct (max <? length line); [assumption | discriminate].
      + destruct (max + length delim <=? length (y :: b)) eqn:Hl; [|discriminate].
        apply Nat.leb_le in Hl. change (y :: (b ++ c)) with ((y :: b) ++ c).
        destruct (split1 delim ((y :: b) ++ c)) as [[line rest]|] eqn:Hs2.
        * pose proof (split1_late _ _ _ _ _ delim_ne Hs Hs2) as Hlate.
          assert (Hlt : max <? length line = true) by (apply Nat.ltb_lt; lia). now rewrite Hlt.
        * assert (Hle : max + length delim <=? length ((y :: b) ++ c) = true).
          { apply Nat.leb_le. rewrite app_length. lia. }
          now rewrite Hle.
    - destruct (length (y :: b) <=? k); discriminate.
  Qed.

  Definition la_unfold := fdrain_unfold step la_emit_shrinks.

  Lemma raw_short : forall k b, b <> [] -> length b <= k ->
    step (RawM k) b = Emit (map ARaw b) (RawM (k - length b)) [].
  Proof.
    intros k b Hne Hl. unfold step, la_step. destruct b as [|y b]; [congruence|].
    assert (E : length (y :: b) <=? k = true) by now apply Nat.leb_le. now rewrite E.
  Qed.

  Lemma raw_long : forall k b, k < length b ->
    step (RawM k) b = Emit (map ARaw (firstn (S k) b)) LineM (skipn (S k) b).
  Proof.
    intros k b Hl. unfold step, la_step. destruct b as [|y b]; [simpl in Hl; lia|].
    assert (E : length (y :: b) <=? k = false) by now apply Nat.leb_gt. now rewrite E.
  Qed.

  Lemma la_emit_drain_stable : forall x b c ev x' r, step x b = Emit ev x' r ->
    fdrain step x (b ++ c) = let (ev', s) := fdrain step x' (r ++ c) in (ev ++ ev', s).
  Proof.
    intros x b c ev x' r H.
    assert (Hne : b <> []) by (intros ->; destruct x; discriminate).
    destruct x as [|k].
    - (* line mode: the step itself is stable *)
      apply (emit_stable_gives_drain_stable step la_emit_shrinks).
      unfold step, la_step in *. destruct b as [|y b]; [congruence|]. change ((y :: b) ++ c) with (y :: (b ++ c)).
      destruct (split1 delim (y :: b)) as [[line rest]|] eqn:Hs.
      + change (y :: (b ++ c)) with ((y :: b) ++ c). rewrite (split1_app _ _ c _ _ Hs).
        destruct (max <? length line); [discriminate|]. inversion H; subst. reflexivity.
      + destruct (max + length delim <=? length (y :: b)); discriminate.
    - destruct (le_lt_dec (length b) k) as [Hl|Hl].
      + (* the application wants more than is there: what follows is raw as well *)
        rewrite (raw_short k b Hne Hl) in H. injection H as He Hx Hr. subst ev x' r. change ([] ++ c) with c.
        destruct c as [|z c].
        * rewrite app_nil_r. rewrite la_unfold, (raw_short k b Hne Hl). reflexivity.
        * assert (Hc : z :: c <> []) by discriminate. remember (z :: c) as c0 eqn:Hc0. clear Hc0.
          assert (Hbc : b ++ c0 <> []) by (destruct b; [congruence | discriminate]).
          rewrite la_unfold. rewrite (la_unfold (RawM (k - length b)) c0).
          destruct (le_lt_dec (length (b ++ c0)) k) as [H2|H2].
          -- rewrite (raw_short k (b ++ c0) Hbc H2). rewrite app_length in H2.
             rewrite (raw_short (k - length b) c0 Hc ltac:(lia)).
             rewrite map_app, app_length.
             replace (k - (length b + length c0)) with (k - length b - length c0) by lia.
             destruct (fdrain step (RawM (k - length b - length c0)) []). now rewrite app_assoc.
          -- rewrite (raw_long k (b ++ c0) H2). rewrite app_length in H2.
             rewrite (raw_long (k - length b) c0 ltac:(lia)).
             rewrite firstn_app_ge by lia. rewrite skipn_app_ge by lia. rewrite map_app.
             replace (S k - length b) with (S (k - length b)) by lia.
             destruct (fdrain step LineM (skipn (S (k - length b)) c0)). now rewrite app_assoc.
      + rewrite (raw_long k b Hl) in H. injection H as He Hx Hr. subst ev x' r.
        apply (emit_stable_gives_drain_stable step la_emit_shrinks).
        rewrite (raw_long k (b ++ c)) by (rewrite app_length; lia).
        rewrite firstn_app_le by lia. rewrite skipn_app_le by lia. reflexivity.
  Qed.

  Lemma la_step_nil : forall x, step x [] = Wait.
  Proof. intros []; reflexivity. Qed.

  (** segmentation invariance with raw mode and mode switches *)
  Theorem la_run : forall cs s, chunks cs s ->
    run (la_feed max delim raw_of) la_init cs = la_drain max delim raw_of LineM s.
  Proof.
    intros cs s Hc. unfold la_feed, la_init, la_drain.
    apply (weak_all_chunkings step la_emit_shrinks la_fail_stable la_emit_drain_stable); [reflexivity | exact Hc].
  Qed.

  (** pause / resume in any order, any segmentation *)
  Theorem la_pause_settled : forall ops ev x' r,
    prun step stop (la_pinit) ops = (ev, Some (x', r, false)) ->
    la_drain max delim raw_of LineM (data_of ops) = (ev, Some (x', r)).
  Proof.
    intros ops ev x' r H. unfold la_drain.
    apply (pause_transparent_settled step la_emit_shrinks la_fail_stable la_emit_drain_stable stop ops LineM); [reflexivity | exact H].
  Qed.

  Theorem la_pause_any : forall ops,
    la_drain max delim raw_of LineM (data_of ops) =
    match prun step stop la_pinit ops with
    | (ev, Some (x', r, _)) => let (ev', s) := la_drain max delim raw_of x' r in (ev ++ ev', s)
    | (ev, None) => (ev, None)
    end.
  Proof.
    intros ops. unfold la_drain, la_pinit.
    pose proof (pause_transparent step la_emit_shrinks la_fail_stable la_emit_drain_stable stop ops LineM [] false) as H.
    exact H.
  Qed.

  (** a counted body: after a line for which the application asks for k+1 raw bytes, exactly the next
      k+1 bytes are handed over raw and line mode resumes right after them *)
  Lemma la_body : forall line k body rest, clean delim line -> length line <= max -> raw_of line = Some k ->
    length body = S k ->
    la_drain max delim raw_of LineM (line ++ delim ++ body ++ rest) =
    let (e, s) := la_drain max delim raw_of LineM rest in (ALine line :: map ARaw body ++ e, s).
  Proof.
    intros line k body rest Hc Hl Hr Hb. unfold la_drain. fold step.
    rewrite la_unfold. unfold step at 1, la_step. rewrite (split1_clean _ _ _ Hc).
    assert (Hm : max <? length line = false) by (apply Nat.ltb_ge; lia). rewrite Hm, Hr.
    destruct (line ++ delim ++ body ++ rest) eqn:Hz.
    { exfalso. apply (f_equal (@length N)) in Hz. rewrite !app_length in Hz. pose proof delim_pos. simpl in Hz. lia. }
    rewrite la_unfold. unfold step at 1, la_step.
    destruct (body ++ rest) eqn:Hz2.
    { exfalso. apply (f_equal (@length N)) in Hz2. rewrite app_length in Hz2. simpl in Hz2. lia. }
    rewrite <- Hz2.
    assert (E : length (body ++ rest) <=? k = false) by (apply Nat.leb_gt; rewrite app_length; lia). rewrite E.
    rewrite <- Hb. rewrite firstn_app, firstn_all, Nat.sub_diag. cbn [firstn]. rewrite app_nil_r.
    rewrite skipn_app, skipn_all, Nat.sub_diag. cbn [skipn app].
    destruct (fdrain step LineM rest). reflexivity.
  Qed.

  Lemma la_line : forall line rest, clean delim line -> length line <= max -> raw_of line = None ->
    la_drain max delim raw_of LineM (line ++ delim ++ rest) =
    let (e, s) := la_drain max delim raw_of LineM rest in (ALine line :: e, s).
  Proof.
    intros line rest Hc Hl Hr. unfold la_drain. fold step.
    rewrite la_unfold. unfold step at 1, la_step. rewrite (split1_clean _ _ _ Hc).
    assert (Hm : max <? length line = false) by (apply Nat.ltb_ge; lia). rewrite Hm, Hr.
    destruct (line ++ delim ++ rest) eqn:Hz.
    { exfalso. apply (f_equal (@length N)) in Hz. rewrite !app_length in Hz. pose proof delim_pos. simpl in Hz. lia. }
    destruct (fdrain step LineM rest). reflexivity.
  Qed.
End LineApp.

(* ------------------------------------------------------------------------------------------ *)
Section IntApp.
  Variables (plen : nat) (max : N).
  Variable switch_of : bytes -> bool.
  Variable pause_of : bytes -> bool.
  Hypothesis plen_pos : 0 < plen.

  Let step := ia_step plen max switch_of.
  Let stop := ia_stop plen pause_of.

  Lemma ia_emit_inv : forall b e x' r, step Framing b = Emit e x' r ->
    plen <= length b /\ plen + N.to_nat (be_to_N (firstn plen b)) <= length b /\
    e = [AStr (ia_string plen b)] /\ x' = (if switch_of (ia_string plen b) then Switched else Framing) /\
    r = skipn (plen + N.to_nat (be_to_N (firstn plen b))) b.
  Proof.
    intros b e x' r H. unfold step, ia_step in H.
    destruct (length b <? plen) eqn:H1; [discriminate|]. apply Nat.ltb_ge in H1.
    destruct (max <? be_to_N (firstn plen b))%N; [discriminate|].
    destruct (N.of_nat (length b) <? N.of_nat plen + be_to_N (firstn plen b))%N eqn:H3; [discriminate|].
    apply N.ltb_ge in H3. inversion H; subst. repeat split; try reflexivity; lia.
  Qed.

  Lemma ia_emit_shrinks : forall x b e x' r, step x b = Emit e x' r -> length r < length b.
  Proof.
    intros [|] b e x' r H.
    - apply ia_emit_inv in H as (H1 & H2 & _ & _ & ->). rewrite skipn_length. lia.
    - unfold step, ia_step in H. destruct b; [discriminate|]. inversion H; subst. simpl. lia.
  Qed.

  Lemma ia_fail_stable : forall x b c e, step x b = Fail e -> step x (b ++ c) = Fail e.
  Proof.
    intros [|] b c e H; unfold step, ia_step in *.
    - destruct (length b <? plen) eqn:H1; [discriminate|]. apply Nat.ltb_ge in H1.
      assert (E1 : length (b ++ c) <? plen = false) by (apply Nat.ltb_ge; rewrite app_length; lia). rewrite E1.
      rewrite (firstn_app_le _ b c plen H1).
      destruct (max <? be_to_N (firstn plen b))%N; [assumption|].
      destruct (N.of_nat (length b) <? N.of_nat plen + be_to_N (firstn plen b))%N; discriminate.
    - destruct b; discriminate.
  Qed.

  Definition ia_unfold := fdrain_unfold step ia_emit_shrinks.

  Lemma sw_step : forall b, b <> [] -> step Switched b = Emit (map ARaw b) Switched [].
  Proof. intros b H. unfold step, ia_step. destruct b; [congruence | reflexivity]. Qed.

  Lemma ia_emit_drain_stable : forall x b c ev x' r, step x b = Emit ev x' r ->
    fdrain step x (b ++ c) = let (ev', s) := fdrain step x' (r ++ c) in (ev ++ ev', s).
  Proof.
    intros [|] b c ev x' r H.
    - apply (emit_stable_gives_drain_stable step ia_emit_shrinks).
      pose proof (ia_emit_inv _ _ _ _ H) as (H1 & H2 & -> & -> & ->).
      unfold step, ia_step, ia_string. rewrite (firstn_app_le _ b c plen H1).
      assert (E1 : length (b ++ c) <? plen = false) by (apply Nat.ltb_ge; rewrite app_length; lia). rewrite E1.
      unfold step, ia_step in H. assert (E0 : length b <? plen = false) by (apply Nat.ltb_ge; lia). rewrite E0 in H.
      destruct (max <? be_to_N (firstn plen b))%N; [discriminate|].
      assert (E3 : (N.of_nat (length (b ++ c)) <? N.of_nat plen + be_to_N (firstn plen b))%N = false).
      { apply N.ltb_ge. rewrite app_length. lia. }
      rewrite E3. rewrite !(skipn_app_le _ b c) by lia. rewrite firstn_app_le by (rewrite skipn_length; lia). reflexivity.
    - assert (Hne : b <> []) by (intros ->; discriminate).
      rewrite (sw_step b Hne) in H. injection H as He Hx Hr. subst ev x' r. change ([] ++ c) with c.
      destruct c as [|z c].
      + rewrite app_nil_r. rewrite ia_unfold, (sw_step b Hne). reflexivity.
      + assert (Hc : z :: c <> []) by discriminate. remember (z :: c) as c0 eqn:Hc0. clear Hc0.
        assert (Hbc : b ++ c0 <> []) by (destruct b; [congruence | discriminate]).
        rewrite ia_unfold, (sw_step (b ++ c0) Hbc). rewrite (ia_unfold Switched c0), (sw_step c0 Hc).
        rewrite map_app. destruct (fdrain step Switched []). now rewrite app_assoc.
  Qed.

  Theorem ia_run : forall cs s, chunks cs s ->
    run (ia_feed plen max switch_of) ia_init cs = ia_drain plen max switch_of Framing s.
  Proof.
    intros cs s Hc. unfold ia_feed, ia_init, ia_drain.
    apply (weak_all_chunkings step ia_emit_shrinks ia_fail_stable ia_emit_drain_stable); [|exact Hc].
    unfold step, ia_step. simpl. destruct plen; [lia | reflexivity].
  Qed.

  Theorem ia_pause_settled : forall ops ev x' r,
    prun step stop ia_pinit ops = (ev, Some (x', r, false)) ->
    ia_drain plen max switch_of Framing (data_of ops) = (ev, Some (x', r)).
  Proof.
    intros ops ev x' r H. unfold ia_drain.
    apply (pause_transparent_settled step ia_emit_shrinks ia_fail_stable ia_emit_drain_stable stop ops Framing); [|exact H].
    unfold step, ia_step. simpl. destruct plen; [lia | reflexivity].
  Qed.

  (** recvd hand-over: after the string on which the application switches, every remaining byte of the
      stream goes to the new consumer, none is parsed, lost or duplicated *)
  Lemma ia_switched_all : forall rest, ia_drain plen max switch_of Switched rest = (map ARaw rest, Some (Switched, [])).
  Proof.
    intros rest. unfold ia_drain. fold step. rewrite ia_unfold. unfold step at 1, ia_step.
    destruct rest as [|y rest]; [reflexivity|]. rewrite ia_unfold. simpl. now rewrite app_nil_r.
  Qed.

  Lemma ia_switch : forall s rest, (N.of_nat (length s) < 256 ^ N.of_nat plen)%N -> (N.of_nat (length s) <= max)%N ->
    switch_of s = true ->
    ia_drain plen max switch_of Framing ((N_to_be plen (N.of_nat (length s)) ++ s) ++ rest) =
    (AStr s :: map ARaw rest, Some (Switched, [])).
  Proof.
    intros s rest Hs Hm Hsw.
    pose proof (N_to_be_length plen (N.of_nat (length s))) as Hl.
    pose proof (be_roundtrip plen (N.of_nat (length s)) Hs) as Hrt.
    remember (N_to_be plen (N.of_nat (length s))) as pre eqn:Hpre. clear Hpre.
    remember ((pre ++ s) ++ rest) as b eqn:Hb.
    assert (Hlen : length b = plen + length s + length rest) by (subst b; rewrite !app_length; lia).
    assert (Hfirst : firstn plen b = pre).
    { subst b. rewrite <- app_assoc. rewrite firstn_app_le by lia. rewrite <- Hl. apply firstn_all. }
    assert (Hskip : skipn plen b = s ++ rest).
    { subst b. rewrite <- app_assoc. rewrite <- Hl. rewrite skipn_app, skipn_all, Nat.sub_diag. reflexivity. }
    assert (Hskip2 : skipn (plen + length s) b = rest).
    { subst b. replace (plen + length s) with (length (pre ++ s)) by (rewrite app_length; lia).
      rewrite skipn_app, skipn_all, Nat.sub_diag. reflexivity. }
    assert (Hstr : ia_string plen b = s).
    { unfold ia_string. rewrite Hfirst, Hrt, Nat2N.id, Hskip. rewrite firstn_app, firstn_all, Nat.sub_diag. cbn [firstn]. apply app_nil_r. }
    unfold ia_drain. fold step. rewrite ia_unfold. unfold step at 1, ia_step. rewrite Hstr, Hfirst, Hrt.
    assert (E1 : length b <? plen = false) by (apply Nat.ltb_ge; lia). rewrite E1.
    assert (E2 : (max <? N.of_nat (length s))%N = false) by (apply N.ltb_ge; lia). rewrite E2.
    assert (E3 : (N.of_nat (length b) <? N.of_nat plen + N.of_nat (length s))%N = false) by (apply N.ltb_ge; lia).
    rewrite E3, Hsw, Nat2N.id, Hskip2.
    pose proof (ia_switched_all rest) as Hall. unfold ia_drain in Hall. fold step in Hall. rewrite Hall. reflexivity.
  Qed.
End IntApp.
