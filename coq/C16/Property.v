(** C16 property theorems.  [run feed init cs] delivers the chunks [cs] one after the other to a
    receiver with an empty buffer and returns (events up to the first close request, final state);
    [None] as state = closed.  All statements are for every MAX_LENGTH, every non-empty delimiter,
    every stream and EVERY chunking of it (no bound on lengths or on the number of deliveries). *)
From Coq Require Import List Arith NArith Bool.
From TwLib Require Import PyBytes Seg.
From TwLib Require Import SegApp.
From C16 Require Import Model Proofs ProofsNs ModelApp ProofsApp Theorems.
Import ListNotations.

Theorem linereceiver_segmentation_invariant : forall max delim cs s, delim <> [] -> chunks cs s ->
  run (lr_feed max delim) init cs = run (lr_feed max delim) init [s].
Proof. exact linereceiver_segmentation_invariant_proof. Qed.
Print Assumptions linereceiver_segmentation_invariant.



(** LineOnlyReceiver (split everything, loop, leftover test as repaired) computes the same function as
    LineReceiver's loop, so everything below holds for it as well *)
Theorem lineonly_agrees_with_linereceiver : forall max delim cs s0, delim <> [] ->
  run (lo_feed max delim) s0 cs = run (lr_feed max delim) s0 cs.
Proof. exact lineonly_agrees_with_linereceiver_proof. Qed.
Print Assumptions lineonly_agrees_with_linereceiver.



Theorem lineonly_segmentation_invariant : forall max delim cs s, delim <> [] -> chunks cs s ->
  run (lo_feed max delim) init cs = run (lo_feed max delim) init [s].
Proof. exact lineonly_segmentation_invariant_proof. Qed.
Print Assumptions lineonly_segmentation_invariant.



(** reference framing + send/receive identity + within-limit-never-rejected: lines that do not
    contain the delimiter ([clean]) and are within the limit, each followed by the delimiter (what
    sendLine writes), then any delimiter-free tail shorter than MAX_LENGTH + len(delimiter): exactly
    these lines are received, in order, nothing is rejected, the tail stays buffered *)
Theorem lines_sent_are_received_any_segmentation : forall max delim ls tail cs, delim <> [] ->
  Forall (fun l => clean delim l /\ length l <= max) ls ->
  split1 delim tail = None -> length tail < max + length delim ->
  chunks cs (concat (map (send_line delim) ls) ++ tail) ->
  run (lr_feed max delim) init cs = (map Line ls, Some (tt, tail)).
Proof. exact lines_sent_are_received_any_segmentation_proof. Qed.
Print Assumptions lines_sent_are_received_any_segmentation.



(** an over-long line (complete, or an unterminated tail of MAX_LENGTH + len(delimiter) bytes or more) is
    answered by lineLengthExceeded + close right after the lines before it, whatever follows *)
Theorem overlong_line_rejected_any_segmentation : forall max delim ls long rest cs, delim <> [] ->
  Forall (fun l => clean delim l /\ length l <= max) ls ->
  (clean delim long /\ max < length long /\ exists r, rest = long ++ delim ++ r) \/
  (split1 delim rest = None /\ max + length delim <= length rest) ->
  chunks cs (concat (map (send_line delim) ls) ++ rest) ->
  run (lr_feed max delim) init cs = (map Line ls ++ [TooLong; Close], None).
Proof. exact overlong_line_rejected_any_segmentation_proof. Qed.
Print Assumptions overlong_line_rejected_any_segmentation.



Theorem line_over_limit_never_delivered : forall max delim cs l, delim <> [] ->
  In (Line l) (fst (run (lr_feed max delim) init cs)) -> length l <= max.
Proof. exact line_over_limit_never_delivered_proof. Qed.
Print Assumptions line_over_limit_never_delivered.



(** the receiver as it is at the pinned commit: a line of exactly MAX_LENGTH is delivered when it
    arrives in one piece and rejected when its delimiter is split over two deliveries (finding F3) *)
Theorem lineonly_unrepaired_segmentation_invariant_refuted :
  exists max delim cs1 cs2, delim <> [] /\ concat cs1 = concat cs2 /\
    fst (run (lo_feed_orig max delim) init cs1) <> fst (run (lo_feed_orig max delim) init cs2).
Proof. exact lineonly_unrepaired_segmentation_invariant_refuted_proof. Qed.
Print Assumptions lineonly_unrepaired_segmentation_invariant_refuted.



(** ** IntNStringReceiver (prefixLength 1, 2, 4 or any positive number of bytes) *)

Theorem intn_segmentation_invariant : forall plen max cs s, 0 < plen -> chunks cs s ->
  run (intn_feed plen max) init cs = run (intn_feed plen max) init [s].
Proof. exact intn_segmentation_invariant_proof. Qed.
Print Assumptions intn_segmentation_invariant.



(** strings that sendString accepts (length < 256^prefixLength) and that are within MAX_LENGTH, framed as
    sendString frames them, followed by an incomplete frame: exactly these strings are received *)
Theorem strings_sent_are_received_any_segmentation : forall plen max ss tail cs, 0 < plen ->
  Forall (fun s => (N.of_nat (length s) < 256 ^ N.of_nat plen)%N /\ (N.of_nat (length s) <= max)%N) ss ->
  (length tail < plen \/
   ((be_to_N (firstn plen tail) <= max)%N /\ (N.of_nat (length tail) < N.of_nat plen + be_to_N (firstn plen tail))%N)) ->
  chunks cs (concat (map (fun s => N_to_be plen (N.of_nat (length s)) ++ s) ss) ++ tail) ->
  Forall (fun s => intn_send plen s = Some (N_to_be plen (N.of_nat (length s)) ++ s)) ss /\
  run (intn_feed plen max) init cs = (map Str ss, Some (tt, tail)).
Proof. exact strings_sent_are_received_any_segmentation_proof. Qed.
Print Assumptions strings_sent_are_received_any_segmentation.



Theorem overlong_prefix_rejected_any_segmentation : forall plen max ss rest cs, 0 < plen ->
  Forall (fun s => (N.of_nat (length s) < 256 ^ N.of_nat plen)%N /\ (N.of_nat (length s) <= max)%N) ss ->
  plen <= length rest -> (max < be_to_N (firstn plen rest))%N ->
  chunks cs (concat (map (fun s => N_to_be plen (N.of_nat (length s)) ++ s) ss) ++ rest) ->
  run (intn_feed plen max) init cs = (map Str ss ++ [LenExceeded (be_to_N (firstn plen rest)); Close], None).
Proof. exact overlong_prefix_rejected_any_segmentation_proof. Qed.
Print Assumptions overlong_prefix_rejected_any_segmentation.



Theorem string_over_limit_never_delivered : forall plen max cs s, 0 < plen ->
  In (Str s) (fst (run (intn_feed plen max) init cs)) -> (N.of_nat (length s) <= max)%N.
Proof. exact string_over_limit_never_delivered_proof. Qed.
Print Assumptions string_over_limit_never_delivered.



(** ** NetstringReceiver *)

Theorem netstring_segmentation_invariant : forall max cs s, chunks cs s ->
  run (ns_feed max) init cs = run (ns_feed max) init [s].
Proof. exact netstring_segmentation_invariant_proof. Qed.
Print Assumptions netstring_segmentation_invariant.



(** strings within MAX_LENGTH, framed as sendString frames them (decimal length, colon, payload,
    comma), are received exactly, in order, with nothing left in the buffer *)
Theorem netstrings_sent_are_received_any_segmentation : forall max ss cs,
  Forall (fun s => (N.of_nat (length s) <= max)%N) ss ->
  chunks cs (concat (map ns_send ss)) ->
  run (ns_feed max) init cs = (map Str ss, Some (tt, [])).
Proof. exact netstrings_sent_are_received_any_segmentation_proof. Qed.
Print Assumptions netstrings_sent_are_received_any_segmentation.



(** ... and no prefix of such a stream (a netstring still incomplete at any point: inside the
    number, the payload, or before the comma) is ever rejected *)
Theorem netstring_within_limit_never_rejected : forall max ss p q cs,
  Forall (fun s => (N.of_nat (length s) <= max)%N) ss ->
  concat (map ns_send ss) = p ++ q -> chunks cs p ->
  snd (run (ns_feed max) init cs) <> None.
Proof. exact netstring_within_limit_never_rejected_proof. Qed.
Print Assumptions netstring_within_limit_never_rejected.



(** a netstring announcing more than MAX_LENGTH bytes closes the connection as soon as its length
    is complete, after the strings before it, and nothing of it is delivered *)
Theorem overlong_netstring_rejected_any_segmentation : forall max ss n r cs,
  Forall (fun s => (N.of_nat (length s) <= max)%N) ss -> (max < n)%N ->
  chunks cs (concat (map ns_send ss) ++ N_to_digits n ++ 58%N :: r) ->
  run (ns_feed max) init cs = (map Str ss ++ [Close], None).
Proof. exact overlong_netstring_rejected_any_segmentation_proof. Qed.
Print Assumptions overlong_netstring_rejected_any_segmentation.



Theorem netstring_over_limit_never_delivered : forall max cs s,
  In (Str s) (fst (run (ns_feed max) init cs)) -> (N.of_nat (length s) <= max)%N.
Proof. exact netstring_over_limit_never_delivered_proof. Qed.
Print Assumptions netstring_over_limit_never_delivered.



(** ** receivers with a reacting application (ModelApp.v): raw mode and mode switches, pause / resume, recvd.
    The application is ANY function of the message just delivered ([raw_of], [pause_of], [switch_of]); raw data is
    observed byte by byte, i.e. up to how it is cut into rawDataReceived calls. *)

(** LineReceiver with an application that, on the lines it chooses, calls setRawMode(), takes a counted number of
    raw bytes and hands the rest back with setLineMode(rest): same lines, same raw bytes, same final mode and
    buffer for every segmentation *)
Theorem linereceiver_raw_mode_segmentation_invariant : forall max delim raw_of cs s, delim <> [] -> chunks cs s ->
  run (la_feed max delim raw_of) la_init cs = run (la_feed max delim raw_of) la_init [s].
Proof. exact linereceiver_raw_mode_segmentation_invariant_proof. Qed.
Print Assumptions linereceiver_raw_mode_segmentation_invariant.



(** after a line for which the application asks for k+1 raw bytes, exactly the next k+1 bytes of the stream are
    handed over raw (even if they contain delimiters) and line mode resumes right behind them *)
Theorem linereceiver_counted_body_exact : forall max delim raw_of line k body rest cs, delim <> [] ->
  clean delim line -> length line <= max -> raw_of line = Some k -> length body = S k ->
  chunks cs (line ++ delim ++ body ++ rest) ->
  run (la_feed max delim raw_of) la_init cs =
  let (e, s) := run (la_feed max delim raw_of) la_init [rest] in (ALine line :: map ARaw body ++ e, s).
Proof. exact linereceiver_counted_body_exact_proof. Qed.
Print Assumptions linereceiver_counted_body_exact.



(** pauseProducing() from lineReceived, resumeProducing() at any later time, data arriving meanwhile, any
    segmentation: pausing only delays.  At every moment, what has been delivered so far followed by what the
    buffered bytes will give once resumed is what the never-paused receiver gives for the whole stream ... *)
Theorem linereceiver_pause_resume_transparent : forall max delim raw_of pause_of ops, delim <> [] ->
  la_drain max delim raw_of LineM (data_of ops) =
  match prun (la_step max delim raw_of) (la_stop delim pause_of) la_pinit ops with
  | (ev, Some (x', r, _)) => let (ev', s) := la_drain max delim raw_of x' r in (ev ++ ev', s)
  | (ev, None) => (ev, None)
  end.
Proof. exact linereceiver_pause_resume_transparent_proof. Qed.
Print Assumptions linereceiver_pause_resume_transparent.



(** ... and once nothing is paused any more the two coincide: events, mode and buffer *)
Theorem linereceiver_pause_resume_settled : forall max delim raw_of pause_of ops ev x' r, delim <> [] ->
  prun (la_step max delim raw_of) (la_stop delim pause_of) la_pinit ops = (ev, Some (x', r, false)) ->
  run (la_feed max delim raw_of) la_init [data_of ops] = (ev, Some (x', r)).
Proof. exact linereceiver_pause_resume_settled_proof. Qed.
Print Assumptions linereceiver_pause_resume_settled.



(** IntNStringReceiver whose application, on the strings it chooses, takes the unparsed rest through [recvd],
    clears it and routes later deliveries elsewhere: segmentation invariant ... *)
Theorem intn_recvd_switch_segmentation_invariant : forall plen max switch_of cs s, 0 < plen -> chunks cs s ->
  run (ia_feed plen max switch_of) ia_init cs = run (ia_feed plen max switch_of) ia_init [s].
Proof. exact intn_recvd_switch_segmentation_invariant_proof. Qed.
Print Assumptions intn_recvd_switch_segmentation_invariant.



(** ... and the new consumer gets exactly the bytes after the switching string: none parsed, lost or duplicated *)
Theorem intn_recvd_handover_exact : forall plen max switch_of s rest cs, 0 < plen ->
  (N.of_nat (length s) < 256 ^ N.of_nat plen)%N -> (N.of_nat (length s) <= max)%N -> switch_of s = true ->
  chunks cs ((N_to_be plen (N.of_nat (length s)) ++ s) ++ rest) ->
  run (ia_feed plen max switch_of) ia_init cs = (AStr s :: map ARaw rest, Some (Switched, [])).
Proof. exact intn_recvd_handover_exact_proof. Qed.
Print Assumptions intn_recvd_handover_exact.



Theorem intn_pause_resume_settled : forall plen max switch_of pause_of ops ev x' r, 0 < plen ->
  prun (ia_step plen max switch_of) (ia_stop plen pause_of) ia_pinit ops = (ev, Some (x', r, false)) ->
  run (ia_feed plen max switch_of) ia_init [data_of ops] = (ev, Some (x', r)).
Proof. exact intn_pause_resume_settled_proof. Qed.
Print Assumptions intn_pause_resume_settled.



Example raw_mode_example :
  let raw_of := raw_table [([], (Some 4, false))] in
  run (la_feed 20 [13; 10]%N raw_of) la_init [[72; 13]; [10; 13; 10; 13]; [10; 13; 10; 33; 78; 13; 10]]%N
  = ([ALine [72]; ALine []; ARaw 13; ARaw 10; ARaw 13; ARaw 10; ARaw 33; ALine [78]]%N, Some (LineM, [])).
Proof. exact raw_mode_example_proof. Qed.



(** the SEND clause for lines: sendLine writes the line followed by the delimiter, nothing else ... *)
Theorem sendline_wire_form : forall delim l, send_line delim l = l ++ delim.
Proof. exact sendline_wire_form_proof. Qed.
Print Assumptions sendline_wire_form.

(** ... and a receiver of the same class (LineReceiver or LineOnlyReceiver), however the bytes are cut, gets back exactly that
    line -- for EVERY line that does not contain the delimiter: trailing CR, LF, LF CR or any proper prefix of the delimiter included *)
Theorem line_sent_is_received : forall max delim l cs, delim <> [] -> clean delim l -> length l <= max ->
  chunks cs (send_line delim l) ->
  run (lr_feed max delim) init cs = ([Line l], Some (tt, [])) /\ run (lo_feed max delim) init cs = ([Line l], Some (tt, [])).
Proof. exact line_sent_is_received_proof. Qed.
Print Assumptions line_sent_is_received.

Example sendline_example :
  clean [13; 10]%N [97; 98; 99; 13]%N /\ clean [13; 10]%N [10]%N /\ clean [13; 10]%N [120; 10; 13]%N /\
  run (lr_feed 16 [13; 10]%N) init [send_line [13; 10]%N [97; 98; 99; 13]%N ++ send_line [13; 10]%N [10]%N; send_line [13; 10]%N [120; 10; 13]%N]
  = ([Line [97; 98; 99; 13]; Line [10]; Line [120; 10; 13]]%N, Some (tt, [])).
Proof. repeat split. Qed.

(** the hypotheses are inhabited by non-trivial data *)
Example lines_example :
  Forall (fun l => clean [13; 10]%N l /\ length l <= 3) [[97; 13]; []; [10; 98; 99]]%N /\
  split1 [13; 10]%N [120; 121; 122; 13]%N = None /\
  run (lr_feed 3 [13; 10]%N) init [[97; 13; 13]; [10; 13]; [10; 10; 98; 99; 13; 10; 120; 121; 122]; [13]]%N
  = ([Line [97; 13]; Line []; Line [10; 98; 99]]%N, Some (tt, [120; 121; 122; 13]%N)).
Proof. exact lines_example_proof. Qed.



Example netstrings_example :
  run (ns_feed 12) init [[49]; [50; 58; 104; 101; 108; 108; 111; 32; 119; 111]; [114; 108; 100; 33; 44; 48; 58]; [44]]%N
  = ([Str [104; 101; 108; 108; 111; 32; 119; 111; 114; 108; 100; 33]; Str []]%N, Some (tt, [])).
Proof. exact netstrings_example_proof. Qed.
