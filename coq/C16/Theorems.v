(** C16: the property theorems with their proof scripts (Property.v restates each and closes it by [exact]). *)
From Coq Require Import Lia.
From Coq Require Import List Arith NArith Bool.
From TwLib Require Import PyBytes Seg.
From TwLib Require Import SegApp.
From C16 Require Import Model Proofs ProofsNs ModelApp ProofsApp.
Import ListNotations.

Lemma linereceiver_segmentation_invariant_proof : forall max delim cs s, delim <> [] -> chunks cs s ->
  run (lr_feed max delim) init cs = run (lr_feed max delim) init [s].
Proof. intros max delim cs s Hne Hc. now apply lr_seg_invariant. 
Qed.



(** LineOnlyReceiver (split everything, loop, leftover test as repaired) computes the same function as
    LineReceiver's loop, so everything below holds for it as well *)
Lemma lineonly_agrees_with_linereceiver_proof : forall max delim cs s0, delim <> [] ->
  run (lo_feed max delim) s0 cs = run (lr_feed max delim) s0 cs.
Proof. intros max delim cs s0 H. apply lo_run_is_lr_run; assumption. 
Qed.



Lemma lineonly_segmentation_invariant_proof : forall max delim cs s, delim <> [] -> chunks cs s ->
  run (lo_feed max delim) init cs = run (lo_feed max delim) init [s].
Proof.
  intros max delim cs s H Hc. rewrite !lo_run_is_lr_run by assumption. now apply lr_seg_invariant.
Qed.



(** reference framing + send/receive identity + within-limit-never-rejected: lines that do not
    contain the delimiter ([clean]) and are within the limit, each followed by the delimiter (what
    sendLine writes), then any delimiter-free tail shorter than MAX_LENGTH + len(delimiter): exactly
    these lines are received, in order, nothing is rejected, the tail stays buffered *)
Lemma lines_sent_are_received_any_segmentation_proof : forall max delim ls tail cs, delim <> [] ->
  Forall (fun l => clean delim l /\ length l <= max) ls ->
  split1 delim tail = None -> length tail < max + length delim ->
  chunks cs (concat (map (send_line delim) ls) ++ tail) ->
  run (lr_feed max delim) init cs = (map Line ls, Some (tt, tail)).
Proof.
  intros max delim ls tail cs Hne HF Ht Hl Hc.
  rewrite (lr_run max delim Hne cs _ Hc), (lr_lines_then max delim Hne ls tail HF), (lr_tail_waits max delim Hne tail Ht Hl).
  now rewrite app_nil_r.
Qed.



(** an over-long line (complete, or an unterminated tail of MAX_LENGTH + len(delimiter) bytes or more) is
    answered by lineLengthExceeded + close right after the lines before it, whatever follows *)
Lemma overlong_line_rejected_any_segmentation_proof : forall max delim ls long rest cs, delim <> [] ->
  Forall (fun l => clean delim l /\ length l <= max) ls ->
  (clean delim long /\ max < length long /\ exists r, rest = long ++ delim ++ r) \/
  (split1 delim rest = None /\ max + length delim <= length rest) ->
  chunks cs (concat (map (send_line delim) ls) ++ rest) ->
  run (lr_feed max delim) init cs = (map Line ls ++ [TooLong; Close], None).
Proof.
  intros max delim ls long rest cs Hne HF Hcase Hc.
  rewrite (lr_run max delim Hne cs _ Hc), (lr_lines_then max delim Hne ls rest HF).
  destruct Hcase as [(Hcl & Hlong & r & ->)|[Hs Hl]].
  - now rewrite (lr_long_rejected max delim Hne long r Hcl Hlong).
  - now rewrite (lr_tail_rejected max delim Hne rest Hs Hl).
Qed.



Lemma line_over_limit_never_delivered_proof : forall max delim cs l, delim <> [] ->
  In (Line l) (fst (run (lr_feed max delim) init cs)) -> length l <= max.
Proof.
  intros max delim cs l Hne Hin. rewrite (lr_run max delim Hne cs (concat cs) eq_refl) in Hin.
  eapply lr_never_delivers_long; eauto.
Qed.



(** the receiver as it is at the pinned commit: a line of exactly MAX_LENGTH is delivered when it
    arrives in one piece and rejected when its delimiter is split over two deliveries (finding F3) *)
Lemma lineonly_unrepaired_segmentation_invariant_refuted_proof :
  exists max delim cs1 cs2, delim <> [] /\ concat cs1 = concat cs2 /\
    fst (run (lo_feed_orig max delim) init cs1) <> fst (run (lo_feed_orig max delim) init cs2).
Proof.
  exists 3, [13; 10]%N, [[97; 98; 99; 13; 10]]%N, [[97; 98; 99; 13]; [10]]%N.
  destruct lo_orig_witness as (H1 & H2 & H3). split; [discriminate|]. split; [exact H1|].
  rewrite H2, H3. discriminate.
Qed.



(** ** IntNStringReceiver (prefixLength 1, 2, 4 or any positive number of bytes) *)

Lemma intn_segmentation_invariant_proof : forall plen max cs s, 0 < plen -> chunks cs s ->
  run (intn_feed plen max) init cs = run (intn_feed plen max) init [s].
Proof. intros plen max cs s Hp Hc. now apply intn_seg_invariant. 
Qed.



(** strings that sendString accepts (length < 256^prefixLength) and that are within MAX_LENGTH, framed as
    sendString frames them, followed by an incomplete frame: exactly these strings are received *)
Lemma strings_sent_are_received_any_segmentation_proof : forall plen max ss tail cs, 0 < plen ->
  Forall (fun s => (N.of_nat (length s) < 256 ^ N.of_nat plen)%N /\ (N.of_nat (length s) <= max)%N) ss ->
  (length tail < plen \/
   ((be_to_N (firstn plen tail) <= max)%N /\ (N.of_nat (length tail) < N.of_nat plen + be_to_N (firstn plen tail))%N)) ->
  chunks cs (concat (map (fun s => N_to_be plen (N.of_nat (length s)) ++ s) ss) ++ tail) ->
  Forall (fun s => intn_send plen s = Some (N_to_be plen (N.of_nat (length s)) ++ s)) ss /\
  run (intn_feed plen max) init cs = (map Str ss, Some (tt, tail)).
Proof.
  intros plen max ss tail cs Hp HF Ht Hc. split.
  - apply Forall_forall. intros s Hin. rewrite Forall_forall in HF. apply (intn_send_frame plen max s (HF s Hin)).
  - change (map (fun s => N_to_be plen (N.of_nat (length s)) ++ s) ss) with (map (frame plen) ss) in Hc.
    rewrite (intn_run plen max Hp cs _ Hc).
    rewrite (intn_strings_then plen max Hp ss tail HF), (intn_tail_waits plen max Hp tail Ht). now rewrite app_nil_r.
Qed.



Lemma overlong_prefix_rejected_any_segmentation_proof : forall plen max ss rest cs, 0 < plen ->
  Forall (fun s => (N.of_nat (length s) < 256 ^ N.of_nat plen)%N /\ (N.of_nat (length s) <= max)%N) ss ->
  plen <= length rest -> (max < be_to_N (firstn plen rest))%N ->
  chunks cs (concat (map (fun s => N_to_be plen (N.of_nat (length s)) ++ s) ss) ++ rest) ->
  run (intn_feed plen max) init cs = (map Str ss ++ [LenExceeded (be_to_N (firstn plen rest)); Close], None).
Proof.
  intros plen max ss rest cs Hp HF H1 H2 Hc.
  change (map (fun s => N_to_be plen (N.of_nat (length s)) ++ s) ss) with (map (frame plen) ss) in Hc.
  rewrite (intn_run plen max Hp cs _ Hc), (intn_strings_then plen max Hp ss rest HF), (intn_tail_rejected plen max Hp rest H1 H2).
  reflexivity.
Qed.



Lemma string_over_limit_never_delivered_proof : forall plen max cs s, 0 < plen ->
  In (Str s) (fst (run (intn_feed plen max) init cs)) -> (N.of_nat (length s) <= max)%N.
Proof.
  intros plen max cs s Hp Hin. rewrite (intn_run plen max Hp cs (concat cs) eq_refl) in Hin.
  eapply intn_never_delivers_long; eauto.
Qed.



(** ** NetstringReceiver *)

Lemma netstring_segmentation_invariant_proof : forall max cs s, chunks cs s ->
  run (ns_feed max) init cs = run (ns_feed max) init [s].
Proof. intros max cs s Hc. now apply ns_seg_invariant. 
Qed.



(** strings within MAX_LENGTH, framed as sendString frames them (decimal length, colon, payload,
    comma), are received exactly, in order, with nothing left in the buffer *)
Lemma netstrings_sent_are_received_any_segmentation_proof : forall max ss cs,
  Forall (fun s => (N.of_nat (length s) <= max)%N) ss ->
  chunks cs (concat (map ns_send ss)) ->
  run (ns_feed max) init cs = (map Str ss, Some (tt, [])).
Proof.
  intros max ss cs HF Hc. rewrite (ns_run max cs _ Hc).
  pose proof (ns_sent_then max ss [] HF) as H. rewrite app_nil_r in H. rewrite H.
  unfold ns_drain. rewrite (ns_unfold max). simpl. now rewrite app_nil_r.
Qed.



(** ... and no prefix of such a stream (a netstring still incomplete at any point: inside the
    number, the payload, or before the comma) is ever rejected *)
Lemma netstring_within_limit_never_rejected_proof : forall max ss p q cs,
  Forall (fun s => (N.of_nat (length s) <= max)%N) ss ->
  concat (map ns_send ss) = p ++ q -> chunks cs p ->
  snd (run (ns_feed max) init cs) <> None.
Proof.
  intros max ss p q cs HF Heq Hc. rewrite (ns_run max cs _ Hc). eapply ns_prefix_not_rejected; eauto.
Qed.



(** a netstring announcing more than MAX_LENGTH bytes closes the connection as soon as its length
    is complete, after the strings before it, and nothing of it is delivered *)
Lemma overlong_netstring_rejected_any_segmentation_proof : forall max ss n r cs,
  Forall (fun s => (N.of_nat (length s) <= max)%N) ss -> (max < n)%N ->
  chunks cs (concat (map ns_send ss) ++ N_to_digits n ++ 58%N :: r) ->
  run (ns_feed max) init cs = (map Str ss ++ [Close], None).
Proof.
  intros max ss n r cs HF Hn Hc. rewrite (ns_run max cs _ Hc).
  rewrite (ns_sent_then max ss _ HF), (ns_overlong_rejected max n r Hn). reflexivity.
Qed.



Lemma netstring_over_limit_never_delivered_proof : forall max cs s,
  In (Str s) (fst (run (ns_feed max) init cs)) -> (N.of_nat (length s) <= max)%N.
Proof.
  intros max cs s Hin. rewrite (ns_run max cs (concat cs) eq_refl) in Hin.
  eapply ns_never_delivers_long; eauto.
Qed.



(** ** receivers with a reacting application (ModelApp.v): raw mode and mode switches, pause / resume, recvd.
    The application is ANY function of the message just delivered ([raw_of], [pause_of], [switch_of]); raw data is
    observed byte by byte, i.e. up to how it is cut into rawDataReceived calls. *)

(** LineReceiver with an application that, on the lines it chooses, calls setRawMode(), takes a counted number of
    raw bytes and hands the rest back with setLineMode(rest): same lines, same raw bytes, same final mode and
    buffer for every segmentation *)
Lemma linereceiver_raw_mode_segmentation_invariant_proof : forall max delim raw_of cs s, delim <> [] -> chunks cs s ->
  run (la_feed max delim raw_of) la_init cs = run (la_feed max delim raw_of) la_init [s].
Proof.
  intros max delim raw_of cs s Hne Hc.
  rewrite (la_run max delim raw_of (fun _ => false) Hne cs s Hc), (la_run max delim raw_of (fun _ => false) Hne [s] s (chunks_whole s)). reflexivity.
Qed.



(** after a line for which the application asks for k+1 raw bytes, exactly the next k+1 bytes of the stream are
    handed over raw (even if they contain delimiters) and line mode resumes right behind them *)
Lemma linereceiver_counted_body_exact_proof : forall max delim raw_of line k body rest cs, delim <> [] ->
  clean delim line -> length line <= max -> raw_of line = Some k -> length body = S k ->
  chunks cs (line ++ delim ++ body ++ rest) ->
  run (la_feed max delim raw_of) la_init cs =
  let (e, s) := run (la_feed max delim raw_of) la_init [rest] in (ALine line :: map ARaw body ++ e, s).
Proof.
  intros max delim raw_of line k body rest cs Hne Hc Hl Hr Hb Hch.
  rewrite (la_run max delim raw_of (fun _ => false) Hne cs _ Hch), (la_run max delim raw_of (fun _ => false) Hne [rest] rest (chunks_whole rest)).
  exact (la_body max delim raw_of (fun _ => false) Hne line k body rest Hc Hl Hr Hb).
Qed.



(** pauseProducing() from lineReceived, resumeProducing() at any later time, data arriving meanwhile, any
    segmentation: pausing only delays.  At every moment, what has been delivered so far followed by what the
    buffered bytes will give once resumed is what the never-paused receiver gives for the whole stream ... *)
Lemma linereceiver_pause_resume_transparent_proof : forall max delim raw_of pause_of ops, delim <> [] ->
  la_drain max delim raw_of LineM (data_of ops) =
  match prun (la_step max delim raw_of) (la_stop delim pause_of) la_pinit ops with
  | (ev, Some (x', r, _)) => let (ev', s) := la_drain max delim raw_of x' r in (ev ++ ev', s)
  | (ev, None) => (ev, None)
  end.
Proof. intros max delim raw_of pause_of ops Hne. now apply la_pause_any. 
Qed.



(** ... and once nothing is paused any more the two coincide: events, mode and buffer *)
Lemma linereceiver_pause_resume_settled_proof : forall max delim raw_of pause_of ops ev x' r, delim <> [] ->
  prun (la_step max delim raw_of) (la_stop delim pause_of) la_pinit ops = (ev, Some (x', r, false)) ->
  run (la_feed max delim raw_of) la_init [data_of ops] = (ev, Some (x', r)).
Proof.
  intros max delim raw_of pause_of ops ev x' r Hne H.
  rewrite (la_run max delim raw_of (fun _ => false) Hne [data_of ops] _ (chunks_whole _)). eapply la_pause_settled; eauto.
Qed.



(** IntNStringReceiver whose application, on the strings it chooses, takes the unparsed rest through [recvd],
    clears it and routes later deliveries elsewhere: segmentation invariant ... *)
Lemma intn_recvd_switch_segmentation_invariant_proof : forall plen max switch_of cs s, 0 < plen -> chunks cs s ->
  run (ia_feed plen max switch_of) ia_init cs = run (ia_feed plen max switch_of) ia_init [s].
Proof.
  intros plen max switch_of cs s Hp Hc.
  rewrite (ia_run plen max switch_of (fun _ => false) Hp cs s Hc), (ia_run plen max switch_of (fun _ => false) Hp [s] s (chunks_whole s)). reflexivity.
Qed.



(** ... and the new consumer gets exactly the bytes after the switching string: none parsed, lost or duplicated *)
Lemma intn_recvd_handover_exact_proof : forall plen max switch_of s rest cs, 0 < plen ->
  (N.of_nat (length s) < 256 ^ N.of_nat plen)%N -> (N.of_nat (length s) <= max)%N -> switch_of s = true ->
  chunks cs ((N_to_be plen (N.of_nat (length s)) ++ s) ++ rest) ->
  run (ia_feed plen max switch_of) ia_init cs = (AStr s :: map ARaw rest, Some (Switched, [])).
Proof.
  intros plen max switch_of s rest cs Hp Hs Hm Hsw Hc.
  rewrite (ia_run plen max switch_of (fun _ => false) Hp cs _ Hc). now apply ia_switch.
Qed.



Lemma intn_pause_resume_settled_proof : forall plen max switch_of pause_of ops ev x' r, 0 < plen ->
  prun (ia_step plen max switch_of) (ia_stop plen pause_of) ia_pinit ops = (ev, Some (x', r, false)) ->
  run (ia_feed plen max switch_of) ia_init [data_of ops] = (ev, Some (x', r)).
Proof.
  intros plen max switch_of pause_of ops ev x' r Hp H.
  rewrite (ia_run plen max switch_of (fun _ => false) Hp [data_of ops] _ (chunks_whole _)). eapply ia_pause_settled; eauto.
Qed.



Lemma raw_mode_example_proof :
  let raw_of := raw_table [([], (Some 4, false))] in
  run (la_feed 20 [13; 10]%N raw_of) la_init [[72; 13]; [10; 13; 10; 13]; [10; 13; 10; 33; 78; 13; 10]]%N
  = ([ALine [72]; ALine []; ARaw 13; ARaw 10; ARaw 13; ARaw 10; ARaw 33; ALine [78]]%N, Some (LineM, [])).
Proof. vm_compute. reflexivity. 
Qed.



(** the hypotheses are inhabited by non-trivial data *)
Lemma lines_example_proof :
  Forall (fun l => clean [13; 10]%N l /\ length l <= 3) [[97; 13]; []; [10; 98; 99]]%N /\
  split1 [13; 10]%N [120; 121; 122; 13]%N = None /\
  run (lr_feed 3 [13; 10]%N) init [[97; 13; 13]; [10; 13]; [10; 10; 98; 99; 13; 10; 120; 121; 122]; [13]]%N
  = ([Line [97; 13]; Line []; Line [10; 98; 99]]%N, Some (tt, [120; 121; 122; 13]%N)).
Proof. repeat split; try (repeat constructor; fail). 
Qed.



Lemma netstrings_example_proof :
  run (ns_feed 12) init [[49]; [50; 58; 104; 101; 108; 108; 111; 32; 119; 111]; [114; 108; 100; 33; 44; 48; 58]; [44]]%N
  = ([Str [104; 101; 108; 108; 111; 32; 119; 111; 114; 108; 100; 33]; Str []]%N, Some (tt, [])).
Proof. reflexivity. 
Qed.

(** the SEND clause for lines: sendLine writes the line followed by the delimiter, nothing else ... *)
Lemma sendline_wire_form_proof : forall delim l, send_line delim l = l ++ delim.
Proof. reflexivity. Qed.

(** ... and a receiver of the same class, however the bytes are cut, gets back exactly that line -- for EVERY line that does not
    contain the delimiter ([clean]): trailing CR, LF, LF CR or any proper prefix of the delimiter included *)
Lemma line_sent_is_received_proof : forall max delim l cs, delim <> [] -> clean delim l -> length l <= max ->
  chunks cs (send_line delim l) ->
  run (lr_feed max delim) init cs = ([Line l], Some (tt, [])) /\ run (lo_feed max delim) init cs = ([Line l], Some (tt, [])).
Proof.
  intros max delim l cs Hne Hc Hl Hch.
  assert (H : run (lr_feed max delim) init cs = ([Line l], Some (tt, []))).
  { apply (lines_sent_are_received_any_segmentation_proof max delim [l] [] cs Hne).
    - constructor; [split; assumption | constructor].
    - destruct delim; [congruence | reflexivity].
    - destruct delim; [congruence | simpl; lia].
    - simpl. rewrite !app_nil_r. exact Hch. }
  split; [exact H|]. rewrite lo_run_is_lr_run by assumption. exact H.
Qed.
