(** C16, receivers with a reacting application (model, no proofs).

    LineReceiver with raw mode, mode switches and pause/resume; IntNStringReceiver with pause/resume
    and the [recvd] compatibility attribute.  The application is scripted by functions of the message
    just delivered (so its behaviour is a function of the stream, not of the segmentation):

    LineReceiver   [raw_of line = Some k]  : lineReceived calls setRawMode(); the application then takes the
                                             next k+1 bytes through rawDataReceived (in as many pieces as they
                                             arrive) and hands the rest back with setLineMode(rest)
                                             (the Content-Length pattern of HTTP/SIP/MSN clients)
                   [pause_of line = true]  : lineReceived calls pauseProducing(); resumeProducing() is an
                                             input of its own ([SegApp.Resume])
    IntNString...  [switch_of s = true]    : stringReceived takes the unparsed rest through [self.recvd], sets
                                             [self.recvd = b""] and routes all later deliveries to another
                                             consumer (what amp.BinaryBoxProtocol._switchTo does)
                   [pause_of s = true]     : stringReceived calls pauseProducing()
    Raw data is observed byte by byte ([ARaw]), i.e. up to how it is cut into rawDataReceived calls. *)
From Coq Require Import List Arith NArith Bool.
From TwLib Require Import PyBytes Seg SegApp.
Import ListNotations.

Inductive aev :=
| ALine (b : bytes)          (* lineReceived(b) *)
| ARaw (x : N)               (* one byte of rawDataReceived(...) / of the data handed to the new consumer *)
| AStr (b : bytes)           (* stringReceived(b) *)
| ATooLong                   (* lineLengthExceeded *)
| ALenExceeded (n : N)       (* lengthLimitExceeded(n) *)
| AClose.                    (* transport.loseConnection() *)

(** * LineReceiver *)
Inductive lmode := LineM | RawM (k : nat).    (* RawM k: raw mode, the application still wants k+1 bytes *)

Section LineApp.
  Variables (max : nat) (delim : bytes).
  Variable raw_of : bytes -> option nat.
  Variable pause_of : bytes -> bool.

  Definition la_step (m : lmode) (buf : bytes) : step_result N aev lmode :=
    match buf with
    | [] => Wait                                             (* while self._buffer and not self.paused *)
    | _ =>
        match m with
        | LineM =>                                           (* if self.line_mode *)
            match split1 delim buf with
            | None => if max + length delim <=? length buf then Fail [ATooLong; AClose] else Wait
            | Some (line, rest) =>
                if max <? length line then Fail [ATooLong; AClose]
                else Emit [ALine line]                        (* why = self.lineReceived(line) *)
                          (match raw_of line with Some k => RawM k | None => LineM end)   (* ... setRawMode() *)
                          rest
            end
        | RawM k =>                                          (* data = self._buffer; self._buffer = b""; rawDataReceived(data) *)
            if length buf <=? k then Emit (map ARaw buf) (RawM (k - length buf)) []
            else Emit (map ARaw (firstn (S k) buf)) LineM (skipn (S k) buf)  (* ... setLineMode(data[k+1:]) *)
        end
    end.

  (** the application pauses inside lineReceived *)
  Definition la_stop (m : lmode) (buf : bytes) : bool :=
    match m with
    | LineM => match split1 delim buf with Some (line, _) => pause_of line | None => false end
    | RawM _ => false
    end.

  Definition la_drain := fdrain la_step.
  Definition la_feed := bfeed la_drain.
  Definition la_init : option (lmode * bytes) := Some (LineM, []).
  Definition la_pfeed := pfeed la_step la_stop.
  Definition la_pinit : pstate N lmode := Some (LineM, [], false).
End LineApp.

(** * IntNStringReceiver *)
Inductive imode := Framing | Switched.

Section IntApp.
  Variables (plen : nat) (max : N).
  Variable switch_of : bytes -> bool.
  Variable pause_of : bytes -> bool.

  Definition ia_string (buf : bytes) : bytes := firstn (N.to_nat (be_to_N (firstn plen buf))) (skipn plen buf).

  Definition ia_step (m : imode) (buf : bytes) : step_result N aev imode :=
    match m with
    | Switched => match buf with [] => Wait | _ => Emit (map ARaw buf) Switched [] end
    | Framing =>
        if length buf <? plen then Wait
        else
          let n := be_to_N (firstn plen buf) in
          if (max <? n)%N then Fail [ALenExceeded n; AClose]
          else if (N.of_nat (length buf) <? N.of_nat plen + n)%N then Wait
          else Emit [AStr (ia_string buf)]
                    (if switch_of (ia_string buf) then Switched else Framing)      (* newData = self.recvd; self.recvd = b"" *)
                    (skipn (plen + N.to_nat n) buf)
    end.

  Definition ia_stop (m : imode) (buf : bytes) : bool :=
    match m with Framing => pause_of (ia_string buf) | Switched => false end.

  Definition ia_drain := fdrain ia_step.
  Definition ia_feed := bfeed ia_drain.
  Definition ia_init : option (imode * bytes) := Some (Framing, []).
  Definition ia_pfeed := pfeed ia_step ia_stop.
  Definition ia_pinit : pstate N imode := Some (Framing, [], false).
End IntApp.

(** scripts as tables: message -> reaction (first match) *)
Fixpoint lookup {A} (t : list (bytes * A)) (k : bytes) : option A :=
  match t with
  | [] => None
  | (k', a) :: r => if beq k' k then Some a else lookup r k
  end.
Definition raw_table (t : list (bytes * (option nat * bool))) (l : bytes) : option nat :=
  match lookup t l with Some (Some k, _) => Some k | _ => None end.
Definition pause_table {A} (t : list (bytes * (A * bool))) (l : bytes) : bool :=
  match lookup t l with Some (_, p) => p | None => false end.
Definition switch_table (t : list (bytes * (bool * bool))) (s : bytes) : bool :=
  match lookup t s with Some (sw, _) => sw | None => false end.
