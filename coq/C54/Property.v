(** C54 property theorems (nothing else lives here; each is closed by [exact]).

    [toSegments wd path] = Some segs / None (InvalidPath); [okseg s]: the segment is non-empty, has
    no '/', no NUL, and is neither "." nor "..".  [run access start cs] is the protocol's state (working
    directory, pending RNFR name) after ANY history [cs] of CWD / CDUP / LIST / NLST / single-path commands /
    RNFR / RNTO, for ANY
    behaviour [access] of the file system, and the segment lists handed to the shell on the way.
    [descendant cwd (mk cwd s) segs] is FTPShell(FilePath(s))._path(segs) (C26's model). *)
From Coq Require Import List NArith Bool Arith.
From TwLib Require Import PyPath.
From C26 Require Import Model.
From C54 Require Import Model Proofs.
Import ListNotations.

Theorem toSegments_never_escapes : forall cwd path segs,
  forallb okseg cwd = true -> toSegments cwd path = Some segs -> forallb okseg segs = true.
Proof. exact toSegments_ok. Qed.
Print Assumptions toSegments_never_escapes.

(** every ".." consumes a segment that is there (otherwise InvalidPath): depth never goes below 0 *)
Theorem toSegments_depth_bounded : forall l st segs,
  seg_loop st l = Some segs -> length segs <= length st + length l.
Proof. exact seg_loop_depth. Qed.
Print Assumptions toSegments_depth_bounded.

(** invariant over all command histories: the working directory and every segment list given to the
    shell consist of clean segments only *)
Theorem session_working_directory_and_shell_arguments_clean : forall access cs st,
  forallb okseg (fst st) = true ->
  forallb okseg (fst (fst (run access st cs))) = true /\ Forall outs_ok (snd (run access st cs)).
Proof. exact run_ok. Qed.
Print Assumptions session_working_directory_and_shell_arguments_clean.

(** FTPShell._path on clean segments never raises and is exactly root/segments *)
Theorem shell_path_of_clean_segments_is_below_root : forall cwd s segs,
  isabs cwd = true -> forallb okseg segs = true ->
  exists r, descendant cwd (mk cwd s) segs = Some r
            /\ segments r = segments (mk cwd s) ++ segs
            /\ forallb okc (segments r) = true /\ normpath r = r.
Proof. exact path_of_clean_segments. Qed.
Print Assumptions shell_path_of_clean_segments_is_below_root.

(** composition: after any session, any path argument the server accepts names a file-system path
    whose components are the root's followed by ordinary names *)
Theorem every_fs_path_inside_root : forall access cs p segs cwd s,
  isabs cwd = true ->
  toSegments (fst (fst (run access start cs))) p = Some segs ->
  exists r, descendant cwd (mk cwd s) segs = Some r
            /\ segments r = segments (mk cwd s) ++ segs
            /\ forallb okc (segments r) = true /\ normpath r = r.
Proof. exact session_paths_inside_root. Qed.
Print Assumptions every_fs_path_inside_root.

(** every segment list the server hands to the shell during any session (including the PARENT directory
    NLST lists when its last segment is a glob expression) names a path below the root *)
Theorem every_shell_call_inside_root : forall access cs o segs cwd s,
  isabs cwd = true ->
  In o (snd (run access start cs)) -> In (Some segs) o ->
  exists r, descendant cwd (mk cwd s) segs = Some r
            /\ segments r = segments (mk cwd s) ++ segs
            /\ forallb okc (segments r) = true /\ normpath r = r.
Proof. exact session_shell_calls_inside_root. Qed.
Print Assumptions every_shell_call_inside_root.
