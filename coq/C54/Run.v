(** C54: printers used by the correspondence check only. *)
From Coq Require Import List NArith Bool String.
From TwLib Require Import Show PyPath.
From C26 Require Import Model.
From C54 Require Import Model.
Import ListNotations.
Local Open Scope string_scope.

Definition show_segs (o : option (list bytes)) : string :=
  match o with None => "!" | Some l => "[" ++ String.concat "," (map show_hex l) ++ "]" end.

Inductive case :=
| CSeg (cwd : list bytes) (path : bytes)                          (* toSegments(cwd, path) *)
| CSess (dirs : list (list bytes)) (cs : list cmd)                (* a session; [dirs] = existing directories *)
| CPath (cwd root : bytes) (segs : list bytes)                    (* FTPShell(FilePath(root))._path(segs).path *)
| CGlob (s : bytes).                                              (* ftp._isGlobbingExpression([s]) *)

Fixpoint segs_eqb (a b : list bytes) : bool :=
  match a, b with
  | [], [] => true
  | x :: a', y :: b' => beq x y && segs_eqb a' b'
  | _, _ => false
  end.

Definition run_show (c : case) : string :=
  match c with
  | CSeg cwd path => show_segs (toSegments cwd path)
  | CSess dirs cs =>
      let access := fun segs => existsb (segs_eqb segs) dirs in
      let '((wd, _), outs) := run access start cs in
      String.concat ";" (map (fun o => String.concat "+" (map show_segs o)) outs)
      ++ "|" ++ show_segs (Some wd)
  | CPath cwd root segs =>
      match descendant cwd (mk cwd root) segs with Some r => "P:" ++ show_hex r | None => "X" end
  | CGlob s => show_bool (is_glob s)
  end.
