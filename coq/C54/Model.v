(** C54: twisted.protocols.ftp.toSegments and the working-directory bookkeeping of the FTP server
    protocol; FTPShell._path = filesystemRoot.descendant(segments) (C26's [descendant]).

    Strings are lists of code points ([list N], '/' = 47, '.' = 46, NUL = 0); a working directory is
    a list of segments. *)
From Coq Require Import List NArith Bool.
From TwLib Require Import PyPath.
Import ListNotations.

Definition has0 (s : bytes) : bool := existsb (N.eqb 0) s.

(** the [for s in path.split("/")] loop; [st] is [segs] REVERSED; None = InvalidPath *)
Fixpoint seg_loop (st : list bytes) (l : list bytes) : option (list bytes) :=
  match l with
  | [] => Some (rev st)
  | s :: r =>
      if beq s dot || is_nil s then seg_loop st r
      else if beq s dotdot then
        match st with
        | [] => None
        | _ :: t => seg_loop t r
        end
      else if has0 s || has_sl s then None
      else seg_loop (s :: st) r
  end.

Definition toSegments (cwd : list bytes) (path : bytes) : option (list bytes) :=
  seg_loop (if isabs path then [] else rev cwd) (split_sl path).

(** ftp._isGlobbingExpression on the last segment: fnmatch.translate(s) differs from the translation of a
    plain word iff s contains a character that fnmatch treats specially ('*', '?', '[') or that re.escape
    escapes (CPython 3.12: ()[]{}?*+-|^$\.&~# space \t \n \r \v \f) *)
Definition glob_char (c : N) : bool :=
  existsb (N.eqb c) [40; 41; 91; 93; 123; 125; 63; 42; 43; 45; 124; 94; 36; 92; 46; 38; 126; 35; 32; 9; 10; 13; 11; 12]%N.
Definition is_glob (s : bytes) : bool := existsb glob_char s.

(** NLST: a globbing last segment is taken off and used as a filter on the listing of its PARENT *)
Definition nlst_target (segs : list bytes) : list bytes :=
  match rev segs with
  | [] => segs
  | last :: _ => if is_glob last then removelast segs else segs
  end.

(** LIST ignores the flag-like arguments -a -l -la -al (any case) *)
Definition lower (c : N) : N := if N.leb 65 c && N.leb c 90 then (c + 32)%N else c.
Definition list_arg (p : bytes) : bytes :=
  let l := map lower p in
  if beq l [45; 97]%N || beq l [45; 108]%N || beq l [45; 108; 97]%N || beq l [45; 97; 108]%N then [] else p.

(** the commands that carry paths *)
Inductive cmd :=
| Cwd (p : bytes)            (* CWD p: shell.access(segments); on success the working directory changes *)
| Cdup                       (* CDUP = CWD ".." *)
| Op (p : bytes)             (* SIZE MDTM RETR STOR DELE MKD RMD: one shell call on toSegments(wd, p) *)
| Lst (p : bytes)            (* LIST *)
| Nlst (p : bytes)           (* NLST *)
| Rnfr (a : bytes)           (* RNFR a: remembered unresolved; only RNTO is accepted next *)
| Rnto (b : bytes).          (* RNTO b: shell.rename(toSegments wd a, toSegments wd b) *)

(** protocol state that matters for paths: the working directory and a pending RNFR name *)
Definition pstate := (list bytes * option bytes)%type.

Section Session.
  (** does shell.access succeed on these segments?  (the file system: arbitrary) *)
  Variable access : list bytes -> bool.

  Definition cwd_to (wd : list bytes) (p : bytes) : list bytes * list (option (list bytes)) :=
    match toSegments wd p with
    | Some segs => (if access segs then segs else wd, [Some segs])
    | None => (wd, [None])
    end.

  (** new state, and the segment lists handed to the shell ([None] alone = refused, no shell call) *)
  Definition step (st : pstate) (c : cmd) : pstate * list (option (list bytes)) :=
    let '(wd, pending) := st in
    match pending with
    | Some a =>
        (* state RENAMING: everything but RNTO is answered "RNTO required after RNFR" and the state stays *)
        match c with
        | Rnto b =>
            match toSegments wd a, toSegments wd b with
            | Some x, Some y => ((wd, None), [Some x; Some y])
            | _, _ => ((wd, None), [None])
            end
        | _ => (st, [None])
        end
    | None =>
        match c with
        | Cwd p => let '(wd', o) := cwd_to wd p in ((wd', None), o)
        | Cdup => let '(wd', o) := cwd_to wd dotdot in ((wd', None), o)
        | Op p => (st, [toSegments wd p])
        | Lst p => (st, [toSegments wd (list_arg p)])
        | Nlst p => (st, [option_map nlst_target (toSegments wd p)])
        | Rnfr a => ((wd, Some a), [None])
        | Rnto _ => (st, [None])        (* no RNFR before: AttributeError -> "internal server error" *)
        end
    end.

  Fixpoint run (st : pstate) (cs : list cmd) : pstate * list (list (option (list bytes))) :=
    match cs with
    | [] => (st, [])
    | c :: r => let '(st1, o) := step st c in let '(st2, os) := run st1 r in (st2, o :: os)
    end.
End Session.

Definition start : pstate := ([], None).

(** a segment the shell may be given: non-empty, no '/', no NUL, not "." and not ".." *)
Definition okseg (s : bytes) : bool := okc s && negb (has0 s).
