(** C54: twisted.protocols.ftp.toSegments and the working-directory bookkeeping of the FTP server
    protocol; FTPShell._path = filesystemRoot.descendant(segments) (C26's [descendant]).

    Strings are lists of code points ([list N], '/' = 47, '.' = 46, NUL = 0); a working directory is
    a list of segments. *)
From Coq Require Import List NArith Bool.
From TwLib Require Import PyPath.
Import ListNotations.

Definition has0 (s : bytes) : bool := existsb (N.eqb 0) s.

(** the [for s in path.split("/")] loop; [st] is [segs] REVERSED; None = InvalidPath *)
Fixpoint seg_loop (st : list bytes) (l : list bytes) : option (list bytes) :=
  match l with
  | [] => Some (rev st)
  | s :: r =>
      if beq s dot || is_nil s then seg_loop st r
      else if beq s dotdot then
        match st with
        | [] => None
        | _ :: t => seg_loop t r
        end
      else if has0 s || has_sl s then None
      else seg_loop (s :: st) r
  end.

Definition toSegments (cwd : list bytes) (path : bytes) : option (list bytes) :=
  seg_loop (if isabs path then [] else rev cwd) (split_sl path).

(** the commands that carry paths *)
Inductive cmd :=
| Cwd (p : bytes)            (* CWD p: shell.access(segments); on success the working directory changes *)
| Cdup                       (* CDUP = CWD ".." *)
| Op (p : bytes)             (* LIST NLST SIZE MDTM RETR STOR DELE MKD RMD: one shell call on toSegments(wd, p) *)
| Ren (a b : bytes).         (* RNFR a, RNTO b: shell.rename(toSegments a, toSegments b) *)

Section Session.
  (** does shell.access succeed on these segments?  (the file system: arbitrary) *)
  Variable access : list bytes -> bool.

  (** new working directory, and the segment lists handed to the shell (None = refused, no shell call) *)
  Definition step (wd : list bytes) (c : cmd) : list bytes * list (option (list bytes)) :=
    match c with
    | Cwd p =>
        match toSegments wd p with
        | Some segs => (if access segs then segs else wd, [Some segs])
        | None => (wd, [None])
        end
    | Cdup =>
        match toSegments wd dotdot with
        | Some segs => (if access segs then segs else wd, [Some segs])
        | None => (wd, [None])
        end
    | Op p => (wd, [toSegments wd p])
    | Ren a b =>
        match toSegments wd a, toSegments wd b with
        | Some x, Some y => (wd, [Some x; Some y])
        | _, _ => (wd, [None])
        end
    end.

  Fixpoint run (wd : list bytes) (cs : list cmd) : list bytes * list (list (option (list bytes))) :=
    match cs with
    | [] => (wd, [])
    | c :: r => let '(wd1, o) := step wd c in let '(wd2, os) := run wd1 r in (wd2, o :: os)
    end.
End Session.

(** a segment the shell may be given: non-empty, no '/', no NUL, not "." and not ".." *)
Definition okseg (s : bytes) : bool := okc s && negb (has0 s).
