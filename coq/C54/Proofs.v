(** C54 proofs. *)
From Coq Require Import List NArith Bool Arith Lia.
From TwLib Require Import PyPath PyPathFacts.
From C26 Require Import Model.
From C54 Require Import Model.
Import ListNotations.

Lemma okseg_okc : forall s, okseg s = true -> okc s = true.
Proof. intros s H. unfold okseg in H. now apply andb_true_iff in H as [H _]. Qed.

Lemma forallb_okseg_okc : forall l, forallb okseg l = true -> forallb okc l = true.
Proof.
  induction l as [|s l IH]; intro H; [reflexivity|]. cbn in *. apply andb_true_iff in H as [H1 H2].
  now rewrite (okseg_okc s H1), (IH H2).
Qed.

(** ---- toSegments ---- *)
Lemma seg_loop_ok : forall l st segs,
  forallb okseg st = true -> seg_loop st l = Some segs -> forallb okseg segs = true.
Proof.
  induction l as [|s l IH]; intros st segs Hst H; cbn in H.
  - inversion H; subst. now rewrite forallb_rev.
  - destruct (beq s dot || is_nil s) eqn:E1; [now apply IH with st|].
    apply orb_false_iff in E1 as [Ed En].
    destruct (beq s dotdot) eqn:E2.
    + destruct st as [|top t]; [discriminate|]. apply IH with t; [|assumption].
      cbn in Hst. now apply andb_true_iff in Hst as [_ Hst].
    + destruct (has0 s || has_sl s) eqn:E3; [discriminate|].
      apply orb_false_iff in E3 as [E0 Es].
      apply IH with (s :: st); [|assumption]. cbn. rewrite Hst, andb_true_r.
      unfold okseg, okc. now rewrite En, Es, Ed, E2, E0.
Qed.

Lemma toSegments_ok : forall cwd path segs,
  forallb okseg cwd = true -> toSegments cwd path = Some segs -> forallb okseg segs = true.
Proof.
  intros cwd path segs Hc H. unfold toSegments in H.
  apply seg_loop_ok with (split_sl path) (if isabs path then [] else rev cwd); [|assumption].
  destruct (isabs path); [reflexivity | now rewrite forallb_rev].
Qed.

(** ".." can only remove segments that are there: the result never denotes something above the root *)
Lemma seg_loop_depth : forall l st segs, seg_loop st l = Some segs -> length segs <= length st + length l.
Proof.
  induction l as [|s l IH]; intros st segs H; cbn in H.
  - inversion H; subst. rewrite rev_length. lia.
  - destruct (beq s dot || is_nil s); [apply IH in H; cbn; lia|].
    destruct (beq s dotdot).
    + destruct st as [|top t]; [discriminate|]. apply IH in H. cbn. lia.
    + destruct (has0 s || has_sl s); [discriminate|]. apply IH in H. cbn in *. lia.
Qed.

(** ---- sessions: the working directory and everything handed to the shell stay clean ---- *)
Definition outs_ok (o : list (option (list bytes))) : Prop :=
  forall segs, In (Some segs) o -> forallb okseg segs = true.

Lemma forallb_removelast : forall (f : bytes -> bool) l, forallb f l = true -> forallb f (removelast l) = true.
Proof.
  induction l as [|x l IH]; intro H; [reflexivity|]. cbn in H. apply andb_true_iff in H as [H1 H2].
  destruct l as [|y l']; [reflexivity|]. cbn [removelast]. cbn. rewrite H1. now apply IH.
Qed.

Lemma nlst_target_ok : forall segs, forallb okseg segs = true -> forallb okseg (nlst_target segs) = true.
Proof.
  intros segs H. unfold nlst_target. destruct (rev segs) as [|l r]; [assumption|].
  destruct (is_glob l); [now apply forallb_removelast | assumption].
Qed.

Lemma outs_single : forall o, (forall segs, o = Some segs -> forallb okseg segs = true) -> outs_ok [o].
Proof. intros o H segs [E|[]]. now apply H. Qed.

Lemma cwd_to_ok : forall access wd p,
  forallb okseg wd = true ->
  forallb okseg (fst (cwd_to access wd p)) = true /\ outs_ok (snd (cwd_to access wd p)).
Proof.
  intros access wd p Hwd. unfold cwd_to. destruct (toSegments wd p) as [segs|] eqn:E; cbn.
  - pose proof (toSegments_ok wd p segs Hwd E) as Hs. split; [now destruct (access segs)|].
    apply outs_single. intros x X. inversion X; now subst.
  - split; [assumption|]. apply outs_single. discriminate.
Qed.

Lemma step_ok : forall access st c,
  forallb okseg (fst st) = true ->
  forallb okseg (fst (fst (step access st c))) = true /\ outs_ok (snd (step access st c)).
Proof.
  intros access [wd pending] c Hwd. cbn [fst] in Hwd. unfold step.
  destruct pending as [a|].
  - destruct c; try (cbn; split; [assumption | apply outs_single; discriminate]).
    destruct (toSegments wd a) as [x|] eqn:Ea; [destruct (toSegments wd b) as [y|] eqn:Eb|]; cbn.
    + split; [assumption|]. intros z [Z|[Z|[]]]; inversion Z; subst;
        [now apply toSegments_ok with wd a | now apply toSegments_ok with wd b].
    + split; [assumption | apply outs_single; discriminate].
    + split; [assumption | apply outs_single; discriminate].
  - destruct c.
    + destruct (cwd_to access wd p) as [wd' o] eqn:E. pose proof (cwd_to_ok access wd p Hwd) as H.
      rewrite E in H. exact H.
    + destruct (cwd_to access wd dotdot) as [wd' o] eqn:E. pose proof (cwd_to_ok access wd dotdot Hwd) as H.
      rewrite E in H. exact H.
    + cbn. split; [assumption|]. apply outs_single. intros x X. now apply toSegments_ok with wd p.
    + cbn. split; [assumption|]. apply outs_single. intros x X. now apply toSegments_ok with wd (list_arg p).
    + cbn. split; [assumption|]. apply outs_single. intros x X.
      destruct (toSegments wd p) as [segs|] eqn:E; [|discriminate]. cbn in X. inversion X; subst.
      apply nlst_target_ok. now apply toSegments_ok with wd p.
    + cbn. split; [assumption | apply outs_single; discriminate].
    + cbn. split; [assumption | apply outs_single; discriminate].
Qed.

Lemma run_ok : forall access cs st,
  forallb okseg (fst st) = true ->
  forallb okseg (fst (fst (run access st cs))) = true /\ Forall outs_ok (snd (run access st cs)).
Proof.
  induction cs as [|c cs IH]; intros st Hwd; cbn [run].
  - split; [assumption | constructor].
  - destruct (step access st c) as [st1 o] eqn:E1.
    destruct (step_ok access st c Hwd) as [S1 S2]. rewrite E1 in S1, S2. cbn in S1, S2.
    destruct (run access st1 cs) as [st2 os] eqn:E2.
    destruct (IH st1 S1) as [R1 R2]. rewrite E2 in R1, R2. cbn in *. split; [assumption | now constructor].
Qed.

(** ---- FTPShell._path: descendant over clean segments is exactly root/segments ---- *)
Lemma normpath_okc : forall n, okc n = true -> normpath n = n.
Proof.
  intros n H. apply okc_spec in H as (H1 & H2 & H3 & H4).
  destruct n as [|x n']; [contradiction|]. unfold normpath. cbn [is_nil].
  assert (Hx : is_sl x = false) by (cbn in H2; now apply orb_false_iff in H2 as [H2 _]).
  assert (Ei : init_slashes (x :: n') = 0) by (cbn; now rewrite Hx).
  rewrite Ei. cbn [Nat.eqb negb]. rewrite (split_sl_nosl _ H2). cbn [fold_left].
  unfold norm_step. cbn [is_nil orb]. apply beq_neq in H3, H4. rewrite H3, H4. cbn [negb rev app].
  unfold render. cbn [repeat app join_sl]. reflexivity.
Qed.

Lemma render_snoc : forall k cs n, exists t, render k (cs ++ [n]) = render k cs ++ t.
Proof.
  intros k cs n. unfold render. destruct cs as [|c cs'].
  - exists n. cbn [app join_sl]. now rewrite app_nil_r.
  - exists (SL :: n). rewrite join_sl_snoc by discriminate. now rewrite app_assoc.
Qed.

Lemma child_okc : forall cwd k cs n,
  (k = 1 \/ k = 2) -> forallb okc cs = true -> okc n = true ->
  child cwd (render k cs) n = Some (render k (cs ++ [n])).
Proof.
  intros cwd k cs n Hk Hcs Hn. unfold child. rewrite (normpath_okc n Hn).
  pose proof Hn as Hn'. apply okc_spec in Hn' as (N1 & N2 & N3 & N4). rewrite N2.
  rewrite abspath_abs by (apply pjoin_isabs; now apply render_isabs).
  rewrite (normpath_pjoin_name k cs n Hk Hcs N2 N1).
  destruct (step_name_cases cs n Hcs N2 N1) as [[E _] | [[_ E] | [E _]]]; try contradiction.
  rewrite E. destruct (render_snoc k cs n) as [t Et].
  assert (S : startswith (render k (cs ++ [n])) (render k cs) = true) by (apply startswith_app; now exists t).
  now rewrite S.
Qed.

Lemma descendant_clean : forall cwd segs k cs,
  (k = 1 \/ k = 2) -> forallb okc cs = true -> forallb okc segs = true ->
  descendant cwd (render k cs) segs = Some (render k (cs ++ segs)).
Proof.
  induction segs as [|n segs IH]; intros k cs Hk Hcs Hs.
  - cbn. now rewrite app_nil_r.
  - cbn in Hs. apply andb_true_iff in Hs as [Hn Hs]. cbn [descendant].
    rewrite (child_okc cwd k cs n Hk Hcs Hn).
    rewrite IH; [|assumption| |assumption].
    + now rewrite <- app_assoc.
    + rewrite forallb_app, Hcs. cbn. now rewrite Hn.
Qed.

(** FTPShell(FilePath(s))._path(segments) for clean segments: never InsecurePath, and the result is the
    root's components followed by exactly these segments *)
Lemma path_of_clean_segments : forall cwd s segs,
  isabs cwd = true -> forallb okseg segs = true ->
  exists r, descendant cwd (mk cwd s) segs = Some r
            /\ segments r = segments (mk cwd s) ++ segs
            /\ forallb okc (segments r) = true /\ normpath r = r.
Proof.
  intros cwd s segs Hc Hs. apply forallb_okseg_okc in Hs.
  assert (Ha : absnormal (mk cwd s)).
  { unfold mk, abspath. apply normpath_abs_absnormal. destruct (isabs s) eqn:E; [assumption | now apply pjoin_isabs]. }
  destruct Ha as (k & cs & Hk & Hcs & E). rewrite E.
  exists (render k (cs ++ segs)).
  assert (Hall : forallb okc (cs ++ segs) = true) by now rewrite forallb_app, Hcs, Hs.
  split; [now apply descendant_clean|].
  rewrite !segments_render by assumption. split; [reflexivity|]. split; [assumption|].
  apply normpath_absnormal. now exists k, (cs ++ segs).
Qed.

(** the composition: whatever the client sent before, the next path argument resolves inside the root *)
Lemma session_paths_inside_root : forall access cs p segs cwd s,
  isabs cwd = true ->
  toSegments (fst (fst (run access start cs))) p = Some segs ->
  exists r, descendant cwd (mk cwd s) segs = Some r
            /\ segments r = segments (mk cwd s) ++ segs
            /\ forallb okc (segments r) = true /\ normpath r = r.
Proof.
  intros access cs p segs cwd s Hc H.
  destruct (run_ok access cs start eq_refl) as [Hwd _].
  apply path_of_clean_segments; [assumption|]. now apply toSegments_ok with (fst (fst (run access start cs))) p.
Qed.

(** ... and so does everything the session itself handed to the shell (NLST's parent listing included) *)
Lemma session_shell_calls_inside_root : forall access cs o segs cwd s,
  isabs cwd = true ->
  In o (snd (run access start cs)) -> In (Some segs) o ->
  exists r, descendant cwd (mk cwd s) segs = Some r
            /\ segments r = segments (mk cwd s) ++ segs
            /\ forallb okc (segments r) = true /\ normpath r = r.
Proof.
  intros access cs o segs cwd s Hc Ho Hs.
  destruct (run_ok access cs start eq_refl) as [_ HF].
  rewrite Forall_forall in HF. apply path_of_clean_segments; [assumption|]. exact (HF o Ho segs Hs).
Qed.

Example ex_session :
  let a := [97]%N in let b := [98]%N in
  let access := fun segs => match segs with [x] => beq x a | [] => true | _ => false end in
  run access start [Cwd a; Op [46;46;47;46;46;47;98]%N; Nlst [98;46;99]%N; Rnfr b; Cwd [47]%N; Rnto [47;98]%N;
                    Cdup; Cdup; Op [47;97;47;47;46;47;98]%N]
  = (([], None), [[Some [a]]; [None]; [Some [a]]; [None]; [None]; [Some [a; b]; Some [b]]; [Some []]; [None];
                  [Some [a; b]]]).
Proof. vm_compute. reflexivity. Qed.
