(** C02: proofs about the inlineCallbacks driver model. *)
From Coq Require Import List Arith ZArith Bool Lia.
From TwLib Require Import DeferredK DeferredKFacts.
From C02 Require Import Model Proofs InlineModel.
Import ListNotations.

(** ---- the bound, for every state, every list of awaits, every style ---- *)
Lemma op_depth_add_le fx st x cb eb : op_depth fx st (OAdd x cb eb) <= 3.
Proof.
  unfold op_depth. destruct (get (heap_of st) x) as [D|]; [|lia]. destruct (called D); [|lia].
  match goal with |- context [loop_depth ?a ?b ?c] => pose proof (loop_depth_le a b c) end. lia.
Qed.

Lemma drive_depth_le sty : forall rest s depth, snd (drive sty s rest depth) <= depth + 4.
Proof.
  induction rest as [|x rest IH]; intros s depth; cbn [drive].
  - cbn [snd]. pose proof (op_depth_le true (ks s) (OCallback (resD s) (total s))). lia.
  - destruct (match sty with SCoro => ready (heap_of (ks s)) x | SGen => None end) as [v|].
    + specialize (IH (set_total (feed v (total s)) s) depth).
      destruct (drive sty (set_total (feed v (total s)) s) rest depth) as [s' m]. cbn [snd] in *. lia.
    + destruct (exec true (ks s) (OAdd x got got)) as [ks' evs].
      pose proof (op_depth_add_le true (ks s) x got got) as A.
      assert (C : coro_frame sty depth <= depth + 1) by (destruct sty; cbn; lia).
      destruct (ran x (next_k (ks s)) evs) as [a|].
      * specialize (IH (set_total (feed a (total s)) (set_ks ks' s)) depth).
        destruct (drive sty (set_total (feed a (total s)) (set_ks ks' s)) rest depth) as [s' m]. cbn [snd] in *. lia.
      * cbn [snd]. lia.
Qed.

Lemma istart_depth_le sty s aw : snd (istart sty s aw) <= 8.
Proof.
  unfold istart. pose proof (drive_depth_le sty aw s (start_depth sty)) as D.
  destruct (drive sty s aw (start_depth sty)) as [s' m]. cbn [snd] in *. destruct sty; cbn [start_depth] in *; lia.
Qed.

Lemma iexec_depth_le sty s o : snd (iexec sty s o) <= 9.
Proof.
  unfold iexec. destruct o as [|x z|x e].
  - cbn [snd]. pose proof (op_depth_add_le true (ks s) (resD s) (Some BPass) (Some BPass)). lia.
  - destruct (exec true (ks s) (OCallback x z)) as [ks' evs].
    pose proof (op_depth_le true (ks s) (OCallback x z)) as A.
    destruct (wait s) as [[[x' j] rest']|]; [|cbn [snd]; lia].
    destruct (ran x' j evs) as [a|]; [|cbn [snd]; lia].
    match goal with |- context [drive sty ?s1 rest' 5] => pose proof (drive_depth_le sty rest' s1 5) as D;
      destruct (drive sty s1 rest' 5) as [s2 m] end.
    cbn [snd] in *. assert (coro_frame sty 5 <= 6) by (destruct sty; cbn; lia). lia.
  - destruct (exec true (ks s) (OErrback x e)) as [ks' evs].
    pose proof (op_depth_le true (ks s) (OErrback x e)) as A.
    destruct (wait s) as [[[x' j] rest']|]; [|cbn [snd]; lia].
    destruct (ran x' j evs) as [a|]; [|cbn [snd]; lia].
    match goal with |- context [drive sty ?s1 rest' 5] => pose proof (drive_depth_le sty rest' s1 5) as D;
      destruct (drive sty s1 rest' 5) as [s2 m] end.
    cbn [snd] in *. assert (coro_frame sty 5 <= 6) by (destruct sty; cbn; lia). lia.
Qed.

Lemma irun_depth_le sty ops : forall s, Forall (fun d => d <= 9) (snd (irun sty s ops)).
Proof.
  induction ops as [|o r IH]; intros s; cbn [irun]; [constructor|].
  pose proof (iexec_depth_le sty s o) as E. destruct (iexec sty s o) as [s1 d]. specialize (IH s1).
  destruct (irun sty s1 r) as [s2 ds]. cbn [snd] in *. constructor; assumption.
Qed.

Theorem inline_program_depth_le p : Forall (fun d => d <= 9) (snd (irun_program p)).
Proof.
  destruct p as [[sty aw] ops]. unfold irun_program.
  pose proof (istart_depth_le sty (iinit aw) (seq 0 (length aw))) as S.
  destruct (istart sty (iinit aw) (seq 0 (length aw))) as [s1 d].
  pose proof (irun_depth_le sty ops s1) as R. destruct (irun sty s1 ops) as [s2 ds]. cbn [snd] in *.
  constructor; [lia|exact R].
Qed.

(** ---- exact behaviour on already-fired awaits, for every number of them ---- *)
From C02 Require Import Chains.

Lemma step_call h cur rest D k cb eb more b r' :
  get h cur = Some D -> paused D = 0%Z -> cbs D = Pair k cb eb :: more ->
  (if is_fail (cur_result D) then eb else cb) = Some b -> apply_beh b (cur_result D) = r' ->
  (forall x, r' <> VDef x) ->
  step true h (cur :: rest) =
  Some (upd (upd h cur (fun D => set_cbs more (set_chained None D))) cur (set_res (Some r')),
        cur :: rest, [ERun cur k (cur_result D)]).
Proof.
  intros HD HP HC HS HA HN. unfold step. rewrite HD, HP, HC. cbn [Z.eqb negb]. rewrite HS, HA.
  destruct r'; try reflexivity. exfalso. eapply HN. reflexivity.
Qed.

Lemma loop_depth_pair h x h2 ch2 evs :
  step true h [x] = Some (h2, ch2, evs) -> step_calls h [x] = 1 -> loop_depth true h x = 1.
Proof.
  intros ST SC. unfold loop_depth, measure. cbn [length]. rewrite Nat.add_1_r. cbn [iter_depth]. rewrite ST, SC.
  match goal with |- Nat.max 1 ?a = 1 => assert (a <= 1) by apply iter_depth_le; lia end.
Qed.

Lemma iter_depth_nil fx f h : iter_depth fx f h [] = 0.
Proof. destruct f; reflexivity. Qed.

Lemma loop_depth_none h x D :
  get h x = Some D -> paused D = 0%Z -> cbs D = [] -> loop_depth true h x = 0.
Proof.
  intros HD HP HC. unfold loop_depth, measure. cbn [length]. rewrite Nat.add_1_r. cbn [iter_depth].
  rewrite (step_done _ _ _ _ HD HP HC). unfold step_calls. rewrite HD, HP, HC. cbn [Z.eqb negb].
  rewrite iter_depth_nil. reflexivity.
Qed.

(** awaiting (generator style) a Deferred that has fired, is not paused and carries no callback: gotResult runs
    inside the addBoth call with the Deferred's result; three frames; nothing else is touched *)
Lemma await_prefired st x D v :
  get (heap_of st) x = Some D -> called D = true -> paused D = 0%Z -> cbs D = [] -> res D = Some v ->
  exists h',
    exec true st (OAdd x got got) = (mkS h' (S (next_k st)), [ERun x (next_k st) v])
    /\ (forall y, y <> x -> get h' y = get (heap_of st) y)
    /\ op_depth true st (OAdd x got got) = 3.
Proof.
  intros HD HC HP HB HR. destruct st as [h k]. cbn [heap_of next_k] in *.
  set (h1 := upd h x (fun D0 => set_cbs (cbs D0 ++ [Pair k got got]) D0)).
  set (D1 := set_cbs (cbs D ++ [Pair k got got]) D).
  assert (G1 : get h1 x = Some D1) by (subst h1 D1; rewrite get_upd_same, HD; reflexivity).
  assert (CR : cur_result D1 = v) by (subst D1; unfold cur_result; cbn; rewrite HR; reflexivity).
  assert (ST1 : step true h1 [x]
                = Some (upd (upd h1 x (fun D0 => set_cbs [] (set_chained None D0))) x (set_res (Some VNone)),
                        [x], [ERun x k v])).
  { rewrite <- CR. eapply (step_call h1 x [] D1 k got got [] (BRet VNone) VNone G1).
    - subst D1. cbn. exact HP.
    - subst D1. cbn. rewrite HB. reflexivity.
    - destruct (is_fail (cur_result D1)); reflexivity.
    - reflexivity.
    - intros y E. discriminate. }
  set (h2 := upd (upd h1 x (fun D0 => set_cbs [] (set_chained None D0))) x (set_res (Some VNone))) in *.
  set (D2 := set_res (Some VNone) (set_cbs [] (set_chained None D1))).
  assert (G2 : get h2 x = Some D2) by (subst h2 D2; rewrite !get_upd_same, G1; reflexivity).
  assert (ST2 : step true h2 [x] = Some (upd h2 x (set_chained None), [], [])).
  { eapply (step_done h2 x [] D2 G2); subst D2 D1; cbn; [exact HP|reflexivity]. }
  exists (upd h2 x (set_chained None)). split; [|split].
  - unfold exec. cbn [heap_of next_k]. rewrite HD, HC. fold h1.
    assert (I : iter true 2 h1 [x] = Some (upd h2 x (set_chained None), [ERun x k v] ++ ([] ++ []))).
    { eapply iter_step; [exact ST1|]. eapply iter_step; [exact ST2|apply iter_nil]. }
    rewrite (runCallbacks_any_fuel _ _ _ _ _ I). reflexivity.
  - intros y Hy. subst h2 h1. rewrite !get_upd_other by congruence. reflexivity.
  - unfold op_depth. cbn [heap_of next_k]. rewrite HD, HC. fold h1.
    rewrite (loop_depth_pair _ _ _ _ _ ST1); [reflexivity|].
    unfold step_calls. rewrite G1. subst D1. cbn. rewrite HP, HB. reflexivity.
Qed.

(** status.deferred.callback(t) on a result Deferred that has at most the recorder attached *)
Lemma fire_result st R DR t :
  get (heap_of st) R = Some DR -> called DR = false -> paused DR = 0%Z ->
  (cbs DR = [] \/ exists j, cbs DR = [Pair j (Some BPass) (Some BPass)]) ->
  exists h' evs,
    exec true st (OCallback R t) = (mkS h' (next_k st), evs)
    /\ (exists D', get h' R = Some D' /\ called D' = true /\ res D' = Some (VInt t))
    /\ op_depth true st (OCallback R t) = 3 + length (cbs DR).
Proof.
  intros HD HC HP HB. destruct st as [h k]. cbn [heap_of next_k] in *.
  set (h1 := upd h R (fun D0 => set_res (Some (VInt t)) (set_called true D0))).
  set (D1 := set_res (Some (VInt t)) (set_called true DR)).
  assert (G1 : get h1 R = Some D1) by (subst h1 D1; rewrite get_upd_same, HD; reflexivity).
  destruct HB as [HB | [j HB]].
  - assert (ST : step true h1 [R] = Some (upd h1 R (set_chained None), [], [])).
    { eapply (step_done h1 R [] D1 G1); subst D1; cbn; assumption. }
    exists (upd h1 R (set_chained None)), [EFired R (VInt t) ByUser]. split; [|split].
    + unfold exec, fire. cbn [heap_of next_k]. rewrite HD, HC. fold h1.
      assert (I : iter true 1 h1 [R] = Some (upd h1 R (set_chained None), [] ++ [])).
      { eapply iter_step; [exact ST|apply iter_nil]. }
      rewrite (runCallbacks_any_fuel _ _ _ _ _ I). reflexivity.
    + exists (set_chained None D1). rewrite get_upd_same, G1. subst D1. cbn. auto.
    + unfold op_depth. cbn [heap_of]. rewrite HD, HC, HB. fold h1.
      rewrite (loop_depth_none h1 R D1 G1); subst D1; cbn; auto.
  - assert (ST1 : step true h1 [R]
                  = Some (upd (upd h1 R (fun D0 => set_cbs [] (set_chained None D0))) R (set_res (Some (VInt t))),
                          [R], [ERun R j (VInt t)])).
    { replace (ERun R j (VInt t)) with (ERun R j (cur_result D1)) by (subst D1; reflexivity).
      eapply (step_call h1 R [] D1 j (Some BPass) (Some BPass) [] BPass (VInt t) G1).
      - subst D1. cbn. exact HP.
      - subst D1. cbn. exact HB.
      - reflexivity.
      - subst D1. reflexivity.
      - intros y E. discriminate. }
    set (h2 := upd (upd h1 R (fun D0 => set_cbs [] (set_chained None D0))) R (set_res (Some (VInt t)))) in *.
    set (D2 := set_res (Some (VInt t)) (set_cbs [] (set_chained None D1))).
    assert (G2 : get h2 R = Some D2) by (subst h2 D2; rewrite !get_upd_same, G1; reflexivity).
    assert (ST2 : step true h2 [R] = Some (upd h2 R (set_chained None), [], [])).
    { eapply (step_done h2 R [] D2 G2); subst D2 D1; cbn; [exact HP|reflexivity]. }
    exists (upd h2 R (set_chained None)), (EFired R (VInt t) ByUser :: [ERun R j (VInt t)] ++ ([] ++ [])).
    split; [|split].
    + unfold exec, fire. cbn [heap_of next_k]. rewrite HD, HC. fold h1.
      assert (I : iter true 2 h1 [R] = Some (upd h2 R (set_chained None), [ERun R j (VInt t)] ++ ([] ++ []))).
      { eapply iter_step; [exact ST1|]. eapply iter_step; [exact ST2|apply iter_nil]. }
      rewrite (runCallbacks_any_fuel _ _ _ _ _ I). reflexivity.
    + exists (set_chained None D2). rewrite get_upd_same, G2. subst D2 D1. cbn. auto.
    + unfold op_depth. cbn [heap_of]. rewrite HD, HC, HB. fold h1.
      rewrite (loop_depth_pair _ _ _ _ _ ST1); [reflexivity|].
      unfold step_calls. rewrite G1. subst D1. cbn. rewrite HP, HB. reflexivity.
Qed.

Definition prefired1 (h : heap) (x : nat) : Prop :=
  exists D, get h x = Some D /\ called D = true /\ paused D = 0%Z /\ cbs D = [] /\ res D = Some (VInt 1).

Definition Rok (s : ist) (DR : dfr) : Prop :=
  get (heap_of (ks s)) (resD s) = Some DR /\ called DR = false /\ paused DR = 0%Z
  /\ (cbs DR = [] \/ exists j, cbs DR = [Pair j (Some BPass) (Some BPass)]).

(** One _inlineCallbacks invocation at frame depth [depth], the generator about to await ANY number of distinct,
    already-fired, callback-free Deferreds: it consumes them all in its own frame, fires the result Deferred with
    the right total, and the deepest frame is depth + 3 (+ 1 for a recorder on the result Deferred). *)
Lemma drive_prefired sty : forall rest s depth DR,
  NoDup rest -> (forall x, In x rest -> prefired1 (heap_of (ks s)) x) -> ~ In (resD s) rest -> Rok s DR ->
  exists s',
    drive sty s rest depth = (s', depth + 3 + length (cbs DR))
    /\ total s' = (total s + Z.of_nat (length rest))%Z /\ fin s' = true /\ wait s' = wait s /\ resD s' = resD s
    /\ exists D', get (heap_of (ks s')) (resD s) = Some D' /\ called D' = true /\ res D' = Some (VInt (total s')).
Proof.
  induction rest as [|x rest IH]; intros s depth DR ND PF NR [GR [CR [PR BR]]].
  - cbn [drive].
    destruct (fire_result (ks s) (resD s) DR (total s) GR CR PR BR) as [h' [evs [E [[D'' [G'' [C'' R'']]] OD]]]].
    rewrite E. eexists. split; [rewrite OD; f_equal; lia|]. cbn. repeat split; try lia. exists D''. auto.
  - inversion ND as [|? ? NI ND']; subst.
    assert (PFx : prefired1 (heap_of (ks s)) x) by (apply PF; left; reflexivity).
    destruct PFx as [D [GD [CD [PD [BD RD]]]]].
    assert (NRx : resD s <> x) by (intros E; apply NR; left; auto).
    cbn [drive]. destruct sty.
    + (* generator: addBoth runs gotResult at once *)
      destruct (await_prefired (ks s) x D (VInt 1) GD CD PD BD RD) as [h' [E [FR OD]]].
      rewrite E. cbn [ran]. rewrite !Nat.eqb_refl. cbn [andb].
      set (s1 := set_total (feed (VInt 1) (total s)) (set_ks (mkS h' (S (next_k (ks s)))) s)).
      destruct (IH s1 depth DR ND') as [s' [ED [T [F [W [RS [D' HD']]]]]]].
      * intros y Hy. destruct (PF y (or_intror Hy)) as [Dy [Gy Ry]]. exists Dy. split; [|exact Ry].
        subst s1. cbn. rewrite FR; [exact Gy|]. intros ->. contradiction.
      * subst s1. cbn. intros Hin. apply NR. right. exact Hin.
      * subst s1. unfold Rok. cbn. rewrite FR by exact NRx. auto.
      * rewrite ED. exists s'. split; [f_equal; rewrite OD; cbn [coro_frame]; lia|].
        split; [rewrite T; subst s1; cbn [total set_total set_ks feed length]; lia|].
        split; [exact F|]. split; [exact W|]. split; [exact RS|]. exists D'. exact HD'.
    + (* coroutine: Deferred.__await__ returns the result without yielding *)
      assert (RY : ready (heap_of (ks s)) x = Some (VInt 1)) by (unfold ready; rewrite GD, PD; exact RD).
      rewrite RY.
      set (s1 := set_total (feed (VInt 1) (total s)) s).
      destruct (IH s1 depth DR ND') as [s' [ED [T [F [W [RS [D' HD']]]]]]].
      * intros y Hy. subst s1. cbn. apply PF. right. exact Hy.
      * subst s1. cbn. intros Hin. apply NR. right. exact Hin.
      * subst s1. unfold Rok. cbn. auto.
      * rewrite ED. exists s'. split; [f_equal; lia|].
        split; [rewrite T; subst s1; cbn [total set_total feed length]; lia|].
        split; [exact F|]. split; [exact W|]. split; [exact RS|]. exists D'. exact HD'.
Qed.

(** without the waiting list the same awaits cost four frames each *)
Lemma drive_naive_prefired : forall rest s depth DR,
  NoDup rest -> (forall x, In x rest -> prefired1 (heap_of (ks s)) x) -> ~ In (resD s) rest -> Rok s DR ->
  exists s', drive_naive s rest depth = (s', depth + 4 * length rest + 3 + length (cbs DR))
             /\ total s' = (total s + Z.of_nat (length rest))%Z.
Proof.
  induction rest as [|x rest IH]; intros s depth DR ND PF NR [GR [CR [PR BR]]].
  - cbn [drive_naive]. destruct (fire_result (ks s) (resD s) DR (total s) GR CR PR BR) as [h' [evs [E [_ OD]]]].
    rewrite E. eexists. split; [rewrite OD; f_equal; cbn [length]; lia|]. cbn. lia.
  - inversion ND as [|? ? NI ND']; subst.
    destruct (PF x (or_introl eq_refl)) as [D [GD [CD [PD [BD RD]]]]].
    assert (NRx : resD s <> x) by (intros E; apply NR; left; auto).
    cbn [drive_naive].
    destruct (await_prefired (ks s) x D (VInt 1) GD CD PD BD RD) as [h' [E [FR OD]]].
    rewrite E. cbn [ran]. rewrite !Nat.eqb_refl. cbn [andb].
    set (s1 := set_total (feed (VInt 1) (total s)) (set_ks (mkS h' (S (next_k (ks s)))) s)).
    destruct (IH s1 (depth + 4) DR ND') as [s' [ED T]].
    + intros y Hy. destruct (PF y (or_intror Hy)) as [Dy [Gy Ry]]. exists Dy. split; [|exact Ry].
      subst s1. cbn. rewrite FR; [exact Gy|]. intros ->. contradiction.
    + subst s1. cbn. intros Hin. apply NR. right. exact Hin.
    + subst s1. unfold Rok. cbn. rewrite FR by exact NRx. auto.
    + rewrite ED. exists s'. split; [f_equal; rewrite OD; cbn [length]; lia|].
      rewrite T. subst s1. cbn [total set_total set_ks feed length]. lia.
Qed.

(** ---- concrete families, for every n ---- *)
Lemma add_uncalled st x D cb eb :
  get (heap_of st) x = Some D -> called D = false ->
  exec true st (OAdd x cb eb)
  = (mkS (upd (heap_of st) x (fun D0 => set_cbs (cbs D0 ++ [Pair (next_k st) cb eb]) D0)) (S (next_k st)), [])
  /\ op_depth true st (OAdd x cb eb) = 1.
Proof. intros HD HC. unfold exec, op_depth. rewrite HD, HC. auto. Qed.

Lemma fire_waited st x D k z :
  get (heap_of st) x = Some D -> called D = false -> paused D = 0%Z -> cbs D = [Pair k got got] ->
  exists h' evs,
    exec true st (OCallback x z) = (mkS h' (next_k st), evs)
    /\ ran x k evs = Some (VInt z)
    /\ (forall y, y <> x -> get h' y = get (heap_of st) y)
    /\ op_depth true st (OCallback x z) = 4.
Proof.
  intros HD HC HP HB. destruct st as [h nk]. cbn [heap_of next_k] in *.
  set (h1 := upd h x (fun D0 => set_res (Some (VInt z)) (set_called true D0))).
  set (D1 := set_res (Some (VInt z)) (set_called true D)).
  assert (G1 : get h1 x = Some D1) by (subst h1 D1; rewrite get_upd_same, HD; reflexivity).
  assert (ST1 : step true h1 [x]
                = Some (upd (upd h1 x (fun D0 => set_cbs [] (set_chained None D0))) x (set_res (Some VNone)),
                        [x], [ERun x k (VInt z)])).
  { replace (ERun x k (VInt z)) with (ERun x k (cur_result D1)) by (subst D1; reflexivity).
    eapply (step_call h1 x [] D1 k got got [] (BRet VNone) VNone G1).
    - subst D1. cbn. exact HP.
    - subst D1. cbn. exact HB.
    - reflexivity.
    - reflexivity.
    - intros y E. discriminate. }
  set (h2 := upd (upd h1 x (fun D0 => set_cbs [] (set_chained None D0))) x (set_res (Some VNone))) in *.
  set (D2 := set_res (Some VNone) (set_cbs [] (set_chained None D1))).
  assert (G2 : get h2 x = Some D2) by (subst h2 D2; rewrite !get_upd_same, G1; reflexivity).
  assert (ST2 : step true h2 [x] = Some (upd h2 x (set_chained None), [], [])).
  { eapply (step_done h2 x [] D2 G2); subst D2 D1; cbn; [exact HP|reflexivity]. }
  exists (upd h2 x (set_chained None)), (EFired x (VInt z) ByUser :: [ERun x k (VInt z)] ++ ([] ++ [])).
  split; [|split; [|split]].
  - unfold exec, fire. cbn [heap_of next_k]. rewrite HD, HC. fold h1.
    assert (I : iter true 2 h1 [x] = Some (upd h2 x (set_chained None), [ERun x k (VInt z)] ++ ([] ++ []))).
    { eapply iter_step; [exact ST1|]. eapply iter_step; [exact ST2|apply iter_nil]. }
    rewrite (runCallbacks_any_fuel _ _ _ _ _ I). reflexivity.
  - cbn [ran app]. rewrite !Nat.eqb_refl. reflexivity.
  - intros y Hy. subst h2 h1. rewrite !get_upd_other by congruence. reflexivity.
  - unfold op_depth. cbn [heap_of]. rewrite HD, HC. fold h1.
    rewrite (loop_depth_pair _ _ _ _ _ ST1); [reflexivity|].
    unfold step_calls. rewrite G1. subst D1. cbn. rewrite HP, HB. reflexivity.
Qed.

Lemma iinit_get_aw aw x o :
  nth_error aw x = Some o -> get (heap_of (ks (iinit aw))) x = Some (mk_awaited o).
Proof.
  intros H. cbn [iinit ks heap_of]. unfold get.
  rewrite nth_error_app1 by (rewrite map_length; apply nth_error_Some; congruence).
  rewrite nth_error_map, H. reflexivity.
Qed.

Lemma iinit_get_R aw : get (heap_of (ks (iinit aw))) (length aw) = Some (new_dfr CNothing).
Proof.
  cbn [iinit ks heap_of]. unfold get. rewrite nth_error_app2 by (rewrite map_length; lia).
  rewrite map_length, Nat.sub_diag. reflexivity.
Qed.

Lemma nth_error_repeat' {A} (a : A) n x : x < n -> nth_error (repeat a n) x = Some a.
Proof. revert x; induction n as [|n IH]; intros [|x] H; cbn; try lia; [reflexivity|apply IH; lia]. Qed.

Definition ones (n : nat) : list (option value) := repeat (Some (VInt 1)) n.

(** from the start: n already-fired awaits *)
Theorem prefired_from_start sty n :
  let r := irun_program (sty, ones n, []) in
  snd r = [start_depth sty + 3]
  /\ exists D', get (heap_of (ks (fst r))) n = Some D' /\ called D' = true /\ res D' = Some (VInt (Z.of_nat n)).
Proof.
  cbn zeta. unfold irun_program, istart, ones. rewrite repeat_length.
  set (s0 := iinit (repeat (Some (VInt 1)) n)).
  destruct (drive_prefired sty (seq 0 n) s0 (start_depth sty) (new_dfr CNothing)) as [s' [ED [T [F [W [RS [D' HD']]]]]]].
  - apply seq_NoDup.
  - intros x Hx. apply in_seq in Hx. exists (mk_awaited (Some (VInt 1))). split.
    + subst s0. apply iinit_get_aw. apply nth_error_repeat'. lia.
    + cbn. auto.
  - subst s0. cbn [resD iinit]. rewrite repeat_length. intros Hin. apply in_seq in Hin. lia.
  - unfold Rok. subst s0. cbn [resD iinit]. split; [apply iinit_get_R|]. cbn. auto.
  - rewrite ED. cbn [irun fst snd length cbs new_dfr]. split; [f_equal; lia|].
    exists D'. subst s0. cbn [resD iinit total] in *. rewrite repeat_length, seq_length in *.
    destruct HD' as [G [C R]]. rewrite T in R. auto.
Qed.

(** after a first real suspension: the first await is unfired, then n already-fired ones; the recorder is added and
    the first Deferred fires *)
Theorem prefired_after_suspension sty n :
  let r := irun_program (sty, None :: ones n, [IRec; IFire 0 1]) in
  snd r = [start_depth sty + 1; 1; 9]
  /\ exists D', get (heap_of (ks (fst r))) (S n) = Some D' /\ called D' = true
                /\ res D' = Some (VInt (1 + Z.of_nat n)).
Proof.
  cbn zeta. unfold irun_program, istart. cbn [length]. unfold ones. rewrite repeat_length.
  set (aw := None :: repeat (Some (VInt 1)) n).
  set (s0 := iinit aw). set (h0 := heap_of (ks s0)).
  assert (G0 : get h0 0 = Some (new_dfr CNone)) by (subst h0 s0; apply (iinit_get_aw aw 0 None); reflexivity).
  assert (GR : get h0 (S n) = Some (new_dfr CNothing)).
  { subst h0 s0. replace (S n) with (length aw) by (subst aw; cbn; rewrite repeat_length; reflexivity). apply iinit_get_R. }
  assert (GX : forall x, 1 <= x <= n -> get h0 x = Some (mk_awaited (Some (VInt 1)))).
  { intros x Hx. subst h0 s0. apply iinit_get_aw. subst aw. destruct x as [|x]; [lia|]. cbn. apply nth_error_repeat'. lia. }
  (* the start: suspends on Deferred 0 *)
  destruct (add_uncalled (ks s0) 0 (new_dfr CNone) got got G0 eq_refl) as [EA DA].
  set (hA := upd h0 0 (fun D0 => set_cbs (cbs D0 ++ [Pair 0 got got]) D0)).
  set (sA := set_wait (Some (0, 0, seq 1 n)) (set_ks (mkS hA 1) s0)).
  assert (DRV : drive sty s0 (seq 0 (S n)) (start_depth sty) = (sA, start_depth sty + 1)).
  { cbn [seq drive].
    assert (RY : ready (heap_of (ks s0)) 0 = None) by (fold h0; unfold ready; rewrite G0; reflexivity).
    assert (M : (match sty with SCoro => ready (heap_of (ks s0)) 0 | SGen => None end) = None) by (destruct sty; auto).
    rewrite M, EA, DA. cbn [ran]. subst sA hA h0. f_equal. destruct sty; cbn; lia. }
  rewrite DRV. cbn [irun].
  (* the recorder *)
  assert (LA : length aw = S n) by (subst aw; cbn [length]; rewrite repeat_length; reflexivity).
  assert (RA : resD sA = S n) by (subst sA s0; cbn [resD set_wait set_ks iinit]; exact LA).
  assert (GRA : get (heap_of (ks sA)) (resD sA) = Some (new_dfr CNothing)).
  { rewrite RA. subst sA. cbn [ks heap_of set_wait set_ks]. subst hA. rewrite get_upd_other by lia. exact GR. }
  destruct (add_uncalled (ks sA) (resD sA) (new_dfr CNothing) (Some BPass) (Some BPass) GRA eq_refl) as [EB DB].
  cbn [iexec]. rewrite EB, DB. cbn [fst].
  set (hB := upd (heap_of (ks sA)) (resD sA) (fun D0 => set_cbs (cbs D0 ++ [Pair (next_k (ks sA)) (Some BPass) (Some BPass)]) D0)).
  set (sB := set_ks (mkS hB (S (next_k (ks sA)))) sA).
  pose proof RA as RB.
  (* the firing of Deferred 0 *)
  assert (G0B : get (heap_of (ks sB)) 0 = Some (set_cbs (cbs (new_dfr CNone) ++ [Pair 0 got got]) (new_dfr CNone))).
  { subst sB hB. cbn [ks heap_of set_ks]. rewrite RB, get_upd_other by lia. subst sA hA. cbn [ks heap_of set_ks set_wait].
    rewrite get_upd_same. fold h0. rewrite G0. reflexivity. }
  destruct (fire_waited (ks sB) 0 _ 0 1 G0B eq_refl eq_refl eq_refl) as [hC [evs [EC [RN [FC DC]]]]].
  rewrite EC, DC. cbn [wait sB set_ks]. subst sB. cbn [wait set_ks]. subst sA. cbn [wait set_wait]. rewrite RN.
  match goal with |- context [drive sty ?t (seq 1 n) 5] => set (s1 := t) end.
  assert (GC : forall y, y <> 0 -> get hC y = get hB y) by (intros y Hy; rewrite FC by exact Hy; reflexivity).
  destruct (drive_prefired sty (seq 1 n) s1 5
              (set_cbs (cbs (new_dfr CNothing) ++ [Pair 1 (Some BPass) (Some BPass)]) (new_dfr CNothing)))
    as [s' [ED [T [F [W [RS [D' HD']]]]]]].
  - apply seq_NoDup.
  - intros x Hx. apply in_seq in Hx. exists (mk_awaited (Some (VInt 1))). split; [|cbn; auto].
    subst s1. cbn [ks heap_of set_wait set_total set_ks]. rewrite GC by lia. subst hB.
    cbn [ks heap_of set_ks set_wait resD] in *. rewrite get_upd_other by (rewrite RB; lia).
    subst hA. rewrite get_upd_other by lia. apply GX. lia.
  - subst s1. cbn [resD set_wait set_total set_ks]. cbn [resD set_ks set_wait] in RB. rewrite RB.
    intros Hin. apply in_seq in Hin. lia.
  - unfold Rok. subst s1. cbn [ks heap_of resD set_wait set_total set_ks]. cbn [resD set_ks set_wait] in RB. rewrite RB.
    split; [|cbn; split; [reflexivity|split; [reflexivity|right; eexists; reflexivity]]].
    rewrite GC by lia. subst hB. cbn [ks heap_of resD set_ks set_wait next_k] in *. rewrite RB, get_upd_same.
    subst hA. rewrite get_upd_other by lia. rewrite GR. reflexivity.
  - rewrite ED. cbn [fst snd length app cbs set_cbs new_dfr]. split.
    + replace (Nat.max (start_depth sty) (start_depth sty + 1)) with (start_depth sty + 1) by lia.
      replace (Nat.max 4 (Nat.max (Nat.max 5 (coro_frame sty 5)) (5 + 3 + 1))) with 9 by (destruct sty; cbn; lia).
      reflexivity.
    + exists D'. subst s1. cbn [resD set_wait set_total set_ks total feed] in *. cbn [resD set_ks set_wait] in RB.
      rewrite RB in HD'. destruct HD' as [G [C R]]. rewrite T, seq_length in R.
      split; [exact G|]. split; [exact C|]. rewrite R. subst s0. cbn [iinit total]. repeat f_equal; try lia.
Qed.

(** the same n awaits without the waiting list: four frames each *)
Theorem naive_inline_depth_grows n :
  snd (drive_naive (iinit (ones n)) (seq 0 n) 3) = 3 + 4 * n + 3.
Proof.
  destruct (drive_naive_prefired (seq 0 n) (iinit (ones n)) 3 (new_dfr CNothing)) as [s' [ED _]].
  - apply seq_NoDup.
  - intros x Hx. apply in_seq in Hx. exists (mk_awaited (Some (VInt 1))). split.
    + apply iinit_get_aw. apply nth_error_repeat'. lia.
    + cbn. auto.
  - cbn [resD iinit]. unfold ones. rewrite repeat_length. intros Hin. apply in_seq in Hin. lia.
  - unfold Rok. cbn [resD iinit]. split; [apply iinit_get_R|]. cbn. auto.
  - rewrite ED. cbn [snd length cbs new_dfr]. rewrite seq_length. lia.
Qed.
