(** C02 property theorems (partial by nature: the C stack use of CPython per Python frame is not modelled; the
    frame depth is a ghost quantity of the model, tied to the code by measuring real frame depths). *)
From Coq Require Import List Arith ZArith Bool.
From TwLib Require Import DeferredK DeferredKFacts.
From C02 Require Import Model Proofs.
Import ListNotations.

(** for EVERY heap, chain stack and fuel — so for chains of every length and shape, fired in any order, with
    success or failure results, paused or not — the callback loop never holds more than one frame above its own *)
Theorem loop_depth_bounded : forall fx fuel h chain, iter_depth fx fuel h chain <= 1.
Proof. exact iter_depth_le. Qed.
Print Assumptions loop_depth_bounded.

(** every operation of every program (cancel() excluded, see Model.op_depth) reaches frame depth at most 4,
    independent of the number of Deferreds, of how many wait on each other, and of the program length *)
Theorem chain_depth_bounded : forall fx cs ops,
  Forall (fun n => n <= 4) (program_depths fx (cs, ops)).
Proof. intros fx cs ops. apply run_depths_le. Qed.
Print Assumptions chain_depth_bounded.

(** handing a result to a waiting Deferred (_CONTINUE) enters no frame: the Deferred goes on the explicit list *)
Theorem continuation_costs_no_frame : forall h cur rest D c more,
  get h cur = Some D -> paused D = 0%Z -> cbs D = Cont c :: more -> step_calls h (cur :: rest) = 0.
Proof. exact continue_costs_no_frame. Qed.
Print Assumptions continuation_costs_no_frame.

(** FULL statement wanted: for every n and both outcomes, the three chain families complete with the innermost
    result on Deferred 0 (forall n, chain_done fail (chain_* fail n) = true).  Proved here only for n <= 40 by
    computation (the depth bound above is for all n). *)
Theorem chains_complete_partial :
  family_ok chain_outer = true /\ family_ok chain_inner = true /\ family_ok chain_prefired = true.
Proof. exact families_complete_bounded. Qed.
Print Assumptions chains_complete_partial.

(** what the explicit list buys (n = 1..30, by computation): firing the innermost Deferred of an outer-first
    chain of length n makes the list n+1 long and would nest the recursive interpreter n deep, at loop depth <= 1 *)
Theorem stack_grows_frames_do_not_partial :
  forallb (fun n => Nat.eqb (iter_stack true (measure (before_last n) [n]) (before_last n) [n]) (S n)
                    && Nat.leb (loop_depth true (before_last n) n) 1
                    && match srun (4 * n + 8) (before_last n) n 0 with Some (_, m) => Nat.eqb m n | None => false end)
          (seq 1 30) = true.
Proof. exact stack_grows_frames_do_not. Qed.
Print Assumptions stack_grows_frames_do_not_partial.
