(** C02 property theorems (partial by nature: the C stack use of CPython per Python frame is not modelled; the
    frame depth is a ghost quantity of the models, tied to the code by measuring real frame depths).
    Part 1: Deferred chains (kernel).  Part 2: the inlineCallbacks / coroutine driver (C02.InlineModel). *)
From Coq Require Import List Arith ZArith Bool.
From TwLib Require Import DeferredK DeferredKFacts.
From C02 Require Import Model Proofs Chains InlineModel InlineProofs.
Import ListNotations.

(** for EVERY heap, chain stack and fuel — so for chains of every length and shape, fired in any order, with
    success or failure results, paused or not — the callback loop never holds more than one frame above its own *)
Theorem loop_depth_bounded : forall fx fuel h chain, iter_depth fx fuel h chain <= 1.
Proof. exact iter_depth_le. Qed.
Print Assumptions loop_depth_bounded.

(** every operation of every program (cancel() excluded, see Model.op_depth) reaches frame depth at most 4,
    independent of the number of Deferreds, of how many wait on each other, and of the program length *)
Theorem chain_depth_bounded : forall fx cs ops,
  Forall (fun n => n <= 4) (program_depths fx (cs, ops)).
Proof. intros fx cs ops. apply run_depths_le. Qed.
Print Assumptions chain_depth_bounded.

(** handing a result to a waiting Deferred (_CONTINUE) enters no frame: the Deferred goes on the explicit list *)
Theorem continuation_costs_no_frame : forall h cur rest D c more,
  get h cur = Some D -> paused D = 0%Z -> cbs D = Cont c :: more -> step_calls h (cur :: rest) = 0.
Proof. exact continue_costs_no_frame. Qed.
Print Assumptions continuation_costs_no_frame.

(** for EVERY length n and both outcomes, each of the three chain families (outer fired first, inner fired first,
    innermost pre-fired) ends with the innermost result on Deferred 0, every other Deferred fired, unpaused, without
    callbacks and holding None (induction over n on function-shaped heaps, C02.Chains) *)
Theorem chains_complete : forall n fail,
  chain_done fail (chain_outer fail n) = true
  /\ chain_done fail (chain_inner fail n) = true
  /\ chain_done fail (chain_prefired fail n) = true.
Proof. exact chains_complete_all. Qed.
Print Assumptions chains_complete.

(** what the explicit list buys, for EVERY n: when the innermost Deferred of an outer-first chain of length n fires,
    the chain list grows to n+1 entries and the recursive interpreter (C01's Spec, executable form) nests n deep,
    while the loop holds at most one frame above its own *)
Theorem stack_grows_frames_do_not : forall n,
  iter_stack true (measure (before_last n) [n]) (before_last n) [n] = S n
  /\ loop_depth true (before_last n) n <= 1
  /\ exists h', srun (4 * n + 8) (before_last n) n 0 = Some (h', n).
Proof. exact stack_grows_frames_do_not_all. Qed.
Print Assumptions stack_grows_frames_do_not.

(** ---- Part 2: inlineCallbacks / coroutines ---- *)

(** one _inlineCallbacks invocation whose frame is at depth d never goes deeper than d + 4, whatever the kernel
    state, however many Deferreds the generator / coroutine still awaits and whether they have fired or not *)
Theorem inline_invocation_depth_bounded : forall sty rest s depth, snd (drive sty s rest depth) <= depth + 4.
Proof. exact drive_depth_le. Qed.
Print Assumptions inline_invocation_depth_bounded.

(** every inline program (any number of awaits, pre-fired or not, with results or failures; any sequence of
    environment operations: recorder, firings in any order, repeated firings): the start and every operation stay
    within frame depth 9 = callback -> _startRunCallbacks -> _runCallbacks -> gotResult -> _inlineCallbacks (5) + 4 *)
Theorem inline_depth_bounded : forall p, Forall (fun d => d <= 9) (snd (irun_program p)).
Proof. exact inline_program_depth_le. Qed.
Print Assumptions inline_depth_bounded.

(** exact, for EVERY n, from the start: n already-fired awaits are consumed by the first invocation, the result
    Deferred fires with n, and the deepest frame is start + 3 (6 for a generator, 7 for a coroutine) *)
Theorem inline_prefired_from_start : forall sty n,
  let r := irun_program (sty, ones n, []) in
  snd r = [start_depth sty + 3]
  /\ exists D', get (heap_of (ks (fst r))) n = Some D' /\ called D' = true /\ res D' = Some (VInt (Z.of_nat n)).
Proof. exact prefired_from_start. Qed.
Print Assumptions inline_prefired_from_start.

(** exact, for EVERY n, after a first real suspension (unfired first await, recorder added, first Deferred fired):
    the re-entered invocation consumes the n already-fired awaits at constant depth: frame depths [start+1; 1; 9],
    result n + 1 *)
Theorem inline_prefired_after_suspension : forall sty n,
  let r := irun_program (sty, None :: ones n, [IRec; IFire 0 1]) in
  snd r = [start_depth sty + 1; 1; 9]
  /\ exists D', get (heap_of (ks (fst r))) (S n) = Some D' /\ called D' = true
                /\ res D' = Some (VInt (1 + Z.of_nat n)).
Proof. exact prefired_after_suspension. Qed.
Print Assumptions inline_prefired_after_suspension.

(** the same n awaits driven WITHOUT the waiting list (gotResult re-entering _inlineCallbacks): 4 frames per await *)
Theorem inline_without_waiting_list_depth_grows : forall n,
  snd (drive_naive (iinit (ones n)) (seq 0 n) 3) = 3 + 4 * n + 3.
Proof. exact naive_inline_depth_grows. Qed.
Print Assumptions inline_without_waiting_list_depth_grows.
