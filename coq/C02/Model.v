(** C02: Deferred chaining depth never exhausts the stack.
    Ghost *frame depth* on top of the kernel TwLib.DeferredK: the number of nested Python frames of Deferred
    methods / callbacks that an operation reaches.  The loop body calls a function (the callback, errback or
    pass-through; [pause()] and [_continuation()] in the wait branch) only in a [Pair] step, one frame above the
    _runCallbacks frame; a _CONTINUE step calls nothing — the waiting Deferred goes on the explicit [chain] list,
    not on the Python stack.  [iter_stack] is the ghost length of that list.
    Also: the chain families of the property statement as programs, and an executable recursive interpreter
    [srun] with its nesting depth (what the stack use would be without the explicit list). *)
From Coq Require Import List Arith ZArith Bool.
From TwLib Require Export DeferredK.
Import ListNotations.

(** frames the next loop step enters above the _runCallbacks frame *)
Definition step_calls (h : heap) (chain : list nat) : nat :=
  match chain with
  | [] => 0
  | cur :: _ =>
      match get h cur with
      | None => 0
      | Some D =>
          if negb (Z.eqb (paused D) 0) then 0
          else match cbs D with Pair _ _ _ :: _ => 1 | _ => 0 end
      end
  end.

Fixpoint iter_depth (fx : bool) (fuel : nat) (h : heap) (chain : list nat) {struct fuel} : nat :=
  match step fx h chain with
  | None => 0
  | Some (h', chain', _) =>
      match fuel with
      | O => step_calls h chain
      | S f => Nat.max (step_calls h chain) (iter_depth fx f h' chain')
      end
  end.

(** ghost: the longest the explicit chain list gets *)
Fixpoint iter_stack (fx : bool) (fuel : nat) (h : heap) (chain : list nat) {struct fuel} : nat :=
  match step fx h chain with
  | None => length chain
  | Some (h', chain', _) =>
      match fuel with
      | O => length chain
      | S f => Nat.max (length chain) (iter_stack fx f h' chain')
      end
  end.

Definition loop_depth (fx : bool) (h : heap) (d : nat) : nat := iter_depth fx (measure h [d]) h [d].

(** frame depth reached by one operation (cancel() is outside C02: its forwarding [self.result.cancel()] is a
    genuine recursion; reported as 0 here and excluded in the theorems):
      callback/errback -> _startRunCallbacks -> _runCallbacks -> callback
      addCallback/addErrback/addBoth/addCallbacks -> _runCallbacks -> callback
      unpause -> _runCallbacks -> callback *)
Definition op_depth (fx : bool) (s : state) (o : op) : nat :=
  let h := heap_of s in
  match o with
  | OCallback d _ | OErrback d _ =>
      match get h d with
      | None => 0
      | Some D =>
          if called D then 2
          else 3 + loop_depth fx (upd h d (fun D => set_res (Some (match o with OCallback _ z => VInt z
                                                                          | OErrback _ e => VFail e
                                                                          | _ => VNone end))
                                                       (set_called true D))) d
      end
  | OAdd d cb eb =>
      match get h d with
      | None => 0
      | Some D =>
          if called D
          then 2 + loop_depth fx (upd h d (fun D => set_cbs (cbs D ++ [Pair (next_k s) cb eb]) D)) d
          else 1
      end
  | OPause d => match get h d with None => 0 | Some _ => 1 end
  | OUnpause d =>
      match get h d with
      | None => 0
      | Some D =>
          if Z.eqb (paused D - 1) 0 && called D
          then 2 + loop_depth fx (upd h d (fun D => set_paused (paused D - 1)%Z D)) d
          else 1
      end
  | OCancel _ => 0
  end.

Definition is_cancel (o : op) : bool := match o with OCancel _ => true | _ => false end.

Fixpoint run_depths (fx : bool) (s : state) (ops : list op) : list nat :=
  match ops with
  | [] => []
  | o :: r => op_depth fx s o :: run_depths fx (fst (exec fx s o)) r
  end.

Definition program_depths (fx : bool) (p : program) : list nat := run_depths fx (init (fst p)) (snd p).

(** ---- the chain families: Deferreds 0..n; Deferred i's callback (errback, in the failing variant) returns
    Deferred i+1 ---- *)
Definition link (fail : bool) (i : nat) : op :=
  if fail then OAdd i None (Some (BRet (VDef (S i)))) else OAdd i (Some (BRet (VDef (S i)))) None.
Definition fire_op (fail : bool) (i : nat) : op := if fail then OErrback i 1 else OCallback i 1.

(** outer fired first: 0, 1, ..., n-1 each start waiting on the next; then n fires and the results cascade *)
Definition chain_outer (fail : bool) (n : nat) : program :=
  (repeat CNone (S n), map (link fail) (seq 0 n) ++ map (fire_op fail) (seq 0 n) ++ [fire_op fail n]).
(** inner fired first: n-1, n-2, ..., 0 (each waits on an already waiting one); then n *)
Definition chain_inner (fail : bool) (n : nat) : program :=
  (repeat CNone (S n), map (link fail) (seq 0 n) ++ map (fire_op fail) (rev (seq 0 n)) ++ [fire_op fail n]).
(** innermost already fired: n, n-1, ..., 0: every result is taken on the spot *)
Definition chain_prefired (fail : bool) (n : nat) : program :=
  (repeat CNone (S n), map (link fail) (seq 0 n) ++ [fire_op fail n] ++ map (fire_op fail) (rev (seq 0 n))).

(** all Deferreds of a finished chain hold None except Deferred 0, which holds the innermost result *)
Definition chain_done (fail : bool) (p : program) : bool :=
  let s := fst (run_program true p) in
  match heap_of s with
  | [] => false
  | D0 :: rest =>
      match res D0 with
      | Some (VInt 1) => negb fail
      | Some (VFail 1) => fail
      | _ => false
      end
      && forallb (fun D => called D && Z.eqb (paused D) 0
                           && match cbs D with [] => true | _ => false end
                           && match res D with Some VNone => true | _ => false end) rest
  end.

(** the state just before the innermost Deferred of an outer-first chain of length n fires (already marked fired) *)
Definition before_last (n : nat) : heap :=
  let p := chain_outer false n in
  let s := fst (run true (init (fst p)) (removelast (snd p))) in
  upd (heap_of s) n (fun D => set_res (Some (VInt 1)) (set_called true D)).

(** ---- recursive interpreter with its nesting depth (Spec of C01, executable, fuelled) ---- *)
Fixpoint srun (fuel : nat) (h : heap) (d : nat) (depth : nat) : option (heap * nat) :=
  match fuel with
  | O => None
  | S f =>
      match step true h [d] with
      | None => Some (h, depth)
      | Some (h1, chain1, _) =>
          match chain1 with
          | [] => Some (h1, depth)                          (* paused / finished / waits *)
          | [_] => srun f h1 d depth                        (* a callback ran, go on *)
          | c :: _ =>                                       (* continuation: run c one frame deeper, then go on *)
              match srun f h1 c (S depth) with
              | None => None
              | Some (h2, m) => match srun f h2 d depth with
                                | None => None
                                | Some (h3, m') => Some (h3, Nat.max m m')
                                end
              end
          end
      end
  end.
