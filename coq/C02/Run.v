(** C02: printer used by the correspondence check only: frame depth of every operation, then the final state. *)
From Coq Require Import List Arith ZArith Bool String.
From TwLib Require Import Show DeferredK DeferredKShow.
From C02 Require Import Model InlineModel.
Import ListNotations.
Local Open Scope string_scope.

Definition run_show (p : program) : string :=
  String.concat " " (map show_nat (program_depths true p)) ++ " | "
  ++ String.concat " " (map show_dfr (heap_of (fst (run_program true p)))).

(** inline programs: frame depth of the start and of every environment operation, then called:result:paused of
    every Deferred (the awaited ones, then the result Deferred) *)
Definition show_state3 (D : dfr) : string :=
  show_bool (called D) ++ ":" ++ match res D with None => "-" | Some v => show_value v end ++ ":" ++ show_Z (paused D).

Definition irun_show (p : iprogram) : string :=
  let r := irun_program p in
  String.concat " " (map show_nat (snd r)) ++ " | "
  ++ String.concat " " (map show_state3 (heap_of (ks (fst r)))).

Definition show_case (c : program + iprogram) : string :=
  match c with inl p => run_show p | inr p => irun_show p end.
