(** C02: printer used by the correspondence check only: frame depth of every operation, then the final state. *)
From Coq Require Import List Arith ZArith Bool String.
From TwLib Require Import Show DeferredK DeferredKShow.
From C02 Require Import Model.
Import ListNotations.
Local Open Scope string_scope.

Definition run_show (p : program) : string :=
  String.concat " " (map show_nat (program_depths true p)) ++ " | "
  ++ String.concat " " (map show_dfr (heap_of (fst (run_program true p)))).
