(** C02: the chain families complete with the right results, for EVERY length n (induction over n), and the
    explicit chain list / the nesting of the recursive interpreter grow with n while the loop depth does not.
    Heaps of n+1 Deferreds are written as functions of the index ([hp]). *)
From Coq Require Import List Arith ZArith Bool Lia.
From TwLib Require Import DeferredK DeferredKFacts.
From C02 Require Import Model Proofs.
Import ListNotations.

(** ---- heaps as functions of the index ---- *)
Definition hp (m : nat) (f : nat -> dfr) : heap := map f (seq 0 m).

Lemma hp_length m f : length (hp m f) = m.
Proof. unfold hp. rewrite map_length, seq_length. reflexivity. Qed.

Lemma get_map_seq (f : nat -> dfr) : forall m a i, nth_error (map f (seq a m)) i = if i <? m then Some (f (a + i)) else None.
Proof.
  induction m as [|m IH]; intros a i; cbn [seq map].
  - destruct i; reflexivity.
  - destruct i as [|i]; cbn [nth_error].
    + rewrite Nat.add_0_r. reflexivity.
    + rewrite IH. change (S i <? S m) with (i <? m). rewrite Nat.add_succ_comm. reflexivity.
Qed.

Lemma get_hp m f i : get (hp m f) i = if i <? m then Some (f i) else None.
Proof. unfold get, hp. rewrite get_map_seq. reflexivity. Qed.

Lemma upd_map_seq (f : nat -> dfr) g : forall m a i,
  upd (map f (seq a m)) i g = map (fun j => if j =? a + i then g (f j) else f j) (seq a m).
Proof.
  induction m as [|m IH]; intros a i; cbn [seq map upd]; [destruct i; reflexivity|].
  destruct i as [|i]; cbn [upd].
  - rewrite Nat.add_0_r, Nat.eqb_refl. f_equal. apply map_ext_in. intros j Hj. apply in_seq in Hj.
    rewrite (proj2 (Nat.eqb_neq j a)) by lia. reflexivity.
  - rewrite (proj2 (Nat.eqb_neq a (a + S i))) by lia. f_equal. rewrite IH.
    apply map_ext. intros j. rewrite Nat.add_succ_comm. reflexivity.
Qed.

Lemma upd_hp m f i g : upd (hp m f) i g = hp m (fun j => if j =? i then g (f j) else f j).
Proof. unfold hp. rewrite upd_map_seq. reflexivity. Qed.

Lemma hp_ext m f f' : (forall j, j < m -> f j = f' j) -> hp m f = hp m f'.
Proof. intros E. unfold hp. apply map_ext_in. intros j Hj. apply in_seq in Hj. apply E. lia. Qed.

(** resolve index tests, then compare the records *)
Ltac idx :=
  repeat match goal with
         | |- context [Nat.eqb ?a ?b] => destruct (Nat.eqb_spec a b); try (exfalso; lia); subst
         | |- context [Nat.ltb ?a ?b] => destruct (Nat.ltb_spec a b); try (exfalso; lia)
         | |- context [Nat.leb ?a ?b] => destruct (Nat.leb_spec a b); try (exfalso; lia)
         end.
Create HintDb shapes.
Ltac shape_eq := apply hp_ext; intros ?j ?Hj; cbv beta; autounfold with shapes; idx; try reflexivity.

(** ---- the four kinds of loop step used by the chain families, on an arbitrary heap ---- *)
Lemma step_wait h cur rest D k cb eb more b x X :
  get h cur = Some D -> paused D = 0%Z -> cbs D = Pair k cb eb :: more ->
  (if is_fail (cur_result D) then eb else cb) = Some b -> apply_beh b (cur_result D) = VDef x ->
  get (upd (upd h cur (fun D => set_cbs more (set_chained None D))) cur (set_res (Some (VDef x)))) x = Some X ->
  waiting X = true ->
  step true h (cur :: rest) =
  Some (upd (upd (upd (upd h cur (fun D => set_cbs more (set_chained None D))) cur (set_res (Some (VDef x))))
                 cur (fun D => set_chained (Some x) (set_paused (paused D + 1)%Z D)))
            x (fun X => set_cbs (cbs X ++ [Cont cur]) X),
        rest, [ERun cur k (cur_result D)]).
Proof.
  intros HD HP HC HS HA HX HW. unfold step. rewrite HD, HP, HC. cbn [Z.eqb negb]. rewrite HS, HA, HX, HW. reflexivity.
Qed.

Lemma step_steal h cur rest D k cb eb more b x X :
  get h cur = Some D -> paused D = 0%Z -> cbs D = Pair k cb eb :: more ->
  (if is_fail (cur_result D) then eb else cb) = Some b -> apply_beh b (cur_result D) = VDef x ->
  get (upd (upd h cur (fun D => set_cbs more (set_chained None D))) cur (set_res (Some (VDef x)))) x = Some X ->
  waiting X = false ->
  step true h (cur :: rest) =
  Some (upd (upd (upd (upd h cur (fun D => set_cbs more (set_chained None D))) cur (set_res (Some (VDef x))))
                 x (set_res (Some VNone)))
            cur (set_res (res X)),
        cur :: rest, [ERun cur k (cur_result D)]).
Proof.
  intros HD HP HC HS HA HX HW. unfold step. rewrite HD, HP, HC. cbn [Z.eqb negb]. rewrite HS, HA, HX, HW. reflexivity.
Qed.

Lemma step_cont h cur rest D c more :
  get h cur = Some D -> paused D = 0%Z -> cbs D = Cont c :: more ->
  step true h (cur :: rest) =
  Some (upd (upd (upd (upd h cur (fun D => set_cbs more (set_chained None D))) c (set_res (Some (cur_result D))))
                 cur (set_res (Some VNone)))
            c (fun C => set_paused (paused C - 1)%Z C),
        c :: cur :: rest, []).
Proof. intros HD HP HC. unfold step. rewrite HD, HP, HC. reflexivity. Qed.

Lemma step_done h cur rest D :
  get h cur = Some D -> paused D = 0%Z -> cbs D = [] ->
  step true h (cur :: rest) = Some (upd h cur (set_chained None), rest, []).
Proof. intros HD HP HC. unfold step. rewrite HD, HP, HC. reflexivity. Qed.

(** side conditions about a function-shaped heap *)
Ltac sc := rewrite ?upd_hp, ?get_hp; cbv beta; autounfold with shapes; idx; try reflexivity.

(** ---- composing loop steps ---- *)
Lemma iter_step fx f h ch h1 ch1 evs h2 l :
  step fx h ch = Some (h1, ch1, evs) -> iter fx f h1 ch1 = Some (h2, l) -> iter fx (S f) h ch = Some (h2, evs ++ l).
Proof. intros S I. cbn [iter]. rewrite S, I. reflexivity. Qed.

Lemma iter_nil fx f h : iter fx f h [] = Some (h, []).
Proof. destruct f; reflexivity. Qed.

Definition run_state (s : state) (ops : list op) : state := fst (run true s ops).

Lemma run_state_cons s o r : run_state s (o :: r) = run_state (fst (exec true s o)) r.
Proof.
  unfold run_state. cbn [run]. destruct (exec true s o) as [s1 l]. cbn [fst]. destruct (run true s1 r). reflexivity.
Qed.

Lemma run_state_app s a : forall b, run_state s (a ++ b) = run_state (run_state s a) b.
Proof.
  revert s. induction a as [|o r IH]; intros s b; [reflexivity|].
  cbn [app]. rewrite !run_state_cons. apply IH.
Qed.

Lemma run_state_nil s : run_state s [] = s.
Proof. reflexivity. Qed.

(** firing an unfired Deferred whose callback loop is known (any fuel) *)
Lemma fire_eval h d D v f h2 l :
  get h d = Some D -> called D = false ->
  iter true f (upd h d (fun D => set_res (Some v) (set_called true D))) [d] = Some (h2, l) ->
  fst (fire true h d v ByUser) = h2.
Proof.
  intros HD HC I. unfold fire. rewrite HD, HC.
  rewrite (runCallbacks_any_fuel _ _ _ _ _ I). reflexivity.
Qed.

Section Families.
  Variables (n : nat) (fail : bool).
  Let m := S n.

  Definition lcb (i : nat) : option beh := if fail then None else Some (BRet (VDef (S i))).
  Definition leb (i : nat) : option beh := if fail then Some (BRet (VDef (S i))) else None.
  Definition lk (i : nat) : entry := Pair i (lcb i) (leb i).
  Definition fv : value := if fail then VFail 1 else VInt 1.

  Lemma link_eq i : link fail i = OAdd i (lcb i) (leb i).
  Proof. unfold link, lcb, leb. destruct fail; reflexivity. Qed.

  Lemma exec_fire_op s i :
    fst (exec true s (fire_op fail i)) = mkS (fst (fire true (heap_of s) i fv ByUser)) (next_k s).
  Proof.
    unfold fire_op, fv. destruct fail; cbn [exec]; destruct (fire true (heap_of s) i _ ByUser); reflexivity.
  Qed.

  Lemma side_sel i : (if is_fail fv then leb i else lcb i) = Some (BRet (VDef (S i))).
  Proof. unfold fv, leb, lcb. destruct fail; reflexivity. Qed.

  Lemma fv_plain : match fv with VDef _ => False | _ => True end.
  Proof. unfold fv. destruct fail; exact I. Qed.

  Definition cont_of (j : nat) : list entry := match j with O => [] | S p => [Cont p] end.
  Definition Dun (l : list entry) : dfr := mkD l None false 0%Z None false CNone.
  Definition Dwait (i : nat) : dfr := mkD (cont_of i) (Some (VDef (S i))) true 1%Z (Some (S i)) false CNone.
  Definition Dfin (v : value) : dfr := mkD [] (Some v) true 0%Z None false CNone.

  (** after k links *)
  Definition F1 (k j : nat) : dfr := if j <? k then Dun [lk j] else Dun [].
  Hint Unfold F1 : shapes.

  Lemma init_hp : heap_of (init (repeat CNone m)) = hp m (F1 0).
  Proof.
    cbn [init heap_of]. unfold hp. rewrite <- (seq_length m 0) at 1.
    generalize (seq 0 m). intros l. induction l as [|a l IH]; [reflexivity|].
    cbn [length repeat map]. rewrite IH. reflexivity.
  Qed.

  Lemma links_phase k : k <= n ->
    run_state (init (repeat CNone m)) (map (link fail) (seq 0 k)) = mkS (hp m (F1 k)) k.
  Proof.
    induction k as [|k IH]; intros Hk.
    - cbn [seq map]. rewrite run_state_nil. unfold init. f_equal. apply init_hp.
    - rewrite seq_S, map_app, run_state_app, IH by lia. cbn [map Nat.add]. rewrite run_state_cons, run_state_nil.
      rewrite link_eq. cbn [exec heap_of next_k]. rewrite get_hp.
      destruct (Nat.ltb_spec k m); [|exfalso; unfold m in *; lia].
      unfold F1 at 1. destruct (Nat.ltb_spec k k); [exfalso; lia|]. cbn [called Dun fst].
      f_equal. rewrite upd_hp. unfold m. shape_eq.
  Qed.

  (** ---- outer fired first: after firing 0..k-1 ---- *)
  Definition F2 (k j : nat) : dfr :=
    if j <? k then Dwait j
    else Dun ((if j <? n then [lk j] else []) ++ (if j =? k then cont_of j else [])).
  Hint Unfold F2 : shapes.

  Lemma F1_F2 : hp m (F1 n) = hp m (F2 0).
  Proof. unfold m. shape_eq. Qed.

  Lemma outer_fire k : k < n -> fst (fire true (hp m (F2 k)) k fv ByUser) = hp m (F2 (S k)).
  Proof.
    intros Hk.
    assert (ST : step true (upd (hp m (F2 k)) k (fun D => set_res (Some fv) (set_called true D))) [k]
                 = Some (hp m (F2 (S k)), [], [ERun k k fv])).
    { rewrite upd_hp.
      erewrite (step_wait _ k [] (mkD ([lk k] ++ cont_of k) (Some fv) true 0%Z None false CNone)
                          k (lcb k) (leb k) (cont_of k) (BRet (VDef (S k))) (S k)
                          (Dun ((if S k <? n then [lk (S k)] else []) ++ []))).
      - f_equal. f_equal. f_equal. rewrite !upd_hp. unfold m. shape_eq.
      - unfold m. sc.
      - reflexivity.
      - reflexivity.
      - apply side_sel.
      - reflexivity.
      - unfold m. sc.
      - reflexivity. }
    eapply fire_eval with (f := 1).
    - rewrite get_hp. unfold m. idx. reflexivity.
    - unfold F2. idx. reflexivity.
    - eapply iter_step; [exact ST | apply iter_nil].
  Qed.

  Lemma outer_phase k : k <= n ->
    run_state (mkS (hp m (F2 0)) n) (map (fire_op fail) (seq 0 k)) = mkS (hp m (F2 k)) n.
  Proof.
    induction k as [|k IH]; intros Hk; [reflexivity|].
    rewrite seq_S, map_app, run_state_app, IH by lia. cbn [map Nat.add].
    rewrite run_state_cons, run_state_nil, exec_fire_op. cbn [heap_of next_k]. rewrite outer_fire by lia. reflexivity.
  Qed.

  (** ---- the cascade: Deferred j holds the value v and hands it down to j-1, ..., 0 ---- *)
  Definition C (j : nat) (ch : option nat) (v : value) (i : nat) : dfr :=
    if i <? j then Dwait i
    else if i =? j then mkD (cont_of j) (Some v) true 0%Z ch false CNone
    else Dfin VNone.
  Definition Fin (v : value) (i : nat) : dfr := if i =? 0 then Dfin v else Dfin VNone.
  Hint Unfold C Fin : shapes.

  Lemma iter_stack_step fx f h ch h1 ch1 evs :
    step fx h ch = Some (h1, ch1, evs) ->
    iter_stack fx (S f) h ch = Nat.max (length ch) (iter_stack fx f h1 ch1).
  Proof. intros S. cbn [iter_stack]. rewrite S. reflexivity. Qed.

  Lemma pops v len : forall a, a + len <= m ->
    iter true len (hp m (Fin v)) (seq a len) = Some (hp m (Fin v), [])
    /\ iter_stack true len (hp m (Fin v)) (seq a len) = len.
  Proof.
    induction len as [|len IH]; intros a Ha; [split; reflexivity|].
    assert (ST : step true (hp m (Fin v)) (seq a (S len)) = Some (hp m (Fin v), seq (S a) len, [])).
    { cbn [seq]. erewrite (step_done _ a _ (Fin v a)).
      - f_equal. f_equal. f_equal. rewrite upd_hp. unfold m. shape_eq.
      - unfold m in *. sc.
      - unfold Fin. idx; reflexivity.
      - unfold Fin. idx; reflexivity. }
    destruct (IH (S a)) as [I K]; [lia|]. split.
    - change (@nil ev) with (@nil ev ++ []). eapply iter_step; eauto.
    - rewrite (iter_stack_step _ _ _ _ _ _ _ ST), K, seq_length. lia.
  Qed.

  Lemma cascade v : forall j ch, j <= n ->
    exists f, iter true f (hp m (C j ch v)) (seq j (m - j)) = Some (hp m (Fin v), [])
              /\ iter_stack true f (hp m (C j ch v)) (seq j (m - j)) = m.
  Proof.
    induction j as [|p IH]; intros ch Hj.
    - rewrite Nat.sub_0_r. unfold m at 2 4. cbn [seq].
      assert (ST : step true (hp m (C 0 ch v)) (0 :: seq 1 n) = Some (hp m (Fin v), seq 1 n, [])).
      { erewrite (step_done _ 0 _ (C 0 ch v 0)).
        - f_equal. f_equal. f_equal. rewrite upd_hp. unfold m. shape_eq.
        - unfold m. sc.
        - reflexivity.
        - reflexivity. }
      destruct (pops v n 1) as [I K]; [unfold m; lia|].
      exists (S n). split.
      + change (@nil ev) with (@nil ev ++ []). eapply iter_step; eauto.
      + rewrite (iter_stack_step _ _ _ _ _ _ _ ST), K. cbn [length]. rewrite seq_length. unfold m. lia.
    - assert (E1 : m - S p = S (m - S (S p))) by (unfold m; lia).
      assert (E2 : m - p = S (m - S p)) by (unfold m; lia).
      assert (ST : step true (hp m (C (S p) ch v)) (seq (S p) (m - S p))
                   = Some (hp m (C p (Some (S p)) v), seq p (m - p), [])).
      { rewrite E2, E1. cbn [seq].
        erewrite (step_cont _ (S p) _ (C (S p) ch v (S p)) p []).
        - f_equal. f_equal. f_equal. rewrite !upd_hp. unfold m. shape_eq.
        - unfold m. sc.
        - unfold C. idx; reflexivity.
        - unfold C. idx; reflexivity. }
      destruct (IH (Some (S p))) as [f [I K]]; [lia|].
      exists (S f). split.
      + change (@nil ev) with (@nil ev ++ []). eapply iter_step; eauto.
      + rewrite (iter_stack_step _ _ _ _ _ _ _ ST), K, seq_length. unfold m. lia.
  Qed.

  (** firing the innermost Deferred once 0..n-1 all wait: the results cascade down to Deferred 0 *)
  Lemma last_fire : fst (fire true (hp m (F2 n)) n fv ByUser) = hp m (Fin fv).
  Proof.
    destruct (cascade fv n None (le_n n)) as [f [I _]].
    eapply fire_eval with (f := f).
    - rewrite get_hp. unfold m. idx. reflexivity.
    - unfold F2. idx; reflexivity.
    - replace (upd (hp m (F2 n)) n (fun D => set_res (Some fv) (set_called true D))) with (hp m (C n None fv)).
      + replace [n] with (seq n (m - n)); [exact I|]. replace (m - n) with 1 by (unfold m; lia). reflexivity.
      + rewrite upd_hp. unfold m. shape_eq.
  Qed.

  Lemma chain_outer_final : heap_of (fst (run_program true (chain_outer fail n))) = hp m (Fin fv).
  Proof.
    unfold run_program, chain_outer. cbn [fst snd]. change (fst (run true ?s ?o)) with (run_state s o).
    rewrite !run_state_app. fold m. rewrite (links_phase n (le_n n)), F1_F2, (outer_phase n (le_n n)).
    rewrite run_state_cons, run_state_nil, exec_fire_op. cbn [heap_of next_k]. apply last_fire.
  Qed.

  Lemma done_of_final p : heap_of (fst (run_program true p)) = hp m (Fin fv) -> chain_done fail p = true.
  Proof.
    intros E. unfold chain_done. rewrite E. unfold hp, m. cbn [seq map]. apply andb_true_intro. split.
    - unfold Fin, fv. cbn. destruct fail; reflexivity.
    - apply forallb_forall. intros D HD. apply in_map_iff in HD. destruct HD as [j [<- Hj]].
      apply in_seq in Hj. unfold Fin. destruct (Nat.eqb_spec j 0); [lia|]. reflexivity.
  Qed.

  (** ---- inner fired first: Deferreds a..n-1 have fired (each waits on the next) ---- *)
  Definition G (a j : nat) : dfr :=
    if (a <=? j) && (j <? n)
    then mkD (if j =? a then [] else cont_of j) (Some (VDef (S j))) true 1%Z (Some (S j)) false CNone
    else if j =? n then Dun (if a <? n then cont_of n else [])
    else Dun [lk j].
  Hint Unfold G : shapes.

  Lemma F1_G : hp m (F1 n) = hp m (G n).
  Proof. unfold m. shape_eq. Qed.

  Lemma G_F2 : hp m (G 0) = hp m (F2 n).
  Proof. unfold m. shape_eq. Qed.

  Lemma inner_fire a : a < n -> fst (fire true (hp m (G (S a))) a fv ByUser) = hp m (G a).
  Proof.
    intros Ha.
    assert (ST : step true (upd (hp m (G (S a))) a (fun D => set_res (Some fv) (set_called true D))) [a]
                 = Some (hp m (G a), [], [ERun a a fv])).
    { rewrite upd_hp.
      erewrite (step_wait _ a [] (mkD [lk a] (Some fv) true 0%Z None false CNone)
                          a (lcb a) (leb a) [] (BRet (VDef (S a))) (S a) (G (S a) (S a))).
      - f_equal. f_equal. f_equal. rewrite !upd_hp. unfold m. shape_eq.
      - unfold m. sc.
      - reflexivity.
      - reflexivity.
      - apply side_sel.
      - reflexivity.
      - unfold m. sc.
      - unfold G. idx; reflexivity. }
    eapply fire_eval with (f := 1).
    - rewrite get_hp. unfold m. idx. reflexivity.
    - unfold G. idx; reflexivity.
    - eapply iter_step; [exact ST | apply iter_nil].
  Qed.

  Lemma rev_seq_S a : rev (seq 0 (S a)) = a :: rev (seq 0 a).
  Proof. rewrite seq_S, rev_app_distr. reflexivity. Qed.

  Lemma inner_phase a : a <= n ->
    run_state (mkS (hp m (G a)) n) (map (fire_op fail) (rev (seq 0 a))) = mkS (hp m (G 0)) n.
  Proof.
    induction a as [|a IH]; intros Ha; [reflexivity|].
    rewrite rev_seq_S. cbn [map]. rewrite run_state_cons, exec_fire_op. cbn [heap_of next_k].
    rewrite inner_fire by lia. apply IH. lia.
  Qed.

  Lemma chain_inner_final : heap_of (fst (run_program true (chain_inner fail n))) = hp m (Fin fv).
  Proof.
    unfold run_program, chain_inner. cbn [fst snd]. change (fst (run true ?s ?o)) with (run_state s o).
    rewrite !run_state_app. fold m. rewrite (links_phase n (le_n n)), F1_G, (inner_phase n (le_n n)), G_F2.
    rewrite run_state_cons, run_state_nil, exec_fire_op. cbn [heap_of next_k]. apply last_fire.
  Qed.

  (** ---- innermost pre-fired: Deferred a holds the value, a+1..n are finished ---- *)
  Definition P (a j : nat) : dfr :=
    if j <? a then Dun [lk j] else if j =? a then Dfin fv else Dfin VNone.
  Hint Unfold P : shapes.

  Lemma waiting_holder : waiting (Dfin fv) = false.
  Proof. unfold fv. destruct fail; reflexivity. Qed.

  Lemma prefired_first : fst (fire true (hp m (F1 n)) n fv ByUser) = hp m (P n).
  Proof.
    assert (ST : step true (upd (hp m (F1 n)) n (fun D => set_res (Some fv) (set_called true D))) [n]
                 = Some (hp m (P n), [], [])).
    { rewrite upd_hp. erewrite (step_done _ n [] (Dfin fv)).
      - f_equal. f_equal. f_equal. rewrite !upd_hp. unfold m. shape_eq.
      - unfold m. sc.
      - reflexivity.
      - reflexivity. }
    eapply fire_eval with (f := 1).
    - rewrite get_hp. unfold m. idx. reflexivity.
    - unfold F1. idx; reflexivity.
    - change (@nil ev) with (@nil ev ++ []). eapply iter_step; [exact ST | apply iter_nil].
  Qed.

  Lemma prefired_fire a : a < n -> fst (fire true (hp m (P (S a))) a fv ByUser) = hp m (P a).
  Proof.
    intros Ha.
    assert (ST1 : step true (upd (hp m (P (S a))) a (fun D => set_res (Some fv) (set_called true D))) [a]
                  = Some (hp m (P a), [a], [ERun a a fv])).
    { rewrite upd_hp.
      erewrite (step_steal _ a [] (mkD [lk a] (Some fv) true 0%Z None false CNone)
                           a (lcb a) (leb a) [] (BRet (VDef (S a))) (S a) (Dfin fv)).
      - f_equal. f_equal. f_equal. rewrite !upd_hp. unfold m. shape_eq.
      - unfold m. sc.
      - reflexivity.
      - reflexivity.
      - apply side_sel.
      - reflexivity.
      - unfold m. sc.
      - apply waiting_holder. }
    assert (ST2 : step true (hp m (P a)) [a] = Some (hp m (P a), [], [])).
    { erewrite (step_done _ a [] (Dfin fv)).
      - f_equal. f_equal. f_equal. rewrite upd_hp. unfold m. shape_eq.
      - unfold m. sc.
      - reflexivity.
      - reflexivity. }
    eapply fire_eval with (f := 2).
    - rewrite get_hp. unfold m. idx. reflexivity.
    - unfold P. idx; reflexivity.
    - eapply iter_step; [exact ST1|]. change (@nil ev) with (@nil ev ++ []). eapply iter_step; [exact ST2 | apply iter_nil].
  Qed.

  Lemma prefired_phase a : a <= n ->
    run_state (mkS (hp m (P a)) n) (map (fire_op fail) (rev (seq 0 a))) = mkS (hp m (P 0)) n.
  Proof.
    induction a as [|a IH]; intros Ha; [reflexivity|].
    rewrite rev_seq_S. cbn [map]. rewrite run_state_cons, exec_fire_op. cbn [heap_of next_k].
    rewrite prefired_fire by lia. apply IH. lia.
  Qed.

  Lemma P_Fin : hp m (P 0) = hp m (Fin fv).
  Proof. unfold m. shape_eq. Qed.

  Lemma chain_prefired_final : heap_of (fst (run_program true (chain_prefired fail n))) = hp m (Fin fv).
  Proof.
    unfold run_program, chain_prefired. cbn [fst snd]. change (fst (run true ?s ?o)) with (run_state s o).
    rewrite !run_state_app. fold m. rewrite (links_phase n (le_n n)).
    rewrite run_state_cons, run_state_nil, exec_fire_op. cbn [heap_of next_k]. rewrite prefired_first.
    rewrite (prefired_phase n (le_n n)). cbn [heap_of]. apply P_Fin.
  Qed.
  (** ---- what the explicit list buys: list length and recursive nesting grow with n ---- *)
  Lemma step_C_succ p ch v rest : S p <= n ->
    step true (hp m (C (S p) ch v)) (S p :: rest) = Some (hp m (C p (Some (S p)) v), p :: S p :: rest, []).
  Proof.
    intros Hp. erewrite (step_cont _ (S p) _ (C (S p) ch v (S p)) p []).
    - f_equal. f_equal. f_equal. rewrite !upd_hp. unfold m. shape_eq.
    - unfold m. sc.
    - unfold C. idx; reflexivity.
    - unfold C. idx; reflexivity.
  Qed.

  Lemma step_C_zero ch v rest :
    step true (hp m (C 0 ch v)) (0 :: rest) = Some (hp m (Fin v), rest, []).
  Proof.
    erewrite (step_done _ 0 _ (C 0 ch v 0)).
    - f_equal. f_equal. f_equal. rewrite upd_hp. unfold m. shape_eq.
    - unfold m. sc.
    - reflexivity.
    - reflexivity.
  Qed.

  Lemma step_Fin v a rest : a <= n ->
    step true (hp m (Fin v)) (a :: rest) = Some (hp m (Fin v), rest, []).
  Proof.
    intros Ha. erewrite (step_done _ a _ (Fin v a)).
    - f_equal. f_equal. f_equal. rewrite upd_hp. unfold m. shape_eq.
    - unfold m. sc.
    - unfold Fin. idx; reflexivity.
    - unfold Fin. idx; reflexivity.
  Qed.

  Lemma srun_cascade v : forall j ch depth f, j <= n -> 2 * j + 2 <= f ->
    srun f (hp m (C j ch v)) j depth = Some (hp m (Fin v), depth + j).
  Proof.
    induction j as [|p IH]; intros ch depth f Hj Hf.
    - destruct f as [|f]; [lia|]. cbn [srun]. rewrite step_C_zero. rewrite Nat.add_0_r. reflexivity.
    - destruct f as [|f]; [lia|]. cbn [srun]. rewrite step_C_succ by lia.
      rewrite (IH (Some (S p)) (S depth) f) by lia.
      destruct f as [|f]; [lia|]. cbn [srun]. rewrite step_Fin by lia.
      f_equal. f_equal. lia.
  Qed.

  Lemma iter_stack_stable fx f : forall h ch r f',
    iter fx f h ch = Some r -> f <= f' -> iter_stack fx f' h ch = iter_stack fx f h ch.
  Proof.
    induction f as [|f IH]; intros h ch r f' H Hle.
    - cbn [iter] in H. destruct (step fx h ch) as [[[h1 ch1] evs]|] eqn:S; [discriminate|].
      destruct f'; cbn [iter_stack]; rewrite S; reflexivity.
    - destruct f' as [|f']; [lia|]. cbn [iter iter_stack] in *.
      destruct (step fx h ch) as [[[h1 ch1] evs]|] eqn:S; [|reflexivity].
      destruct (iter fx f h1 ch1) as [[h2 l2]|] eqn:I; [|discriminate].
      rewrite (IH _ _ _ f' I) by lia. reflexivity.
  Qed.

  Lemma before_last_shape :
    upd (heap_of (run_state (init (repeat CNone m))
                            (removelast (map (link fail) (seq 0 n) ++ map (fire_op fail) (seq 0 n) ++ [fire_op fail n]))))
        n (fun D => set_res (Some fv) (set_called true D))
    = hp m (C n None fv).
  Proof.
    rewrite app_assoc, removelast_last, run_state_app.
    rewrite (links_phase n (le_n n)), F1_F2, (outer_phase n (le_n n)). cbn [heap_of].
    rewrite upd_hp. unfold m. shape_eq.
  Qed.

  Lemma cascade_stack_and_nesting :
    let h := hp m (C n None fv) in
    iter_stack true (measure h [n]) h [n] = S n
    /\ srun (4 * n + 8) h n 0 = Some (hp m (Fin fv), n).
  Proof.
    intros h. subst h. set (h := hp m (C n None fv)). split.
    - destruct (cascade fv n None (le_n n)) as [f [I K]]. fold h in I, K.
      replace (seq n (m - n)) with [n] in I, K by (replace (m - n) with 1 by (unfold m; lia); reflexivity).
      pose proof (runCallbacks_iter true h n) as R.
      rewrite <- (iter_stack_stable _ _ _ _ _ (Nat.max f (measure h [n])) R) by lia.
      rewrite (iter_stack_stable _ _ _ _ _ (Nat.max f (measure h [n])) I) by lia. exact K.
    - apply (srun_cascade fv n None 0); lia.
  Qed.
End Families.

(** ---- the statements for every n ---- *)
Theorem chains_complete_all n fail :
  chain_done fail (chain_outer fail n) = true
  /\ chain_done fail (chain_inner fail n) = true
  /\ chain_done fail (chain_prefired fail n) = true.
Proof.
  repeat split; apply (done_of_final n);
    [apply chain_outer_final | apply chain_inner_final | apply chain_prefired_final].
Qed.

Theorem stack_grows_frames_do_not_all n :
  iter_stack true (measure (before_last n) [n]) (before_last n) [n] = S n
  /\ loop_depth true (before_last n) n <= 1
  /\ exists h', srun (4 * n + 8) (before_last n) n 0 = Some (h', n).
Proof.
  assert (E : before_last n = hp (S n) (C n None (VInt 1))).
  { unfold before_last, chain_outer. cbn [fst snd]. change (fst (run true ?s ?o)) with (run_state s o).
    apply (before_last_shape n false). }
  rewrite E. destruct (cascade_stack_and_nesting n false) as [A B]. cbn zeta in A, B. unfold fv in A, B.
  split; [exact A|]. split; [apply Proofs.loop_depth_le|]. eexists. exact B.
Qed.

