(** C02: the inlineCallbacks / coroutine driver of defer.py over the Deferred kernel, with the ghost frame depth.
    Transcribed: [_inlineCallbacks] (defer.py:1968) with its [waiting] two-cell list and
    [_gotResultInlineCallbacks] (1944): a Deferred yielded by the generator gets [addBoth(gotResult)]; if it has
    already fired the callback runs *inside that addBoth call*, finds [waiting[0]] still True and only stores the
    result, and the [while 1:] loop goes on in the same frame; otherwise the invocation marks [waiting[0] = False],
    records [status.waitingOn] and returns, and the gotResult call that comes with the firing re-enters
    [_inlineCallbacks] one frame above itself.  [Deferred.__await__] (1176) for coroutines: a Deferred that has a
    result and is not paused is consumed inside the coroutine without reaching the driver at all.

    World modelled: ONE generator / coroutine whose body is
        total = 0;  for d in awaits: try: total += (yield|await) d  except E: total += 1000;  return total
    over distinct Deferreds that carry no other callbacks, a result Deferred R (= status.deferred) that may get a
    pass-through recorder callback, and the environment operations "add the recorder" and "fire an awaited
    Deferred".  The gotResult entry is the kernel pair (return None, return None); that it ran is read off the
    kernel's event log, which is exact because the awaited Deferreds are distinct and carry nothing else
    (the nested driver never touches the Deferred whose callback is running). *)
From Coq Require Import List Arith ZArith Bool.
From TwLib Require Export DeferredK.
From C02 Require Export Model.
Import ListNotations.

Inductive style := SGen | SCoro.

Record ist := mkI {
  ks : state;                              (* the Deferred kernel *)
  total : Z;                               (* the generator's accumulator *)
  resD : nat;                              (* status.deferred *)
  wait : option (nat * nat * list nat);    (* suspended on Deferred x through entry k; awaits still to come *)
  fin : bool }.                            (* the generator has returned *)

Definition set_ks k s := mkI k (total s) (resD s) (wait s) (fin s).
Definition set_total t s := mkI (ks s) t (resD s) (wait s) (fin s).
Definition set_wait w s := mkI (ks s) (total s) (resD s) w (fin s).
Definition set_fin b s := mkI (ks s) (total s) (resD s) (wait s) b.

(** what the body does with the outcome of an await *)
Definition feed (v : value) (t : Z) : Z :=
  match v with VInt z => (t + z)%Z | VFail _ => (t + 1000)%Z | _ => t end.

Definition got : option beh := Some (BRet VNone).     (* _gotResultInlineCallbacks returns None *)

(** did entry k of Deferred x run during these events, and with which argument *)
Fixpoint ran (x k : nat) (l : list ev) : option value :=
  match l with
  | [] => None
  | ERun d j a :: r => if Nat.eqb d x && Nat.eqb j k then Some a else ran x k r
  | _ :: r => ran x k r
  end.

(** Deferred.__await__: a result is there and the Deferred is not paused *)
Definition ready (h : heap) (x : nat) : option value :=
  match get h x with
  | Some D => if Z.eqb (paused D) 0 then res D else None
  | None => None
  end.

Definition coro_frame (sty : style) (depth : nat) : nat :=
  match sty with SCoro => depth + 1 | SGen => 0 end.

(** the [while 1:] loop of one _inlineCallbacks invocation whose own frame is at [depth]; the generator is about
    to await the Deferreds [rest].  Returns the new state and the deepest frame reached.  The recursion is on the
    list of awaits and stays AT THE SAME DEPTH: this is the unrolling the [waiting] list achieves. *)
Fixpoint drive (sty : style) (s : ist) (rest : list nat) (depth : nat) : ist * nat :=
  match rest with
  | [] =>
      (* StopIteration: status.deferred.callback(total) *)
      let o := OCallback (resD s) (total s) in
      (set_fin true (set_ks (fst (exec true (ks s) o)) s), depth + op_depth true (ks s) o)
  | x :: rest' =>
      match (match sty with SCoro => ready (heap_of (ks s)) x | SGen => None end) with
      | Some v =>
          let '(s', m) := drive sty (set_total (feed v (total s)) s) rest' depth in
          (s', Nat.max (depth + 1) m)
      | None =>
          let k := next_k (ks s) in
          let o := OAdd x got got in                                 (* result.addBoth(_gotResult..., waiting, ...) *)
          let '(ks', evs) := exec true (ks s) o in
          let here := Nat.max (coro_frame sty depth) (depth + op_depth true (ks s) o) in
          match ran x k evs with
          | Some a =>                                                (* waiting[0] was still True: result = waiting[1] *)
              let '(s', m) := drive sty (set_total (feed a (total s)) (set_ks ks' s)) rest' depth in
              (s', Nat.max here m)
          | None =>                                                  (* waiting[0] = False; status.waitingOn = result; return *)
              (set_wait (Some (x, k, rest')) (set_ks ks' s), here)
          end
      end
  end.

(** the same driver WITHOUT the waiting list: an already-fired await re-enters _inlineCallbacks from inside
    gotResult (addBoth -> _runCallbacks -> gotResult -> _inlineCallbacks: four frames per await) *)
Fixpoint drive_naive (s : ist) (rest : list nat) (depth : nat) : ist * nat :=
  match rest with
  | [] =>
      let o := OCallback (resD s) (total s) in
      (set_fin true (set_ks (fst (exec true (ks s) o)) s), depth + op_depth true (ks s) o)
  | x :: rest' =>
      let k := next_k (ks s) in
      let o := OAdd x got got in
      let '(ks', evs) := exec true (ks s) o in
      let here := depth + op_depth true (ks s) o in
      match ran x k evs with
      | Some a =>
          let '(s', m) := drive_naive (set_total (feed a (total s)) (set_ks ks' s)) rest' (depth + 4) in
          (s', Nat.max here m)
      | None => (set_wait (Some (x, k, rest')) (set_ks ks' s), here)
      end
  end.

(** environment operations after the start *)
Inductive iop :=
| IRec                          (* R.addBoth(recorder) *)
| IFire (x : nat) (z : Z)       (* x.callback(z) *)
| IFail (x : nat) (e : Z).      (* x.errback(E_e()) *)

(** frames below the first _inlineCallbacks invocation:
    generator: unwindGenerator -> _cancellableInlineCallbacks -> _inlineCallbacks;
    coroutine: ensureDeferred -> Deferred.fromCoroutine -> _cancellableInlineCallbacks -> _inlineCallbacks *)
Definition start_depth (sty : style) : nat := match sty with SGen => 3 | SCoro => 4 end.

Definition istart (sty : style) (s : ist) (awaits : list nat) : ist * nat :=
  let '(s', m) := drive sty s awaits (start_depth sty) in (s', Nat.max (start_depth sty) m).

Definition iexec (sty : style) (s : ist) (o : iop) : ist * nat :=
  match o with
  | IRec =>
      let k := OAdd (resD s) (Some BPass) (Some BPass) in
      (set_ks (fst (exec true (ks s) k)) s, op_depth true (ks s) k)
  | IFire _ _ | IFail _ _ =>
      let k := match o with IFire x z => OCallback x z | IFail x e => OErrback x e | IRec => OPause 0 end in
      let '(ks', evs) := exec true (ks s) k in
      let d0 := op_depth true (ks s) k in
      match wait s with
      | Some (x, j, rest') =>
          match ran x j evs with
          | Some a =>
              (* callback -> _startRunCallbacks -> _runCallbacks -> gotResult (4) -> _inlineCallbacks (5) *)
              let s1 := set_wait None (set_total (feed a (total s)) (set_ks ks' s)) in
              let '(s2, m) := drive sty s1 rest' 5 in
              (s2, Nat.max d0 (Nat.max (Nat.max 5 (coro_frame sty 5)) m))
          | None => (set_ks ks' s, d0)
          end
      | None => (set_ks ks' s, d0)
      end
  end.

Fixpoint irun (sty : style) (s : ist) (ops : list iop) : ist * list nat :=
  match ops with
  | [] => (s, [])
  | o :: r => let '(s1, d) := iexec sty s o in let '(s2, ds) := irun sty s1 r in (s2, d :: ds)
  end.

(** an inline program: style; the awaited Deferreds 0..n-1, each pre-fired with a result or unfired; the
    environment operations.  The result Deferred is number n. *)
Definition iprogram := (style * list (option value) * list iop)%type.

Definition mk_awaited (o : option value) : dfr :=
  match o with
  | Some v => mkD [] (Some v) true 0%Z None false CNone       (* succeed(v) / fail(e) *)
  | None => new_dfr CNone
  end.

Definition iinit (aw : list (option value)) : ist :=
  mkI (mkS (map mk_awaited aw ++ [new_dfr CNothing]) 0) 0%Z (length aw) None false.

Definition irun_program (p : iprogram) : ist * list nat :=
  let '(sty, aw, ops) := p in
  let '(s1, d) := istart sty (iinit aw) (seq 0 (length aw)) in
  let '(s2, ds) := irun sty s1 ops in (s2, d :: ds).
