(** C02 proofs. *)
From Coq Require Import List Arith ZArith Bool Lia.
From TwLib Require Import DeferredK DeferredKFacts.
From C02 Require Import Model.
Import ListNotations.

Lemma step_calls_le h ch : step_calls h ch <= 1.
Proof.
  unfold step_calls. destruct ch as [|c r]; [lia|]. destruct (get h c) as [D|]; [|lia].
  destruct (negb (paused D =? 0)%Z); [lia|]. destruct (cbs D) as [|[k cb eb|c'] m]; lia.
Qed.

Lemma iter_depth_le fx fuel : forall h ch, iter_depth fx fuel h ch <= 1.
Proof.
  induction fuel as [|f IH]; intros h ch; cbn [iter_depth];
    destruct (step fx h ch) as [[[h1 ch1] evs]|]; try lia.
  - apply step_calls_le.
  - pose proof (step_calls_le h ch). specialize (IH h1 ch1). lia.
Qed.

Lemma loop_depth_le fx h d : loop_depth fx h d <= 1.
Proof. apply iter_depth_le. Qed.

Lemma op_depth_le fx s o : op_depth fx s o <= 4.
Proof.
  unfold op_depth. destruct o as [d cb eb|d z|d e|d|d|d]; try lia;
    destruct (get (heap_of s) d) as [D|]; try lia.
  - destruct (called D); [|lia]. match goal with |- context [loop_depth ?a ?b ?c] => pose proof (loop_depth_le a b c) end. lia.
  - destruct (called D); [lia|]. match goal with |- context [loop_depth ?a ?b ?c] => pose proof (loop_depth_le a b c) end. lia.
  - destruct (called D); [lia|]. match goal with |- context [loop_depth ?a ?b ?c] => pose proof (loop_depth_le a b c) end. lia.
  - destruct ((paused D - 1 =? 0)%Z && called D); [|lia].
    match goal with |- context [loop_depth ?a ?b ?c] => pose proof (loop_depth_le a b c) end. lia.
Qed.

Lemma run_depths_le fx ops : forall s, Forall (fun n => n <= 4) (run_depths fx s ops).
Proof.
  induction ops as [|o r IH]; intros s; cbn [run_depths]; constructor; [apply op_depth_le|apply IH].
Qed.

(** a Deferred that is paused or has run out of callbacks costs no frame at all; a _CONTINUE entry neither *)
Lemma continue_costs_no_frame h cur rest D c more :
  get h cur = Some D -> paused D = 0%Z -> cbs D = Cont c :: more -> step_calls h (cur :: rest) = 0.
Proof. intros HD HP HC. unfold step_calls. rewrite HD, HP, HC. reflexivity. Qed.

(** bounded checks by computation: every chain family, both outcomes, every length 0..40:
    the chain completes with the right results, every operation stays within depth 4,
    while the explicit list (and the recursive interpreter's nesting) grows with the length *)
Definition lengths := seq 0 41.

Definition family_ok (mk : bool -> nat -> program) : bool :=
  forallb (fun n => forallb (fun fail =>
     chain_done fail (mk fail n) && forallb (fun k => Nat.leb k 4) (program_depths true (mk fail n)))
     [false; true]) lengths.

Lemma families_complete_bounded :
  family_ok chain_outer = true /\ family_ok chain_inner = true /\ family_ok chain_prefired = true.
Proof. vm_compute. repeat split; reflexivity. Qed.

(** the state just before the innermost Deferred of an outer-first chain of length n fires *)
Definition before_last (n : nat) : heap :=
  let p := chain_outer false n in
  let s := fst (run true (init (fst p)) (removelast (snd p))) in
  upd (heap_of s) n (fun D => set_res (Some (VInt 1)) (set_called true D)).

Lemma stack_grows_frames_do_not :
  forallb (fun n => Nat.eqb (iter_stack true (measure (before_last n) [n]) (before_last n) [n]) (S n)
                    && Nat.leb (loop_depth true (before_last n) n) 1
                    && match srun (4 * n + 8) (before_last n) n 0 with Some (_, m) => Nat.eqb m n | None => false end)
          (seq 1 30) = true.
Proof. vm_compute. reflexivity. Qed.
