(** C02 proofs. *)
From Coq Require Import List Arith ZArith Bool Lia.
From TwLib Require Import DeferredK DeferredKFacts.
From C02 Require Import Model.
Import ListNotations.

Lemma step_calls_le h ch : step_calls h ch <= 1.
Proof.
  unfold step_calls. destruct ch as [|c r]; [lia|]. destruct (get h c) as [D|]; [|lia].
  destruct (negb (paused D =? 0)%Z); [lia|]. destruct (cbs D) as [|[k cb eb|c'] m]; lia.
Qed.

Lemma iter_depth_le fx fuel : forall h ch, iter_depth fx fuel h ch <= 1.
Proof.
  induction fuel as [|f IH]; intros h ch; cbn [iter_depth];
    destruct (step fx h ch) as [[[h1 ch1] evs]|]; try lia.
  - apply step_calls_le.
  - pose proof (step_calls_le h ch). specialize (IH h1 ch1). lia.
Qed.

Lemma loop_depth_le fx h d : loop_depth fx h d <= 1.
Proof. apply iter_depth_le. Qed.

Lemma op_depth_le fx s o : op_depth fx s o <= 4.
Proof.
  unfold op_depth. destruct o as [d cb eb|d z|d e|d|d|d]; try lia;
    destruct (get (heap_of s) d) as [D|]; try lia.
  - destruct (called D); [|lia]. match goal with |- context [loop_depth ?a ?b ?c] => pose proof (loop_depth_le a b c) end. lia.
  - destruct (called D); [lia|]. match goal with |- context [loop_depth ?a ?b ?c] => pose proof (loop_depth_le a b c) end. lia.
  - destruct (called D); [lia|]. match goal with |- context [loop_depth ?a ?b ?c] => pose proof (loop_depth_le a b c) end. lia.
  - destruct ((paused D - 1 =? 0)%Z && called D); [|lia].
    match goal with |- context [loop_depth ?a ?b ?c] => pose proof (loop_depth_le a b c) end. lia.
Qed.

Lemma run_depths_le fx ops : forall s, Forall (fun n => n <= 4) (run_depths fx s ops).
Proof.
  induction ops as [|o r IH]; intros s; cbn [run_depths]; constructor; [apply op_depth_le|apply IH].
Qed.

(** a Deferred that is paused or has run out of callbacks costs no frame at all; a _CONTINUE entry neither *)
Lemma continue_costs_no_frame h cur rest D c more :
  get h cur = Some D -> paused D = 0%Z -> cbs D = Cont c :: more -> step_calls h (cur :: rest) = 0.
Proof. intros HD HP HC. unfold step_calls. rewrite HD, HP, HC. reflexivity. Qed.
