(** C40 proofs. *)
From Coq Require Import List NArith Bool Lia Arith.
From C40 Require Import Model.
Import ListNotations.
Local Open Scope N_scope.

Lemma neq_eqb : forall a b : N, a <> b -> (a =? b) = false.
Proof. intros; now apply N.eqb_neq. Qed.

Definition cr_free (s : list N) : Prop := Forall (fun b => b <> CR) s.

(** ---- client: per-chunk replace + carried line-start flag = one-pass reference encoding ---- *)
Definition nl (s : list N) : list N := replace1 LF [CR; LF] s.

Lemma nl_cons : forall b s, nl (b :: s) = (if b =? LF then [CR; LF] else [b]) ++ nl s.
Proof. reflexivity. Qed.

Lemma stuff_cons_ne : forall a r, a <> CR -> stuff (a :: r) = a :: stuff r.
Proof.
  intros a r Ha. cbn [stuff]. destruct r as [|b [|c r3]]; try reflexivity.
  now rewrite (neq_eqb _ _ Ha).
Qed.

Lemma stuff_eq3 : forall a b c r,
  stuff (a :: b :: c :: r) =
  if (a =? CR) && (b =? LF) && (c =? DOT) then CR :: LF :: DOT :: DOT :: stuff r else a :: stuff (b :: c :: r).
Proof. reflexivity. Qed.

Lemma stuff_nl_both : forall s, cr_free s ->
  stuff (nl s) = enc false s /\ stuff (CR :: LF :: nl s) = CR :: LF :: enc true s.
Proof.
  assert (LFne : LF <> CR) by discriminate.
  induction s as [|b s IH]; intros Hcr.
  - split; reflexivity.
  - inversion Hcr as [|? ? Hb Hs]; subst. destruct (IH Hs) as [IH1 IH2].
    rewrite nl_cons. cbn [enc]. destruct (N.eqb_spec b LF) as [->|Hl].
    + cbn [app]. split.
      * exact IH2.
      * change (stuff (CR :: LF :: CR :: LF :: nl s)) with (CR :: stuff (LF :: CR :: LF :: nl s)).
        rewrite (stuff_cons_ne _ _ LFne), IH2. reflexivity.
    + cbn [app]. rewrite andb_false_r. split.
      * rewrite (stuff_cons_ne _ _ Hb), IH1. reflexivity.
      * rewrite andb_true_r. destruct (N.eqb_spec b DOT) as [->|Hd].
        -- change (stuff (CR :: LF :: DOT :: nl s)) with (CR :: LF :: DOT :: DOT :: stuff (nl s)).
           now rewrite IH1.
        -- rewrite stuff_eq3.
           replace ((CR =? CR) && (LF =? LF) && (b =? DOT)) with false by (rewrite (neq_eqb _ _ Hd); reflexivity).
           rewrite (stuff_cons_ne _ _ LFne), (stuff_cons_ne _ _ Hb), IH1. reflexivity.
Qed.

Lemma old_transform_enc : forall s, cr_free s -> old_transform s = enc false s.
Proof. intros s H. exact (proj1 (stuff_nl_both s H)). Qed.

Lemma enc_start : forall s, (if starts_dot (enc false s) then DOT :: enc false s else enc false s) = enc true s.
Proof.
  destruct s as [|b s]; [reflexivity|]. cbn [enc]. destruct (N.eqb_spec b LF) as [->|Hl]; [reflexivity|].
  rewrite andb_false_r, andb_true_r. cbn [starts_dot]. destruct (N.eqb_spec b DOT) as [->|Hd]; reflexivity.
Qed.

Lemma last_cons2 : forall (a b : N) l d, last (a :: b :: l) d = last (b :: l) d.
Proof. reflexivity. Qed.

Lemma ends_lf_cons : forall a b l, ends_lf (a :: b :: l) = ends_lf (b :: l).
Proof. reflexivity. Qed.

Lemma enc_nonempty : forall s ls, s <> [] -> enc ls s <> [].
Proof.
  destruct s as [|b s]; intros ls H; [contradiction|]. cbn [enc].
  destruct (b =? LF); [discriminate|]. destruct ((b =? DOT) && ls); discriminate.
Qed.

Lemma ends_lf_app : forall a b, b <> [] -> ends_lf (a ++ b) = ends_lf b.
Proof.
  induction a as [|x a IH]; intros b Hb; [reflexivity|].
  cbn [app]. destruct (a ++ b) as [|y r] eqn:E.
  - destruct a; [cbn in E; contradiction|discriminate E].
  - rewrite ends_lf_cons, <- E. apply IH, Hb.
Qed.

Lemma enc_cons : forall ls b r,
  enc ls (b :: r) = (if b =? LF then [CR; LF] else if (b =? DOT) && ls then [DOT; DOT] else [b])
                    ++ enc (b =? LF) r.
Proof.
  intros ls b r. cbn [enc]. destruct (b =? LF); [reflexivity|]. destruct ((b =? DOT) && ls); reflexivity.
Qed.

(** the last byte of the encoding is LF exactly when the last byte of the source is *)
Lemma ends_lf_enc : forall s ls, ends_lf (enc ls s) = ends_lf s.
Proof.
  induction s as [|b s IH]; intros ls; [reflexivity|].
  destruct s as [|c s].
  - cbn [enc]. destruct (N.eqb_spec b LF) as [->|Hl]; [reflexivity|].
    unfold ends_lf at 2. cbn [last]. rewrite (neq_eqb _ _ Hl).
    destruct ((b =? DOT) && ls) eqn:E; unfold ends_lf; cbn [last]; [|exact (neq_eqb _ _ Hl)].
    apply andb_prop in E as [E _]. apply N.eqb_eq in E. subst b. reflexivity.
  - rewrite ends_lf_cons, enc_cons, ends_lf_app by (apply enc_nonempty; discriminate). apply IH.
Qed.

Lemma transform_enc : forall c ls, cr_free c -> c <> [] -> transform ls c = (ends_lf c, enc ls c).
Proof.
  intros c ls Hcr Hne. unfold transform. rewrite (old_transform_enc _ Hcr).
  assert (E : (if ls && starts_dot (enc false c) then DOT :: enc false c else enc false c) = enc ls c).
  { destruct ls; [cbn [andb]; apply enc_start|reflexivity]. }
  rewrite E. pose proof (enc_nonempty c ls Hne) as Hn.
  destruct (enc ls c) as [|x y] eqn:E2; [contradiction|]. rewrite <- E2, ends_lf_enc. reflexivity.
Qed.

Lemma enc_app : forall a ls b, a <> [] -> enc ls (a ++ b) = enc ls a ++ enc (ends_lf a) b.
Proof.
  induction a as [|x a IH]; intros ls b Hne; [contradiction|].
  change ((x :: a) ++ b) with (x :: (a ++ b)). rewrite !enc_cons.
  destruct a as [|y a].
  - cbn [app enc]. rewrite app_nil_r. reflexivity.
  - rewrite IH by discriminate. rewrite ends_lf_cons, app_assoc. reflexivity.
Qed.

Definition terminator (lastlf : bool) : list N := if lastlf then [DOT; CR; LF] else [CR; LF; DOT; CR; LF].

Lemma send_enc : forall cs ls lf,
  Forall cr_free cs -> Forall (fun c => c <> []) cs ->
  send ls lf cs = enc ls (concat cs) ++ terminator (match concat cs with [] => lf | _ => ends_lf (concat cs) end).
Proof.
  induction cs as [|c cs IH]; intros ls lf Hcr Hne.
  - reflexivity.
  - inversion Hcr as [|? ? Hc Hcs]; subst. inversion Hne as [|? ? Hn Hns]; subst.
    cbn [send concat]. rewrite (transform_enc c ls Hc Hn), (IH _ _ Hcs Hns), ends_lf_enc.
    rewrite (enc_app c ls (concat cs) Hn), <- app_assoc. f_equal. f_equal.
    destruct c as [|x c]; [contradiction|]. cbn [app].
    destruct (concat cs) as [|y r] eqn:E.
    + now rewrite app_nil_r.
    + change (x :: c ++ y :: r) with ((x :: c) ++ y :: r). rewrite ends_lf_app by discriminate. reflexivity.
Qed.

(** the client's bytes do not depend on how the file was read *)
Lemma client_wire_enc : forall cs,
  Forall cr_free cs -> Forall (fun c => c <> []) cs ->
  client_wire cs = enc true (concat cs) ++ terminator (ends_lf (concat cs)).
Proof.
  intros cs H1 H2. unfold client_wire. rewrite (send_enc cs true false H1 H2).
  destruct (concat cs); reflexivity.
Qed.

(** ---- a body made of lines ---- *)
Definition stuffl (l : list N) : list N := if starts_dot l then DOT :: l else l.

Lemma enc_false_line : forall l rest, Forall (fun b => b <> LF) l ->
  enc false (l ++ LF :: rest) = l ++ CR :: LF :: enc true rest.
Proof.
  induction l as [|b l IH]; intros rest Hl; [reflexivity|].
  inversion Hl as [|? ? Hb Hl']; subst. cbn [app enc]. rewrite (neq_eqb _ _ Hb), andb_false_r, IH by exact Hl'.
  reflexivity.
Qed.

Lemma enc_true_line : forall l rest, Forall (fun b => b <> LF) l ->
  enc true (l ++ LF :: rest) = stuffl l ++ CR :: LF :: enc true rest.
Proof.
  intros [|b l] rest Hl; [reflexivity|].
  inversion Hl as [|? ? Hb Hl']; subst. cbn [app enc]. rewrite (neq_eqb _ _ Hb), andb_true_r.
  unfold stuffl. cbn [starts_dot]. destruct (N.eqb_spec b DOT) as [->|Hd]; cbn [app];
    rewrite enc_false_line by exact Hl'; reflexivity.
Qed.

Definition wire_lines (lines : list (list N)) : list N := flat_map (fun l => stuffl l ++ [CR; LF]) lines.

Lemma line_ok_lf : forall l, line_ok l -> Forall (fun b => b <> LF) l.
Proof. intros l H. eapply Forall_impl; [|exact H]. now intros a [H1 _]. Qed.

Lemma enc_unlines : forall lines, Forall line_ok lines -> enc true (unlines lines) = wire_lines lines.
Proof.
  induction lines as [|l lines IH]; intros H; [reflexivity|].
  inversion H as [|? ? Hl Hls]; subst. unfold unlines, wire_lines. cbn [flat_map].
  rewrite <- app_assoc. cbn [app]. rewrite enc_true_line by (apply line_ok_lf, Hl).
  fold (unlines lines). rewrite (IH Hls). rewrite <- app_assoc. reflexivity.
Qed.

Lemma unlines_cr_free : forall lines, Forall line_ok lines -> cr_free (unlines lines).
Proof.
  induction lines as [|l lines IH]; intros H; [constructor|].
  inversion H as [|? ? Hl Hls]; subst. unfold unlines. cbn [flat_map]. apply Forall_app. split.
  - apply Forall_app. split; [|repeat constructor; discriminate].
    eapply Forall_impl; [|exact Hl]. now intros a [_ H2].
  - apply IH, Hls.
Qed.

Lemma unlines_ends_lf : forall lines, lines <> [] -> ends_lf (unlines lines) = true.
Proof.
  intros lines H. destruct (exists_last H) as (ls & l & ->).
  unfold unlines. rewrite flat_map_app. cbn [flat_map]. rewrite app_nil_r, app_assoc.
  rewrite ends_lf_app by discriminate. reflexivity.
Qed.

(** ---- server ---- *)
Lemma srun_app : forall a st b,
  srun st (a ++ b) = let '(s1, e1) := srun st a in let '(s2, e2) := srun s1 b in (s2, e1 ++ e2).
Proof.
  induction a as [|x a IH]; intros st b; cbn [app srun].
  - destruct (srun st b); reflexivity.
  - destruct (sstep st x) as [s1 e1]. rewrite IH. destruct (srun s1 a) as [s2 e2].
    destruct (srun s2 b) as [s3 e3]. now rewrite app_assoc.
Qed.

(** network segmentation is irrelevant: the server works byte by byte *)
Lemma srun_chunks_concat : forall cs st, srun_chunks st cs = srun st (concat cs).
Proof.
  induction cs as [|c cs IH]; intros st; [reflexivity|].
  cbn [srun_chunks concat]. rewrite srun_app. destruct (srun st c) as [s1 e1]. now rewrite IH.
Qed.

Lemma srun_line_bytes : forall l st c, Forall (fun b => b <> LF) l ->
  srun (set_cur st c) l = (set_cur st (rev l ++ c), []).
Proof.
  induction l as [|b l IH]; intros st c Hl; [reflexivity|].
  inversion Hl as [|? ? Hb Hl']; subst. cbn [srun]. unfold sstep at 1. rewrite (neq_eqb _ _ Hb).
  change (set_cur (set_cur st c) (b :: cur (set_cur st c))) with (set_cur st (b :: c)).
  rewrite (IH st (b :: c) Hl'). cbn [rev app]. rewrite <- app_assoc. reflexivity.
Qed.

Lemma set_cur_id : forall st, cur st = [] -> st = set_cur st [].
Proof. intros [c d ih ib f n rf ef] H. cbn in H. subst. reflexivity. Qed.

Lemma handle_line_cur : forall st c l, handle_line (set_cur st c) l = handle_line st l.
Proof. reflexivity. Qed.

(** a complete line followed by CR LF, starting with an empty buffer *)
Lemma srun_line : forall l st rest, Forall (fun b => b <> LF) l -> cur st = [] ->
  srun st (l ++ CR :: LF :: rest) =
  let '(s1, e1) := handle_line st l in let '(s2, e2) := srun s1 rest in (s2, e1 ++ e2).
Proof.
  intros l st rest Hl Hc. rewrite (set_cur_id st Hc) at 1.
  rewrite srun_app, (srun_line_bytes l st [] Hl), app_nil_r.
  cbn [srun]. unfold sstep at 1. cbn [N.eqb CR LF Pos.eqb].
  change (set_cur (set_cur st (rev l)) (CR :: cur (set_cur st (rev l)))) with (set_cur st (CR :: rev l)).
  unfold sstep at 1. cbn [N.eqb LF Pos.eqb]. change (cur (set_cur st (CR :: rev l))) with (CR :: rev l).
  cbn [N.eqb CR Pos.eqb]. rewrite handle_line_cur, rev_involutive.
  destruct (handle_line st l) as [s1 e1]. destruct (srun s1 rest) as [s2 e2]. reflexivity.
Qed.

Lemma data_line_stuffl : forall st l, data_line st (stuffl l) = deliver st l.
Proof.
  intros st [|b l]; [reflexivity|]. unfold stuffl. cbn [starts_dot].
  destruct (N.eqb_spec b DOT) as [->|Hb].
  - reflexivity.
  - cbn [data_line]. now rewrite (neq_eqb _ _ Hb).
Qed.

Lemma stuffl_lf : forall l, Forall (fun b => b <> LF) l -> Forall (fun b => b <> LF) (stuffl l).
Proof.
  intros l H. unfold stuffl. destruct (starts_dot l); [|exact H]. constructor; [discriminate|exact H].
Qed.

(** message.lineReceived calls *)
Lemma do_calls_app : forall rf a n b,
  do_calls rf n (a ++ b) =
  let '(n1, f1, e1) := do_calls rf n a in
  if f1 then (n1, true, e1) else let '(n2, f2, e2) := do_calls rf n1 b in (n2, f2, e1 ++ e2).
Proof.
  induction a as [|l a IH]; intros n b; cbn [app do_calls].
  - destruct (do_calls rf n b) as [[n2 f2] e2]. reflexivity.
  - destruct (match rf with Some k => Nat.eqb k n | None => false end); [reflexivity|].
    rewrite IH. destruct (do_calls rf (S n) a) as [[n1 f1] e1]. destruct f1; [reflexivity|].
    destruct (do_calls rf n1 b) as [[n2 f2] e2]. reflexivity.
Qed.

Lemma do_calls_none : forall ls n, do_calls None n ls = ((n + length ls)%nat, false, map MsgLine ls).
Proof.
  induction ls as [|l ls IH]; intros n; cbn [do_calls length map]; [now rewrite Nat.add_0_r|].
  rewrite IH. now rewrite Nat.add_succ_r.
Qed.

Lemma do_calls_body : forall rf ls n, forallb is_body_ev (snd (do_calls rf n ls)) = true.
Proof.
  induction ls as [|l ls IH]; intros n; cbn [do_calls]; [reflexivity|].
  destruct (match rf with Some k => Nat.eqb k n | None => false end); [reflexivity|].
  specialize (IH (S n)). destruct (do_calls rf (S n) ls) as [[n' f] e]. cbn [snd] in *. exact IH.
Qed.

(** the lines after the first one: the flags are settled, every line is one lineReceived call, and once
    the message has refused a line nothing more happens until the terminator *)
Definition settled (st : sst) : bool := inheader st || inbody st.

Definition ready (st : sst) : Prop := cur st = [] /\ in_data st = true.

Lemma srun_lines_failed : forall lines st, Forall line_ok lines -> ready st -> failed st = true ->
  exists st', srun st (wire_lines lines) = (st', []) /\ ready st' /\ failed st' = true
              /\ refuse st' = refuse st /\ eomfail st' = eomfail st.
Proof.
  induction lines as [|l lines IH]; intros st Hok [Hc Hd] Hf.
  - exists st. repeat split; assumption.
  - inversion Hok as [|? ? Hl Hls]; subst. unfold wire_lines. cbn [flat_map]. fold (wire_lines lines).
    rewrite <- app_assoc. cbn [app].
    rewrite srun_line by (try apply stuffl_lf, line_ok_lf, Hl; exact Hc).
    unfold handle_line. rewrite Hd, data_line_stuffl. unfold deliver. rewrite Hf.
    destruct (IH (mk [] true (inheader st) (inbody st) true (calls st) (refuse st) (eomfail st)) Hls)
      as (st' & R & R1 & R2 & R3 & R4); [split; reflexivity|reflexivity|].
    rewrite R. exists st'. repeat split; try assumption; apply R1.
Qed.

Lemma srun_lines_settled : forall lines st, Forall line_ok lines ->
  settled st = true -> ready st -> failed st = false ->
  exists st', srun st (wire_lines lines) = (st', snd (do_calls (refuse st) (calls st) lines))
              /\ ready st' /\ failed st' = snd (fst (do_calls (refuse st) (calls st) lines))
              /\ refuse st' = refuse st /\ eomfail st' = eomfail st.
Proof.
  induction lines as [|l lines IH]; intros st Hok Hs [Hc Hd] Hf.
  - exists st. cbn [do_calls fst snd]. repeat split; assumption.
  - inversion Hok as [|? ? Hl Hls]; subst. unfold wire_lines. cbn [flat_map]. fold (wire_lines lines).
    rewrite <- app_assoc. cbn [app].
    rewrite srun_line by (try apply stuffl_lf, line_ok_lf, Hl; exact Hc).
    unfold handle_line. rewrite Hd, data_line_stuffl. unfold deliver. rewrite Hf.
    assert (Hfresh : negb (inheader st) && negb (inbody st) = false).
    { unfold settled in Hs. destruct (inheader st), (inbody st); try discriminate Hs; reflexivity. }
    rewrite Hfresh. cbn [andb app]. cbn [do_calls].
    destruct (match refuse st with Some k => Nat.eqb k (calls st) | None => false end) eqn:Er.
    + (* this call raises *)
      destruct (srun_lines_failed lines
                  (mk [] true (inheader st) (if nonempty l then inbody st else true) true (calls st) (refuse st) (eomfail st)) Hls)
        as (st' & R & R1 & R2 & R3 & R4); [split; reflexivity|reflexivity|].
      rewrite R. exists st'. cbn [fst snd]. rewrite app_nil_r. repeat split; try assumption; apply R1.
    + set (s1 := mk [] true (inheader st) (if nonempty l then inbody st else true) false (S (calls st)) (refuse st) (eomfail st)).
      destruct (IH s1 Hls) as (st' & R & R1 & R2 & R3 & R4).
      * unfold settled, s1. cbn [inheader inbody]. unfold settled in Hs.
        destruct (inheader st), (inbody st), (nonempty l); try discriminate Hs; reflexivity.
      * split; reflexivity.
      * reflexivity.
      * cbn [s1 refuse calls eomfail] in R, R2, R3, R4.
        destruct (do_calls (refuse st) (S (calls st)) lines) as [[n' f] e] eqn:Ed. cbn [fst snd] in *.
        change (snd (mk [] true (inheader st) (if nonempty l then inbody st else true) false (S (calls st)) (refuse st) (eomfail st), [MsgLine l]))
          with [MsgLine l].
        fold s1. rewrite R. exists st'. cbn [app]. repeat split; try assumption; apply R1.
Qed.

(** the whole body, from the state right after DATA, for any behaviour of the message object *)
Lemma srun_lines_fresh : forall lines rf ef, Forall line_ok lines ->
  exists st', srun (data_start_with rf ef) (wire_lines lines) = (st', snd (do_calls rf 0 (header_view lines)))
              /\ ready st' /\ failed st' = snd (fst (do_calls rf 0 (header_view lines)))
              /\ eomfail st' = ef.
Proof.
  intros [|l lines] rf ef Hok.
  - exists (data_start_with rf ef). repeat split.
  - inversion Hok as [|? ? Hl Hls]; subst. unfold wire_lines. cbn [flat_map]. fold (wire_lines lines).
    rewrite <- app_assoc. cbn [app].
    rewrite srun_line by (try apply stuffl_lf, line_ok_lf, Hl; reflexivity).
    unfold handle_line. cbn [in_data data_start_with]. rewrite data_line_stuffl.
    unfold deliver. cbn [failed inheader inbody calls refuse eomfail data_start_with negb andb].
    unfold header_view.
    set (blank := negb (has_colon l) && nonempty l).
    assert (Hcalls : (if blank then [[]] else []) ++ [l] = if blank then [[]; l] else [l]) by (destruct blank; reflexivity).
    rewrite Hcalls.
    assert (Hhv : (if blank then [] :: l :: lines else l :: lines) = (if blank then [[]; l] else [l]) ++ lines)
      by (destruct blank; reflexivity).
    rewrite Hhv, do_calls_app.
    destruct (do_calls rf 0 (if blank then [[]; l] else [l])) as [[n1 f1] e1] eqn:E1.
    set (ih := if has_colon l then true else false).
    set (ib := if nonempty l then if blank then true else false else true).
    destruct f1.
    + destruct (srun_lines_failed lines (mk [] true ih ib true n1 rf ef) Hls) as (st' & R & R1 & R2 & R3 & R4);
        [split; reflexivity|reflexivity|].
      rewrite R. exists st'. cbn [fst snd]. rewrite app_nil_r. cbn [eomfail] in R4. repeat split; try assumption; apply R1.
    + destruct (srun_lines_settled lines (mk [] true ih ib false n1 rf ef) Hls) as (st' & R & R1 & R2 & R3 & R4).
      * unfold settled, ih, ib, blank. cbn [inheader inbody]. destruct (has_colon l), (nonempty l); reflexivity.
      * split; reflexivity.
      * reflexivity.
      * cbn [refuse calls eomfail] in R, R2, R3, R4. rewrite R.
        destruct (do_calls rf n1 lines) as [[n2 f2] e2]. cbn [fst snd] in *.
        exists st'. repeat split; try assumption; apply R1.
Qed.

(** ---- the property theorems ---- *)
Lemma Forall_concat_inv : forall (P : N -> Prop) cs, Forall P (concat cs) -> Forall (Forall P) cs.
Proof.
  induction cs as [|c cs IH]; intros H; [constructor|].
  cbn [concat] in H. apply Forall_app in H as [H1 H2]. constructor; [exact H1|apply IH, H2].
Qed.

Lemma wire_of_lines : forall lines cs,
  lines <> [] -> Forall line_ok lines -> concat cs = unlines lines -> Forall (fun c => c <> []) cs ->
  client_wire cs = wire_lines lines ++ [DOT; CR; LF].
Proof.
  intros lines cs Hne Hok Hcs Hn.
  assert (Hcr : Forall cr_free cs).
  { apply Forall_concat_inv. rewrite Hcs. apply unlines_cr_free, Hok. }
  rewrite (client_wire_enc cs Hcr Hn), Hcs, (enc_unlines _ Hok), (unlines_ends_lf _ Hne). reflexivity.
Qed.

Definition no_cmd (e : sev) : bool := match e with CmdLine _ => false | _ => true end.

(** any behaviour of the message object *)
Lemma any_message : forall lines cs ns rf ef,
  lines <> [] -> Forall line_ok lines ->
  concat cs = unlines lines -> Forall (fun c => c <> []) cs ->
  concat ns = client_wire cs ->
  snd (srun_chunks (data_start_with rf ef) ns) = outcome rf ef (header_view lines)
  /\ in_data (fst (srun_chunks (data_start_with rf ef) ns)) = false
  /\ cur (fst (srun_chunks (data_start_with rf ef) ns)) = [].
Proof.
  intros lines cs ns rf ef Hne Hok Hcs Hn Hns.
  rewrite srun_chunks_concat, Hns, (wire_of_lines lines cs Hne Hok Hcs Hn), srun_app.
  destruct (srun_lines_fresh lines rf ef Hok) as (st' & R & [R1 R2] & R3 & R4). rewrite R.
  change [DOT; CR; LF] with ([DOT] ++ CR :: LF :: []).
  rewrite srun_line by (try (repeat constructor; discriminate); exact R1).
  unfold handle_line. rewrite R2. cbn [data_line N.eqb DOT Pos.eqb end_of_data srun fst snd app].
  unfold outcome. destruct (do_calls rf 0 (header_view lines)) as [[n f] e]. cbn [fst snd] in *.
  rewrite R3, R4. rewrite app_nil_r. repeat split.
Qed.

Lemma exact_lines : forall lines cs ns,
  lines <> [] -> Forall line_ok lines ->
  concat cs = unlines lines -> Forall (fun c => c <> []) cs ->
  concat ns = client_wire cs ->
  snd (srun_chunks data_start ns) = map MsgLine (header_view lines) ++ [Eom; Reply 250]
  /\ in_data (fst (srun_chunks data_start ns)) = false
  /\ cur (fst (srun_chunks data_start ns)) = [].
Proof.
  intros lines cs ns Hne Hok Hcs Hn Hns.
  destruct (any_message lines cs ns None false Hne Hok Hcs Hn Hns) as (E & H1 & H2).
  split; [|split; assumption]. fold data_start in E. rewrite E. unfold outcome. now rewrite do_calls_none.
Qed.

Lemma forallb_app_l : forall (A : Type) (f : A -> bool) a b, forallb f (a ++ b) = true -> forallb f a = true.
Proof. intros A f a b H. rewrite forallb_app in H. now apply andb_true_iff in H as [H _]. Qed.

Lemma only_body_before_terminator : forall lines cs p q rf ef,
  lines <> [] -> Forall line_ok lines ->
  concat cs = unlines lines -> Forall (fun c => c <> []) cs ->
  p ++ q = client_wire cs -> q <> [] ->
  forallb is_body_ev (snd (srun (data_start_with rf ef) p)) = true.
Proof.
  intros lines cs p q rf ef Hne Hok Hcs Hn Hpq Hq.
  rewrite (wire_of_lines lines cs Hne Hok Hcs Hn) in Hpq.
  destruct (exists_last Hq) as (q' & x & ->).
  change [DOT; CR; LF] with ([DOT; CR] ++ [LF]) in Hpq. rewrite !app_assoc in Hpq.
  apply app_inj_tail in Hpq as [Hpq _].
  assert (Hall : forallb is_body_ev (snd (srun (data_start_with rf ef) (wire_lines lines ++ [DOT; CR]))) = true).
  { rewrite srun_app. destruct (srun_lines_fresh lines rf ef Hok) as (st' & R & [R1 R2] & R3 & R4). rewrite R.
    rewrite (set_cur_id st' R1), srun_line_bytes by (repeat constructor; discriminate). cbn [snd]. rewrite app_nil_r.
    apply do_calls_body. }
  rewrite <- Hpq, srun_app in Hall.
  destruct (srun (data_start_with rf ef) p) as [s1 e1]. destruct (srun s1 q') as [s2 e2]. cbn [snd] in *.
  exact (forallb_app_l _ _ _ _ Hall).
Qed.

Lemma never_a_command : forall lines cs p q rf ef,
  lines <> [] -> Forall line_ok lines ->
  concat cs = unlines lines -> Forall (fun c => c <> []) cs ->
  p ++ q = client_wire cs ->
  forallb no_cmd (snd (srun (data_start_with rf ef) p)) = true.
Proof.
  intros lines cs p q rf ef Hne Hok Hcs Hn Hpq.
  destruct q as [|x q].
  - rewrite app_nil_r in Hpq. subst p.
    destruct (any_message lines cs [client_wire cs] rf ef Hne Hok Hcs Hn) as [E _]; [cbn; now rewrite app_nil_r|].
    rewrite srun_chunks_concat in E. cbn [concat] in E. rewrite app_nil_r in E. rewrite E.
    unfold outcome. pose proof (do_calls_body rf (header_view lines) 0) as Hb.
    destruct (do_calls rf 0 (header_view lines)) as [[n f] e]. cbn [snd] in Hb.
    rewrite forallb_app. apply andb_true_iff. split.
    + clear -Hb. induction e as [|x e IH]; [reflexivity|]. cbn [forallb] in *. apply andb_true_iff in Hb as [H1 H2].
      rewrite (IH H2). destruct x; try discriminate H1; reflexivity.
    + destruct f; reflexivity.
  - pose proof (only_body_before_terminator lines cs p (x :: q) rf ef Hne Hok Hcs Hn Hpq) as H.
    specialize (H ltac:(discriminate)).
    induction (snd (srun (data_start_with rf ef) p)) as [|e l IH]; [reflexivity|].
    cbn [forallb] in *. apply andb_true_iff in H as [H1 H2]. rewrite (IH H2).
    destruct e; try discriminate H1; reflexivity.
Qed.

Lemma reads_irrelevant : forall cs1 cs2,
  concat cs1 = concat cs2 -> cr_free (concat cs1) ->
  Forall (fun c => c <> []) cs1 -> Forall (fun c => c <> []) cs2 ->
  client_wire cs1 = client_wire cs2.
Proof.
  intros cs1 cs2 Heq Hcr H1 H2.
  rewrite (client_wire_enc cs1), (client_wire_enc cs2); try assumption.
  - now rewrite Heq.
  - apply Forall_concat_inv. now rewrite <- Heq.
  - apply Forall_concat_inv. exact Hcr.
Qed.

(** the degenerate body with no line at all: the client sends CR LF . CR LF, i.e. one empty line *)
Lemma empty_body : client_wire [] = [CR; LF; DOT; CR; LF]
  /\ snd (srun data_start (client_wire [])) = [MsgLine []; Eom; Reply 250].
Proof. split; vm_compute; reflexivity. Qed.

(** F13 on the pinned transformChunk: body ".\nQUIT\n" read in one chunk, and body "a\n.\nQUIT\n" read
    as "a\n" + ".\nQUIT\n": the message ends early and QUIT reaches the command interpreter *)
Lemma pinned_code_refuted :
  snd (srun data_start (old_client_wire [[46; 10; 81; 85; 73; 84; 10]]))
    = [Eom; Reply 250; CmdLine [81; 85; 73; 84]; CmdLine [46]]
  /\ snd (srun data_start (old_client_wire [[97; 10]; [46; 10; 81; 85; 73; 84; 10]]))
    = [MsgLine []; MsgLine [97]; Eom; Reply 250; CmdLine [81; 85; 73; 84]; CmdLine [46]].
Proof. split; vm_compute; reflexivity. Qed.

(** the hypotheses are inhabited by a non-trivial body: dot-lines at the start and at read-chunk starts *)
Example hostile_body :
  let lines := [[46]; [81; 85; 73; 84]; [46; 46]; []; [46; 97]] in
  let cs := [[46; 10]; [81; 85; 73; 84; 10]; [46; 46; 10; 10]; [46; 97; 10]] in
  lines <> [] /\ Forall line_ok lines /\ concat cs = unlines lines /\ Forall (fun c => c <> []) cs
  /\ snd (srun_chunks data_start (map (fun b => [b]) (client_wire cs)))
     = map MsgLine ([] :: lines) ++ [Eom; Reply 250].
Proof.
  cbv zeta. split; [discriminate|]. split.
  - repeat constructor; discriminate.
  - split; [reflexivity|]. split; [repeat constructor; discriminate|vm_compute; reflexivity].
Qed.

(** ---- several messages over one connection ---- *)
Lemma send_st_fst : forall cs ls lf, fst (send_st ls lf cs) = send ls lf cs.
Proof.
  induction cs as [|c cs IH]; intros ls lf; [reflexivity|]. cbn [send_st send].
  destruct (transform ls c) as [ls' out]. specialize (IH ls' (ends_lf out)).
  destruct (send_st ls' (ends_lf out) cs) as [w lsf]. cbn [fst] in *. now rewrite IH.
Qed.

(** each message's bytes are those of a fresh client, whatever was sent before on the connection *)
Lemma session_independent : forall msgs ls, session_wires ls msgs = map client_wire msgs.
Proof.
  induction msgs as [|cs msgs IH]; intros ls; [reflexivity|]. cbn [session_wires map].
  pose proof (send_st_fst cs true false) as H. destruct (send_st true false cs) as [w ls']. cbn [fst] in H.
  rewrite (IH ls'). unfold client_wire. now rewrite H.
Qed.

Definition msg_ok (m : list (list N) * list (list N)) : Prop :=
  let '(lines, cs) := m in
  lines <> [] /\ Forall line_ok lines /\ concat cs = unlines lines /\ Forall (fun c => c <> []) cs.

Lemma session_exact_lines : forall (ms : list (list (list N) * list (list N))) (ls : bool),
  Forall msg_ok ms ->
  Forall2 (fun m w => forall ns, concat ns = w ->
             snd (srun_chunks data_start ns) = map MsgLine (header_view (fst m)) ++ [Eom; Reply 250]
             /\ in_data (fst (srun_chunks data_start ns)) = false)
          ms (session_wires ls (map snd ms)).
Proof.
  intros ms ls H. rewrite session_independent. induction ms as [|[lines cs] ms IH]; [constructor|].
  inversion H as [|? ? Hm Hms]; subst. cbn [map snd]. constructor; [|apply IH, Hms].
  destruct Hm as (H1 & H2 & H3 & H4). intros ns Hns. cbn [fst].
  destruct (exact_lines lines cs ns H1 H2 H3 H4 Hns) as (E1 & E2 & _). split; assumption.
Qed.

(** a message object refusing its third lineReceived call while command-looking lines follow *)
Example refusing_message :
  let lines := [[97]; [98]; [78; 79; 79; 80]; [81; 85; 73; 84]] in
  outcome (Some 2%nat) false (header_view lines) = [MsgLine []; MsgLine [97]; MsgRefuse [98]; MsgLost; Reply 552]
  /\ snd (srun_chunks (data_start_with (Some 2%nat) false) (map (fun b => [b]) (client_wire [unlines lines])))
     = [MsgLine []; MsgLine [97]; MsgRefuse [98]; MsgLost; Reply 552].
Proof. split; vm_compute; reflexivity. Qed.
