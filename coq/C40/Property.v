(** C40 property theorems: SMTP transfers message bodies transparently.
    [cs]  = the chunks in which FileSender read the body (any read sizes; none empty, an empty read ends
            the transfer);   [client_wire cs] = every byte the client writes during the DATA phase;
    [ns]  = the network segments in which those bytes reach the server (one dataReceived call each);
    [srun_chunks data_start ns] = the server right after its 354 reply, fed those segments. *)
From Coq Require Import List NArith Bool.
From C40 Require Import Model Proofs.
Import ListNotations.
Local Open Scope N_scope.

(** For every body made of at least one LF-terminated line without CR (lines may start with or consist
    of "."), every chunking of the client's reads and every network segmentation: the server-side
    message receives exactly the body's lines (after the server's header handling, [header_view]),
    then eomReceived once and the 250 reply, and the server is back in command mode with an empty line buffer. *)
Theorem server_receives_exact_lines : forall (lines cs ns : list (list N)),
  lines <> [] -> Forall line_ok lines ->
  concat cs = unlines lines -> Forall (fun c => c <> []) cs ->
  concat ns = client_wire cs ->
  snd (srun_chunks data_start ns) = map MsgLine (header_view lines) ++ [Eom; Reply 250]
  /\ in_data (fst (srun_chunks data_start ns)) = false
  /\ cur (fst (srun_chunks data_start ns)) = [].
Proof. exact exact_lines. Qed.
Print Assumptions server_receives_exact_lines.

(** Whatever the message object does -- [rf] = Some k: its k-th lineReceived call raises SMTPServerError,
    [ef]: its eomReceived fails -- the server stays in DATA state for the whole transfer: the message
    gets its lines up to the refusal (then connectionLost and nothing more), and only the client's
    terminating "." ends the transfer, answered 552 after a refusal, 550 / 250 after eomReceived. *)
Theorem server_outcome_for_any_message_object :
  forall (lines cs ns : list (list N)) (rf : option nat) (ef : bool),
  lines <> [] -> Forall line_ok lines ->
  concat cs = unlines lines -> Forall (fun c => c <> []) cs ->
  concat ns = client_wire cs ->
  snd (srun_chunks (data_start_with rf ef) ns) = outcome rf ef (header_view lines)
  /\ in_data (fst (srun_chunks (data_start_with rf ef) ns)) = false
  /\ cur (fst (srun_chunks (data_start_with rf ef) ns)) = [].
Proof. exact any_message. Qed.
Print Assumptions server_outcome_for_any_message_object.

(** The transfer ends only at the client's terminating ".": after any proper prefix [p] of the client's
    bytes the server has made nothing but calls on the message object (lineReceived, possibly the refused
    one and connectionLost): no eomReceived, no reply, no command -- for any message object. *)
Theorem transfer_ends_only_at_terminator :
  forall (lines cs : list (list N)) (p q : list N) (rf : option nat) (ef : bool),
  lines <> [] -> Forall line_ok lines ->
  concat cs = unlines lines -> Forall (fun c => c <> []) cs ->
  p ++ q = client_wire cs -> q <> [] ->
  forallb is_body_ev (snd (srun (data_start_with rf ef) p)) = true.
Proof. exact only_body_before_terminator. Qed.
Print Assumptions transfer_ends_only_at_terminator.

(** No body content is ever handed to the SMTP command interpreter, at any point of the transfer, even
    when the message object refuses a line part-way through the body. *)
Theorem no_body_line_is_a_command :
  forall (lines cs : list (list N)) (p q : list N) (rf : option nat) (ef : bool),
  lines <> [] -> Forall line_ok lines ->
  concat cs = unlines lines -> Forall (fun c => c <> []) cs ->
  p ++ q = client_wire cs ->
  forallb no_cmd (snd (srun (data_start_with rf ef) p)) = true.
Proof. exact never_a_command. Qed.
Print Assumptions no_body_line_is_a_command.

(** Several messages over ONE connection (getMailFrom returning successive messages): the bytes of each
    message are those a fresh client would send, whatever was sent before ([ls] = the line-start flag left
    by earlier traffic), so every message of the session is received exactly, under every network
    segmentation of each transfer. *)
Theorem session_messages_independent : forall (msgs : list (list (list N))) (ls : bool),
  session_wires ls msgs = map client_wire msgs.
Proof. exact session_independent. Qed.
Print Assumptions session_messages_independent.

Theorem session_receives_exact_lines : forall (ms : list (list (list N) * list (list N))) (ls : bool),
  Forall msg_ok ms ->
  Forall2 (fun m w => forall ns, concat ns = w ->
             snd (srun_chunks data_start ns) = map MsgLine (header_view (fst m)) ++ [Eom; Reply 250]
             /\ in_data (fst (srun_chunks data_start ns)) = false)
          ms (session_wires ls (map snd ms)).
Proof. exact session_exact_lines. Qed.
Print Assumptions session_receives_exact_lines.

(** The client's bytes are the one-pass reference encoding of the body (LF -> CR LF, a "." at the start
    of a line doubled) followed by the terminator, however the file was read ... *)
Theorem client_bytes_are_reference_encoding : forall cs : list (list N),
  Forall cr_free cs -> Forall (fun c => c <> []) cs ->
  client_wire cs = enc true (concat cs) ++ terminator (ends_lf (concat cs)).
Proof. exact client_wire_enc. Qed.
Print Assumptions client_bytes_are_reference_encoding.

(** ... and the server's behaviour does not depend on the network segmentation, for any byte stream. *)
Theorem server_segmentation_invariant : forall (ns : list (list N)) (st : sst),
  srun_chunks st ns = srun st (concat ns).
Proof. exact srun_chunks_concat. Qed.
Print Assumptions server_segmentation_invariant.

(** Finding F13, on the model of the PINNED transformChunk ([old_client_wire]): a "." line at the start
    of the message, or at the start of a read chunk, ends the message early and the following body
    line (QUIT) is executed as a command. *)
Theorem dot_at_chunk_start_refuted_on_pinned_code :
  snd (srun data_start (old_client_wire [[46; 10; 81; 85; 73; 84; 10]]))
    = [Eom; Reply 250; CmdLine [81; 85; 73; 84]; CmdLine [46]]
  /\ snd (srun data_start (old_client_wire [[97; 10]; [46; 10; 81; 85; 73; 84; 10]]))
    = [MsgLine []; MsgLine [97]; Eom; Reply 250; CmdLine [81; 85; 73; 84]; CmdLine [46]].
Proof. exact pinned_code_refuted. Qed.
Print Assumptions dot_at_chunk_start_refuted_on_pinned_code.
