(** C40: SMTP body transparency (src/twisted/mail/smtp.py, src/twisted/protocols/basic.py).

    Client: basic.FileSender reads the message in chunks (any read sizes; an empty read ends the
            transfer), passes each through SMTPClient.transformChunk and writes it; when the file is
            exhausted finishedFileTransfer(lastsent) sends the terminator.  transformChunk is modelled AS
            REPAIRED by fixes/C40-dot-stuffing-across-chunks.patch: the per-chunk
            replace(LF, CR LF).replace(CR LF ".", CR LF "..") plus a line-start flag carried across chunks
            (initially true).  [old_transform] is the pinned code (finding F13).
    Server: SMTP in DATA mode: LineOnlyReceiver framing on CR LF (byte-wise; the MAX_LENGTH check of
            LineOnlyReceiver belongs to C16 and is not modelled), SMTP.dataLineReceived (un-stuffing, "."
            terminator, blank line between the generated Received header and a header-less body), then
            COMMAND mode where every further line is handed to state_COMMAND.
    Bytes are N. *)
From Coq Require Import List NArith Bool.
Import ListNotations.
Local Open Scope N_scope.

Definition LF : N := 10.
Definition CR : N := 13.
Definition DOT : N := 46.
Definition COLON : N := 58.

(** ---- client ---- *)
(** bytes.replace with a one-byte pattern *)
Definition replace1 (x : N) (rep : list N) (s : list N) : list N :=
  flat_map (fun b => if b =? x then rep else [b]) s.

(** chunk.replace(b"\r\n.", b"\r\n..") : left to right, non-overlapping *)
Fixpoint stuff (s : list N) : list N :=
  match s with
  | [] => []
  | a :: r1 =>
      match r1 with
      | b :: c :: r3 =>
          if (a =? CR) && (b =? LF) && (c =? DOT) then CR :: LF :: DOT :: DOT :: stuff r3
          else a :: stuff r1
      | _ => a :: stuff r1
      end
  end.

Definition starts_dot (s : list N) : bool := match s with b :: _ => b =? DOT | [] => false end.
(** s[-1:] == b"\n" *)
Definition ends_lf (s : list N) : bool := match s with [] => false | _ => last s 0 =? LF end.

(** the pinned transformChunk *)
Definition old_transform (chunk : list N) : list N := stuff (replace1 LF [CR; LF] chunk).

(** the repaired transformChunk: (self._dataLineStart, chunk) -> (self._dataLineStart', result) *)
Definition transform (ls : bool) (chunk : list N) : bool * list N :=
  let c := old_transform chunk in
  let c' := if ls && starts_dot c then DOT :: c else c in
  ((match c' with [] => ls | _ => ends_lf c' end), c').

(** FileSender loop + finishedFileTransfer; [lastlf] = (FileSender.lastSent == b"\n") *)
Fixpoint send (ls lastlf : bool) (chunks : list (list N)) : list N :=
  match chunks with
  | [] => if lastlf then [DOT; CR; LF] else [CR; LF; DOT; CR; LF]
  | c :: r => let '(ls', out) := transform ls c in out ++ send ls' (ends_lf out) r
  end.

(** everything the client writes between the 354 reply and the end of the transfer *)
Definition client_wire (chunks : list (list N)) : list N := send true false chunks.

(** several messages over one connection: the client object keeps _dataLineStart between messages;
    smtpState_data sets it at the start of every transfer.  [send_st] = [send] that also returns the
    flag left behind; [session_wires ls msgs] = the DATA-phase bytes of each message, [ls] being the
    flag before the first one *)
Fixpoint send_st (ls lastlf : bool) (chunks : list (list N)) : list N * bool :=
  match chunks with
  | [] => ((if lastlf then [DOT; CR; LF] else [CR; LF; DOT; CR; LF]), ls)
  | c :: r =>
      let '(ls', out) := transform ls c in
      let '(w, lsf) := send_st ls' (ends_lf out) r in (out ++ w, lsf)
  end.
Fixpoint session_wires (ls : bool) (msgs : list (list (list N))) : list (list N) :=
  match msgs with
  | [] => []
  | cs :: r => let '(w, ls') := send_st true false cs in w :: session_wires ls' r
  end.

(** the same with the pinned transformChunk (for the F13 witness) *)
Fixpoint old_send (lastlf : bool) (chunks : list (list N)) : list N :=
  match chunks with
  | [] => if lastlf then [DOT; CR; LF] else [CR; LF; DOT; CR; LF]
  | c :: r => let out := old_transform c in out ++ old_send (ends_lf out) r
  end.
Definition old_client_wire (chunks : list (list N)) : list N := old_send false chunks.

(** ---- server ---- *)
Inductive sev :=
| MsgLine (l : list N)     (* IMessage.lineReceived(l) returned *)
| Eom                      (* IMessage.eomReceived() *)
| CmdLine (l : list N)     (* the line was handed to state_COMMAND *)
| MsgRefuse (l : list N)   (* IMessage.lineReceived(l) raised SMTPServerError *)
| MsgLost                  (* IMessage.connectionLost() *)
| Reply (code : N).        (* the reply the server writes while the DATA bytes arrive *)

(** the message object's behaviour: [refuse] = Some k: its k-th lineReceived call (counting from 0)
    raises SMTPServerError(552); [eomfail]: the Deferred returned by eomReceived fails *)
Record sst := mk { cur : list N;        (* LineOnlyReceiver._buffer, reversed *)
                   in_data : bool;      (* mode is DATA *)
                   inheader : bool; inbody : bool;
                   failed : bool;       (* self.datafailed is set *)
                   calls : nat;         (* lineReceived calls made so far *)
                   refuse : option nat; eomfail : bool }.

Definition has_colon (l : list N) : bool := existsb (N.eqb COLON) l.
Definition nonempty (l : list N) : bool := match l with [] => false | _ => true end.

(** a run of message.lineReceived calls, stopped by the first one that raises: calls made, whether one
    raised, events *)
Fixpoint do_calls (rf : option nat) (n : nat) (ls : list (list N)) : nat * bool * list sev :=
  match ls with
  | [] => (n, false, [])
  | l :: r =>
      if match rf with Some k => Nat.eqb k n | None => false end
      then (n, true, [MsgRefuse l; MsgLost])
      else let '(n', f, e) := do_calls rf (S n) r in (n', f, MsgLine l :: e)
  end.

(** the part of dataLineReceived after un-stuffing *)
Definition deliver (st : sst) (line : list N) : sst * list sev :=
  if failed st then (mk [] true (inheader st) (inbody st) true (calls st) (refuse st) (eomfail st), [])
  else
    let fresh := negb (inheader st) && negb (inbody st) in
    let ih := if fresh && has_colon line then true else inheader st in
    let blank := fresh && negb (has_colon line) && nonempty line in
    let ib := if blank then true else inbody st in
    let ib' := if nonempty line then ib else true in
    let '(n', f, e) := do_calls (refuse st) (calls st) ((if blank then [[]] else []) ++ [line]) in
    (mk [] true ih ib' f n' (refuse st) (eomfail st), e).

Definition end_of_data (st : sst) : sst * list sev :=
  (mk [] false (inheader st) (inbody st) (failed st) (calls st) (refuse st) (eomfail st),
   if failed st then [Reply 552] else [Eom; Reply (if eomfail st then 550 else 250)]).

Definition data_line (st : sst) (line : list N) : sst * list sev :=
  match line with
  | d :: rest =>
      if d =? DOT then
        match rest with
        | [] => end_of_data st
        | _ => deliver st rest
        end
      else deliver st line
  | [] => deliver st line
  end.

Definition handle_line (st : sst) (line : list N) : sst * list sev :=
  if in_data st then data_line st line
  else (mk [] false (inheader st) (inbody st) (failed st) (calls st) (refuse st) (eomfail st), [CmdLine line]).

Definition set_cur (st : sst) (c : list N) : sst :=
  mk c (in_data st) (inheader st) (inbody st) (failed st) (calls st) (refuse st) (eomfail st).

Definition sstep (st : sst) (b : N) : sst * list sev :=
  if b =? LF then
    match cur st with
    | c :: rest => if c =? CR then handle_line st (rev rest) else (set_cur st (b :: cur st), [])
    | [] => (set_cur st (b :: cur st), [])
    end
  else (set_cur st (b :: cur st), []).

Fixpoint srun (st : sst) (bs : list N) : sst * list sev :=
  match bs with
  | [] => (st, [])
  | b :: r => let '(s1, e1) := sstep st b in let '(s2, e2) := srun s1 r in (s2, e1 ++ e2)
  end.

(** one dataReceived call per network segment *)
Fixpoint srun_chunks (st : sst) (cs : list (list N)) : sst * list sev :=
  match cs with
  | [] => (st, [])
  | c :: r => let '(s1, e1) := srun st c in let '(s2, e2) := srun_chunks s1 r in (s2, e1 ++ e2)
  end.

(** the server right after it answered 354 to DATA, for a message object with the given behaviour;
    [data_start] = a message object that accepts everything *)
Definition data_start_with (rf : option nat) (ef : bool) : sst := mk [] true false false false 0 rf ef.
Definition data_start : sst := data_start_with None false.

(** ---- vocabulary of the theorems ---- *)
Definition line_ok (l : list N) : Prop := Forall (fun b => b <> LF /\ b <> CR) l.
(** a body made of LF-terminated lines *)
Definition unlines (lines : list (list N)) : list N := flat_map (fun l => l ++ [LF]) lines.

(** the server's documented header handling: a blank line is put between the generated Received
    header and a message whose first line is not a header (non-empty, no colon) *)
Definition header_view (lines : list (list N)) : list (list N) :=
  match lines with
  | l :: _ => if negb (has_colon l) && nonempty l then [] :: lines else lines
  | [] => lines
  end.

Definition is_msgline (e : sev) : bool := match e with MsgLine _ => true | _ => false end.
(** events that stay inside the message transfer (no end of message, no reply, no command) *)
Definition is_body_ev (e : sev) : bool :=
  match e with MsgLine _ | MsgRefuse _ | MsgLost => true | _ => false end.

(** what the whole transfer must produce for a message object with behaviour (rf, ef), given the
    lineReceived arguments in order: the calls up to the refusal (if any), then the end of the message *)
Definition outcome (rf : option nat) (ef : bool) (args : list (list N)) : list sev :=
  let '(_, f, e) := do_calls rf 0 args in
  e ++ (if f then [Reply 552] else [Eom; Reply (if ef then 550 else 250)]).

(** the reference encoding of a whole body: LF -> CR LF, a "." at the start of a line doubled *)
Fixpoint enc (ls : bool) (s : list N) : list N :=
  match s with
  | [] => []
  | b :: r => if b =? LF then CR :: LF :: enc true r
              else if (b =? DOT) && ls then DOT :: DOT :: enc false r
              else b :: enc false r
  end.

(** splitting a byte string into pieces of the given sizes - 1 (remainder = last piece); harness only *)
Fixpoint split_by (lens : list nat) (bs : list N) : list (list N) :=
  match lens with
  | [] => match bs with [] => [] | _ => [bs] end
  | n :: r => match bs with
              | [] => []
              | _ => firstn (S n) bs :: split_by r (skipn (S n) bs)
              end
  end.
