(** C40: printers used by the correspondence check only. *)
From Coq Require Import List NArith Bool String.
From TwLib Require Import Show.
From C40 Require Import Model.
Import ListNotations.
Local Open Scope string_scope.

Definition show_sev (e : sev) : string :=
  match e with
  | MsgLine l => "L:" ++ show_hex l
  | Eom => "EOM"
  | CmdLine l => "C:" ++ show_hex l
  | MsgRefuse l => "R:" ++ show_hex l
  | MsgLost => "LOST"
  | Reply c => "S:" ++ show_N c
  end.

(** a session: several messages over one connection (the client's line-start flag is threaded through
    [session_wires]); the server is back in DATA state after every DATA command, with the message object
    of that message (refusing at a given lineReceived call / failing eomReceived).
    input per message: body, read sizes - 1, network segment sizes - 1, refusal index, eom failure *)
Definition run_session (l : list (list N * list nat * list nat * option nat * bool)) : string :=
  let wires := session_wires true (map (fun m => split_by (snd (fst (fst (fst m)))) (fst (fst (fst (fst m))))) l) in
  String.concat " ; "
    (map (fun mw => let '(m, w) := mw in
                    let '(body, reads, lens, rf, ef) := m in
                    let '(s, es) := srun_chunks (data_start_with rf ef) (split_by lens w) in
                    "w=" ++ show_hex w ++ " e=" ++ String.concat " " (map show_sev es))
         (combine l wires)).
