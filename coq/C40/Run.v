(** C40: printers used by the correspondence check only. *)
From Coq Require Import List NArith Bool String.
From TwLib Require Import Show.
From C40 Require Import Model.
Import ListNotations.
Local Open Scope string_scope.

Definition show_sev (e : sev) : string :=
  match e with
  | MsgLine l => "L:" ++ show_hex l
  | Eom => "EOM"
  | CmdLine l => "C:" ++ show_hex l
  end.

(** input: body bytes, read sizes - 1 (FileSender chunks), network segment sizes - 1 *)
Definition run_show (c : list N * list nat * list nat) : string :=
  let '(body, reads, lens) := c in
  let w := client_wire (split_by reads body) in
  let '(s, es) := srun_chunks data_start (split_by lens w) in
  "w=" ++ show_hex w ++ " e=" ++ String.concat " " (map show_sev es).

(** a session: several messages over one connection (the client's line-start flag is threaded through
    [session_wires]); the server is back in [data_start] after every DATA command *)
Definition run_session (l : list (list N * list nat * list nat)) : string :=
  let wires := session_wires true (map (fun m => split_by (snd (fst m)) (fst (fst m))) l) in
  String.concat " ; "
    (map (fun mw => let '(m, w) := mw in
                    let '(s, es) := srun_chunks data_start (split_by (snd m) w) in
                    "w=" ++ show_hex w ++ " e=" ++ String.concat " " (map show_sev es))
         (combine l wires)).
