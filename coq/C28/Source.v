(** C28: the str-encoding step in front of the flattener.  A source tree yields a document exactly
    when no str in it holds a lone surrogate; then the document is the flattening of the encoded tree,
    to which the tokenization theorems apply. *)
From Coq Require Import List NArith Bool.
From TwLib Require Import PyStr CodecsText.
From C28 Require Import Gen Model Proofs.
Import ListNotations.
Local Open Scope N_scope.

Section SNodeInd.
  Variable P : snode -> Prop.
  Hypothesis Htext : forall s, P (SText s).
  Hypothesis Hcdata : forall s, P (SCData s).
  Hypothesis Hcomment : forall s, P (SComment s).
  Hypothesis Htag : forall n attrs ch, Forall (fun kv => P (snd kv)) attrs -> Forall P ch -> P (STag n attrs ch).
  Hypothesis Hseq : forall l, Forall P l -> P (SSeq l).

  Fixpoint snode_ind2 (t : snode) : P t :=
    match t with
    | SText s => Htext s
    | SCData s => Hcdata s
    | SComment s => Hcomment s
    | STag n a ch =>
        Htag n a ch
          ((fix goa (l : list (list N * snode)) : Forall (fun kv => P (snd kv)) l :=
              match l with
              | [] => Forall_nil _
              | kv :: r => Forall_cons kv (snode_ind2 (snd kv)) (goa r)
              end) a)
          ((fix go (l : list snode) : Forall P l :=
              match l with
              | [] => Forall_nil P
              | x :: r => Forall_cons x (snode_ind2 x) (go r)
              end) ch)
    | SSeq l =>
        Hseq l ((fix go (l : list snode) : Forall P l :=
                   match l with
                   | [] => Forall_nil P
                   | x :: r => Forall_cons x (snode_ind2 x) (go r)
                   end) l)
    end.
End SNodeInd.

Definition is_none {A} (o : option A) : bool := match o with None => true | Some _ => false end.

Lemma mapM_none : forall (A B : Type) (f : A -> option B) (p : A -> bool) (l : list A),
  Forall (fun x => is_none (f x) = p x) l -> is_none (mapM f l) = existsb p l.
Proof.
  intros A B f p l H. induction H as [|x l Hx Hl IH]; [reflexivity|].
  cbn [mapM existsb]. fold (mapM f l). rewrite <- Hx, <- IH.
  destruct (f x), (mapM f l); reflexivity.
Qed.

Lemma encode_text_none : forall s, is_none (encode_text s) = text_unencodable s.
Proof. intros [b | cps]; cbn; [reflexivity|]. destruct (existsb is_surrogate cps); reflexivity. Qed.

Lemma is_none_map : forall (A B : Type) (f : A -> B) (o : option A), is_none (option_map f o) = is_none o.
Proof. intros A B f [x|]; reflexivity. Qed.

Lemma encode_tree_none : forall t, is_none (encode_tree t) = has_unencodable t.
Proof.
  apply snode_ind2.
  - intros s. cbn. rewrite is_none_map. apply encode_text_none.
  - intros s. cbn. rewrite is_none_map. apply encode_text_none.
  - intros s. cbn. rewrite is_none_map. apply encode_text_none.
  - intros n attrs ch Ha Hc. cbn [encode_tree has_unencodable].
    assert (Ea : is_none (mapM (fun kv => option_map (pair (fst kv)) (encode_tree (snd kv))) attrs)
                 = existsb (fun kv => has_unencodable (snd kv)) attrs).
    { apply mapM_none. apply Forall_forall. intros kv Hin. rewrite Forall_forall in Ha.
      rewrite is_none_map. exact (Ha kv Hin). }
    assert (Ec : is_none (mapM encode_tree ch) = existsb has_unencodable ch) by (apply mapM_none; exact Hc).
    rewrite <- Ea, <- Ec.
    destruct (mapM (fun kv => option_map (pair (fst kv)) (encode_tree (snd kv))) attrs), (mapM encode_tree ch); reflexivity.
  - intros l Hl. cbn [encode_tree has_unencodable]. rewrite is_none_map. apply mapM_none. exact Hl.
Qed.

(** a lone surrogate in any str of the tree: no document at all *)
Lemma unencodable_no_document : forall t, has_unencodable t = true -> flatten_source t = None.
Proof.
  intros t H. unfold flatten_source. pose proof (encode_tree_none t) as E. rewrite H in E.
  destruct (encode_tree t); [discriminate | reflexivity].
Qed.

(** otherwise the document is the flattening of the encoded tree *)
Lemma encodable_document : forall t, has_unencodable t = false ->
  exists t', encode_tree t = Some t' /\ flatten_source t = Some (flatten false t').
Proof.
  intros t H. unfold flatten_source. pose proof (encode_tree_none t) as E. rewrite H in E.
  destruct (encode_tree t) as [t'|]; [|discriminate]. exists t'. split; reflexivity.
Qed.

(** so whenever a source tree yields a document at all, the document tokenizes to the token
    sequence of its (encoded) tree: no str, whatever it contains, becomes markup *)
Lemma source_document_tokens : forall t doc, flatten_source t = Some doc ->
  exists t', encode_tree t = Some t' /\ doc = flatten false t'
             /\ (wf t' = true -> tokenize doc = toks t').
Proof.
  intros t doc H. unfold flatten_source in H. destruct (encode_tree t) as [t'|]; [|discriminate].
  injection H as <-. exists t'. repeat split. intros Hwf. apply flatten_doc. exact Hwf.
Qed.
