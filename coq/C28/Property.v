(** C28 property theorems (nothing else lives here; each is closed by [exact]).
    [escapeForContent], [attrEscape], [escapedCDATA], [escapedComment], [voidElements] are the
    generated models (Gen.v) of the escapers of twisted/web/_flatten.py; [flatten] is the
    hand-written model of [_flattenElement]'s context discipline; [run]/[tokenize] is the reference
    tokenizer (XML 1.0 productions).  Byte strings are [list N]; every statement holds for all
    byte strings of any length and all trees of any depth and width. *)
From Coq Require Import List NArith Bool.
From TwLib Require Import PyStr.
From C28 Require Import Gen Model Proofs Html5 Source.
Import ListNotations.
Local Open Scope N_scope.

(** Text in element content: whatever the text [s] and whatever follows, the tokenizer sees
    exactly the characters of [s] as character tokens -- no tag, comment, section or entity. *)
Theorem content_cannot_open_tag : forall s rest : list N,
  run MData 0 (escapeForContent s ++ rest) = map TChar s ++ run MData 0 rest.
Proof. exact content_ok. Qed.
Print Assumptions content_cannot_open_tag.

(** Attribute values: whatever byte string [w] is written inside the quotes (text, or the
    serialisation of nested tags / comments / CDATA, themselves escaped again), the value read
    back is exactly [w] and the quote that ends it is the flattener's own. *)
Theorem attr_value_cannot_close_quote : forall (w n : list N) a (k v rest : list N),
  run (MAttrVal n a k v) 0 (attrEscape w ++ 34 :: rest) = run (MAttrs n (a ++ [(k, v ++ w)])) 0 rest.
Proof. exact attr_value_ok. Qed.
Print Assumptions attr_value_cannot_close_quote.

(** CDATA: the text is cut into sections only where it contains "]]>"; the sections' contents
    concatenated are the text; nothing else is produced and the tokenizer is back in the data
    state exactly after the flattener's closing "]]>". *)
Theorem cdata_cannot_close_section : forall s rest : list N,
  run MData 0 (b_cdata_open ++ escapedCDATA s ++ b_cdata_close ++ rest)
  = cdata_toks [] 0 s ++ run MData 0 rest
  /\ concat (map cdata_content (cdata_toks [] 0 s)) = s
  /\ Forall (fun t => exists c, t = TCData c) (cdata_toks [] 0 s).
Proof.
  intros s rest.
  exact (conj (cdata_ok s rest) (conj (cdata_concat s) (cdata_toks_all_cdata (length s) s (le_n _) [] 0%nat))).
Qed.
Print Assumptions cdata_cannot_close_section.

(** Comments (XML tokenizer: a comment ends at the first "-->"): exactly one comment token, ending
    at the flattener's own "-->".  (The comment's text is the escaped text: "-->" inside it has
    become "--&gt;" and a final "-" is followed by a space; comments are not unescaped.) *)
Theorem comment_cannot_close_comment : forall s rest : list N,
  run MData 0 (b_comment_open ++ escapedComment s ++ b_comment_close ++ rest)
  = TComment (escapedComment s) :: run MData 0 rest.
Proof. exact comment_ok. Qed.
Print Assumptions comment_cannot_close_comment.

(** Trees: for every tree with valid tag and attribute names (any depth, any number of children
    and attributes, attribute values themselves arbitrary trees), and whatever follows it, the
    flattened bytes tokenize to exactly the tree's own token sequence: one start tag per element
    carrying exactly its attributes with exactly their values, its children's tokens, its end tag. *)
Theorem flatten_parses_back_to_same_structure : forall t : node, wf t = true ->
  forall rest : list N, run MData 0 (flatten false t ++ rest) = toks t ++ run MData 0 rest.
Proof. exact flatten_tokenizes. Qed.
Print Assumptions flatten_parses_back_to_same_structure.

Theorem flattened_document_tokens : forall t : node, wf t = true -> tokenize (flatten false t) = toks t.
Proof. exact flatten_doc. Qed.
Print Assumptions flattened_document_tokens.

(** The write wrapper escapes chunk by chunk; because the escapers are per-character maps this is
    the same as escaping the whole (used by the model of nested attribute contexts). *)
Theorem attribute_escaping_is_chunk_invariant : forall a b : list N,
  attrEscape (a ++ b) = attrEscape a ++ attrEscape b.
Proof. exact attrEscape_app. Qed.
Print Assumptions attribute_escaping_is_chunk_invariant.

(** Finding F10 (known finding): under the WHATWG HTML comment states the comment can end
    before the flattener's "-->", so the rest of the comment text is parsed as markup ... *)
Theorem html5_comment_refuted : exists s rest : list N,
  snd (html_comment CStart [] (escapedComment s ++ b_comment_close ++ rest)) <> rest.
Proof. exact html5_comment_early_close. Qed.
Print Assumptions html5_comment_refuted.

(** ... and this is exact.  [html5_guard s] = the text does not start with ">" or "->" and does not
    contain "--!>".  For every text inside the guard and every continuation, the WHATWG comment
    states end the comment exactly at the flattener's own "-->" ... *)
Theorem html5_comment_partial : forall s rest : list N,
  negb (starts_with [62] s) && negb (starts_with [45; 62] s) && negb (contains [45; 45; 33; 62] s) = true ->
  snd (html_comment CStart [] (escapedComment s ++ b_comment_close ++ rest)) = rest.
Proof. exact html5_guard_ok. Qed.
Print Assumptions html5_comment_partial.

(** ... and for EVERY text outside the guard and every continuation the comment ends early
    (what follows the comment token is not what follows the flattener's "-->"). *)
Theorem html5_comment_outside_guard_refuted : forall s rest : list N,
  negb (starts_with [62] s) && negb (starts_with [45; 62] s) && negb (contains [45; 45; 33; 62] s) = false ->
  snd (html_comment CStart [] (escapedComment s ++ b_comment_close ++ rest)) <> rest.
Proof. exact html5_guard_exact. Qed.
Print Assumptions html5_comment_outside_guard_refuted.

(** str input: every escaper first encodes a str with the strict UTF-8 codec.  A source tree in which
    ANY str (element content, CDATA, comment, attribute value, at any depth) holds a lone surrogate
    yields no document at all (UnicodeEncodeError / FlattenerError) ... *)
Theorem unencodable_text_gives_no_document : forall t : snode,
  has_unencodable t = true -> flatten_source t = None.
Proof. exact unencodable_no_document. Qed.
Print Assumptions unencodable_text_gives_no_document.

(** ... and whenever a source tree does yield a document, it is the flattening of the encoded tree
    and tokenizes to exactly that tree's token sequence. *)
Theorem source_document_parses_back : forall (t : snode) (doc : list N), flatten_source t = Some doc ->
  exists t' : node, encode_tree t = Some t' /\ doc = flatten false t' /\ (wf t' = true -> tokenize doc = toks t').
Proof. exact source_document_tokens. Qed.
Print Assumptions source_document_parses_back.
