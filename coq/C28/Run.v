(** C28: printers used by the correspondence check only. *)
From Coq Require Import List NArith String.
From TwLib Require Import Show PyStr.
From C28 Require Import Gen Model.
Import ListNotations.
Local Open Scope string_scope.

Definition show_attr (kv : list N * list N) : string := show_hex (fst kv) ++ "=" ++ show_hex (snd kv).

Definition show_token (t : token) : string :=
  match t with
  | TChar c => "c" ++ show_hex [c]
  | TOpen n a sc => "o" ++ show_hex n ++ "[" ++ String.concat ";" (map show_attr a) ++ "]" ++ (if sc then "/" else "")
  | TClose n => "e" ++ show_hex n
  | TComment s => "m" ++ show_hex s
  | TCData s => "d" ++ show_hex s
  | TError => "!"
  end.

Definition show_tokens (l : list token) : string := String.concat "," (map show_token l).

(** RTree: flattened bytes and their tokens;  RRaw: tokens of a raw document (cross-validation of the
    reference tokenizer, of the transcribed WHATWG comment states run on the document as a comment body,
    and of the guard);  RSrc: a source tree with str leaves given as code points (lone surrogates) *)
Inductive rcase := RTree (t : node) | RRaw (d : list N) | RSrc (t : snode).

Definition show_tree (t : node) : string :=
  show_hex (flatten false t) ++ " " ++ show_tokens (tokenize (flatten false t)).

Definition run_show (c : rcase) : string :=
  match c with
  | RTree t => show_tree t
  | RRaw d => "- " ++ show_tokens (tokenize d) ++ " h"
             ++ show_hex (fst (html_comment CStart [] d)) ++ ":" ++ show_nat (List.length (snd (html_comment CStart [] d)))
             ++ ":" ++ show_bool (html5_guard d)
  | RSrc t => match encode_tree t with
              | Some t' => show_tree t'
              | None => "EXC:FlattenerError:UnicodeEncodeError"
              end
  end.
