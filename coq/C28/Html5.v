(** C28, HTML5 comments: the exact guard.  The ten WHATWG comment states are projected onto a
    six-state "dash automaton" that decides where the comment ends; the automaton is characterised
    by substring occurrence ("-->" / "--!>", and ">" / "->" at the very start); the escaper's output
    is characterised with the Replace3 lemmas.  Result: the comment ends at the flattener's own
    "-->" exactly when the text satisfies [html5_guard]. *)
From Coq Require Import List NArith Bool Arith Lia.
From TwLib Require Import PyStr.
From C28 Require Import Gen Model Proofs.
Import ListNotations.
Local Open Scope N_scope.

(** ---------------- projection of the comment states ---------------- *)

Inductive K := KStart | KStartDash | K0 | K1 | K2 | KBang.

Definition cls (st : cstate) : K :=
  match st with
  | CStart => KStart
  | CStartDash => KStartDash
  | CComment | CLt | CLtBang => K0
  | CEndDash | CLtBangDash => K1
  | CEnd | CLtBangDashDash => K2
  | CEndBang => KBang
  end.

(** [None] = the comment token is emitted at this character *)
Definition kstep (k : K) (c : N) : option K :=
  match k with
  | KStart => if c =? 45 then Some KStartDash else if c =? 62 then None else Some K0
  | KStartDash => if c =? 45 then Some K2 else if c =? 62 then None else Some K0
  | K0 => if c =? 45 then Some K1 else Some K0
  | K1 => if c =? 45 then Some K2 else Some K0
  | K2 => if c =? 62 then None else if c =? 33 then Some KBang else if c =? 45 then Some K2 else Some K0
  | KBang => if c =? 45 then Some K1 else if c =? 62 then None else Some K0
  end.

Lemma kstep_sim : forall st data c,
  match cstep st data c with
  | Go st' _ => kstep (cls st) c = Some (cls st')
  | Emit _ => kstep (cls st) c = None
  end.
Proof.
  intros st data c.
  destruct st; cbn [cstep cls]; unfold in_end_dash, in_end, in_comment, kstep;
    destruct (N.eqb_spec c 45) as [->|?]; try reflexivity;
    destruct (N.eqb_spec c 62) as [->|?]; try reflexivity;
    destruct (N.eqb_spec c 33) as [->|?]; try reflexivity;
    destruct (N.eqb_spec c 60) as [->|?]; try reflexivity;
    destruct (N.eqb_spec c 0) as [->|?]; reflexivity.
Qed.

(** the input that remains after the comment *)
Fixpoint krest (k : K) (s : list N) : list N :=
  match s with
  | [] => []
  | c :: r => match kstep k c with Some k' => krest k' r | None => r end
  end.

Lemma html_krest : forall s st data, snd (html_comment st data s) = krest (cls st) s.
Proof.
  induction s as [|c s IH]; intros st data; [reflexivity|].
  cbn [html_comment krest]. pose proof (kstep_sim st data c) as H.
  destruct (cstep st data c) as [st' d' | d']; rewrite H; [apply IH | reflexivity].
Qed.

(** scanning a text without reaching its end: the state afterwards, or [None] if the comment
    was emitted inside the text *)
Fixpoint kscan (k : K) (s : list N) : option K :=
  match s with
  | [] => Some k
  | c :: r => match kstep k c with Some k' => kscan k' r | None => None end
  end.

Definition closes (k : K) (s : list N) : bool := match kscan k s with None => true | Some _ => false end.

Lemma krest_app_some : forall t k k' u, kscan k t = Some k' -> krest k (t ++ u) = krest k' u.
Proof.
  induction t as [|c t IH]; intros k k' u H.
  - cbn in H. injection H as ->. reflexivity.
  - cbn [kscan] in H. cbn [app krest]. destruct (kstep k c) as [k1|]; [apply IH; exact H | discriminate].
Qed.

Lemma krest_app_none : forall t k u, kscan k t = None -> exists t', krest k (t ++ u) = t' ++ u.
Proof.
  induction t as [|c t IH]; intros k u H; [discriminate|].
  cbn [kscan] in H. cbn [app krest]. destruct (kstep k c) as [k1|].
  - apply IH. exact H.
  - exists t. reflexivity.
Qed.

Lemma krest_close : forall k rest, krest k (b_comment_close ++ rest) = rest.
Proof. intros k rest. destruct k; reflexivity. Qed.

(** ---------------- the automaton in terms of substrings ---------------- *)

Definition p_close : list N := [45; 45; 62].        (* --> *)
Definition p_bang : list N := [45; 45; 33; 62].     (* --!> *)
Definition bad (u : list N) : bool := contains p_close u || contains p_bang u.

(** what the state remembers of the text already read *)
Definition vp (k : K) : list N :=
  match k with K1 => [45] | K2 => [45; 45] | KBang => [45; 45; 33] | _ => [] end.

Lemma sw_cons : forall a p b s, starts_with (a :: p) (b :: s) = (a =? b) && starts_with p s.
Proof. reflexivity. Qed.

Lemma contains_cons : forall p x u, contains p (x :: u) = starts_with p (x :: u) || contains p u.
Proof. reflexivity. Qed.

Lemma contains_skip : forall a p x u, (a =? x) = false -> contains (a :: p) (x :: u) = contains (a :: p) u.
Proof. intros a p x u H. rewrite contains_cons, sw_cons, H. reflexivity. Qed.

Lemma bad_cons : forall x u,
  bad (x :: u) = (starts_with p_close (x :: u) || starts_with p_bang (x :: u)) || bad u.
Proof.
  intros x u. unfold bad. rewrite !contains_cons.
  destruct (starts_with p_close (x :: u)), (starts_with p_bang (x :: u)), (contains p_close u); reflexivity.
Qed.

Lemma bad_skip : forall x u, (45 =? x) = false -> bad (x :: u) = bad u.
Proof. intros x u H. unfold bad, p_close, p_bang. rewrite !contains_skip by exact H. reflexivity. Qed.

Ltac flip c k := assert ((k =? c) = false) by (apply N.eqb_neq; congruence).

(** peeling lemmas: one for each transition of the automaton *)
Lemma bad_dash_other : forall c r, c <> 45 -> bad (45 :: c :: r) = bad r.
Proof.
  intros c r H. flip c 45. rewrite bad_cons. unfold p_close, p_bang. rewrite !sw_cons, H0.
  rewrite !andb_false_r. cbn [orb]. apply bad_skip. exact H0.
Qed.

Lemma bad_close : forall r, bad (45 :: 45 :: 62 :: r) = true.
Proof. reflexivity. Qed.

Lemma bad_dash3 : forall r, bad (45 :: 45 :: 45 :: r) = bad (45 :: 45 :: r).
Proof. intros r. rewrite bad_cons. reflexivity. Qed.

Lemma bad_dd_other : forall c r, c <> 45 -> c <> 62 -> c <> 33 -> bad (45 :: 45 :: c :: r) = bad r.
Proof.
  intros c r H45 H62 H33. flip c 45. flip c 62. flip c 33.
  rewrite bad_cons. unfold p_close, p_bang. rewrite !sw_cons, H0, H1. rewrite !andb_false_r. cbn [orb andb].
  change (45 =? 45) with true. cbn [andb]. rewrite ?andb_false_r. cbn [orb].
  apply bad_dash_other. exact H45.
Qed.

Lemma bad_bang_dash : forall r, bad (45 :: 45 :: 33 :: 45 :: r) = bad (45 :: r).
Proof. intros r. rewrite bad_cons. cbn [starts_with p_close p_bang]. cbn. rewrite bad_cons. cbn. rewrite bad_skip by reflexivity. reflexivity. Qed.

Lemma bad_bang_close : forall r, bad (45 :: 45 :: 33 :: 62 :: r) = true.
Proof. intros r. unfold bad. rewrite (contains_cons p_bang). cbn. apply orb_true_r. Qed.

Lemma bad_bang_other : forall c r, c <> 45 -> c <> 62 -> bad (45 :: 45 :: 33 :: c :: r) = bad r.
Proof.
  intros c r H45 H62. flip c 45. flip c 62.
  rewrite bad_cons. unfold p_close, p_bang. rewrite !sw_cons, H0.
  change (62 =? 33) with false. rewrite ?andb_false_r, ?andb_false_l. cbn [orb andb].
  change (45 =? 45) with true. change (33 =? 33) with true. cbn [andb]. rewrite ?andb_false_r. cbn [orb].
  rewrite bad_dash_other by discriminate. apply bad_skip. exact H.
Qed.

Lemma closes_bad : forall t k, (k = K0 \/ k = K1 \/ k = K2 \/ k = KBang) -> closes k t = bad (vp k ++ t).
Proof.
  induction t as [|c t IH]; intros k Hk.
  - destruct Hk as [-> | [-> | [-> | ->]]]; reflexivity.
  - assert (I0 := IH K0 (or_introl eq_refl)).
    assert (I1 := IH K1 (or_intror (or_introl eq_refl))).
    assert (I2 := IH K2 (or_intror (or_intror (or_introl eq_refl)))).
    assert (I3 := IH KBang (or_intror (or_intror (or_intror eq_refl)))).
    cbn [vp app] in I0, I1, I2, I3.
    destruct Hk as [-> | [-> | [-> | ->]]]; unfold closes in *; cbn [kscan kstep vp app].
    + (* K0 *)
      destruct (N.eqb_spec c 45) as [->|n].
      * exact I1.
      * rewrite I0. flip c 45. symmetry. apply bad_skip. assumption.
    + (* K1 *)
      destruct (N.eqb_spec c 45) as [->|n].
      * exact I2.
      * rewrite I0. symmetry. apply bad_dash_other. exact n.
    + (* K2 *)
      destruct (N.eqb_spec c 62) as [->|n62]; [symmetry; apply bad_close|].
      destruct (N.eqb_spec c 33) as [->|n33]; [exact I3|].
      destruct (N.eqb_spec c 45) as [->|n45]; [rewrite I2; symmetry; apply bad_dash3|].
      rewrite I0. symmetry. apply bad_dd_other; assumption.
    + (* KBang *)
      destruct (N.eqb_spec c 45) as [->|n45]; [rewrite I1; symmetry; apply bad_bang_dash|].
      destruct (N.eqb_spec c 62) as [->|n62]; [symmetry; apply bad_bang_close|].
      rewrite I0. symmetry. apply bad_bang_other; assumption.
Qed.

(** from the start state: ">" or "->" at the very beginning also end the comment *)
Lemma closes_start : forall t,
  closes KStart t = starts_with [62] t || starts_with [45; 62] t || bad t.
Proof.
  intros [|c r]; [reflexivity|].
  unfold closes. cbn [kscan kstep].
  destruct (N.eqb_spec c 45) as [->|n45].
  - destruct r as [|d r']; [reflexivity|]. cbn [kscan kstep].
    destruct (N.eqb_spec d 45) as [->|m45].
    + pose proof (closes_bad r' K2 (or_intror (or_intror (or_introl eq_refl)))) as H. unfold closes in H.
      cbn [vp app] in H. rewrite H. reflexivity.
    + destruct (N.eqb_spec d 62) as [->|m62]; [reflexivity|].
      pose proof (closes_bad r' K0 (or_introl eq_refl)) as H. unfold closes in H. cbn [vp app] in H.
      rewrite H. flip d 62. rewrite !sw_cons, H0. cbn [andb orb].
      change (62 =? 45) with false. cbn [andb orb]. symmetry. apply bad_dash_other. exact m45.
  - destruct (N.eqb_spec c 62) as [->|n62]; [reflexivity|].
    pose proof (closes_bad r K0 (or_introl eq_refl)) as H. unfold closes in H. cbn [vp app] in H.
    rewrite H. flip c 45. flip c 62. rewrite !sw_cons, H0, H1. cbn [andb orb]. symmetry. apply bad_skip. assumption.
Qed.

(** ---------------- the escaper's output ---------------- *)

(** [Rcom] = the replacement of "-->" by "--&gt;" (Proofs.v) *)

Lemma Rcom_no_close : forall n s, (length s <= n)%nat -> forall X,
  starts_with [62] X = false -> starts_with [45; 62] X = false ->
  contains p_close (Rcom s ++ X) = contains p_close X.
Proof.
  induction n as [|n IH]; intros s Hlen X H1 H2.
  - destruct s; [reflexivity | cbn in Hlen; lia].
  - destruct (R3_cases 45 45 62 [38; 103; 116; 59] s) as [-> | [[r [-> E]] | [x [r [-> [Hn E]]]]]].
    + reflexivity.
    + unfold Rcom. rewrite E. unfold new3. cbn [app]. cbn [length] in Hlen. fold Rcom.
      rewrite contains_cons. rewrite (contains_cons p_close 45 (38 :: _)).
      unfold p_close at 1 3. rewrite !sw_cons.
      change (62 =? 38) with false. change (45 =? 38) with false. rewrite ?andb_false_r. cbn [orb andb].
      unfold p_close. rewrite !contains_skip by reflexivity.
      apply (IH r ltac:(lia) X H1 H2).
    + unfold Rcom. rewrite E. cbn [app]. cbn [length] in Hlen. fold Rcom.
      rewrite contains_cons.
      change p_close with (old3 45 45 62) at 1. unfold Rcom at 1.
      rewrite (R3_sw3 45 45 62 [38; 103; 116; 59] x r X).
      rewrite (nomatch_app 45 45 62 x r X Hn H1 H2). cbn [orb]. fold Rcom.
      apply (IH r ltac:(lia) X H1 H2).
Qed.

Lemma Rcom_sw_bang_tail : forall r X,
  starts_with [45; 33; 62] (Rcom r ++ X) = starts_with [45; 33; 62] (r ++ X).
Proof.
  intros r X. destruct (R3_cases 45 45 62 [38; 103; 116; 59] r) as [-> | [[r' [-> E]] | [y [r' [-> [_ E]]]]]].
  - reflexivity.
  - unfold Rcom. rewrite E. reflexivity.
  - unfold Rcom. rewrite E. cbn [app]. rewrite !sw_cons. f_equal.
    apply (R3_sw2 45 45 62 [38; 103; 116; 59] 33 62 r' X).
Qed.

Lemma bang_peel_escaped : forall Y, contains p_bang (45 :: 45 :: 38 :: 103 :: 116 :: 59 :: Y) = contains p_bang Y.
Proof. intros Y. unfold p_bang. rewrite !contains_cons, !sw_cons. cbn [N.eqb Pos.eqb andb orb]. reflexivity. Qed.

Lemma bang_peel_source : forall Y, contains p_bang (45 :: 45 :: 62 :: Y) = contains p_bang Y.
Proof. intros Y. unfold p_bang. rewrite !contains_cons, !sw_cons. cbn [N.eqb Pos.eqb andb orb]. reflexivity. Qed.

Lemma Rcom_bang : forall n s, (length s <= n)%nat -> forall X,
  contains p_bang (Rcom s ++ X) = contains p_bang (s ++ X).
Proof.
  induction n as [|n IH]; intros s Hlen X.
  - destruct s; [reflexivity | cbn in Hlen; lia].
  - destruct (R3_cases 45 45 62 [38; 103; 116; 59] s) as [-> | [[r [-> E]] | [x [r [-> [Hn E]]]]]].
    + reflexivity.
    + unfold Rcom. rewrite E. unfold new3. cbn [app]. cbn [length] in Hlen. fold Rcom.
      rewrite bang_peel_escaped, bang_peel_source. apply (IH r ltac:(lia) X).
    + unfold Rcom. rewrite E. cbn [app]. cbn [length] in Hlen. fold Rcom.
      rewrite !contains_cons. rewrite (IH r ltac:(lia) X). f_equal.
      unfold p_bang. rewrite !sw_cons. f_equal. apply Rcom_sw_bang_tail.
Qed.

Lemma sw_bang_app32 : forall l, starts_with p_bang (l ++ [32]) = starts_with p_bang l.
Proof.
  intros l. unfold p_bang.
  destruct l as [|a [|b [|c [|d l]]]]; cbn [app]; rewrite ?sw_cons;
    try (destruct (45 =? a), (45 =? b), (33 =? c); reflexivity);
    try (destruct (45 =? a), (45 =? b); reflexivity);
    try (destruct (45 =? a); reflexivity); reflexivity.
Qed.

Lemma contains_bang_app32 : forall s, contains p_bang (s ++ [32]) = contains p_bang s.
Proof.
  induction s as [|c s IH]; [reflexivity|].
  cbn [app]. rewrite !contains_cons, IH. f_equal.
  apply (sw_bang_app32 (c :: s)).
Qed.

Lemma escapedComment_form : forall s,
  exists pad, (pad = [] \/ pad = [32]) /\ escapedComment s = Rcom s ++ pad.
Proof.
  intros s. unfold escapedComment. cbv zeta.
  change (py_replace [45; 45; 62] [45; 45; 38; 103; 116; 59] s) with (Rcom s).
  destruct (ends_with [45] (Rcom s)).
  - exists [32]. split; [right; reflexivity | reflexivity].
  - exists []. split; [left; reflexivity | symmetry; apply app_nil_r].
Qed.

Lemma sw1_pad : forall s pad, (pad = [] \/ pad = [32]) -> starts_with [62] (s ++ pad) = starts_with [62] s.
Proof. intros [|c s] pad [-> | ->]; reflexivity. Qed.

Lemma sw2_pad : forall s pad, (pad = [] \/ pad = [32]) -> starts_with [45; 62] (s ++ pad) = starts_with [45; 62] s.
Proof.
  intros [|c [|d s]] pad [-> | ->]; try reflexivity;
    cbn [app]; rewrite !sw_cons; destruct (45 =? c); reflexivity.
Qed.

(** the guard decides whether the comment ends inside the escaped text *)
Lemma closes_escaped : forall s, closes KStart (escapedComment s) = negb (html5_guard s).
Proof.
  intros s. destruct (escapedComment_form s) as [pad [Hpad ->]].
  rewrite closes_start. unfold bad, html5_guard.
  rewrite (R3_sw1 45 45 62 [38; 103; 116; 59] 62 s pad : starts_with [62] (Rcom s ++ pad) = _).
  rewrite (R3_sw2 45 45 62 [38; 103; 116; 59] 45 62 s pad : starts_with [45; 62] (Rcom s ++ pad) = _).
  rewrite sw1_pad, sw2_pad by exact Hpad.
  assert (Hc : contains p_close (Rcom s ++ pad) = false).
  { rewrite (Rcom_no_close (length s) s (le_n _) pad) by (destruct Hpad as [-> | ->]; reflexivity).
    destruct Hpad as [-> | ->]; reflexivity. }
  rewrite Hc, (Rcom_bang (length s) s (le_n _) pad). cbn [orb].
  assert (Hb : contains p_bang (s ++ pad) = contains [45; 45; 33; 62] s).
  { destruct Hpad as [-> | ->]; [rewrite app_nil_r; reflexivity | apply contains_bang_app32]. }
  rewrite Hb.
  destruct (starts_with [62] s), (starts_with [45; 62] s), (contains [45; 45; 33; 62] s); reflexivity.
Qed.

(** ---------------- the two halves ---------------- *)

Lemma html5_guard_ok : forall s rest, html5_guard s = true ->
  snd (html_comment CStart [] (escapedComment s ++ b_comment_close ++ rest)) = rest.
Proof.
  intros s rest H. rewrite html_krest. cbn [cls].
  pose proof (closes_escaped s) as Hc. rewrite H in Hc. cbn [negb] in Hc. unfold closes in Hc.
  destruct (kscan KStart (escapedComment s)) as [k'|] eqn:E; [|discriminate].
  rewrite (krest_app_some _ _ _ _ E). apply krest_close.
Qed.

Lemma html5_guard_exact : forall s rest, html5_guard s = false ->
  snd (html_comment CStart [] (escapedComment s ++ b_comment_close ++ rest)) <> rest.
Proof.
  intros s rest H. rewrite html_krest. cbn [cls].
  pose proof (closes_escaped s) as Hc. rewrite H in Hc. cbn [negb] in Hc. unfold closes in Hc.
  destruct (kscan KStart (escapedComment s)) as [k'|] eqn:E; [discriminate|].
  destruct (krest_app_none _ _ (b_comment_close ++ rest) E) as [t' Ht]. rewrite Ht.
  intros Heq. apply (f_equal (@length N)) in Heq. rewrite !app_length in Heq. cbn [length b_comment_close] in Heq. lia.
Qed.

Example guard_examples :
  html5_guard [62; 120] = false /\ html5_guard [45; 62; 120] = false /\ html5_guard [120; 45; 45; 33; 62] = false
  /\ html5_guard [45; 45; 62; 33; 62; 45] = true /\ html5_guard [60; 33; 45; 45; 120; 45; 45; 33] = true.
Proof. vm_compute. repeat split. Qed.
