(** C28 proofs: per-context "content cannot become markup" lemmas for the generated escapers
    against the reference tokenizer, and the tree-level theorem by induction on the tree. *)
From Coq Require Import List NArith Bool Arith Lia.
From TwLib Require Import PyStr.
From C28 Require Import Gen Model.
Import ListNotations.
Local Open Scope N_scope.

(** ---------------- the single-character escapers are per-character maps ---------------- *)

Definition esc_content (c : N) : list N :=
  if c =? 38 then e_amp else if c =? 60 then e_lt else if c =? 62 then e_gt else [c].
Definition esc_attr (c : N) : list N := if c =? 34 then e_quot else esc_content c.

Ltac char_cases4 c :=
  let N1 := fresh "N1" in let N2 := fresh "N2" in let N3 := fresh "N3" in let N4 := fresh "N4" in
  destruct (N.eqb_spec c 38) as [->|N1]; [reflexivity|];
  destruct (N.eqb_spec c 60) as [->|N2]; [reflexivity|];
  destruct (N.eqb_spec c 62) as [->|N3]; [reflexivity|];
  destruct (N.eqb_spec c 34) as [->|N4]; [reflexivity|];
  apply N.eqb_neq in N1; apply N.eqb_neq in N2; apply N.eqb_neq in N3; apply N.eqb_neq in N4;
  unfold esc_attr, esc_content, subst1;
  repeat (progress (cbn [flat_map app]; rewrite ?N1, ?N2, ?N3, ?N4)); reflexivity.

Lemma escapeForContent_flat : forall s, escapeForContent s = flat_map esc_content s.
Proof.
  intros s. unfold escapeForContent. cbv zeta.
  rewrite (py_replace_single _ _ s), !replace_single_chain.
  apply flat_map_ext'. intros c. char_cases4 c.
Qed.

Lemma attrEscape_flat : forall s, attrEscape s = flat_map esc_attr s.
Proof.
  intros s. unfold attrEscape. cbv zeta. rewrite escapeForContent_flat, replace_single_chain.
  apply flat_map_ext'. intros c. char_cases4 c.
Qed.

(** the escapers are homomorphisms: escaping each written chunk = escaping the whole *)
Lemma attrEscape_app : forall a b, attrEscape (a ++ b) = attrEscape a ++ attrEscape b.
Proof. intros. rewrite !attrEscape_flat. apply flat_map_app. Qed.

Lemma escapeForContent_app : forall a b, escapeForContent (a ++ b) = escapeForContent a ++ escapeForContent b.
Proof. intros. rewrite !escapeForContent_flat. apply flat_map_app. Qed.

(** ---------------- unfolding the tokenizer ---------------- *)

Lemma run_cons0 : forall m c r,
  run m 0 (c :: r) = match step m (c :: r) with
                     | (out, Some (m', k)) => out ++ run m' k r
                     | (out, None) => out
                     end.
Proof. reflexivity. Qed.

(** ---------------- character data ---------------- *)

Lemma run_data_char : forall c rest, run MData 0 (esc_content c ++ rest) = TChar c :: run MData 0 rest.
Proof.
  intros c rest. unfold esc_content.
  destruct (N.eqb_spec c 38) as [->|N1]; [reflexivity|].
  destruct (N.eqb_spec c 60) as [->|N2]; [reflexivity|].
  destruct (N.eqb_spec c 62) as [->|N3]; [reflexivity|].
  apply N.eqb_neq in N1. apply N.eqb_neq in N2.
  cbn [app]. rewrite run_cons0. unfold step. rewrite N2, N1. reflexivity.
Qed.

Lemma content_ok : forall s rest,
  run MData 0 (escapeForContent s ++ rest) = map TChar s ++ run MData 0 rest.
Proof.
  intros s rest. rewrite escapeForContent_flat.
  induction s as [|c s IH]; [reflexivity|].
  cbn [flat_map map]. rewrite <- app_assoc, run_data_char, IH. reflexivity.
Qed.

(** ---------------- attribute values ---------------- *)

Lemma run_attr_char : forall n a k v c rest,
  run (MAttrVal n a k v) 0 (esc_attr c ++ rest) = run (MAttrVal n a k (v ++ [c])) 0 rest.
Proof.
  intros n a k v c rest. unfold esc_attr, esc_content.
  destruct (N.eqb_spec c 34) as [->|N0]; [reflexivity|].
  destruct (N.eqb_spec c 38) as [->|N1]; [reflexivity|].
  destruct (N.eqb_spec c 60) as [->|N2]; [reflexivity|].
  destruct (N.eqb_spec c 62) as [->|N3]; [reflexivity|].
  apply N.eqb_neq in N0. apply N.eqb_neq in N1. apply N.eqb_neq in N2.
  cbn [app]. rewrite run_cons0. unfold step. rewrite N0, N2, N1. reflexivity.
Qed.

Lemma attr_value_ok : forall w n a k v rest,
  run (MAttrVal n a k v) 0 (attrEscape w ++ 34 :: rest) = run (MAttrs n (a ++ [(k, v ++ w)])) 0 rest.
Proof.
  intros w. rewrite attrEscape_flat.
  induction w as [|c w IH]; intros n a k v rest.
  - cbn [flat_map app]. rewrite app_nil_r. reflexivity.
  - cbn [flat_map]. rewrite <- app_assoc, run_attr_char, IH, <- app_assoc. reflexivity.
Qed.

(** ---------------- comments ---------------- *)

Definition Rcom : list N -> list N := R3 45 45 62 [38; 103; 116; 59].

Lemma run_comment_char : forall acc c l,
  starts_with b_comment_close (c :: l) = false ->
  run (MComment acc) 0 (c :: l) = run (MComment (acc ++ [c])) 0 l.
Proof. intros acc c l H. rewrite run_cons0. unfold step. rewrite H. reflexivity. Qed.

Lemma run_comment_body : forall n s, (length s <= n)%nat -> forall acc X,
  starts_with [62] X = false -> starts_with [45; 62] X = false ->
  run (MComment acc) 0 (Rcom s ++ X) = run (MComment (acc ++ Rcom s)) 0 X.
Proof.
  induction n as [|n IH]; intros s Hlen acc X H1 H2.
  - destruct s; [|cbn in Hlen; lia]. cbn. rewrite app_nil_r. reflexivity.
  - destruct (R3_cases 45 45 62 [38; 103; 116; 59] s) as [-> | [[r [-> E]] | [x [r [-> [Hn E]]]]]].
    + cbn. rewrite app_nil_r. reflexivity.
    + unfold Rcom. rewrite E. unfold new3. cbn [app].
      cbn [length] in Hlen.
      do 6 (rewrite run_comment_char by reflexivity).
      fold Rcom. rewrite (IH r ltac:(lia)) by assumption.
      rewrite <- !app_assoc. reflexivity.
    + unfold Rcom. rewrite E. cbn [app]. cbn [length] in Hlen.
      rewrite run_comment_char.
      * fold Rcom. rewrite (IH r ltac:(lia)) by assumption. rewrite <- app_assoc. reflexivity.
      * change b_comment_close with (old3 45 45 62).
        rewrite (R3_sw3 45 45 62 [38; 103; 116; 59] x r X).
        apply nomatch_app; assumption.
Qed.

Lemma comment_ok : forall s rest,
  run MData 0 (b_comment_open ++ escapedComment s ++ b_comment_close ++ rest)
  = TComment (escapedComment s) :: run MData 0 rest.
Proof.
  intros s rest.
  change (run MData 0 (b_comment_open ++ escapedComment s ++ b_comment_close ++ rest))
    with (run (MComment []) 0 (escapedComment s ++ b_comment_close ++ rest)).
  unfold escapedComment. cbv zeta.
  change (py_replace [45; 45; 62] [45; 45; 38; 103; 116; 59] s) with (Rcom s).
  destruct (ends_with [45] (Rcom s)).
  - rewrite <- app_assoc. rewrite (run_comment_body (length s) s (le_n _)) by reflexivity.
    cbn [app]. rewrite run_comment_char by reflexivity.
    reflexivity.
  - rewrite (run_comment_body (length s) s (le_n _)) by reflexivity. reflexivity.
Qed.

(** ---------------- CDATA sections ---------------- *)

Definition cd_new' : list N := [93; 93; 62; 60; 33; 91; 67; 68; 65; 84; 65; 91; 62].
Definition Rcd : list N -> list N := R3 93 93 62 cd_new'.

Lemma run_cdata_char : forall acc c l,
  starts_with b_cdata_close (c :: l) = false ->
  run (MCData acc) 0 (c :: l) = run (MCData (acc ++ [c])) 0 l.
Proof. intros acc c l H. rewrite run_cons0. unfold step. rewrite H. reflexivity. Qed.

Lemma cdata_toks_char : forall acc c l,
  starts_with b_cdata_close (c :: l) = false ->
  cdata_toks acc 0 (c :: l) = cdata_toks (acc ++ [c]) 0 l.
Proof. intros acc c l H. cbn [cdata_toks]. rewrite H. reflexivity. Qed.

Lemma run_cdata_body : forall n s, (length s <= n)%nat -> forall acc rest,
  run (MCData acc) 0 (Rcd s ++ b_cdata_close ++ rest) = cdata_toks acc 0 s ++ run MData 0 rest.
Proof.
  induction n as [|n IH]; intros s Hlen acc rest.
  - destruct s; [|cbn in Hlen; lia]. reflexivity.
  - destruct (R3_cases 93 93 62 cd_new' s) as [-> | [[r [-> E]] | [x [r [-> [Hn E]]]]]].
    + reflexivity.
    + unfold Rcd. rewrite E. unfold new3, cd_new'. cbn [app]. cbn [length] in Hlen.
      do 2 (rewrite run_cdata_char by reflexivity).
      rewrite run_cons0.
      change (step (MCData ((acc ++ [93]) ++ [93])) (93 :: 93 :: 62 :: 60 :: 33 :: 91 :: 67 :: 68 :: 65 :: 84 :: 65 :: 91 :: 62 :: R3 93 93 62 [93; 93; 62; 60; 33; 91; 67; 68; 65; 84; 65; 91; 62] r ++ b_cdata_close ++ rest))
        with ([TCData ((acc ++ [93]) ++ [93])], Some (MData, 2%nat)).
      cbn [app].
      change (run MData 2 (93 :: 62 :: 60 :: 33 :: 91 :: 67 :: 68 :: 65 :: 84 :: 65 :: 91 :: 62 :: R3 93 93 62 [93; 93; 62; 60; 33; 91; 67; 68; 65; 84; 65; 91; 62] r ++ b_cdata_close ++ rest))
        with (run (MCData []) 0 (62 :: Rcd r ++ b_cdata_close ++ rest)).
      rewrite run_cdata_char by reflexivity.
      rewrite (IH r ltac:(lia)).
      rewrite <- app_assoc. reflexivity.
    + unfold Rcd. rewrite E. cbn [app]. cbn [length] in Hlen.
      assert (Hn' : starts_with b_cdata_close (x :: r) = false) by exact Hn.
      rewrite run_cdata_char.
      * fold Rcd. rewrite (IH r ltac:(lia)). rewrite cdata_toks_char by exact Hn'. reflexivity.
      * change b_cdata_close with (old3 93 93 62).
        rewrite (R3_sw3 93 93 62 cd_new' x r (old3 93 93 62 ++ rest)).
        apply nomatch_app; [exact Hn | reflexivity | reflexivity].
Qed.

Lemma cdata_ok : forall s rest,
  run MData 0 (b_cdata_open ++ escapedCDATA s ++ b_cdata_close ++ rest)
  = cdata_toks [] 0 s ++ run MData 0 rest.
Proof.
  intros s rest.
  change (run MData 0 (b_cdata_open ++ escapedCDATA s ++ b_cdata_close ++ rest))
    with (run (MCData []) 0 (escapedCDATA s ++ b_cdata_close ++ rest)).
  unfold escapedCDATA. cbv zeta.
  change (py_replace [93; 93; 62] [93; 93; 93; 93; 62; 60; 33; 91; 67; 68; 65; 84; 65; 91; 62] s) with (Rcd s).
  apply (run_cdata_body (length s) s (le_n _)).
Qed.

(** the sections' contents, concatenated, are the original text *)
Lemma cdata_concat_len : forall n s, (length s <= n)%nat -> forall acc,
  concat (map cdata_content (cdata_toks acc 0 s)) = acc ++ s.
Proof.
  induction n as [|n IH]; intros s Hlen acc.
  - destruct s; [|cbn in Hlen; lia]. cbn. rewrite !app_nil_r. reflexivity.
  - destruct s as [|x r]; [cbn; rewrite !app_nil_r; reflexivity|].
    cbn [length] in Hlen.
    destruct (starts_with b_cdata_close (x :: r)) eqn:E.
    + apply starts_with_spec in E. destruct E as [r' Hr]. cbn in Hr. injection Hr as -> ->.
      cbn [cdata_toks starts_with b_cdata_close]. rewrite !N.eqb_refl. cbn [andb map concat cdata_content].
      cbn [length] in Hlen. rewrite (IH r' ltac:(lia)). rewrite <- !app_assoc. reflexivity.
    + rewrite cdata_toks_char by exact E. rewrite (IH r ltac:(lia)). rewrite <- app_assoc. reflexivity.
Qed.

Lemma cdata_concat : forall s, concat (map cdata_content (cdata_toks [] 0 s)) = s.
Proof. intros s. apply (cdata_concat_len (length s) s (le_n _) []). Qed.

Lemma cdata_toks_all_cdata : forall n s, (length s <= n)%nat -> forall acc k,
  Forall (fun t => exists c, t = TCData c) (cdata_toks acc k s).
Proof.
  induction n as [|n IH]; intros s Hlen acc k.
  - destruct s; [|cbn in Hlen; lia]. constructor; [eexists; reflexivity | constructor].
  - destruct s as [|x r]; [constructor; [eexists; reflexivity | constructor]|].
    cbn [length] in Hlen. cbn [cdata_toks]. destruct k as [|k].
    + destruct (starts_with b_cdata_close (x :: r)).
      * constructor; [eexists; reflexivity|]. apply IH. lia.
      * apply IH. lia.
    + apply IH. lia.
Qed.

(** ---------------- names and tags ---------------- *)

Lemma name_char_plain : forall c, is_name_char c = true ->
  (c =? 33) = false /\ (c =? 47) = false /\ (c =? 32) = false /\ (c =? 62) = false /\ (c =? 61) = false.
Proof.
  intros c H. repeat split;
    match goal with |- (c =? ?k) = false => destruct (N.eqb_spec c k) as [->|]; [discriminate H | reflexivity] end.
Qed.

Lemma run_open_name : forall name n X, forallb is_name_char name = true ->
  run (MOpenName n) 0 (name ++ X) = run (MOpenName (n ++ name)) 0 X.
Proof.
  induction name as [|c name IH]; intros n X H.
  - rewrite app_nil_r. reflexivity.
  - cbn [forallb] in H. apply andb_true_iff in H. destruct H as [Hc Hr].
    cbn [app]. rewrite run_cons0. unfold step. rewrite Hc. cbn [goto app].
    rewrite IH by exact Hr. rewrite <- app_assoc. reflexivity.
Qed.

Lemma run_close_name : forall name n X, forallb is_name_char name = true ->
  run (MCloseName n) 0 (name ++ X) = run (MCloseName (n ++ name)) 0 X.
Proof.
  induction name as [|c name IH]; intros n X H.
  - rewrite app_nil_r. reflexivity.
  - cbn [forallb] in H. apply andb_true_iff in H. destruct H as [Hc Hr].
    cbn [app]. rewrite run_cons0. unfold step. rewrite Hc. cbn [goto app].
    rewrite IH by exact Hr. rewrite <- app_assoc. reflexivity.
Qed.

Lemma run_attr_name : forall name n a k X, forallb is_name_char name = true ->
  run (MAttrName n a k) 0 (name ++ X) = run (MAttrName n a (k ++ name)) 0 X.
Proof.
  induction name as [|c name IH]; intros n a k X H.
  - rewrite app_nil_r. reflexivity.
  - cbn [forallb] in H. apply andb_true_iff in H. destruct H as [Hc Hr].
    cbn [app]. rewrite run_cons0. unfold step. rewrite Hc. cbn [goto app].
    rewrite IH by exact Hr. rewrite <- app_assoc. reflexivity.
Qed.

Lemma valid_name_inv : forall n, valid_name n = true ->
  exists c r, n = c :: r /\ is_name_char c = true /\ forallb is_name_char n = true.
Proof.
  intros [|c r] H; [discriminate|]. unfold valid_name in H. cbn [is_nil negb andb] in H.
  exists c, r. repeat split; [|exact H]. cbn [forallb] in H. apply andb_true_iff in H. tauto.
Qed.

(** "<" name : the tokenizer has read the tag name *)
Lemma run_tag_open : forall name X, valid_name name = true ->
  run MData 0 (60 :: name ++ X) = run (MOpenName name) 0 X.
Proof.
  intros name X H. destruct (valid_name_inv _ H) as [c [r [-> [Hc Hall]]]].
  destruct (name_char_plain c Hc) as [E33 [E47 _]].
  cbn [app]. rewrite run_cons0. unfold step. rewrite N.eqb_refl, E33, E47. cbn [goto app].
  change (c :: r ++ X) with ((c :: r) ++ X). rewrite run_open_name by exact Hall. reflexivity.
Qed.

(** after the name, the first non-name character is handled as between attributes *)
Lemma run_open_to_attrs : forall n c r, is_name_char c = false -> is_nil n = false ->
  run (MOpenName n) 0 (c :: r) = run (MAttrs n []) 0 (c :: r).
Proof. intros n c r Hc Hn. rewrite !run_cons0. unfold step. rewrite Hc, Hn. reflexivity. Qed.

Definition render_attr (kv : list N * node) : list N :=
  [32] ++ fst kv ++ b_eq_quote ++ attrEscape (flatten true (snd kv)) ++ b_quote.
Definition attr_tok (kv : list N * node) : list N * list N := (fst kv, flatten true (snd kv)).

Lemma run_attrs_space : forall n a c l, (c =? 47) = false ->
  run (MAttrs n a) 0 (32 :: c :: l) = run (MAttrName n a []) 0 (c :: l).
Proof.
  intros n a c l H. rewrite run_cons0. unfold step, step_attrs, b_selfclose. cbn [starts_with].
  rewrite (N.eqb_sym 47 c), H. reflexivity.
Qed.

Lemma run_attrname_eq : forall n a k l, is_nil k = false ->
  run (MAttrName n a k) 0 (61 :: 34 :: l) = run (MAttrVal n a k []) 0 l.
Proof.
  intros n a k l H. rewrite run_cons0. unfold step. change (is_name_char 61) with false. rewrite H.
  reflexivity.
Qed.

Lemma run_one_attr : forall n a k w X, valid_name k = true ->
  run (MAttrs n a) 0 ([32] ++ k ++ b_eq_quote ++ attrEscape w ++ b_quote ++ X)
  = run (MAttrs n (a ++ [(k, w)])) 0 X.
Proof.
  intros n a k w X Hk. destruct (valid_name_inv _ Hk) as [c [r [-> [Hc Hall]]]].
  destruct (name_char_plain c Hc) as [_ [E47 _]].
  cbn [app]. rewrite run_attrs_space by exact E47.
  change (c :: r ++ b_eq_quote ++ attrEscape w ++ b_quote ++ X)
    with ((c :: r) ++ b_eq_quote ++ attrEscape w ++ b_quote ++ X).
  rewrite run_attr_name by exact Hall. cbn [app b_eq_quote].
  rewrite run_attrname_eq by reflexivity.
  unfold b_quote. cbn [app]. rewrite attr_value_ok. reflexivity.
Qed.

Lemma run_attrs : forall attrs n a X,
  forallb (fun kv => valid_name (fst kv)) attrs = true ->
  run (MAttrs n a) 0 (flat_map render_attr attrs ++ X) = run (MAttrs n (a ++ map attr_tok attrs)) 0 X.
Proof.
  induction attrs as [|kv attrs IH]; intros n a X H.
  - cbn. rewrite app_nil_r. reflexivity.
  - cbn [forallb] in H. apply andb_true_iff in H. destruct H as [Hk Hr].
    cbn [flat_map map]. unfold render_attr at 1. rewrite <- !app_assoc.
    rewrite (run_one_attr n a (fst kv) (flatten true (snd kv))) by exact Hk.
    rewrite IH by exact Hr. rewrite <- app_assoc. reflexivity.
Qed.

Lemma run_close_tag : forall name X, valid_name name = true ->
  run MData 0 (b_close_open ++ name ++ b_gt ++ X) = TClose name :: run MData 0 X.
Proof.
  intros name X H. destruct (valid_name_inv _ H) as [c [r [-> [Hc Hall]]]].
  change (run MData 0 (b_close_open ++ (c :: r) ++ b_gt ++ X))
    with (run (MCloseName []) 0 ((c :: r) ++ 62 :: X)).
  rewrite run_close_name by exact Hall. reflexivity.
Qed.

(** ---------------- the tree ---------------- *)

Section NodeInd.
  Variable P : node -> Prop.
  Hypothesis Htext : forall s, P (NText s).
  Hypothesis Hcdata : forall s, P (NCData s).
  Hypothesis Hcomment : forall s, P (NComment s).
  Hypothesis Htag : forall n attrs ch, Forall P ch -> P (NTag n attrs ch).
  Hypothesis Hseq : forall l, Forall P l -> P (NSeq l).

  Fixpoint node_ind2 (t : node) : P t :=
    match t with
    | NText s => Htext s
    | NCData s => Hcdata s
    | NComment s => Hcomment s
    | NTag n a ch =>
        Htag n a ch ((fix go (l : list node) : Forall P l :=
                        match l with
                        | [] => Forall_nil P
                        | x :: r => Forall_cons x (node_ind2 x) (go r)
                        end) ch)
    | NSeq l =>
        Hseq l ((fix go (l : list node) : Forall P l :=
                   match l with
                   | [] => Forall_nil P
                   | x :: r => Forall_cons x (node_ind2 x) (go r)
                   end) l)
    end.
End NodeInd.

Definition tree_ok (t : node) : Prop :=
  wf t = true -> forall rest, run MData 0 (flatten false t ++ rest) = toks t ++ run MData 0 rest.

Lemma list_ok : forall l, Forall tree_ok l -> forallb wf l = true -> forall rest,
  run MData 0 (flat_map (flatten false) l ++ rest) = flat_map toks l ++ run MData 0 rest.
Proof.
  induction l as [|x l IH]; intros Hall Hwf rest; [reflexivity|].
  inversion Hall as [|? ? Hx Hl]; subst.
  cbn [forallb] in Hwf. apply andb_true_iff in Hwf. destruct Hwf as [Wx Wl].
  cbn [flat_map]. rewrite <- !app_assoc. rewrite (Hx Wx), (IH Hl Wl). reflexivity.
Qed.

Lemma flatten_tokenizes : forall t, tree_ok t.
Proof.
  apply node_ind2; unfold tree_ok.
  - intros s _ rest. apply content_ok.
  - intros s _ rest. cbn [flatten toks]. rewrite <- !app_assoc. apply cdata_ok.
  - intros s _ rest. cbn [flatten toks]. rewrite <- !app_assoc. apply comment_ok.
  - intros n attrs ch Hch Hwf rest.
    cbn [wf] in Hwf. apply andb_true_iff in Hwf. destruct Hwf as [Hwf Wch].
    apply andb_true_iff in Hwf. destruct Hwf as [Wn Wa].
    cbn [flatten toks].
    change (flat_map (fun kv => [32] ++ fst kv ++ b_eq_quote ++ attrEscape (flatten true (snd kv)) ++ b_quote) attrs)
      with (flat_map render_attr attrs).
    change (map (fun kv => (fst kv, flatten true (snd kv))) attrs) with (map attr_tok attrs).
    unfold b_lt. cbn [app].
    rewrite <- !app_assoc.
    rewrite run_tag_open by exact Wn.
    destruct (valid_name_inv _ Wn) as [c0 [r0 [En [Hc0 Hall0]]]].
    assert (Hnn : is_nil n = false) by (rewrite En; reflexivity).
    (* the first character after the name is a space (attribute / self-closing) or ">" *)
    assert (Hstart : forall Y,
      run (MOpenName n) 0 (flat_map render_attr attrs ++ Y) = run (MAttrs n (map attr_tok attrs)) 0 Y
      \/ attrs = []).
    { intros Y. destruct attrs as [|kv attrs']; [right; reflexivity|]. left.
      assert (Hhd : exists Z, flat_map render_attr (kv :: attrs') ++ Y = 32 :: Z) by (eexists; reflexivity).
      destruct Hhd as [Z HZ]. rewrite HZ.
      rewrite run_open_to_attrs by (reflexivity || exact Hnn).
      rewrite <- HZ. rewrite run_attrs by exact Wa. reflexivity. }
    destruct (negb (is_nil ch) || negb (is_void n)) eqn:Ebody.
    + (* ">" children "</" name ">" *)
      unfold b_gt at 1. cbn [app]. rewrite <- !app_assoc.
      assert (Hopen : run (MOpenName n) 0 (flat_map render_attr attrs ++ 62 :: flat_map (flatten false) ch ++ b_close_open ++ n ++ b_gt ++ rest)
                      = TOpen n (map attr_tok attrs) false :: run MData 0 (flat_map (flatten false) ch ++ b_close_open ++ n ++ b_gt ++ rest)).
      { destruct (Hstart (62 :: flat_map (flatten false) ch ++ b_close_open ++ n ++ b_gt ++ rest)) as [E | ->].
        - rewrite E. reflexivity.
        - cbn [flat_map app map]. rewrite run_open_to_attrs by (reflexivity || exact Hnn). reflexivity. }
      rewrite Hopen. rewrite (list_ok ch Hch Wch). rewrite run_close_tag by exact Wn.
      reflexivity.
    + (* " />" *)
      assert (Hopen : run (MOpenName n) 0 (flat_map render_attr attrs ++ b_selfclose ++ rest)
                      = TOpen n (map attr_tok attrs) true :: run MData 0 rest).
      { destruct (Hstart (b_selfclose ++ rest)) as [E | ->].
        - rewrite E. reflexivity.
        - cbn [flat_map app map]. unfold b_selfclose. cbn [app].
          rewrite run_open_to_attrs by (reflexivity || exact Hnn). reflexivity. }
      rewrite Hopen. reflexivity.
  - intros l Hl Hwf rest. cbn [flatten toks wf] in *. apply list_ok; assumption.
Qed.

(** ---------------- no error token, and the token stream of a whole document ---------------- *)

Lemma flatten_doc : forall t, wf t = true -> tokenize (flatten false t) = toks t.
Proof.
  intros t H. unfold tokenize. rewrite <- (app_nil_r (flatten false t)).
  rewrite (flatten_tokenizes t H []). cbn. apply app_nil_r.
Qed.

(** ---------------- HTML5 comments (finding F10) ---------------- *)

Lemma html5_comment_early_close : exists s rest,
  snd (html_comment CStart [] (escapedComment s ++ b_comment_close ++ rest)) <> rest.
Proof.
  exists [62; 60; 115; 62]%N, [120]%N. vm_compute. discriminate.
Qed.

(** a class on which the HTML5 states do close at the right place: no '-', no '<', no NUL, not
    starting with '>' (the exact guard -- not starting with ">" or "->", not containing "--!>" --
    is NOT proved; see design.d/C28.md) *)
Definition html_plain (c : N) : bool := negb (c =? 45) && negb (c =? 60) && negb (c =? 0).

Lemma html_comment_plain : forall s data rest, forallb html_plain s = true ->
  html_comment CComment data (s ++ b_comment_close ++ rest) = (data ++ s, rest).
Proof.
  induction s as [|c s IH]; intros data rest H.
  - cbn. rewrite app_nil_r. reflexivity.
  - cbn [forallb] in H. apply andb_true_iff in H. destruct H as [Hc Hs].
    unfold html_plain in Hc. apply andb_true_iff in Hc. destruct Hc as [Hc H0].
    apply andb_true_iff in Hc. destruct Hc as [H45 H60].
    apply negb_true_iff in H45. apply negb_true_iff in H60. apply negb_true_iff in H0.
    cbn [app html_comment cstep]. unfold in_comment. rewrite H60, H45, H0.
    rewrite IH by exact Hs. rewrite <- app_assoc. reflexivity.
Qed.

Lemma escapedComment_plain : forall s, forallb html_plain s = true -> escapedComment s = s.
Proof.
  intros s H. unfold escapedComment. cbv zeta.
  assert (Hni : ~ In 45 s).
  { intros Hin. rewrite forallb_forall in H. specialize (H _ Hin). discriminate H. }
  unfold py_replace. rewrite (replace_aux_no_first [45; 45; 62] [45; 45; 38; 103; 116; 59] s 45 eq_refl Hni).
  destruct (ends_with [45] s) eqn:E; [|reflexivity].
  exfalso. unfold ends_with in E. cbn [rev app] in E.
  destruct (rev s) as [|x r] eqn:Er; [discriminate|].
  cbn [starts_with] in E. apply andb_true_iff in E. destruct E as [E _]. apply N.eqb_eq in E. subst x.
  apply Hni. apply in_rev. rewrite Er. left. reflexivity.
Qed.

Lemma html5_comment_plain_ok : forall s rest,
  forallb html_plain s = true -> starts_with [62] s = false ->
  html_comment CStart [] (escapedComment s ++ b_comment_close ++ rest) = (s, rest).
Proof.
  intros s rest H Hgt. rewrite escapedComment_plain by exact H.
  destruct s as [|c s]; [reflexivity|].
  cbn [forallb] in H. apply andb_true_iff in H. destruct H as [Hc Hs].
  unfold html_plain in Hc. apply andb_true_iff in Hc. destruct Hc as [Hc H0].
  apply andb_true_iff in Hc. destruct Hc as [H45 H60].
  apply negb_true_iff in H45. apply negb_true_iff in H60. apply negb_true_iff in H0.
  cbn [starts_with] in Hgt. rewrite andb_true_r in Hgt. rewrite N.eqb_sym in Hgt.
  cbn [app html_comment cstep]. unfold in_comment. rewrite H45, Hgt, H60, H0.
  rewrite (html_comment_plain s ([] ++ [c]) rest Hs). reflexivity.
Qed.

(** examples *)
Example hostile_tree :
  let t := NTag [100; 105; 118] [([105; 100], NText [34; 62; 60; 38])]
             [NText [60; 47; 100; 105; 118; 62]; NComment [45; 45; 62; 45]; NCData [93; 93; 62; 93; 93; 62];
              NTag [98; 114] [] []] in
  wf t = true /\ tokenize (flatten false t) = toks t.
Proof. vm_compute. split; reflexivity. Qed.
