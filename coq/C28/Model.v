(** C28: hand-written model of [_flattenElement]'s context discipline over element trees, on top
    of the generated escapers (Gen.v); and the specification side: a reference tokenizer for the
    markup language the flattener writes (XML 1.0 productions for character data, start/end/
    empty-element tags with double-quoted attribute values, comments, CDATA sections and the
    four predefined entities the escapers emit), plus the WHATWG HTML comment states.
    Bytes are [N]; documents are [list N]. *)
From Coq Require Import List NArith Bool.
From TwLib Require Import PyStr CodecsText.
From C28 Require Import Gen.
Import ListNotations.
Local Open Scope N_scope.

(** ------------------------------------------------------------------ trees *)

(** what can be flattened (slots, renderers, Deferreds, coroutines, generators and tuples are
    substitution mechanisms: they flatten to what their value flattens to, in the same context;
    the harness wraps nodes in them and the model sees the unwrapped tree) *)
Inductive node :=
| NText (s : list N)                                   (* str (utf-8 encoded) or bytes *)
| NCData (s : list N)
| NComment (s : list N)
| NTag (name : list N) (attrs : list (list N * node)) (children : list node)
| NSeq (l : list node).

Definition b_lt : list N := [60].                       (* < *)
Definition b_gt : list N := [62].                       (* > *)
Definition b_cdata_open : list N := [60; 33; 91; 67; 68; 65; 84; 65; 91].   (* <![CDATA[ *)
Definition b_cdata_close : list N := [93; 93; 62].      (* ]]> *)
Definition b_comment_open : list N := [60; 33; 45; 45]. (* <!-- *)
Definition b_comment_close : list N := [45; 45; 62].    (* --> *)
Definition b_close_open : list N := [60; 47].           (* </ *)
Definition b_selfclose : list N := [32; 47; 62].        (* space slash gt *)
Definition b_eq_quote : list N := [61; 34].             (* equals sign, double quote *)
Definition b_quote : list N := [34].

Fixpoint str_eqb (a b : list N) : bool :=
  match a, b with
  | [], [] => true
  | x :: a', y :: b' => N.eqb x y && str_eqb a' b'
  | _, _ => false
  end.

Definition is_void (name : list N) : bool := existsb (str_eqb name) voidElements.

Definition is_nil {A} (l : list A) : bool := match l with [] => true | _ => false end.

(** [inattr]: the dataEscaper is attributeEscapingDoneOutside (text is written raw and the
    wrapping [writeWithAttributeEscaping] escapes everything written, markup included) *)
Fixpoint flatten (inattr : bool) (t : node) : list N :=
  match t with
  | NText s => if inattr then s else escapeForContent s
  | NCData s => b_cdata_open ++ escapedCDATA s ++ b_cdata_close
  | NComment s => b_comment_open ++ escapedComment s ++ b_comment_close
  | NTag name attrs ch =>
      b_lt ++ name
      ++ flat_map (fun kv => [32] ++ fst kv ++ b_eq_quote ++ attrEscape (flatten true (snd kv)) ++ b_quote) attrs
      ++ (if negb (is_nil ch) || negb (is_void name)
          then b_gt ++ flat_map (flatten false) ch ++ b_close_open ++ name ++ b_gt
          else b_selfclose)
  | NSeq l => flat_map (flatten inattr) l
  end.

(** ------------------------------------------------------------------ reference tokenizer *)

Inductive token :=
| TChar (c : N)                                                   (* one character of text *)
| TOpen (name : list N) (attrs : list (list N * list N)) (selfclosing : bool)
| TClose (name : list N)
| TComment (s : list N)
| TCData (s : list N)
| TError.

Definition is_name_char (c : N) : bool :=
  ((97 <=? c) && (c <=? 122)) || ((65 <=? c) && (c <=? 90)) || ((48 <=? c) && (c <=? 57))
  || (c =? 45) || (c =? 95) || (c =? 58) || (c =? 46).

Definition valid_name (n : list N) : bool := negb (is_nil n) && forallb is_name_char n.

Inductive mode :=
| MData
| MOpenName (n : list N)
| MCloseName (n : list N)
| MAttrs (n : list N) (a : list (list N * list N))
| MAttrName (n : list N) (a : list (list N * list N)) (k : list N)
| MAttrVal (n : list N) (a : list (list N * list N)) (k : list N) (v : list N)
| MComment (c : list N)
| MCData (c : list N).

(** the predefined entities the escapers produce: (text, character, characters to skip) *)
Definition e_amp : list N := [38; 97; 109; 112; 59].
Definition e_lt : list N := [38; 108; 116; 59].
Definition e_gt : list N := [38; 103; 116; 59].
Definition e_quot : list N := [38; 113; 117; 111; 116; 59].

Definition entity (s : list N) : option (N * nat) :=
  if starts_with e_amp s then Some (38, 4%nat)
  else if starts_with e_lt s then Some (60, 3%nat)
  else if starts_with e_gt s then Some (62, 3%nat)
  else if starts_with e_quot s then Some (34, 5%nat)
  else None.

(** result of one step at the head of the remaining input [s]: tokens emitted, and the next
    mode with the number of FURTHER characters to skip; [None] = fatal error *)
Definition result := (list token * option (mode * nat))%type.
Definition fatal : result := ([TError], None).
Definition goto (m : mode) (k : nat) : result := ([], Some (m, k)).

(** after a tag name or an attribute: space + attribute, space-slash-gt, or gt *)
Definition step_attrs (n : list N) (a : list (list N * list N)) (s : list N) : result :=
  match s with
  | [] => fatal
  | c :: _ =>
      if starts_with b_selfclose s then ([TOpen n a true], Some (MData, 2%nat))
      else if c =? 62 then ([TOpen n a false], Some (MData, 0%nat))
      else if c =? 32 then goto (MAttrName n a []) 0
      else fatal
  end.

Definition step (m : mode) (s : list N) : result :=
  match s with
  | [] => fatal
  | c :: r =>
      match m with
      | MData =>
          if c =? 60 then
            match r with
            | d :: _ =>
                if d =? 33 then
                  if starts_with b_comment_open s then goto (MComment []) 3
                  else if starts_with b_cdata_open s then goto (MCData []) 8
                  else fatal
                else if d =? 47 then goto (MCloseName []) 1
                else goto (MOpenName []) 0
            | [] => fatal
            end
          else if c =? 38 then
            match entity s with
            | Some (ch, k) => ([TChar ch], Some (MData, k))
            | None => fatal
            end
          else ([TChar c], Some (MData, 0%nat))
      | MOpenName n =>
          if is_name_char c then goto (MOpenName (n ++ [c])) 0
          else if is_nil n then fatal
          else step_attrs n [] s
      | MCloseName n =>
          if is_name_char c then goto (MCloseName (n ++ [c])) 0
          else if is_nil n then fatal
          else if c =? 62 then ([TClose n], Some (MData, 0%nat))
          else fatal
      | MAttrs n a => step_attrs n a s
      | MAttrName n a k =>
          if is_name_char c then goto (MAttrName n a (k ++ [c])) 0
          else if is_nil k then fatal
          else if starts_with b_eq_quote s then goto (MAttrVal n a k []) 1
          else fatal
      | MAttrVal n a k v =>
          if c =? 34 then goto (MAttrs n (a ++ [(k, v)])) 0
          else if c =? 60 then fatal
          else if c =? 38 then
            match entity s with
            | Some (ch, j) => goto (MAttrVal n a k (v ++ [ch])) j
            | None => fatal
            end
          else goto (MAttrVal n a k (v ++ [c])) 0
      | MComment acc =>
          if starts_with b_comment_close s then ([TComment acc], Some (MData, 2%nat))
          else goto (MComment (acc ++ [c])) 0
      | MCData acc =>
          if starts_with b_cdata_close s then ([TCData acc], Some (MData, 2%nat))
          else goto (MCData (acc ++ [c])) 0
      end
  end.

Definition finish (m : mode) : list token := match m with MData => [] | _ => [TError] end.

Fixpoint run (m : mode) (skip : nat) (s : list N) : list token :=
  match s with
  | [] => finish m
  | _ :: r =>
      match skip with
      | S k => run m k r
      | O =>
          match step m s with
          | (out, Some (m', k)) => out ++ run m' k r
          | (out, None) => out
          end
      end
  end.

Definition tokenize (doc : list N) : list token := run MData 0 doc.

(** ------------------------------------------------------------------ what a tree must tokenize to *)

(** the CDATA sections a text is split into: at each "]]>" (non-overlapping, left to right) the
    section ends after "]]" and a new one starts with ">" *)
Fixpoint cdata_toks (acc : list N) (skip : nat) (s : list N) : list token :=
  match s with
  | [] => [TCData acc]
  | c :: r =>
      match skip with
      | S k => cdata_toks acc k r
      | O => if starts_with b_cdata_close s
             then TCData (acc ++ [93; 93]) :: cdata_toks [62] 2 r
             else cdata_toks (acc ++ [c]) 0 r
      end
  end.

Definition cdata_content (t : token) : list N := match t with TCData s => s | _ => [] end.

Fixpoint toks (t : node) : list token :=
  match t with
  | NText s => map TChar s
  | NCData s => cdata_toks [] 0 s
  | NComment s => [TComment (escapedComment s)]
  | NTag name attrs ch =>
      let a := map (fun kv => (fst kv, flatten true (snd kv))) attrs in
      if negb (is_nil ch) || negb (is_void name)
      then TOpen name a false :: flat_map toks ch ++ [TClose name]
      else [TOpen name a true]
  | NSeq l => flat_map toks l
  end.

(** valid names where names are written as markup (content context; inside attribute values
    everything is escaped, so nothing is required there) *)
Fixpoint wf (t : node) : bool :=
  match t with
  | NTag name attrs ch =>
      valid_name name && forallb (fun kv => valid_name (fst kv)) attrs && forallb wf ch
  | NSeq l => forallb wf l
  | _ => true
  end.

(** ------------------------------------------------------------------ WHATWG HTML comment states
    (13.2.5.43 comment start .. 13.2.5.52 comment end bang), entered after "<!--" has been
    consumed.  Returns the comment's data and the input that follows the comment. *)
Inductive cstate := CStart | CStartDash | CComment | CLt | CLtBang | CLtBangDash | CLtBangDashDash
                  | CEndDash | CEnd | CEndBang.

(** one character: go on in a state with new data, or emit the comment (-> data state) *)
Inductive cact := Go (st : cstate) (data : list N) | Emit (data : list N).

(** "reconsume in the X state" is resolved statically: the reconsume graph is acyclic *)
Definition in_comment (data : list N) (c : N) : cact :=
  if c =? 60 then Go CLt (data ++ [60])
  else if c =? 45 then Go CEndDash data
  else if c =? 0 then Go CComment (data ++ [239; 191; 189])      (* U+FFFD *)
  else Go CComment (data ++ [c]).

Definition in_end_dash (data : list N) (c : N) : cact :=
  if c =? 45 then Go CEnd data else in_comment (data ++ [45]) c.

Definition in_end (data : list N) (c : N) : cact :=
  if c =? 62 then Emit data
  else if c =? 33 then Go CEndBang data
  else if c =? 45 then Go CEnd (data ++ [45])
  else in_comment (data ++ [45; 45]) c.

Definition cstep (st : cstate) (data : list N) (c : N) : cact :=
  match st with
  | CStart => if c =? 45 then Go CStartDash data
              else if c =? 62 then Emit data             (* abrupt-closing-of-empty-comment *)
              else in_comment data c
  | CStartDash => if c =? 45 then Go CEnd data
                  else if c =? 62 then Emit data         (* abrupt-closing-of-empty-comment *)
                  else in_comment (data ++ [45]) c
  | CComment => in_comment data c
  | CLt => if c =? 33 then Go CLtBang (data ++ [33])
           else if c =? 60 then Go CLt (data ++ [60])
           else in_comment data c
  | CLtBang => if c =? 45 then Go CLtBangDash data else in_comment data c
  | CLtBangDash => if c =? 45 then Go CLtBangDashDash data else in_end_dash data c
  | CLtBangDashDash => in_end data c
  | CEndDash => in_end_dash data c
  | CEnd => in_end data c
  | CEndBang => if c =? 45 then Go CEndDash (data ++ [45; 45; 33])
                else if c =? 62 then Emit data           (* incorrectly-closed-comment *)
                else in_comment (data ++ [45; 45; 33]) c
  end.

Fixpoint html_comment (st : cstate) (data : list N) (s : list N) : list N * list N :=
  match s with
  | [] => (data, [])                                     (* EOF: the comment is emitted *)
  | c :: r =>
      match cstep st data c with
      | Go st' d' => html_comment st' d' r
      | Emit d' => (d', r)
      end
  end.

(** ------------------------------------------------------------------ the exact HTML5 guard
    [contains p s]: [p] occurs in [s] as a substring *)
Fixpoint contains (p s : list N) : bool :=
  match s with
  | [] => starts_with p []
  | _ :: r => starts_with p s || contains p r
  end.

(** the comment texts that the WHATWG comment states read as ONE comment ending at the flattener's
    own "-->": not starting with ">" or "->", not containing "--!>" *)
Definition html5_guard (s : list N) : bool :=
  negb (starts_with [62] s) && negb (starts_with [45; 62] s) && negb (contains [45; 45; 33; 62] s).

(** ------------------------------------------------------------------ source trees: str and bytes
    A text / CDATA / comment / attribute-value leaf is given as bytes, or as a str (code points) that
    every escaper first encodes with [data.encode("utf-8")] -- strict: a str holding a lone surrogate
    (U+D800..U+DFFF, e.g. from os.fsdecode / surrogateescape) raises UnicodeEncodeError and
    flattenString fails: there is NO document.  [encode_tree] is that step; [flatten_source] the whole. *)
Inductive stext := TBytes (b : list N) | TStr (cps : list N).

Definition is_surrogate (c : N) : bool := (55296 <=? c) && (c <? 57344).

Definition encode_text (t : stext) : option (list N) :=
  match t with
  | TBytes b => Some b
  | TStr cps => if existsb is_surrogate cps then None else Some (utf8_str cps)
  end.

Inductive snode :=
| SText (s : stext)
| SCData (s : stext)
| SComment (s : stext)
| STag (name : list N) (attrs : list (list N * snode)) (children : list snode)
| SSeq (l : list snode).

Definition mapM {A B : Type} (f : A -> option B) : list A -> option (list B) :=
  fix go (l : list A) : option (list B) :=
    match l with
    | [] => Some []
    | x :: r => match f x, go r with
                | Some y, Some ys => Some (y :: ys)
                | _, _ => None
                end
    end.

Fixpoint encode_tree (t : snode) : option node :=
  match t with
  | SText s => option_map NText (encode_text s)
  | SCData s => option_map NCData (encode_text s)
  | SComment s => option_map NComment (encode_text s)
  | STag name attrs ch =>
      match mapM (fun kv => option_map (pair (fst kv)) (encode_tree (snd kv))) attrs, mapM encode_tree ch with
      | Some a, Some c => Some (NTag name a c)
      | _, _ => None
      end
  | SSeq l => option_map NSeq (mapM encode_tree l)
  end.

Definition flatten_source (t : snode) : option (list N) := option_map (flatten false) (encode_tree t).

Definition text_unencodable (s : stext) : bool :=
  match s with TBytes _ => false | TStr cps => existsb is_surrogate cps end.

(** some str anywhere in the tree (content, CDATA, comment, attribute value) holds a lone surrogate *)
Fixpoint has_unencodable (t : snode) : bool :=
  match t with
  | SText s | SCData s | SComment s => text_unencodable s
  | STag _ attrs ch => existsb (fun kv => has_unencodable (snd kv)) attrs || existsb has_unencodable ch
  | SSeq l => existsb has_unencodable l
  end.
