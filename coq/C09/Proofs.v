(** C09 proofs: invariants of the task.Clock model over all histories and all call-body tables. *)
From Coq Require Import List Arith ZArith Bool Lia Permutation Sorted.
From TwLib Require Import TimersCall TimersCallFacts.
From C09 Require Import Model.
Import ListNotations.
Local Open Scope Z_scope.

(** ---- small permutation helpers ---- *)
Lemma perm_add_one : forall (A B S : list nat) n,
  Permutation (A ++ B) S -> Permutation ((A ++ [n]) ++ B) (S ++ [n]).
Proof.
  intros A B S n H. rewrite <- app_assoc. cbn.
  eapply perm_trans. { apply Permutation_sym. apply Permutation_middle. }
  eapply perm_trans. 2:{ apply Permutation_cons_append. }
  apply perm_skip. exact H.
Qed.

Lemma perm_move_mid : forall (M R X : list nat) i,
  Permutation (M ++ R ++ i :: X) (i :: M ++ R ++ X).
Proof.
  intros. rewrite !app_assoc. apply Permutation_sym. apply Permutation_middle.
Qed.

Lemma perm_move_mid2 : forall (M R X : list nat) i,
  Permutation (M ++ (i :: R) ++ X) (i :: M ++ R ++ X).
Proof.
  intros. cbn. apply Permutation_sym. apply Permutation_middle.
Qed.

Lemma run_ids_cons : forall e l, run_ids (e :: l) = map cid (run_of e) ++ run_ids l.
Proof. intros. unfold run_ids, runs. cbn [flat_map]. apply map_app. Qed.
Lemma run_times_cons : forall e l, run_times (e :: l) = map getTime (run_of e) ++ run_times l.
Proof. intros. unfold run_times, runs. cbn [flat_map]. apply map_app. Qed.
Lemma cancelled_ids_cons : forall e l, cancelled_ids (e :: l) = cancel_of e ++ cancelled_ids l.
Proof. reflexivity. Qed.

Lemma NoDup_app_inv : forall (l l' : list nat),
  NoDup (l ++ l') -> NoDup l /\ NoDup l' /\ (forall x, In x l -> ~ In x l').
Proof.
  induction l as [|a l IH]; cbn; intros l' H.
  - split; [constructor|]. split; [exact H|]. tauto.
  - inversion H as [|? ? Hna Hnd]; subst. destruct (IH _ Hnd) as [H1 [H2 H3]].
    split; [|split].
    + constructor; [|exact H1]. intros Hin. apply Hna. apply in_or_app. left. exact Hin.
    + exact H2.
    + intros x [<-|Hx] Hin; [apply Hna; apply in_or_app; right; exact Hin | exact (H3 x Hx Hin)].
Qed.

(** ---- the invariant ---- *)
Definition part (s : st) : Prop :=
  Permutation (map cid (calls s) ++ run_ids (log s) ++ cancelled_ids (log s)) (seq 0 (next s)).

(** a never-rescheduled call that has run is older than every never-rescheduled pending call with the same time *)
Definition Kinv (s : st) : Prop :=
  forall ci, In ci (runs (log s)) -> cres ci = false ->
  Forall (fun c => getTime c = getTime ci -> cres c = false -> (cid ci < cid c)%nat) (calls s).

Record Inv (s : st) : Prop := mkInv {
  inv_part : part s;
  inv_co : StronglySorted Rco (calls s);
  inv_log : Forall good_ev (log s);
  inv_k : Kinv s;
  inv_ro : StronglySorted Rrun (runs (log s))
}.

Lemma runs_cons : forall e l, runs (e :: l) = run_of e ++ runs l.
Proof. reflexivity. Qed.

Lemma ran_lt : forall s ci, part s -> In ci (runs (log s)) -> (cid ci < next s)%nat.
Proof.
  intros s ci Hp Hin.
  assert (Hi : In (cid ci) (seq 0 (next s))).
  { eapply Permutation_in; [exact Hp|]. apply in_or_app. right. apply in_or_app. left.
    unfold run_ids. apply in_map. exact Hin. }
  apply in_seq in Hi. lia.
Qed.

Lemma Inv_init : Inv init.
Proof. split; cbn; try constructor. Qed.

Lemma ids_lt : forall s c, part s -> In c (calls s) -> (cid c < next s)%nat.
Proof.
  intros s c Hp Hc.
  assert (Hi : In (cid c) (seq 0 (next s))).
  { eapply Permutation_in; [exact Hp|]. apply in_or_app. left. apply in_map. exact Hc. }
  apply in_seq in Hi. lia.
Qed.

Lemma Rco_lt_key : forall x y, getTime y < getTime x -> Rco y x.
Proof. intros x y H E. lia. Qed.

Lemma Rco_res_l : forall c', cres c' = true -> forall b, Rco c' b.
Proof. intros c' H b _ H1. congruence. Qed.
Lemma Rco_res_r : forall c', cres c' = true -> forall a, Rco a c'.
Proof. intros c' H b _ _ H1. congruence. Qed.

Lemma Inv_emit_plain : forall s e,
  run_of e = [] -> cancel_of e = [] -> good_ev e -> Inv s -> Inv (emit e s).
Proof.
  intros s e Hr Hc Hg [Hp Hco Hl Hk Hro]. split.
  - unfold part, emit, run_ids, runs, cancelled_ids in *. cbn. rewrite Hr, Hc. cbn. exact Hp.
  - exact Hco.
  - cbn. constructor; assumption.
  - unfold Kinv in *. cbn [log emit calls]. rewrite runs_cons, Hr. exact Hk.
  - cbn [log emit]. rewrite runs_cons, Hr. exact Hro.
Qed.

Lemma Inv_classify : forall s i, Inv s -> Inv (emit (classify i s) s).
Proof.
  intros s i H. unfold classify.
  destruct (memn i (cancelled_ids (log s))); [|destruct (memn i (run_ids (log s)))];
    apply Inv_emit_plain; cbn; auto.
Qed.

Lemma Inv_replace : forall s c c' e,
  find_id (cid c') (calls s) = Some c -> cres c' = true ->
  run_of e = [] -> cancel_of e = [] -> good_ev e ->
  Inv s -> Inv (mkSt (replace_id c' (calls s)) (now s) (next s) (e :: log s) (oof s)).
Proof.
  intros s c c' e Hf Hres Hr Hc Hg [Hp Hco Hl Hk Hro]. split.
  - unfold part, run_ids, runs, cancelled_ids in *. cbn. rewrite Hr, Hc, replace_id_map. cbn. exact Hp.
  - cbn. apply replace_id_ordered; [apply Rco_res_r | apply Rco_res_l | exact Hco]; exact Hres.
  - cbn. constructor; assumption.
  - unfold Kinv in *. cbn [log calls]. rewrite runs_cons, Hr. intros ci Hin Hci.
    apply replace_id_Forall; [intros _ Hx; congruence | apply Hk; assumption].
  - cbn [log]. rewrite runs_cons, Hr. exact Hro.
Qed.

Lemma Inv_exec_bop : forall s b, Inv s -> Inv (exec_bop s b).
Proof.
  intros s b H. destruct b as [d|i|i x|i x| |]; cbn.
  - (* callLater *)
    destruct H as [Hp Hco Hl Hk Hro]. split.
    + unfold part in *. cbn [calls next log]. rewrite run_ids_cons, cancelled_ids_cons.
      cbn [run_of cancel_of map app]. rewrite seq_S. cbn [plus].
      eapply perm_trans.
      { apply Permutation_app_tail. apply Permutation_map. apply sort_perm. }
      rewrite map_app. cbn. apply perm_add_one. exact Hp.
    + cbn. apply sort_ordered.
      * intros x y Hlt. apply Rco_lt_key. exact Hlt.
      * apply ordered_app_one; [exact Hco|].
        apply Forall_forall. intros a Ha _ _ _. cbn. apply ids_lt; assumption.
    + cbn. constructor; [exact I | exact Hl].
    + unfold Kinv in *. cbn [log calls]. rewrite runs_cons. cbn [run_of app]. intros ci Hin Hci.
      eapply Permutation_Forall; [apply Permutation_sym; apply sort_perm|].
      apply Forall_app. split; [apply Hk; assumption|]. constructor; [|constructor].
      intros _ _. cbn. apply (ran_lt s ci Hp Hin).
    + cbn [log]. rewrite runs_cons. exact Hro.
  - (* cancel *)
    destruct (find_id i (calls s)) as [c|] eqn:Hf; [|apply Inv_classify; exact H].
    destruct H as [Hp Hco Hl Hk Hro]. destruct (find_id_some _ _ _ Hf) as [Hin Hid]. split.
    + unfold part, run_ids, runs, cancelled_ids in *. cbn.
      eapply perm_trans. { apply perm_move_mid. }
      eapply perm_trans; [|exact Hp].
      change (i :: map cid (remove_id i (calls s)) ++ map cid (flat_map run_of (log s)) ++ flat_map cancel_of (log s))
        with ((i :: map cid (remove_id i (calls s))) ++ map cid (flat_map run_of (log s)) ++ flat_map cancel_of (log s)).
      apply Permutation_app_tail. rewrite <- Hid.
      change (cid c :: map cid (remove_id (cid c) (calls s))) with (map cid (c :: remove_id (cid c) (calls s))).
      apply Permutation_map. apply Permutation_sym. apply remove_id_perm. rewrite Hid. exact Hf.
    + cbn. apply remove_id_ordered. exact Hco.
    + cbn. constructor; [exact I | exact Hl].
    + unfold Kinv in *. cbn [log calls]. rewrite runs_cons. cbn [run_of app]. intros ci Hci Hres.
      apply remove_id_Forall. apply Hk; assumption.
    + cbn [log]. rewrite runs_cons. exact Hro.
  - (* reset *)
    destruct (find_id i (calls s)) as [c|] eqn:Hf; [|apply Inv_classify; exact H].
    destruct (find_id_some _ _ _ Hf) as [Hin Hid].
    apply Inv_replace with (c := c); auto.
    + rewrite reset_cid, Hid. exact Hf.
    + apply reset_cres.
    + exact I.
  - (* delay *)
    destruct (find_id i (calls s)) as [c|] eqn:Hf; [|apply Inv_classify; exact H].
    destruct (find_id_some _ _ _ Hf) as [Hin Hid].
    apply Inv_replace with (c := c); auto.
    + rewrite delay_cid, Hid. exact Hf.
    + apply delay_cres.
    + exact I.
  - apply Inv_emit_plain; cbn; auto.
  - exact H.
Qed.

Lemma Inv_enter_advance : forall a s, Inv s -> Inv (enter_advance a s).
Proof.
  intros a s H. apply (Inv_emit_plain _ EIter) in H; cbn; auto.
  destruct H as [Hp Hco Hl Hk Hro]. split; assumption.
Qed.

Lemma Inv_nested : forall adv, (forall s, Inv s -> Inv (adv s)) -> forall a s, Inv s -> Inv (nested adv a s).
Proof.
  intros adv Hadv a s H. unfold nested. pose proof (Hadv _ (Inv_enter_advance a s H)) as H1.
  destruct (raised_now _); [exact H1|]. apply Inv_emit_plain; cbn; auto.
Qed.

Lemma Inv_run_cbody : forall adv, (forall s, Inv s -> Inv (adv s)) ->
  forall bs s, Inv s -> Inv (fst (run_cbody adv bs s)).
Proof.
  intros adv Hadv bs. induction bs as [|b r IH]; intros s H; cbn [run_cbody]; [exact H|].
  destruct b as [b|a].
  - destruct b; try (apply IH; apply Inv_exec_bop; exact H). exact H.
  - pose proof (Inv_nested adv Hadv a s H) as H1. destruct (raised_now (nested adv a s)); [exact H1|].
    apply IH. exact H1.
Qed.

Lemma Inv_sorted : forall s,
  Inv s -> Inv (mkSt (sort getTime (calls s)) (now s) (next s) (log s) (oof s)).
Proof.
  intros s [Hp Hco Hl Hk Hro]. split; cbn.
  - unfold part in *. cbn. eapply perm_trans; [|exact Hp].
    apply Permutation_app_tail. apply Permutation_map. apply sort_perm.
  - apply sort_ordered; [|exact Hco]. intros x y Hlt. apply Rco_lt_key. exact Hlt.
  - exact Hl.
  - intros ci Hin Hci. eapply Permutation_Forall; [apply Permutation_sym; apply sort_perm|]. apply Hk; assumption.
  - exact Hro.
Qed.

Lemma Inv_set_oof : forall s b, Inv s -> Inv (mkSt (calls s) (now s) (next s) (log s) b).
Proof. intros s b [Hp Hco Hl Hk Hro]. split; assumption. Qed.

Section WithBody.
  Variable body : nat -> list cop.

  Lemma Inv_loop : forall fuel s, Inv s -> Inv (loop body fuel s).
  Proof.
    induction fuel as [|f IH]; intros s H; cbn.
    - pose proof (Inv_sorted s H) as Hs. destruct (sort getTime (calls s)) as [|c r] eqn:E.
      + exact Hs.
      + destruct (getTime c <=? now s); [|exact Hs].
        apply (Inv_set_oof _ true) in Hs. exact Hs.
    - pose proof (Inv_sorted s H) as Hs. pose proof (sort_head_min getTime (calls s)) as Hmin.
      destruct (sort getTime (calls s)) as [|c r] eqn:E.
      + exact Hs.
      + destruct (getTime c <=? now s) eqn:Hdue; [|exact Hs].
        assert (H1 : Inv (mkSt r (now s) (next s) (ERun c (now s) r :: log s) (oof s))).
        { destruct Hs as [Hp Hco Hl Hk Hro]. cbn [calls now next log oof] in *. split; cbn [calls now next log oof].
          * unfold part, run_ids, runs in *. cbn in *.
            eapply perm_trans; [|exact Hp]. apply perm_move_mid2.
          * inversion Hco; subst. assumption.
          * constructor; [|exact Hl]. cbn. split; [lia|]. split.
            { apply (Hmin c r). reflexivity. }
            { inversion Hco; subst. assumption. }
          * unfold Kinv in *. cbn [log calls]. rewrite runs_cons. cbn [run_of app]. intros ci [<-|Hin] Hci.
            { inversion Hco as [|? ? Hr0 Hc0]; subst. eapply Forall_impl; [|exact Hc0].
              intros o Ho E1 E2. apply Ho; auto. }
            { specialize (Hk ci Hin Hci). inversion Hk; subst. assumption. }
          * cbn [log]. rewrite runs_cons. cbn [run_of app]. constructor; [exact Hro|].
            apply Forall_forall. intros ci Hin E1 E2 E3.
            specialize (Hk ci Hin E2). inversion Hk as [|? ? Hc0 _]; subst. apply Hc0; auto. }
        pose proof (Inv_run_cbody (loop body f) IH (body (cid c)) _ H1) as H2.
        destruct (snd (run_cbody (loop body f) (body (cid c)) (mkSt r (now s) (next s) (ERun c (now s) r :: log s) (oof s)))).
        * apply Inv_emit_plain; cbn; auto.
        * apply IH. apply Inv_emit_plain; cbn; auto.
  Qed.

  Lemma Inv_step : forall fuel s o, Inv s -> Inv (step body fuel s o).
  Proof.
    intros fuel s o H. destruct o as [b|a]; cbn.
    - apply Inv_exec_bop. exact H.
    - apply Inv_emit_plain; cbn; auto. apply Inv_loop.
      apply (Inv_emit_plain _ EIter) in H; cbn; auto.
      destruct H as [Hp Hco Hl Hk Hro]. split; assumption.
  Qed.

  Lemma Inv_run : forall fuel ops s, Inv s -> Inv (run body fuel s ops).
  Proof.
    intros fuel ops. induction ops as [|o r IH]; cbn; intros s H; [exact H|].
    apply IH. apply Inv_step. exact H.
  Qed.

  Lemma reach_Inv : forall fuel ops, Inv (run body fuel init ops).
  Proof. intros. apply Inv_run. apply Inv_init. Qed.

  (** ---- consequences, in the words of the property ---- *)
  Lemma reach_part : forall fuel ops, let s := run body fuel init ops in
    Permutation (map cid (calls s) ++ run_ids (log s) ++ cancelled_ids (log s)) (seq 0 (next s)).
  Proof. intros. apply (inv_part _ (reach_Inv fuel ops)). Qed.

  Lemma part_nodup : forall s, part s ->
    NoDup (map cid (calls s) ++ run_ids (log s) ++ cancelled_ids (log s)).
  Proof.
    intros s Hp. eapply Permutation_NoDup. { apply Permutation_sym. exact Hp. } apply seq_NoDup.
  Qed.

  Lemma reach_once : forall fuel ops, let s := run body fuel init ops in
    NoDup (run_ids (log s))
    /\ (forall i, In i (cancelled_ids (log s)) -> ~ In i (run_ids (log s)))
    /\ (forall i, In i (map cid (calls s)) <->
                  (i < next s)%nat /\ ~ In i (run_ids (log s)) /\ ~ In i (cancelled_ids (log s))).
  Proof.
    intros fuel ops s. pose proof (reach_part fuel ops) as Hp. fold s in Hp.
    pose proof (part_nodup s Hp) as Hn.
    apply NoDup_app_inv in Hn. destruct Hn as [Hn1 [Hn2 Hd1]].
    apply NoDup_app_inv in Hn2. destruct Hn2 as [Hn2 [Hn3 Hd2]].
    split; [exact Hn2|]. split.
    - intros i Hc Hr. exact (Hd2 i Hr Hc).
    - intros i. split.
      + intros Hi. split; [|split].
        * assert (Hs : In i (seq 0 (next s))).
          { eapply Permutation_in; [exact Hp|]. apply in_or_app. left. exact Hi. }
          apply in_seq in Hs. lia.
        * intros Hr. apply (Hd1 i Hi). apply in_or_app. left. exact Hr.
        * intros Hr. apply (Hd1 i Hi). apply in_or_app. right. exact Hr.
      + intros [Hlt [Hnr Hnc]].
        assert (Hs : In i (seq 0 (next s))) by (apply in_seq; lia).
        eapply Permutation_in in Hs; [|apply Permutation_sym; exact Hp].
        apply in_app_or in Hs. destruct Hs as [Hs|Hs]; [exact Hs|].
        apply in_app_or in Hs. destruct Hs; tauto.
  Qed.

  Lemma reach_good : forall fuel ops e, In e (log (run body fuel init ops)) -> good_ev e.
  Proof.
    intros fuel ops e. pose proof (inv_log _ (reach_Inv fuel ops)) as H.
    rewrite Forall_forall in H. apply H.
  Qed.

  (** after an advance that completed (no fuel problem, no exception), nothing that is due is still pending *)
  Definition ends_with_raise (s : st) : Prop := exists i rest, log s = ERaise i :: rest.

  Lemma loop_done : forall fuel s, oof (loop body fuel s) = false -> ~ ends_with_raise (loop body fuel s) ->
    Forall (fun c => now (loop body fuel s) < getTime c) (calls (loop body fuel s)).
  Proof.
    induction fuel as [|f IH]; intros s; cbn [loop].
    - pose proof (sort_head_min getTime (calls s)) as Hmin.
      destruct (sort getTime (calls s)) as [|c r] eqn:E; cbn; [constructor|].
      destruct (getTime c <=? now s) eqn:Hdue; cbn; [discriminate|].
      intros _ _. specialize (Hmin c r eq_refl). constructor; [lia|].
      eapply Forall_impl; [|exact Hmin]. cbn. intros a Ha. lia.
    - pose proof (sort_head_min getTime (calls s)) as Hmin.
      destruct (sort getTime (calls s)) as [|c r] eqn:E; cbn [calls now]; [constructor|].
      destruct (getTime c <=? now s) eqn:Hdue.
      + destruct (snd (run_cbody (loop body f) (body (cid c)) _)).
        * intros _ Hn. exfalso. apply Hn. eexists _, _. reflexivity.
        * apply IH.
      + intros _ _. cbn. specialize (Hmin c r eq_refl). constructor; [lia|].
        eapply Forall_impl; [|exact Hmin]. cbn. intros a Ha. lia.
  Qed.

  Lemma advance_done : forall fuel s a,
    oof (step body fuel s (Advance a)) = false -> advance_aborted (step body fuel s (Advance a)) = false ->
    Forall (fun c => now (step body fuel s (Advance a)) < getTime c) (calls (step body fuel s (Advance a))).
  Proof.
    intros fuel s a. cbn [step emit oof calls now]. unfold advance_aborted. cbn [log emit].
    intros Ho Ha. apply loop_done; [exact Ho|]. intros [i [rest E]]. rewrite E in Ha. discriminate.
  Qed.

  (** a nested advance that returns (no exception, fuel sufficient) leaves nothing due either *)
  Lemma nested_done : forall f a s, let s' := nested (loop body f) a s in
    oof s' = false -> raised_now s' = false -> Forall (fun c => now s' < getTime c) (calls s').
  Proof.
    intros f a s. cbn zeta. unfold nested.
    destruct (raised_now (loop body f (enter_advance a s))) eqn:Er; [intros _ Hr; congruence|].
    cbn [emit oof calls now]. intros Ho _. apply loop_done; [exact Ho|].
    intros [i [rest E]]. unfold raised_now in Er. rewrite E in Er. discriminate.
  Qed.

  (** ---- nondecreasing scheduled time (needs non-negative delays / advances) ---- *)
  Record ND (s : st) : Prop := mkND {
    nd_now : forall t, In t (run_times (log s)) -> t <= now s;
    nd_pend : forall t c, In t (run_times (log s)) -> In c (calls s) -> t <= getTime c;
    nd_sorted : StronglySorted Z.ge (run_times (log s))
  }.

  Lemma ND_emit_plain : forall s e, run_of e = [] -> ND s -> ND (emit e s).
  Proof.
    intros s e Hr [H1 H2 H3]. unfold emit, run_times, runs in *. split; cbn; rewrite Hr; cbn; assumption.
  Qed.

  Lemma ND_classify : forall s i, ND s -> ND (emit (classify i s) s).
  Proof.
    intros s i H. unfold classify.
    destruct (memn i (cancelled_ids (log s))); [|destruct (memn i (run_ids (log s)))];
      apply ND_emit_plain; auto.
  Qed.

  Lemma ND_replace : forall s c' e,
    run_of e = [] -> (forall t, In t (run_times (log s)) -> t <= getTime c') ->
    ND s -> ND (mkSt (replace_id c' (calls s)) (now s) (next s) (e :: log s) (oof s)).
  Proof.
    intros s c' e Hr Hc [H1 H2 H3]. unfold run_times, runs in *. split; cbn; rewrite Hr; cbn; auto.
    intros t c Ht Hin. destruct (replace_id_in _ _ _ Hin) as [->|Hi]; auto.
  Qed.

  Lemma ND_exec_bop : forall s b, nonneg_bop b -> ND s -> ND (exec_bop s b).
  Proof.
    intros s b Hnn H. destruct b as [d|i|i x|i x| |]; cbn in *.
    - destruct H as [H1 H2 H3]. unfold run_times, runs in *. split; cbn; auto.
      intros t c Ht Hin.
      eapply Permutation_in in Hin; [|apply sort_perm].
      apply in_app_or in Hin. destruct Hin as [Hin|[<-|[]]]; auto.
      unfold getTime. cbn. specialize (H1 t Ht). lia.
    - destruct (find_id i (calls s)) as [c|] eqn:Hf; [|apply ND_classify; exact H].
      destruct H as [H1 H2 H3]. unfold run_times, runs in *. split; cbn; auto.
      intros t c0 Ht Hin. apply H2; auto. eapply remove_id_incl. exact Hin.
    - destruct (find_id i (calls s)) as [c|] eqn:Hf; [|apply ND_classify; exact H].
      apply ND_replace; auto. intros t Ht. rewrite reset_getTime.
      pose proof (nd_now _ H t Ht). lia.
    - destruct (find_id i (calls s)) as [c|] eqn:Hf; [|apply ND_classify; exact H].
      apply ND_replace; auto. intros t Ht. rewrite delay_getTime.
      destruct (find_id_some _ _ _ Hf) as [Hin _]. pose proof (nd_pend _ H t c Ht Hin). lia.
    - apply ND_emit_plain; auto.
    - exact H.
  Qed.

  Hypothesis body_nonneg : forall i, Forall nonneg_cop (body i).

  Lemma ND_nested : forall adv, (forall s, ND s -> ND (adv s)) -> forall a s, 0 <= a -> ND s -> ND (nested adv a s).
  Proof.
    intros adv Hadv a s Ha H. unfold nested.
    assert (H0 : ND (enter_advance a s)).
    { destruct H as [H1 H2 H3]. unfold enter_advance, run_times, runs in *. split; cbn; auto.
      intros t Ht. specialize (H1 t Ht). lia. }
    pose proof (Hadv _ H0) as H1. destruct (raised_now _); [exact H1|]. apply ND_emit_plain; auto.
  Qed.

  Lemma ND_run_cbody : forall adv, (forall s, ND s -> ND (adv s)) ->
    forall bs s, Forall nonneg_cop bs -> ND s -> ND (fst (run_cbody adv bs s)).
  Proof.
    intros adv Hadv bs. induction bs as [|b r IH]; intros s Hb H; cbn [run_cbody]; [exact H|].
    inversion Hb as [|? ? Hb1 Hb2]; subst. destruct b as [b|a]; cbn in Hb1.
    - destruct b; try (apply IH; [assumption|]; apply ND_exec_bop; assumption). exact H.
    - pose proof (ND_nested adv Hadv a s Hb1 H) as H1. destruct (raised_now (nested adv a s)); [exact H1|].
      apply IH; assumption.
  Qed.

  Lemma ND_sorted : forall s, ND s -> ND (mkSt (sort getTime (calls s)) (now s) (next s) (log s) (oof s)).
  Proof.
    intros s [H1 H2 H3]. split; cbn; auto.
    intros t c Ht Hin. apply H2; auto. eapply Permutation_in; [apply sort_perm|exact Hin].
  Qed.

  Lemma ND_loop : forall fuel s, ND s -> ND (loop body fuel s).
  Proof.
    induction fuel as [|f IH]; intros s H; cbn.
    - pose proof (ND_sorted s H) as Hs. destruct (sort getTime (calls s)) as [|c r] eqn:E.
      + exact Hs.
      + destruct (getTime c <=? now s); [|exact Hs].
        destruct Hs as [H1 H2 H3]. split; assumption.
    - pose proof (ND_sorted s H) as Hs. pose proof (sort_head_min getTime (calls s)) as Hmin.
      destruct (sort getTime (calls s)) as [|c r] eqn:E.
      + exact Hs.
      + destruct (getTime c <=? now s) eqn:Hdue; [|exact Hs].
        assert (H1 : ND (fst (run_cbody (loop body f) (body (cid c)) (mkSt r (now s) (next s) (ERun c (now s) r :: log s) (oof s))))).
        { apply ND_run_cbody; [exact IH | apply body_nonneg|].
          destruct Hs as [H1 H2 H3]. specialize (Hmin c r eq_refl). rewrite Forall_forall in Hmin.
          unfold run_times, runs in *. cbn in *. split; cbn.
          * intros t [<-|Ht]; [lia | auto].
          * intros t c0 [<-|Ht] Hin; [apply Hmin; exact Hin | apply H2; auto].
          * constructor; [exact H3|]. apply Forall_forall. intros t Ht.
            specialize (H2 t c Ht (or_introl eq_refl)). lia. }
        destruct (snd (run_cbody (loop body f) (body (cid c)) _)).
        * apply ND_emit_plain; auto.
        * apply IH. apply ND_emit_plain; auto.
  Qed.

  Lemma ND_step : forall fuel s o, nonneg_op o -> ND s -> ND (step body fuel s o).
  Proof.
    intros fuel s o Hnn H. destruct o as [b|a]; cbn in *.
    - apply ND_exec_bop; assumption.
    - apply ND_emit_plain; auto. apply ND_loop.
      destruct H as [H1 H2 H3]. unfold run_times, runs in *. split; cbn; auto.
      intros t Ht. specialize (H1 t Ht). lia.
  Qed.

  Lemma ND_run : forall fuel ops s, Forall nonneg_op ops -> ND s -> ND (run body fuel s ops).
  Proof.
    intros fuel ops. induction ops as [|o r IH]; cbn; intros s Hnn H; [exact H|].
    inversion Hnn; subst. apply IH; [assumption|]. apply ND_step; assumption.
  Qed.

  Lemma reach_nondecreasing : forall fuel ops, Forall nonneg_op ops ->
    StronglySorted Z.ge (run_times (log (run body fuel init ops))).
  Proof.
    intros fuel ops Hnn. apply nd_sorted. apply ND_run; [exact Hnn|].
    split; cbn; intros; try tauto. constructor.
  Qed.
End WithBody.

(** ---- the statements exported by Property.v ---- *)
Lemma run_never_early : forall body fuel ops c n others,
  In (ERun c n others) (log (run body fuel init ops)) -> getTime c <= n.
Proof. intros body fuel ops c n others H. apply (reach_good body fuel ops _ H). Qed.

Lemma run_is_earliest : forall body fuel ops c n others,
  In (ERun c n others) (log (run body fuel init ops)) -> Forall (fun o => getTime c <= getTime o) others.
Proof. intros body fuel ops c n others H. apply (reach_good body fuel ops _ H). Qed.

Lemma run_creation_order : forall body fuel ops c n others o,
  In (ERun c n others) (log (run body fuel init ops)) -> In o others ->
  getTime c = getTime o -> cres c = false -> cres o = false -> (cid c < cid o)%nat.
Proof.
  intros body fuel ops c n others o H Ho. destruct (reach_good body fuel ops _ H) as [_ [_ H3]].
  rewrite Forall_forall in H3. exact (H3 o Ho).
Qed.

Lemma reach_run_order : forall body fuel ops, StronglySorted Rrun (runs (log (run body fuel init ops))).
Proof. intros. apply (inv_ro _ (reach_Inv body fuel ops)). Qed.

(** [others] really is the pending set at that moment: the ids pending after the run event are
    accounted for by the partition theorem; here we only expose that the run call itself is not in it *)

(** a non-trivial history: three calls for the same time, one rescheduled away and back, a call
    whose function schedules an immediate call and cancels another, negative-free *)
Definition ex_body (i : nat) : list cop :=
  match i with
  | 0%nat => [Op (BCallLater 0); Op (BCancel 1); Op (BReset 2 0)]
  | _ => []
  end.
Definition ex_ops : list op :=
  [Do (BCallLater 5); Do (BCallLater 5); Do (BCallLater 9); Do (BCallLater 5);
   Do (BReset 3 7); Do (BDelay 3 0); Advance 5; Advance 4].

Example ex_nonneg : Forall nonneg_op ex_ops /\ (forall i, Forall nonneg_cop (ex_body i)).
Proof.
  split.
  - repeat constructor; cbn; lia.
  - intros [|i]; cbn; repeat constructor; cbn; lia.
Qed.

Example ex_runs :
  let s := run ex_body 10 init ex_ops in
  rev (run_ids (log s)) = [0; 4; 2; 3]%nat /\ rev (run_times (log s)) = [5; 5; 5; 7]
  /\ cancelled_ids (log s) = [1%nat] /\ calls s = [] /\ oof s = false.
Proof. vm_compute. repeat split. Qed.

(** a call function that raises: Clock.advance propagates the exception, the call counts as run, the other due
    calls stay pending and run in the next advance (here advance(0)) *)
Definition ex_raise_body (i : nat) : list cop :=
  match i with
  | 0%nat => [Op (BCallLater 0); Op BRaise; Op (BCancel 1)]
  | _ => []
  end.
Example ex_raise :
  let s1 := run ex_raise_body 10 init [Do (BCallLater 5); Do (BCallLater 5); Advance 5] in
  let s2 := step ex_raise_body 10 s1 (Advance 0) in
  run_ids (log s1) = [0%nat] /\ map cid (calls s1) = [1; 2]%nat /\ advance_aborted s1 = true
  /\ rev (run_ids (log s2)) = [0; 1; 2]%nat /\ calls s2 = [] /\ advance_aborted s2 = false.
Proof. vm_compute. repeat split. Qed.

(** re-entrant advance: call 0 (due at 1) advances the clock by 1 itself and then does callLater(0): the new
    call is due at 2 = the new current time, and the OUTER advance(1) runs it before it returns; depth 2 with a
    far call pulled into the window by delay(-6) *)
Definition ex_reentrant_body (i : nat) : list cop :=
  match i with
  | 0%nat => [CAdvance 1; Op (BReset 2 0)]
  | 1%nat => [CAdvance 2; Op (BDelay 3 (-6)); Op (BCallLater 0)]
  | _ => []
  end.
Example ex_reentrant :
  let s := run ex_reentrant_body 10 init
             [Do (BCallLater 1); Do (BCallLater 2); Do (BCallLater 9); Do (BCallLater 9); Advance 1] in
  rev (run_ids (log s)) = [0; 1; 3; 4; 2]%nat /\ rev (run_times (log s)) = [1; 2; 3; 4; 4] /\ now s = 4
  /\ calls s = [] /\ oof s = false /\ advance_aborted s = false.
Proof. vm_compute. repeat split. Qed.
