(** C09: task.Clock (src/twisted/internet/task.py) — [calls] kept sorted by getTime() with Python's
    stable list.sort after every callLater, at the start of advance and after every executed call;
    [advance] pops while the head is due.  Call functions are scripts of timer operations
    ([body i] = what call #i's function does), so scheduling / cancelling / rescheduling from
    inside running calls is covered.  Times are integers (see Lib/TimersCall.v). *)
From Coq Require Import List Arith ZArith Bool.
From TwLib Require Import TimersCall.
Import ListNotations.
Local Open Scope Z_scope.

Record st := mkSt {
  calls : list call;   (* Clock.calls *)
  now : Z;             (* Clock.rightNow *)
  next : nat;          (* number of calls created so far *)
  log : list ev;       (* newest first *)
  oof : bool           (* the model ran out of fuel inside advance (excluded by theorem statements that need completion) *)
}.

Definition init : st := mkSt [] 0 0 [] false.

Definition emit (e : ev) (s : st) : st := mkSt (calls s) (now s) (next s) (e :: log s) (oof s).

(** the error DelayedCall.cancel/reset/delay raises for a call that is not pending *)
Definition classify (i : nat) (s : st) : ev :=
  if memn i (cancelled_ids (log s)) then EErrCancelled i
  else if memn i (run_ids (log s)) then EErrCalled i
  else ENoSuch i.

Definition exec_bop (s : st) (b : bop) : st :=
  match b with
  | BCallLater d =>
      let c := mkCall (next s) (now s + d) 0 false false in
      mkSt (sort getTime (calls s ++ [c])) (now s) (S (next s)) (ENew (next s) (now s + d) :: log s) (oof s)
  | BCancel i =>
      match find_id i (calls s) with
      | Some _ => mkSt (remove_id i (calls s)) (now s) (next s) (ECancel i :: log s) (oof s)
      | None => emit (classify i s) s
      end
  | BReset i x =>
      match find_id i (calls s) with
      | Some c => let c' := fst (do_reset (now s) x c) in
                  mkSt (replace_id c' (calls s)) (now s) (next s) (EReset i (getTime c') :: log s) (oof s)
      | None => emit (classify i s) s
      end
  | BDelay i x =>
      match find_id i (calls s) with
      | Some c => let c' := fst (do_delay x c) in
                  mkSt (replace_id c' (calls s)) (now s) (next s) (EDelay i (getTime c') :: log s) (oof s)
      | None => emit (classify i s) s
      end
  | BSnap => emit (ESnap (snapshot (calls s))) s
  | BRaise => s                 (* only meaningful inside a call function, see [run_body] *)
  end.

Inductive op := Do (b : bop) | Advance (a : Z).

(** what a call function can do: a timer operation, or clock.advance(a) itself (re-entrant advance) *)
Inductive cop := Op (b : bop) | CAdvance (a : Z).

Definition nonneg_cop (c : cop) : Prop := match c with Op b => nonneg_bop b | CAdvance a => 0 <= a end.

(** the event logged last is "a call function raised": an exception is propagating *)
Definition raised_now (s : st) : bool := match log s with ERaise _ :: _ => true | _ => false end.

(** entering advance(a): self.rightNow += amount *)
Definition enter_advance (a : Z) (s : st) : st := mkSt (calls s) (now s + a) (next s) (EIter :: log s) (oof s).

(** a nested advance([adv] = the loop of Clock.advance): if a call function raised inside it the exception
    propagates (no return), otherwise it returns and the clock is read *)
Definition nested (adv : st -> st) (a : Z) (s : st) : st :=
  let s' := adv (enter_advance a s) in if raised_now s' then s' else emit (EDone (now s')) s'.

(** run a call function; the bool says whether it ended by an exception (its own, or one propagating out of a
    nested advance) *)
Fixpoint run_cbody (adv : st -> st) (bs : list cop) (s : st) : st * bool :=
  match bs with
  | [] => (s, false)
  | Op BRaise :: _ => (s, true)
  | Op b :: r => run_cbody adv r (exec_bop s b)
  | CAdvance a :: r => let s' := nested adv a s in if raised_now s' then (s', true) else run_cbody adv r s'
  end.

Section Clock.
  Variable body : nat -> list cop.

  (** the while loop of Clock.advance, with the _sortCalls() that precedes every test of the loop condition
      moved to the head of the iteration.  The clock is read ([now s]) at every test, so a call function that
      advances the clock itself makes the enclosing loop go on up to the new time.  A nested advance runs the
      same loop with less fuel. *)
  Fixpoint loop (fuel : nat) (s : st) : st :=
    match sort getTime (calls s) with
    | [] => mkSt [] (now s) (next s) (log s) (oof s)
    | c :: r =>
        if getTime c <=? now s then
          match fuel with
          | O => mkSt (c :: r) (now s) (next s) (log s) true
          | S f =>
              let s1 := mkSt r (now s) (next s) (ERun c (now s) r :: log s) (oof s) in
              let res := run_cbody (loop f) (body (cid c)) s1 in
              if snd res then emit (ERaise (cid c)) (fst res)      (* the exception propagates out of advance() *)
              else loop f (emit (EEnd (cid c)) (fst res))
          end
        else mkSt (c :: r) (now s) (next s) (log s) (oof s)
    end.

  Definition step (fuel : nat) (s : st) (o : op) : st :=
    match o with
    | Do b => exec_bop s b
    | Advance a =>
        let s' := loop fuel (enter_advance a s) in
        emit (EDone (now s')) s'
    end.

  Definition run (fuel : nat) (s : st) (ops : list op) : st := fold_left (step fuel) ops s.
End Clock.

(** the last advance was cut short by an exception raised in a call function *)
Definition advance_aborted (s : st) : bool :=
  match log s with EDone _ :: ERaise _ :: _ => true | _ => false end.

Definition nonneg_op (o : op) : Prop := match o with Do b => nonneg_bop b | Advance a => 0 <= a end.

(** ---- what the theorems say about a run event ---- *)
(** creation order among equals: two calls never rescheduled and due at the same time *)
Definition Rco (a b : call) : Prop :=
  getTime a = getTime b -> cres a = false -> cres b = false -> (cid a < cid b)%nat.

(** order of two run events, [newer] logged after [older]: same time, neither ever rescheduled => the older
    run is the call created first *)
Definition Rrun (newer older : call) : Prop :=
  getTime older = getTime newer -> cres older = false -> cres newer = false -> (cid older < cid newer)%nat.

Definition good_ev (e : ev) : Prop :=
  match e with
  | ERun c n others =>
      getTime c <= n                                            (* never before its scheduled time *)
      /\ Forall (fun o => getTime c <= getTime o) others        (* no pending call is scheduled earlier *)
      /\ Forall (Rco c) others                                  (* same time, never rescheduled: created later *)
  | _ => True
  end.
