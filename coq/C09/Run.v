(** C09: printer used only by the correspondence check. *)
From Coq Require Import List Arith ZArith Bool String.
From TwLib Require Import Show TimersCall TimersShow.
From C09 Require Import Model.
Import ListNotations.
Local Open Scope string_scope.

(** case = (fuel, bodies table indexed by call id, top-level ops) *)
Definition run_show (c : nat * list (list cop) * list op) : string :=
  let '(fuel, table, ops) := c in
  let s := run (fun i => nth i table []) fuel init ops in
  digest ((if oof s then "FUEL " else "") ++ show_log (log s)).
