(** C09 property theorems: for every table of call functions [body] (call #i's function performs the
    timer operations [body i]: callLater / cancel / reset / delay / getDelayedCalls, on any calls, itself
    included, re-entrant clock.advance(a) from inside the function, and may end by raising an exception), every history [ops] of such operations and advances from the fresh Clock, every fuel.
    The log is kept newest first.  Times are integers (dyadic rationals scaled by 2^k). *)
From Coq Require Import List Arith ZArith Bool Permutation Sorted.
From TwLib Require Import TimersCall.
From C09 Require Import Model Proofs.
Import ListNotations.
Local Open Scope Z_scope.

(** every call ever created is, at every moment, in exactly one of: getDelayedCalls() / has run
    (once) / was cancelled: the three id lists together are a permutation of 0 .. next-1 *)
Theorem each_call_pending_or_ran_once_or_cancelled : forall body fuel ops,
  let s := run body fuel init ops in
  Permutation (map cid (calls s) ++ run_ids (log s) ++ cancelled_ids (log s)) (seq 0 (next s)).
Proof. exact reach_part. Qed.
Print Assumptions each_call_pending_or_ran_once_or_cancelled.

(** ... spelled out: no call runs twice, a cancelled call never runs (before or after), and
    getDelayedCalls() lists exactly the created calls that have neither run nor been cancelled *)
Theorem runs_once_iff_not_cancelled_and_getDelayedCalls_is_pending_set : forall body fuel ops,
  let s := run body fuel init ops in
  NoDup (run_ids (log s))
  /\ (forall i, In i (cancelled_ids (log s)) -> ~ In i (run_ids (log s)))
  /\ (forall i, In i (map cid (calls s)) <->
                (i < next s)%nat /\ ~ In i (run_ids (log s)) /\ ~ In i (cancelled_ids (log s))).
Proof. exact reach_once. Qed.
Print Assumptions runs_once_iff_not_cancelled_and_getDelayedCalls_is_pending_set.

(** a call never runs before its currently scheduled time *)
Theorem never_before_scheduled_time : forall body fuel ops c n others,
  In (ERun c n others) (log (run body fuel init ops)) -> getTime c <= n.
Proof. exact run_never_early. Qed.
Print Assumptions never_before_scheduled_time.

(** ... and an advance that completes (no call function raised: Clock.advance propagates such an exception
    and leaves the remaining due calls pending for the next advance) leaves no call pending whose time has
    been reached: each call runs during the first advance that reaches its currently scheduled time *)
Theorem advance_runs_every_due_call : forall body fuel s a,
  oof (step body fuel s (Advance a)) = false -> advance_aborted (step body fuel s (Advance a)) = false ->
  Forall (fun c => now (step body fuel s (Advance a)) < getTime c) (calls (step body fuel s (Advance a))).
Proof. exact advance_done. Qed.
Print Assumptions advance_runs_every_due_call.

(** the same for a re-entrant advance called by a running call function ([loop body f] is the loop of
    Clock.advance): when it returns, nothing due is pending.  Together with the previous theorem, which reads
    the clock at the end of the OUTER advance (the loop condition re-reads seconds() at every iteration), a call
    that a function schedules or moves into the window opened by its own nested advance still runs before the
    outer advance returns. *)
Theorem nested_advance_runs_every_due_call : forall body f a s,
  let s' := nested (loop body f) a s in
  oof s' = false -> raised_now s' = false -> Forall (fun c => now s' < getTime c) (calls s').
Proof. exact nested_done. Qed.
Print Assumptions nested_advance_runs_every_due_call.

(** when a call runs, no other pending call is scheduled earlier (holds for negative delays too) *)
Theorem no_pending_earlier_when_running : forall body fuel ops c n others,
  In (ERun c n others) (log (run body fuel init ops)) -> Forall (fun o => getTime c <= getTime o) others.
Proof. exact run_is_earliest. Qed.
Print Assumptions no_pending_earlier_when_running.

(** calls run in nondecreasing scheduled time over the whole history, when delays, reset/delay
    arguments and advances are non-negative (a negative delay() can move a call before one that
    already ran; see design.d/C09.md) *)
Theorem nondecreasing_scheduled_time : forall body, (forall i, Forall nonneg_cop (body i)) ->
  forall fuel ops, Forall nonneg_op ops ->
  StronglySorted Z.ge (run_times (log (run body fuel init ops))).
Proof. exact reach_nondecreasing. Qed.
Print Assumptions nondecreasing_scheduled_time.

(** same time, never rescheduled: when such a call runs, every still-pending never-rescheduled call
    with the same time was created later (so, with the partition theorem, they run in creation order) *)
Theorem same_time_creation_order : forall body fuel ops c n others o,
  In (ERun c n others) (log (run body fuel init ops)) -> In o others ->
  getTime c = getTime o -> cres c = false -> cres o = false -> (cid c < cid o)%nat.
Proof. exact run_creation_order. Qed.
Print Assumptions same_time_creation_order.

(** the same as one statement about the log (newest first): of two run events for the same time whose calls
    were never rescheduled, the earlier one is the call created first *)
Theorem same_time_creation_order_pairwise : forall body fuel ops,
  StronglySorted
    (fun newer older => getTime older = getTime newer -> cres older = false -> cres newer = false ->
                        (cid older < cid newer)%nat)
    (runs (log (run body fuel init ops))).
Proof. exact reach_run_order. Qed.
Print Assumptions same_time_creation_order_pairwise.
