(** C05: the driver computes what the synchronous reading of the same function computes, for every program,
    every assignment of outcomes and every arrival order. *)
From Coq Require Import List Arith ZArith Bool Lia.
From C05 Require Import Model.
Import ListNotations.

Section Proofs.
  Variable assign : nat -> outcome.
  Notation drive := (drive assign).
  Notation fire := (fire assign).
  Notation sync := (sync assign).

  (** the synchronous continuation of a (possibly suspended) execution *)
  Definition sync_of (p : status * world) : outcome * list obs :=
    match fst p with
    | Finished r => (r, seen (snd p))
    | Suspended d k => sync (GYieldD d k) (consumed (snd p)) (seen (snd p))
    end.

  Lemma drive_sync g : forall w, sync_of (drive g w) = sync g (consumed w) (seen w).
  Proof.
    induction g as [v|e|d k IH|v k IH|t g IH]; intros w; cbn [Model.drive Model.sync].
    - reflexivity.
    - reflexivity.
    - destruct (mem d (fired w)).
      + rewrite IH. reflexivity.
      + reflexivity.
    - apply IH.
    - rewrite IH. reflexivity.
  Qed.

  Lemma fire_sync d p : sync_of (fire d p) = sync_of p.
  Proof.
    destruct p as [st w]. unfold Model.fire. destruct (mem d (fired w)); [reflexivity|].
    destruct st as [r|d' k]; [reflexivity|].
    destruct (Nat.eqb_spec d d') as [->|Hne]; [|reflexivity].
    rewrite drive_sync. reflexivity.
  Qed.

  Lemma run_sync pre g sched : sync_of (run assign pre g sched) = sync g [] [].
  Proof.
    unfold run. assert (H : sync_of (start assign pre g) = sync g [] []) by (unfold start; rewrite drive_sync; reflexivity).
    revert H. generalize (start assign pre g) as p. induction sched as [|d r IH]; intros p H; [exact H|].
    cbn [fold_left]. apply IH. rewrite fire_sync. exact H.
  Qed.

  (** a suspended driver waits on a Deferred that has not fired; firing never un-fires *)
  Definition waits_ok (p : status * world) : Prop :=
    match fst p with Suspended d _ => mem d (fired (snd p)) = false | Finished _ => True end.

  Lemma drive_fired g : forall w, fired (snd (drive g w)) = fired w /\ waits_ok (drive g w).
  Proof.
    induction g as [v|e|d k IH|v k IH|t g IH]; intros w; cbn [Model.drive].
    - split; [reflexivity | exact I].
    - split; [reflexivity | exact I].
    - destruct (mem d (fired w)) eqn:E.
      + destruct (IH (current assign w d) (consume d w)) as [H1 H2]. split; [exact H1 | exact H2].
      + split; [reflexivity | exact E].
    - apply IH.
    - destruct (IH (say t w)) as [H1 H2]. split; [exact H1 | exact H2].
  Qed.

  Lemma mem_In i l : mem i l = true <-> In i l.
  Proof.
    unfold mem. rewrite existsb_exists. split.
    - intros [j [Hj E]]. apply Nat.eqb_eq in E. subst. exact Hj.
    - intros H. exists i. split; [exact H | apply Nat.eqb_refl].
  Qed.

  Lemma fire_fired d p : waits_ok p ->
    waits_ok (fire d p) /\ (forall x, In x (fired (snd p)) \/ x = d -> In x (fired (snd (fire d p)))).
  Proof.
    destruct p as [st w]. unfold Model.fire, waits_ok. cbn [fst snd]. intros Hw.
    destruct (mem d (fired w)) eqn:E.
    - split; [exact Hw|]. intros x [Hx| ->]; [exact Hx | apply mem_In; exact E].
    - destruct st as [r|d' k].
      + cbn [fst snd fired]. split; [exact I|]. intros x [Hx| ->]; [right; exact Hx | left; reflexivity].
      + destruct (Nat.eqb_spec d d') as [->|Hne].
        * match goal with |- context [Model.drive assign ?g ?w0] => destruct (drive_fired g w0) as [H1 H2] end.
          split; [exact H2|]. rewrite H1. cbn [fired consume]. intros x [Hx| ->]; [right; exact Hx | left; reflexivity].
        * cbn [fst snd fired]. split.
          -- unfold mem in *. cbn [existsb]. rewrite Hw. destruct (Nat.eqb_spec d' d); [congruence | reflexivity].
          -- intros x [Hx| ->]; [right; exact Hx | left; reflexivity].
  Qed.

  Lemma run_fired pre g sched :
    waits_ok (run assign pre g sched) /\
    forall x, In x pre \/ In x sched -> In x (fired (snd (run assign pre g sched))).
  Proof.
    unfold run.
    assert (H : waits_ok (start assign pre g) /\ forall x, In x pre -> In x (fired (snd (start assign pre g)))).
    { unfold start. destruct (drive_fired g (mkw pre [] [])) as [H1 H2]. split; [exact H2|]. rewrite H1. auto. }
    revert H. generalize (start assign pre g) as p. revert pre.
    induction sched as [|d r IH]; intros pre p [Hw Hp].
    - split; [exact Hw|]. intros x [Hx|[]]. apply Hp. exact Hx.
    - cbn [fold_left]. destruct (fire_fired d p Hw) as [Hw' Hp'].
      destruct (IH (d :: pre) (fire d p)) as [H1 H2].
      + split; [exact Hw'|]. intros x [ <- |Hx]; apply Hp'; [right; reflexivity | left; apply Hp; exact Hx].
      + split; [exact H1|]. intros x [Hx|[ <- |Hx]]; apply H2; [left; right; exact Hx | left; left; reflexivity | right; exact Hx].
  Qed.

  (** once the result Deferred has fired, nothing changes it *)
  Lemma fire_finished d r w : fst (fire d (Finished r, w)) = Finished r /\ seen (snd (fire d (Finished r, w))) = seen w.
  Proof. unfold Model.fire. destruct (mem d (fired w)); split; reflexivity. Qed.
End Proofs.
