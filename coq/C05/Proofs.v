(** C05: the driver computes what the synchronous reading of the same function computes, for every program,
    every assignment of outcomes, every arrival order and every placement of cancellations. *)
From Coq Require Import List Arith ZArith Bool Lia.
From C05 Require Import Model.
Import ListNotations.

Lemma mem_In i l : mem i l = true <-> In i l.
Proof.
  unfold mem. rewrite existsb_exists. split.
  - intros [j [Hj E]]. apply Nat.eqb_eq in E. subst. exact Hj.
  - intros H. exists i. split; [exact H | apply Nat.eqb_refl].
Qed.

Lemma mem_false i l : mem i l = false <-> ~ In i l.
Proof. rewrite <- mem_In. destruct (mem i l); split; congruence. Qed.

Lemma own_cons t l : own (t :: l) = push t (own l). Proof. reflexivity. Qed.

Section Proofs.
  Variable assign : nat -> outcome.
  Variable canc : nat -> cbeh.
  Notation drive := (drive assign canc).
  Notation fire := (fire assign canc).
  Notation cancel := (cancel assign canc).
  Notation step := (step assign canc).

  (** ---- forward invariants: a cancelled Deferred has fired; a suspended driver waits on an unfired one ---- *)
  Definition WF (p : status * world) : Prop :=
    (forall d, In d (cancelled (snd p)) -> In d (fired (snd p))) /\
    match fst p with Suspended d _ => ~ In d (fired (snd p)) | Finished _ => True end.

  Lemma drive_world g : forall w,
    fired (snd (drive g w)) = fired w /\ cancelled (snd (drive g w)) = cancelled w /\
    match fst (drive g w) with Suspended d _ => ~ In d (fired w) | Finished _ => True end.
  Proof.
    induction g as [v|e|d k IH|v k IH|t g IHg|g IHg k IH|lvl g IHg]; intros w; cbn [Model.drive].
    - cbn. auto.
    - cbn. auto.
    - destruct (mem d (fired w)) eqn:E; [apply (IH _ (consume d w))|]. cbn. apply mem_false in E. auto.
    - apply IH.
    - apply (IHg (say t w)).
    - destruct (IHg w) as (A1 & A2 & A3). destruct (Model.drive assign canc g w) as [st w1]. cbn [fst snd] in *.
      destruct st as [r|d k'].
      + destruct (IH r w1) as (B1 & B2 & B3). rewrite B1, B2, A1, A2. repeat split; try reflexivity.
        destruct (fst (Model.drive assign canc (k r) w1)); [exact I|]. rewrite <- A1. exact B3.
      + cbn. auto.
    - apply (IHg (say (CancelNow lvl) w)).
  Qed.

  Lemma drive_WF g w : (forall d, In d (cancelled w) -> In d (fired w)) -> WF (drive g w).
  Proof. intros H. destruct (drive_world g w) as (E1 & E2 & E3). unfold WF. rewrite E1, E2. auto. Qed.

  Lemma step_WF p o : WF p -> WF (step p o).
  Proof.
    destruct p as [st w]. intros [H1 H2]. cbn [fst snd] in *. destruct o as [d| |d]; cbn [Model.step].
    - unfold Model.fire. destruct (mem d (fired w)) eqn:Ef; [split; assumption|].
      destruct st as [r|d' k].
      + split; cbn; auto.
      + destruct (Nat.eqb_spec d d') as [->|Hne].
        * apply drive_WF. cbn. auto.
        * split; cbn; [auto|]. intros [H|H]; [congruence | contradiction].
    - unfold Model.cancel. destruct st as [r|d k]; [split; assumption|].
      destruct (mem d (held w)); [split; assumption|].
      apply drive_WF. cbn. intros x [<-|Hx]; auto.
    - unfold Model.hold. destruct (mem d (fired w)); split; assumption.
  Qed.

  (** ---- [c]: the Deferreds that are fired by their canceller in this execution ---- *)
  Variable c : list nat.
  Notation out := (eff assign canc c).

  (** the world agrees with [c] about the Deferreds that have fired: they are in [c] iff they were cancelled *)
  Definition agrees (w : world) : Prop :=
    (forall d, In d (cancelled w) -> In d c) /\ (forall d, In d c -> In d (fired w) -> In d (cancelled w)).

  Definition sync_of (p : status * world) : outcome * list nat * list obs :=
    match fst p with
    | Finished r => (r, consumed (snd p), own (seen (snd p)))
    | Suspended d k => sync out (GYieldD d k) (consumed (snd p)) (own (seen (snd p)))
    end.

  Lemma eff_agrees w d : agrees w -> In d (fired w) -> eff assign canc (cancelled w) d = out d.
  Proof.
    intros (A1 & A2) Hf. unfold eff.
    destruct (mem d (cancelled w)) eqn:E1, (mem d c) eqn:E2; try reflexivity.
    - apply mem_In in E1. apply A1 in E1. apply mem_In in E1. congruence.
    - apply mem_In in E2. apply (A2 d E2) in Hf. apply mem_In in Hf. congruence.
  Qed.

  Lemma agrees_same w w' : fired w' = fired w -> cancelled w' = cancelled w -> agrees w -> agrees w'.
  Proof. unfold agrees. intros -> ->. auto. Qed.

  Lemma drive_sync g : forall w, agrees w -> sync_of (drive g w) = sync out g (consumed w) (own (seen w)).
  Proof.
    induction g as [v|e|d k IH|v k IH|t g IHg|g IHg k IH|lvl g IHg]; intros w Ha; cbn [Model.drive Model.sync].
    - reflexivity.
    - reflexivity.
    - destruct (mem d (fired w)) eqn:Ef.
      + rewrite IH by exact Ha. apply mem_In in Ef. unfold current. rewrite (eff_agrees w d Ha Ef). reflexivity.
      + reflexivity.
    - apply IH. exact Ha.
    - rewrite IHg by exact Ha. reflexivity.
    - specialize (IHg w Ha). destruct (drive_world g w) as (A1 & A2 & _).
      destruct (Model.drive assign canc g w) as [st w1]. cbn [fst snd] in *.
      assert (Ha1 : agrees w1) by (eapply agrees_same; eassumption).
      rewrite <- IHg. destruct st as [r|d k'].
      + unfold sync_of at 2. cbn [fst snd]. apply IH. exact Ha1.
      + unfold sync_of. cbn [fst snd Model.sync]. reflexivity.
    - rewrite IHg by exact Ha. reflexivity.
  Qed.

  (** one step, read backwards: if the world after the step agrees with [c], so did the world before, and the
      synchronous continuation is the same *)
  Lemma step_back p o : WF p -> agrees (snd (step p o)) -> agrees (snd p) /\ sync_of (step p o) = sync_of p.
  Proof.
    destruct p as [st w]. intros [W1 W2]. cbn [fst snd] in *. destruct o as [d| |d]; cbn [Model.step].
    - (* a Deferred fires *)
      unfold Model.fire. destruct (mem d (fired w)) eqn:Ef; [auto|]. apply mem_false in Ef.
      set (w1 := mkw (d :: fired w) (cancelled w) (consumed w) (seen w) (held w)).
      assert (Hback : agrees w1 -> agrees w /\ ~ In d c).
      { intros (A1 & A2). cbn in *. split; [split; [exact A1|]|].
        - intros x Hx Hf. apply A2; [exact Hx | right; exact Hf].
        - intros Hc. apply Ef, W1, A2; [exact Hc | left; reflexivity]. }
      destruct st as [r|d' k].
      + cbn [snd]. intros Ha. destruct (Hback Ha) as [H _]. split; [exact H | reflexivity].
      + destruct (Nat.eqb_spec d d') as [->|Hne].
        * destruct (drive_world (k (current assign canc w1 d')) (consume d' w1)) as (E1 & E2 & _).
          intros (A1 & A2). rewrite E1, E2 in *.
          assert (Ha1 : agrees w1) by (split; assumption). destruct (Hback Ha1) as [Ha Hnc].
          split; [exact Ha|]. rewrite drive_sync by exact Ha1.
          unfold sync_of. cbn [fst snd Model.sync consume consumed seen w1].
          unfold current, eff. cbn [consumed cancelled w1].
          assert (Hn1 : mem d' (cancelled w) = false) by (apply mem_false; intros H; apply Ef, W1, H).
          assert (Hn2 : mem d' c = false) by (apply mem_false; exact Hnc).
          rewrite Hn1, Hn2. reflexivity.
        * cbn [snd]. intros Ha. destruct (Hback Ha) as [H _]. split; [exact H | reflexivity].
    - (* the returned Deferred is cancelled *)
      unfold Model.cancel. destruct st as [r|d k]; [auto|]. destruct (mem d (held w)); [auto|].
      set (w1 := mkw (d :: fired w) (d :: cancelled w) (consumed w) (Cancelled d :: seen w) (held w)).
      destruct (drive_world (k (current assign canc w1 d)) (consume d w1)) as (E1 & E2 & _).
      intros (A1 & A2). rewrite E1, E2 in *. cbn [fired cancelled consume w1] in *.
      assert (Ha1 : agrees w1) by (split; assumption).
      assert (Hc : In d c) by (apply A1; left; reflexivity).
      split.
      + split.
        * intros x Hx. apply A1. right. exact Hx.
        * intros x Hx Hf. destruct (A2 x Hx (or_intror Hf)) as [<-|H]; [contradiction | exact H].
      + rewrite drive_sync by exact Ha1. unfold sync_of. cbn [fst snd Model.sync consume consumed seen w1].
        rewrite own_cons. cbn [push]. unfold current, eff. cbn [consumed cancelled w1].
        assert (H1 : mem d (d :: cancelled w) = true) by (apply mem_In; left; reflexivity).
        assert (H2 : mem d c = true) by (apply mem_In; exact Hc).
        rewrite H1, H2. reflexivity.
    - (* a Deferred is fired while paused: nothing is delivered *)
      unfold Model.hold. destruct (mem d (fired w)); auto.
  Qed.

  Lemma run_back ops : forall p, WF p -> agrees (snd (fold_left step ops p)) ->
    agrees (snd p) /\ sync_of (fold_left step ops p) = sync_of p.
  Proof.
    induction ops as [|o r IH]; intros p HW Ha; [auto|]. cbn [fold_left] in *.
    destruct (IH (step p o) (step_WF p o HW) Ha) as [Ha1 Hs].
    destruct (step_back p o HW Ha1) as [Ha0 Hs0]. split; [exact Ha0 | congruence].
  Qed.

  Lemma run_sync pre hold0 g sched : agrees (snd (run assign canc pre hold0 g sched)) ->
    sync_of (run assign canc pre hold0 g sched) = sync out g [] [].
  Proof.
    intros Ha. unfold run in *.
    assert (HW : WF (start assign canc pre hold0 g)) by (apply drive_WF; intros d []).
    destruct (run_back sched _ HW Ha) as [Ha0 Hs]. rewrite Hs. unfold start in *.
    destruct (drive_world g (mkw pre [] [] [] hold0)) as (E1 & E2 & _).
    rewrite drive_sync; [reflexivity|]. unfold agrees in *. rewrite E1, E2 in Ha0. exact Ha0.
  Qed.
End Proofs.

(** the final world agrees with its own list of cancelled Deferreds *)
Lemma agrees_self w : agrees (cancelled w) w.
Proof. split; auto. Qed.

Section Proofs2.
  Variable assign : nat -> outcome.
  Variable canc : nat -> cbeh.

  Lemma run_WF pre hold0 g sched : WF (run assign canc pre hold0 g sched).
  Proof.
    unfold run. assert (H : WF (start assign canc pre hold0 g)) by (apply drive_WF; intros d []).
    revert H. generalize (start assign canc pre hold0 g) as p. induction sched as [|o r IH]; intros p H; [exact H|].
    cbn [fold_left]. apply IH, step_WF, H.
  Qed.

  (** everything in the schedule that fires has fired *)
  Lemma step_fired p o : forall x, In x (fired (snd p)) \/ o = SFire x -> In x (fired (snd (step assign canc p o))).
  Proof.
    destruct p as [st w]. intros x Hx. destruct o as [d| |d]; cbn [Model.step snd].
    - unfold Model.fire. destruct (mem d (fired w)) eqn:E.
      + destruct Hx as [Hx|[= ->]]; [exact Hx | apply mem_In; exact E].
      + assert (H1 : In x (d :: fired w)) by (destruct Hx as [Hx|[= ->]]; [right; exact Hx | left; reflexivity]).
        destruct st as [r|d' k]; [exact H1|]. destruct (Nat.eqb d d'); [|exact H1].
        match goal with |- context [Model.drive assign canc ?g ?w0] => destruct (drive_world assign canc g w0) as (E1 & _) end.
        rewrite E1. exact H1.
    - destruct Hx as [Hx|Hx]; [|discriminate]. unfold Model.cancel. destruct st as [r|d k]; [exact Hx|].
      destruct (mem d (held w)); [exact Hx|].
      match goal with |- context [Model.drive assign canc ?g ?w0] => destruct (drive_world assign canc g w0) as (E1 & _) end.
      rewrite E1. right. exact Hx.
    - destruct Hx as [Hx|Hx]; [|discriminate]. unfold Model.hold. destruct (mem d (fired w)); exact Hx.
  Qed.

  Lemma run_fired pre hold0 g sched : forall x, In x pre \/ In (SFire x) sched -> In x (fired (snd (run assign canc pre hold0 g sched))).
  Proof.
    unfold run.
    assert (H : forall x, In x pre -> In x (fired (snd (start assign canc pre hold0 g)))).
    { intros x Hx. unfold start. destruct (drive_world assign canc g (mkw pre [] [] [] hold0)) as (E1 & _). rewrite E1. exact Hx. }
    revert H. generalize (start assign canc pre hold0 g) as p. revert pre.
    induction sched as [|o r IH]; intros pre p Hp x Hx.
    - destruct Hx as [Hx|[]]. apply Hp, Hx.
    - cbn [fold_left]. apply (IH (match o with SFire d => d :: pre | _ => pre end)).
      + intros y Hy. apply step_fired. destruct o as [d| |d]; [destruct Hy as [<-|Hy]; [right; reflexivity | left; apply Hp, Hy] | left; apply Hp, Hy | left; apply Hp, Hy].
      + destruct Hx as [Hx|[Ho|Hx]].
        * left. destruct o; [right| |]; exact Hx.
        * subst o. left. left. reflexivity.
        * right. exact Hx.
  Qed.

  (** once finished, nothing changes the outcome or what the function observed *)
  Lemma step_finished o r w :
    fst (step assign canc (Finished r, w) o) = Finished r /\
    own (seen (snd (step assign canc (Finished r, w) o))) = own (seen w) /\
    cancelled (snd (step assign canc (Finished r, w) o)) = cancelled w /\
    consumed (snd (step assign canc (Finished r, w) o)) = consumed w.
  Proof. destruct o as [d| |d]; cbn; [destruct (mem d (fired w))| |destruct (mem d (fired w))]; repeat split; reflexivity. Qed.

  (** cancelling while suspended on d cancels exactly d (and resumes the function with d's outcome) *)
  Lemma cancel_exactly d k w : mem d (held w) = false ->
    cancelled (snd (cancel assign canc (Suspended d k, w))) = d :: cancelled w /\
    cancel assign canc (Suspended d k, w) =
      drive assign canc (k (if mem d (consumed w) then Val VNone else cancel_outcome (canc d)))
            (mkw (d :: fired w) (d :: cancelled w) (d :: consumed w) (Cancelled d :: seen w) (held w)).
  Proof.
    intros Hh. unfold Model.cancel. rewrite Hh.
    match goal with |- context [Model.drive assign canc ?g ?w0] => destruct (drive_world assign canc g w0) as (_ & E2 & _) end.
    split; [rewrite E2; reflexivity|]. unfold current, eff, consume. cbn [consumed cancelled fired seen].
    assert (H : mem d (d :: cancelled w) = true) by (apply mem_In; left; reflexivity). rewrite H. reflexivity.
  Qed.
End Proofs2.

(** a Deferred is cancelled at most once *)
Lemma run_cancel_nodup assign canc pre hold0 g sched : NoDup (cancelled (snd (run assign canc pre hold0 g sched))).
Proof.
  unfold run.
  assert (H : WF (start assign canc pre hold0 g) /\ NoDup (cancelled (snd (start assign canc pre hold0 g)))).
  { split; [apply drive_WF; intros d []|]. unfold start.
    destruct (drive_world assign canc g (mkw pre [] [] [] hold0)) as (_ & E2 & _). rewrite E2. constructor. }
  revert H. generalize (start assign canc pre hold0 g) as p. induction sched as [|o r IH]; intros p [HW Hn]; [exact Hn|].
  cbn [fold_left]. apply IH. split; [apply step_WF, HW|].
  destruct p as [st w]. destruct HW as [W1 W2]. cbn [fst snd] in *. destruct o as [d| |d]; cbn [step].
  - unfold fire. destruct (mem d (fired w)); [exact Hn|]. destruct st as [r0|d' k]; [exact Hn|].
    destruct (Nat.eqb d d'); [|exact Hn].
    match goal with |- context [drive assign canc ?g0 ?w0] => destruct (drive_world assign canc g0 w0) as (_ & E2 & _) end.
    rewrite E2. exact Hn.
  - unfold cancel. destruct st as [r0|d k]; [exact Hn|]. destruct (mem d (held w)); [exact Hn|].
    match goal with |- context [drive assign canc ?g0 ?w0] => destruct (drive_world assign canc g0 w0) as (_ & E2 & _) end.
    rewrite E2. cbn. constructor; [|exact Hn]. intros Hin. apply W2, W1, Hin.
  - unfold hold. destruct (mem d (fired w)); exact Hn.
Qed.
