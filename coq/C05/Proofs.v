(** C05: the driver computes what the synchronous reading of the same function computes, for every program,
    every assignment of outcomes, every arrival order and every placement of cancellations. *)
From Coq Require Import List Arith ZArith Bool Lia.
From C05 Require Import Model.
Import ListNotations.

Lemma mem_In i l : mem i l = true <-> In i l.
Proof.
  unfold mem. rewrite existsb_exists. split.
  - intros [j [Hj E]]. apply Nat.eqb_eq in E. subst. exact Hj.
  - intros H. exists i. split; [exact H | apply Nat.eqb_refl].
Qed.

Lemma mem_false i l : mem i l = false <-> ~ In i l.
Proof. rewrite <- mem_In. destruct (mem i l); split; congruence. Qed.

Lemma own_cons t l : own (t :: l) = push t (own l). Proof. reflexivity. Qed.

(** ---- facts that hold for generators and coroutines alike ---- *)
Section Common.
  Variable assign : nat -> outcome.
  Variable canc : nat -> cbeh.
  Variable coro : bool.
  Notation drive := (drive assign canc coro).
  Notation step := (step assign canc coro).

  (** a cancelled / consumed Deferred has fired; a suspended driver waits on an unfired one *)
  Definition WF (p : status * world) : Prop :=
    (forall d, In d (cancelled (snd p)) -> In d (fired (snd p))) /\
    (forall d, In d (consumed (snd p)) -> In d (fired (snd p))) /\
    match fst p with Suspended d _ => ~ In d (fired (snd p)) | Finished _ => True end /\
    settling (snd p) = None.

  Lemma after_read_world d w :
    fired (after_read coro d w) = fired w /\ cancelled (after_read coro d w) = cancelled w /\
    seen (after_read coro d w) = seen w /\
    (forall x, In x (consumed (after_read coro d w)) -> In x (consumed w) \/ x = d) /\
    (stale w = true -> stale (after_read coro d w) = true) /\
    settling (after_read coro d w) = settling w.
  Proof.
    unfold after_read. destruct coro; cbn.
    - repeat split; auto. intros H. rewrite H. reflexivity.
    - repeat split; auto. intros x [<-|H]; auto.
  Qed.

  Lemma boundary_world w :
    fired (boundary w) = fired w /\ cancelled (boundary w) = cancelled w /\ seen (boundary w) = seen w /\
    (forall x, In x (consumed (boundary w)) -> In x (consumed w) \/ settling w = Some x) /\
    stale (boundary w) = stale w /\ (settling (boundary w) = settling w \/ settling (boundary w) = None).
  Proof.
    unfold boundary. destruct (settling w) as [d|] eqn:E; cbn; repeat split; auto.
    intros x [<-|H]; auto.
  Qed.

  Lemma drive_world g : forall w,
    fired (snd (drive g w)) = fired w /\ cancelled (snd (drive g w)) = cancelled w /\
    match fst (drive g w) with Suspended d _ => ~ In d (fired w) | Finished _ => True end /\
    (forall x, In x (consumed (snd (drive g w))) -> In x (consumed w) \/ In x (fired w) \/ settling w = Some x) /\
    (stale w = true -> stale (snd (drive g w)) = true) /\
    (settling (snd (drive g w)) = settling w \/ settling (snd (drive g w)) = None).
  Proof.
    induction g as [v|e|d k IH|v k IH|t g IHg|g IHg k IH|g IHg k IH|lvl g IHg]; intros w; cbn [Model.drive].
    - cbn. repeat split; auto.
    - cbn. repeat split; auto.
    - destruct (mem d (fired w)) eqn:E.
      + destruct (after_read_world d w) as (A1 & A2 & _ & A4 & A5 & A6).
        destruct (IH (current assign canc w d) (after_read coro d w)) as (B1 & B2 & B3 & B4 & B5 & B6).
        rewrite A1, A2, A6 in *. repeat split; auto.
        intros x Hx. destruct (B4 x Hx) as [H|[H|H]]; auto. destruct (A4 x H) as [H'| ->]; [auto|].
        right. left. apply mem_In. exact E.
      + cbn. apply mem_false in E. repeat split; auto.
    - apply IH.
    - apply (IHg (say t w)).
    - destruct (IHg w) as (A1 & A2 & A3 & A4 & A5 & A6). destruct (Model.drive assign canc coro g w) as [st w1].
      cbn [fst snd] in *. destruct st as [r|d k'].
      + destruct (IH r w1) as (B1 & B2 & B3 & B4 & B5 & B6). rewrite B1, B2, A1, A2. repeat split; auto.
        * destruct (fst (Model.drive assign canc coro (k r) w1)); [exact I|]. rewrite <- A1. exact B3.
        * intros x Hx. destruct (B4 x Hx) as [H|[H|H]]; [apply A4, H | right; left; rewrite <- A1; exact H |].
          destruct A6 as [A6|A6]; rewrite A6 in H; [auto | discriminate].
        * destruct B6 as [B6|B6]; [|auto]. rewrite B6. exact A6.
      + cbn. repeat split; auto.
    - destruct (IHg w) as (A1 & A2 & A3 & A4 & A5 & A6). destruct (Model.drive assign canc coro g w) as [st w1].
      cbn [fst snd] in *. destruct st as [r|d k'].
      + destruct (boundary_world w1) as (C1 & C2 & _ & C4 & C5 & C6).
        destruct (IH r (boundary w1)) as (B1 & B2 & B3 & B4 & B5 & B6). rewrite B1, B2, C1, C2, A1, A2. repeat split; auto.
        * destruct (fst (Model.drive assign canc coro (k r) (boundary w1))); [exact I|]. rewrite <- A1, <- C1. exact B3.
        * intros x Hx. destruct (B4 x Hx) as [H|[H|H]].
          -- destruct (C4 x H) as [H'|H']; [apply A4, H'|]. destruct A6 as [A6|A6]; rewrite A6 in H'; [auto | discriminate].
          -- right. left. rewrite <- A1, <- C1. exact H.
          -- destruct C6 as [C6|C6]; rewrite C6 in H; [|discriminate].
             destruct A6 as [A6|A6]; rewrite A6 in H; [auto | discriminate].
        * intros H. apply B5. rewrite C5. apply A5, H.
        * destruct B6 as [B6|B6]; [|auto]. rewrite B6. destruct C6 as [C6|C6]; [|auto]. rewrite C6. exact A6.
      + cbn. repeat split; auto.
    - apply (IHg (say (CancelNow lvl) w)).
  Qed.

  Lemma drive_WF g w :
    (forall d, In d (cancelled w) -> In d (fired w)) -> (forall d, In d (consumed w) -> In d (fired w)) ->
    settling w = None -> WF (drive g w).
  Proof.
    intros H1 H2 H3. destruct (drive_world g w) as (E1 & E2 & E3 & E4 & _ & E6). unfold WF. rewrite E1, E2.
    repeat split; auto.
    - intros d Hd. destruct (E4 d Hd) as [H|[H|H]]; auto. congruence.
    - destruct E6 as [E6|E6]; congruence.
  Qed.

  Lemma resume_world via d k w1 : In d (fired w1) -> settling w1 = None ->
    fired (snd (resume assign canc coro via d k w1)) = fired w1 /\
    cancelled (snd (resume assign canc coro via d k w1)) = cancelled w1 /\
    match fst (resume assign canc coro via d k w1) with Suspended x _ => ~ In x (fired w1) | Finished _ => True end /\
    (forall x, In x (consumed (snd (resume assign canc coro via d k w1))) -> In x (consumed w1) \/ In x (fired w1)) /\
    settling (snd (resume assign canc coro via d k w1)) = None.
  Proof.
    intros Hd Hs.
    pose proof (drive_world (k (current assign canc w1 d)) (mark_settling via d w1)) as (E1 & E2 & E3 & E4 & _ & _).
    pose proof (drive_world (k (current assign canc w1 d)) (consume d w1)) as (F1 & F2 & F3 & F4 & _ & F6).
    unfold resume, settle. destruct coro.
    - cbn [fst snd consume unsettle mark_settling fired cancelled consumed settling] in *.
      split; [exact E1|]. split; [exact E2|]. split; [exact E3|]. split; [|reflexivity].
      intros x [<-|Hx]; [auto|]. destruct (E4 x Hx) as [H|[H|H]]; auto.
      destruct via; [injection H as <-; auto | congruence].
    - cbn [consume fired cancelled consumed settling] in *.
      split; [exact F1|]. split; [exact F2|]. split; [exact F3|]. split.
      + intros x Hx. destruct (F4 x Hx) as [[<-|H]|[H|H]]; auto. congruence.
      + destruct F6 as [F6|F6]; congruence.
  Qed.

  Lemma resume_fc via d k w1 :
    fired (snd (resume assign canc coro via d k w1)) = fired w1 /\
    cancelled (snd (resume assign canc coro via d k w1)) = cancelled w1.
  Proof.
    pose proof (drive_world (k (current assign canc w1 d)) (mark_settling via d w1)) as (E1 & E2 & _).
    pose proof (drive_world (k (current assign canc w1 d)) (consume d w1)) as (F1 & F2 & _).
    unfold resume, settle. destruct coro; cbn [fst snd consume unsettle mark_settling fired cancelled] in *; auto.
  Qed.

  Lemma resume_WF via d k w1 :
    (forall x, In x (cancelled w1) -> In x (fired w1)) -> (forall x, In x (consumed w1) -> In x (fired w1)) ->
    In d (fired w1) -> settling w1 = None -> WF (resume assign canc coro via d k w1).
  Proof.
    intros H1 H2 Hd Hs. destruct (resume_world via d k w1 Hd Hs) as (E1 & E2 & E3 & E4 & E5). unfold WF. rewrite E1, E2.
    repeat split; auto. intros x Hx. destruct (E4 x Hx); auto.
  Qed.

  Lemma step_WF p o : WF p -> WF (step p o).
  Proof.
    destruct p as [st w]. intros (H1 & H2 & H3 & H4). cbn [fst snd] in *. destruct o as [d| |d]; cbn [Model.step].
    - unfold Model.fire. destruct (mem d (fired w)) eqn:Ef; [repeat split; assumption|].
      destruct st as [r|d' k].
      + repeat split; cbn; auto.
      + destruct (Nat.eqb_spec d d') as [->|Hne].
        * apply resume_WF; cbn; auto.
        * repeat split; cbn; auto. intros [H|H]; [congruence | contradiction].
    - unfold Model.cancel. destruct st as [r|d k]; [repeat split; assumption|].
      destruct (mem d (held w)); [repeat split; assumption|].
      apply resume_WF; cbn; auto. intros x [<-|Hx]; auto.
    - unfold Model.hold. destruct (mem d (fired w)); repeat split; assumption.
  Qed.

  Lemma start_WF pre hold0 g : WF (start assign canc coro pre hold0 g).
  Proof. unfold start. apply drive_WF; [intros d [] | intros d [] | reflexivity]. Qed.

  Lemma run_WF pre hold0 g sched : WF (run assign canc coro pre hold0 g sched).
  Proof.
    unfold run. pose proof (start_WF pre hold0 g) as H. revert H.
    generalize (start assign canc coro pre hold0 g) as p. induction sched as [|o r IH]; intros p H; [exact H|].
    cbn [fold_left]. apply IH, step_WF, H.
  Qed.

  (** everything in the schedule that fires has fired *)
  Lemma step_fired p o : forall x, In x (fired (snd p)) \/ o = SFire x -> In x (fired (snd (step p o))).
  Proof.
    destruct p as [st w]. intros x Hx. destruct o as [d| |d]; cbn [Model.step snd].
    - unfold Model.fire. destruct (mem d (fired w)) eqn:E.
      + destruct Hx as [Hx|[= ->]]; [exact Hx | apply mem_In; exact E].
      + assert (H1 : In x (d :: fired w)) by (destruct Hx as [Hx|[= ->]]; [right; exact Hx | left; reflexivity]).
        destruct st as [r|d' k]; [exact H1|]. destruct (Nat.eqb d d'); [|exact H1].
        match goal with |- context [resume assign canc coro ?v ?a ?b ?c] => destruct (resume_fc v a b c) as (E1 & _) end.
        rewrite E1. exact H1.
    - destruct Hx as [Hx|Hx]; [|discriminate]. unfold Model.cancel. destruct st as [r|d k]; [exact Hx|].
      destruct (mem d (held w)); [exact Hx|].
      match goal with |- context [resume assign canc coro ?v ?a ?b ?c] => destruct (resume_fc v a b c) as (E1 & _) end.
      rewrite E1. right. exact Hx.
    - destruct Hx as [Hx|Hx]; [|discriminate]. unfold Model.hold. destruct (mem d (fired w)); exact Hx.
  Qed.

  Lemma run_fired pre hold0 g sched :
    forall x, In x pre \/ In (SFire x) sched -> In x (fired (snd (run assign canc coro pre hold0 g sched))).
  Proof.
    unfold run.
    assert (H : forall x, In x pre -> In x (fired (snd (start assign canc coro pre hold0 g)))).
    { intros x Hx. unfold start. destruct (drive_world g (mkw pre [] [] [] hold0 None false)) as (E1 & _). rewrite E1. exact Hx. }
    revert H. generalize (start assign canc coro pre hold0 g) as p. revert pre.
    induction sched as [|o r IH]; intros pre p Hp x Hx.
    - destruct Hx as [Hx|[]]. apply Hp, Hx.
    - cbn [fold_left]. apply (IH (match o with SFire d => d :: pre | _ => pre end)).
      + intros y Hy. apply step_fired.
        destruct o as [d| |d]; [destruct Hy as [<-|Hy]; [right; reflexivity | left; apply Hp, Hy] | left; apply Hp, Hy | left; apply Hp, Hy].
      + destruct Hx as [Hx|[Ho|Hx]].
        * left. destruct o; [right| |]; exact Hx.
        * subst o. left. left. reflexivity.
        * right. exact Hx.
  Qed.

  (** once finished, nothing changes the outcome or what the function observed *)
  Lemma step_finished o r w :
    fst (step (Finished r, w) o) = Finished r /\
    own (seen (snd (step (Finished r, w) o))) = own (seen w) /\
    cancelled (snd (step (Finished r, w) o)) = cancelled w /\
    consumed (snd (step (Finished r, w) o)) = consumed w.
  Proof. destruct o as [d| |d]; cbn; [destruct (mem d (fired w))| |destruct (mem d (fired w))]; repeat split; reflexivity. Qed.

  (** cancelling while suspended on d cancels exactly d (and resumes the function with d's outcome) *)
  Lemma cancel_exactly d k w : mem d (held w) = false ->
    cancelled (snd (cancel assign canc coro (Suspended d k, w))) = d :: cancelled w /\
    cancel assign canc coro (Suspended d k, w) =
      resume assign canc coro true d k (mkw (d :: fired w) (d :: cancelled w) (consumed w) (Cancelled d :: seen w) (held w) (settling w) (stale w)).
  Proof.
    intros Hh. unfold Model.cancel. rewrite Hh.
    match goal with |- context [resume assign canc coro ?v ?a ?b ?c] => destruct (resume_fc v a b c) as (_ & E2) end.
    split; [rewrite E2; reflexivity | reflexivity].
  Qed.

  (** a Deferred is cancelled at most once *)
  Lemma run_cancel_nodup pre hold0 g sched : NoDup (cancelled (snd (run assign canc coro pre hold0 g sched))).
  Proof.
    unfold run.
    assert (H : WF (start assign canc coro pre hold0 g) /\ NoDup (cancelled (snd (start assign canc coro pre hold0 g)))).
    { split; [apply start_WF|]. unfold start.
      destruct (drive_world g (mkw pre [] [] [] hold0 None false)) as (_ & E2 & _). rewrite E2. constructor. }
    revert H. generalize (start assign canc coro pre hold0 g) as p. induction sched as [|o r IH]; intros p [HW Hn]; [exact Hn|].
    cbn [fold_left]. apply IH. split; [apply step_WF, HW|].
    destruct p as [st w]. destruct HW as (W1 & W2 & W3). cbn [fst snd] in *. destruct o as [d| |d]; cbn [Model.step].
    - unfold Model.fire. destruct (mem d (fired w)); [exact Hn|]. destruct st as [r0|d' k]; [exact Hn|].
      destruct (Nat.eqb d d'); [|exact Hn].
      match goal with |- context [resume assign canc coro ?v ?a ?b ?c] => destruct (resume_fc v a b c) as (_ & E2) end.
      rewrite E2. exact Hn.
    - unfold Model.cancel. destruct st as [r0|d k]; [exact Hn|]. destruct (mem d (held w)); [exact Hn|].
      match goal with |- context [resume assign canc coro ?v ?a ?b ?c] => destruct (resume_fc v a b c) as (_ & E2) end.
      rewrite E2. cbn. constructor; [|exact Hn]. intros Hin. apply W3, W1, Hin.
    - unfold Model.hold. destruct (mem d (fired w)); exact Hn.
  Qed.

  (** ---- [c]: the Deferreds that are fired by their canceller in this execution ---- *)
  Variable c : list nat.
  Notation out := (eff assign canc c).

  (** the world agrees with [c] about the Deferreds that have fired: they are in [c] iff they were cancelled *)
  Definition agrees (w : world) : Prop :=
    (forall d, In d (cancelled w) -> In d c) /\ (forall d, In d c -> In d (fired w) -> In d (cancelled w)).

  Lemma eff_agrees w d : agrees w -> In d (fired w) -> eff assign canc (cancelled w) d = out d.
  Proof.
    intros (A1 & A2) Hf. unfold eff.
    destruct (mem d (cancelled w)) eqn:E1, (mem d c) eqn:E2; try reflexivity.
    - apply mem_In in E1. apply A1 in E1. apply mem_In in E1. congruence.
    - apply mem_In in E2. apply (A2 d E2) in Hf. apply mem_In in Hf. congruence.
  Qed.

  Lemma agrees_same w w' : fired w' = fired w -> cancelled w' = cancelled w -> agrees w -> agrees w'.
  Proof. unfold agrees. intros -> ->. auto. Qed.

  (** backwards through one step, for the sets the agreement talks about *)
  Lemma agrees_back_fire d w :
    ~ In d (fired w) -> (forall x, In x (cancelled w) -> In x (fired w)) ->
    agrees (mkw (d :: fired w) (cancelled w) (consumed w) (seen w) (held w) (settling w) (stale w)) -> agrees w /\ ~ In d c.
  Proof.
    intros Ef W1 (A1 & A2). cbn in *. split; [split; [exact A1|]|].
    - intros x Hx Hf. apply A2; [exact Hx | right; exact Hf].
    - intros Hc. apply Ef, W1, A2; [exact Hc | left; reflexivity].
  Qed.

  Lemma agrees_back_cancel d w x0 :
    ~ In d (fired w) ->
    agrees (mkw (d :: fired w) (d :: cancelled w) (consumed w) x0 (held w) (settling w) (stale w)) -> agrees w /\ In d c.
  Proof.
    intros Ef (A1 & A2). cbn in *. split; [split|].
    - intros x Hx. apply A1. right. exact Hx.
    - intros x Hx Hf. destruct (A2 x Hx (or_intror Hf)) as [<-|H]; [contradiction | exact H].
    - apply A1. left. reflexivity.
  Qed.
End Common.

(** ================= generators ([yield d]) ================= *)
Section Generator.
  Variable assign : nat -> outcome.
  Variable canc : nat -> cbeh.
  Notation drive := (drive assign canc false).
  Notation step := (step assign canc false).
  Variable c : list nat.
  Notation out := (eff assign canc c).
  Notation agrees := (agrees c).

  (** the synchronous continuation of a (possibly suspended) execution *)
  Definition sync_of (p : status * world) : outcome * list nat * list obs :=
    match fst p with
    | Finished r => (r, consumed (snd p), own (seen (snd p)))
    | Suspended d k => sync out (GYieldD d k) (consumed (snd p)) (own (seen (snd p)))
    end.

  Lemma drive_sync g : forall w, agrees w -> settling w = None ->
    sync_of (drive g w) = sync out g (consumed w) (own (seen w)).
  Proof.
    induction g as [v|e|d k IH|v k IH|t g IHg|g IHg k IH|g IHg k IH|lvl g IHg]; intros w Ha Hn; cbn [Model.drive Model.sync].
    - reflexivity.
    - reflexivity.
    - destruct (mem d (fired w)) eqn:Ef.
      + unfold after_read. rewrite IH by assumption. apply mem_In in Ef. unfold current.
        rewrite (eff_agrees assign canc c w d Ha Ef). reflexivity.
      + reflexivity.
    - apply IH; assumption.
    - rewrite IHg by assumption. reflexivity.
    - specialize (IHg w Ha Hn). destruct (drive_world assign canc false g w) as (A1 & A2 & _ & _ & _ & A6).
      destruct (Model.drive assign canc false g w) as [st w1]. cbn [fst snd] in *.
      assert (Ha1 : agrees w1) by (eapply agrees_same; eassumption).
      assert (Hn1 : settling w1 = None) by (destruct A6; congruence).
      rewrite <- IHg. destruct st as [r|d k'].
      + unfold sync_of at 2. cbn [fst snd]. apply IH; assumption.
      + unfold sync_of. cbn [fst snd Model.sync]. reflexivity.
    - specialize (IHg w Ha Hn). destruct (drive_world assign canc false g w) as (A1 & A2 & _ & _ & _ & A6).
      destruct (Model.drive assign canc false g w) as [st w1]. cbn [fst snd] in *.
      assert (Ha1 : agrees w1) by (eapply agrees_same; eassumption).
      assert (Hn1 : settling w1 = None) by (destruct A6; congruence).
      rewrite <- IHg. destruct st as [r|d k'].
      + unfold boundary. rewrite Hn1. unfold sync_of at 2. cbn [fst snd]. apply IH; assumption.
      + unfold sync_of. cbn [fst snd Model.sync]. reflexivity.
    - rewrite IHg by assumption. reflexivity.
  Qed.

  (** one step, read backwards: if the world after the step agrees with [c], so did the world before, and the
      synchronous continuation is the same *)
  Lemma step_back p o : WF p -> agrees (snd (step p o)) -> agrees (snd p) /\ sync_of (step p o) = sync_of p.
  Proof.
    destruct p as [st w]. intros (W1 & _ & W3 & W4). cbn [fst snd] in *. destruct o as [d| |d]; cbn [Model.step].
    - unfold Model.fire. destruct (mem d (fired w)) eqn:Ef; [auto|]. apply mem_false in Ef.
      set (w1 := mkw (d :: fired w) (cancelled w) (consumed w) (seen w) (held w) (settling w) (stale w)).
      destruct st as [r|d' k].
      + cbn [snd]. intros Ha. destruct (agrees_back_fire c d w Ef W1 Ha) as [H _]. split; [exact H | reflexivity].
      + destruct (Nat.eqb_spec d d') as [->|Hne].
        * unfold resume.
          destruct (drive_world assign canc false (k (current assign canc w1 d')) (consume d' w1)) as (E1 & E2 & _).
          intros (A1 & A2). rewrite E1, E2 in *.
          assert (Ha1 : agrees w1) by (split; assumption).
          destruct (agrees_back_fire c d' w Ef W1 Ha1) as [Ha Hnc].
          split; [exact Ha|]. rewrite drive_sync by (first [exact Ha1 | exact W4]).
          unfold sync_of. cbn [fst snd Model.sync consume consumed seen w1].
          unfold current, eff. cbn [consumed cancelled w1].
          assert (Hn1 : mem d' (cancelled w) = false) by (apply mem_false; intros H; apply Ef, W1, H).
          assert (Hn2 : mem d' c = false) by (apply mem_false; exact Hnc).
          rewrite Hn1, Hn2. reflexivity.
        * cbn [snd]. intros Ha. destruct (agrees_back_fire c d w Ef W1 Ha) as [H _]. split; [exact H | reflexivity].
    - unfold Model.cancel. destruct st as [r|d k]; [auto|]. destruct (mem d (held w)); [auto|].
      set (w1 := mkw (d :: fired w) (d :: cancelled w) (consumed w) (Cancelled d :: seen w) (held w) (settling w) (stale w)).
      unfold resume.
      destruct (drive_world assign canc false (k (current assign canc w1 d)) (consume d w1)) as (E1 & E2 & _).
      intros (A1 & A2). rewrite E1, E2 in *. cbn [fired cancelled consume w1] in *.
      assert (Ha1 : agrees w1) by (split; assumption).
      destruct (agrees_back_cancel c d w _ W3 Ha1) as [Ha Hc].
      split; [exact Ha|].
      rewrite drive_sync by (first [exact Ha1 | exact W4]). unfold sync_of. cbn [fst snd Model.sync consume consumed seen w1].
      rewrite own_cons. cbn [push]. unfold current, eff. cbn [consumed cancelled w1].
      assert (H1 : mem d (d :: cancelled w) = true) by (apply mem_In; left; reflexivity).
      assert (H2 : mem d c = true) by (apply mem_In; exact Hc).
      rewrite H1, H2. reflexivity.
    - unfold Model.hold. destruct (mem d (fired w)); auto.
  Qed.

  Lemma run_back ops : forall p, WF p -> agrees (snd (fold_left step ops p)) ->
    agrees (snd p) /\ sync_of (fold_left step ops p) = sync_of p.
  Proof.
    induction ops as [|o r IH]; intros p HW Ha; [auto|]. cbn [fold_left] in *.
    destruct (IH (step p o) (step_WF assign canc false p o HW) Ha) as [Ha1 Hs].
    destruct (step_back p o HW Ha1) as [Ha0 Hs0]. split; [exact Ha0 | congruence].
  Qed.

  Lemma run_sync pre hold0 g sched : agrees (snd (run assign canc false pre hold0 g sched)) ->
    sync_of (run assign canc false pre hold0 g sched) = sync out g [] [].
  Proof.
    intros Ha. unfold run in *.
    destruct (run_back sched _ (start_WF assign canc false pre hold0 g) Ha) as [Ha0 Hs]. rewrite Hs. unfold start in *.
    destruct (drive_world assign canc false g (mkw pre [] [] [] hold0 None false)) as (E1 & E2 & _).
    rewrite drive_sync; [reflexivity | | reflexivity]. unfold Proofs.agrees in *. rewrite E1, E2 in Ha0. exact Ha0.
  Qed.
End Generator.

(** ================= coroutines ([await d]) ================= *)
Section Coroutine.
  Variable assign : nat -> outcome.
  Variable canc : nat -> cbeh.
  Notation drive := (drive assign canc true).
  Notation step := (step assign canc true).
  Variable c : list nat.
  Notation out := (eff assign canc c).
  Notation agrees := (agrees c).

  Definition sync_of_nc (p : status * world) : outcome * list obs :=
    match fst p with
    | Finished r => (r, own (seen (snd p)))
    | Suspended d k => sync_nc out (GYieldD d k) (own (seen (snd p)))
    end.

  (** as long as no await has read a Deferred whose result the driver had already taken *)
  Lemma drive_sync_nc g : forall w, agrees w -> stale (snd (drive g w)) = false ->
    sync_of_nc (drive g w) = sync_nc out g (own (seen w)).
  Proof.
    induction g as [v|e|d k IH|v k IH|t g IHg|g IHg k IH|g IHg k IH|lvl g IHg]; intros w Ha Hs; cbn [Model.drive Model.sync_nc] in *.
    - reflexivity.
    - reflexivity.
    - destruct (mem d (fired w)) eqn:Ef; [|reflexivity].
      unfold after_read in *. assert (Ha' : agrees (note_stale d w)) by exact Ha.
      destruct (drive_world assign canc true (k (current assign canc w d)) (note_stale d w)) as (_ & _ & _ & _ & M & _).
      assert (Hm : mem d (consumed w) = false).
      { destruct (mem d (consumed w)) eqn:E; [|reflexivity]. rewrite M in Hs; [discriminate|]. cbn. rewrite E. apply orb_true_r. }
      rewrite IH by assumption. apply mem_In in Ef. unfold current. rewrite Hm.
      rewrite (eff_agrees assign canc c w d Ha Ef). reflexivity.
    - apply IH; assumption.
    - rewrite IHg by assumption. reflexivity.
    - destruct (drive_world assign canc true g w) as (A1 & A2 & _).
      destruct (Model.drive assign canc true g w) as [st w1] eqn:Eg. cbn [fst snd] in *.
      assert (Ha1 : agrees w1) by (eapply agrees_same; eassumption).
      destruct st as [r|d k'].
      + destruct (drive_world assign canc true (k r) w1) as (_ & _ & _ & _ & M & _).
        assert (Hs1 : stale w1 = false) by (destruct (stale w1) eqn:E; [rewrite M in Hs; [discriminate | reflexivity] | reflexivity]).
        specialize (IHg w Ha). rewrite Eg in IHg. cbn [snd] in IHg. specialize (IHg Hs1).
        rewrite <- IHg. unfold sync_of_nc at 2. cbn [fst snd]. apply IH; assumption.
      + cbn [snd] in Hs. specialize (IHg w Ha). rewrite Eg in IHg. cbn [snd] in IHg. specialize (IHg Hs).
        rewrite <- IHg. unfold sync_of_nc. cbn [fst snd Model.sync_nc]. reflexivity.
    - destruct (drive_world assign canc true g w) as (A1 & A2 & _).
      destruct (Model.drive assign canc true g w) as [st w1] eqn:Eg. cbn [fst snd] in *.
      assert (Ha1 : agrees w1) by (eapply agrees_same; eassumption).
      destruct st as [r|d k'].
      + destruct (boundary_world w1) as (C1 & C2 & C3 & _ & C5 & _).
        assert (Ha2 : agrees (boundary w1)) by (eapply agrees_same; eassumption).
        destruct (drive_world assign canc true (k r) (boundary w1)) as (_ & _ & _ & _ & M & _).
        assert (Hs1 : stale w1 = false).
        { destruct (stale w1) eqn:E; [|reflexivity]. rewrite M in Hs; [discriminate | exact C5]. }
        specialize (IHg w Ha). rewrite Eg in IHg. cbn [snd] in IHg. specialize (IHg Hs1).
        rewrite <- IHg. unfold sync_of_nc at 2. cbn [fst snd]. rewrite <- C3. apply IH; assumption.
      + cbn [snd] in Hs. specialize (IHg w Ha). rewrite Eg in IHg. cbn [snd] in IHg. specialize (IHg Hs).
        rewrite <- IHg. unfold sync_of_nc. cbn [fst snd Model.sync_nc]. reflexivity.
    - rewrite IHg by assumption. reflexivity.
  Qed.

  Lemma stale_resume via d k w1 : stale (snd (resume assign canc true via d k w1)) = false ->
    stale w1 = false /\ stale (snd (drive (k (current assign canc w1 d)) (mark_settling via d w1))) = false.
  Proof.
    unfold resume, settle. cbn [snd consume unsettle stale]. intros H. split; [|exact H].
    destruct (drive_world assign canc true (k (current assign canc w1 d)) (mark_settling via d w1)) as (_ & _ & _ & _ & M & _).
    change (stale (mark_settling via d w1)) with (stale w1) in M.
    destruct (stale w1); [rewrite M in H; [discriminate | reflexivity] | reflexivity].
  Qed.

  Lemma step_back_nc p o : WF p -> agrees (snd (step p o)) -> stale (snd (step p o)) = false ->
    agrees (snd p) /\ stale (snd p) = false /\ sync_of_nc (step p o) = sync_of_nc p.
  Proof.
    destruct p as [st w]. intros (W1 & W2 & W3 & _). cbn [fst snd] in *. destruct o as [d| |d]; cbn [Model.step].
    - unfold Model.fire. destruct (mem d (fired w)) eqn:Ef; [auto|]. apply mem_false in Ef.
      set (w1 := mkw (d :: fired w) (cancelled w) (consumed w) (seen w) (held w) (settling w) (stale w)).
      destruct st as [r|d' k].
      + cbn [snd]. intros Ha Hs. destruct (agrees_back_fire c d w Ef W1 Ha) as [H _]. auto.
      + destruct (Nat.eqb_spec d d') as [->|Hne].
        * intros Ha Hs. destruct (stale_resume false d' k w1 Hs) as [Hs1 Hs2].
          destruct (resume_fc assign canc true false d' k w1) as (E1 & E2).
          assert (Ha1 : agrees w1) by (destruct Ha as (A1 & A2); rewrite E1, E2 in *; split; assumption).
          destruct (agrees_back_fire c d' w Ef W1 Ha1) as [Ha0 Hnc].
          split; [exact Ha0|]. split; [exact Hs1|].
          unfold resume, settle, sync_of_nc. cbn [fst snd consume unsettle seen].
          pose proof (drive_sync_nc (k (current assign canc w1 d')) (mark_settling false d' w1) Ha1 Hs2) as Hd.
          unfold sync_of_nc in Hd. rewrite Hd. cbn [Model.sync_nc seen mark_settling w1]. unfold current, eff. cbn [consumed cancelled w1].
          assert (Hn0 : mem d' (consumed w) = false) by (apply mem_false; intros H; apply Ef, W2, H).
          assert (Hn1 : mem d' (cancelled w) = false) by (apply mem_false; intros H; apply Ef, W1, H).
          assert (Hn2 : mem d' c = false) by (apply mem_false; exact Hnc).
          rewrite Hn0, Hn1, Hn2. reflexivity.
        * cbn [snd]. intros Ha Hs. destruct (agrees_back_fire c d w Ef W1 Ha) as [H _]. auto.
    - unfold Model.cancel. destruct st as [r|d k]; [auto|]. destruct (mem d (held w)); [auto|].
      set (w1 := mkw (d :: fired w) (d :: cancelled w) (consumed w) (Cancelled d :: seen w) (held w) (settling w) (stale w)).
      intros Ha Hs. destruct (stale_resume true d k w1 Hs) as [Hs1 Hs2].
      destruct (resume_fc assign canc true true d k w1) as (E1 & E2).
      assert (Ha1 : agrees w1) by (destruct Ha as (A1 & A2); rewrite E1, E2 in *; split; assumption).
      destruct (agrees_back_cancel c d w _ W3 Ha1) as [Ha0 Hc].
      split; [exact Ha0|]. split; [exact Hs1|].
      unfold resume, settle, sync_of_nc. cbn [fst snd consume unsettle seen].
      pose proof (drive_sync_nc (k (current assign canc w1 d)) (mark_settling true d w1) Ha1 Hs2) as Hd.
      unfold sync_of_nc in Hd. rewrite Hd. cbn [Model.sync_nc seen mark_settling w1]. rewrite own_cons. cbn [push].
      unfold current, eff. cbn [consumed cancelled w1].
      assert (Hn0 : mem d (consumed w) = false) by (apply mem_false; intros H; apply W3, W2, H).
      assert (H1 : mem d (d :: cancelled w) = true) by (apply mem_In; left; reflexivity).
      assert (H2 : mem d c = true) by (apply mem_In; exact Hc).
      rewrite Hn0, H1, H2. reflexivity.
    - unfold Model.hold. destruct (mem d (fired w)); auto.
  Qed.

  Lemma run_back_nc ops : forall p, WF p -> agrees (snd (fold_left step ops p)) ->
    stale (snd (fold_left step ops p)) = false ->
    agrees (snd p) /\ stale (snd p) = false /\ sync_of_nc (fold_left step ops p) = sync_of_nc p.
  Proof.
    induction ops as [|o r IH]; intros p HW Ha Hs; [auto|]. cbn [fold_left] in *.
    destruct (IH (step p o) (step_WF assign canc true p o HW) Ha Hs) as (Ha1 & Hs1 & He).
    destruct (step_back_nc p o HW Ha1 Hs1) as (Ha0 & Hs0 & He0). split; [exact Ha0|]. split; [exact Hs0 | congruence].
  Qed.

  Lemma run_sync_nc pre hold0 g sched : agrees (snd (run assign canc true pre hold0 g sched)) ->
    stale (snd (run assign canc true pre hold0 g sched)) = false ->
    sync_of_nc (run assign canc true pre hold0 g sched) = sync_nc out g [].
  Proof.
    intros Ha Hs. unfold run in *.
    destruct (run_back_nc sched _ (start_WF assign canc true pre hold0 g) Ha Hs) as (Ha0 & Hs0 & He). rewrite He.
    unfold start in *.
    destruct (drive_world assign canc true g (mkw pre [] [] [] hold0 None false)) as (E1 & E2 & _).
    rewrite drive_sync_nc; [reflexivity | | exact Hs0]. unfold Proofs.agrees in *. rewrite E1, E2 in Ha0. exact Ha0.
  Qed.
End Coroutine.

(** the final world agrees with its own list of cancelled Deferreds *)
Lemma agrees_self w : agrees (cancelled w) w.
Proof. split; auto. Qed.
