(** C05 property theorems (partial: the driver loop is proved against a generator semantics that is an oracle;
    cancellation of the returned Deferred is not modelled).  For every generator tree [g] (in particular
    [gen_of s] for every structured body [s]), every assignment of outcomes to the awaited Deferreds, every set
    of Deferreds fired before the call and every order in which the others fire. *)
From Coq Require Import List Arith ZArith Bool.
From C05 Require Import Model Proofs.
Import ListNotations.

(** the values / exceptions observed inside the function and the final result are those of the synchronous
    reading of the same function; in particular they do not depend on the arrival order.
    FULL STATEMENT (C05) additionally covers cancellation (cancel_cancels_exactly_awaited,
    cancel_then_outcome_fires_once): not modelled. *)
Theorem inline_matches_sync_partial : forall assign pre g sched r w,
  run assign pre g sched = (Finished r, w) ->
  sync assign g [] [] = (r, seen w).
Proof.
  intros assign pre g sched r w H. rewrite <- (run_sync assign pre g sched). rewrite H. reflexivity.
Qed.
Print Assumptions inline_matches_sync_partial.

(** while suspended, the part already executed is a prefix of the synchronous execution: continuing
    synchronously from the suspension point gives the synchronous result *)
Theorem suspended_prefix_of_sync : forall assign pre g sched d k w,
  run assign pre g sched = (Suspended d k, w) ->
  sync assign (GYieldD d k) (consumed w) (seen w) = sync assign g [] [].
Proof.
  intros assign pre g sched d k w H. rewrite <- (run_sync assign pre g sched). rewrite H. reflexivity.
Qed.
Print Assumptions suspended_prefix_of_sync.

(** progress: the driver is suspended only on a Deferred that has not fired, so once every Deferred of the
    schedule has fired the function has run to completion unless it awaits one outside the schedule *)
Theorem suspended_only_on_unfired : forall assign pre g sched d k w,
  run assign pre g sched = (Suspended d k, w) -> ~ In d pre /\ ~ In d sched.
Proof.
  intros assign pre g sched d k w H. destruct (run_fired assign pre g sched) as [Hw Hf].
  rewrite H in Hw, Hf. unfold waits_ok in Hw. cbn [fst snd] in Hw, Hf.
  assert (Hn : ~ In d (fired w)) by (intros Hin; apply (mem_In d (fired w)) in Hin; congruence).
  split; intros Hin; apply Hn, Hf; [left | right]; exact Hin.
Qed.
Print Assumptions suspended_only_on_unfired.

(** the returned Deferred fires once: after it has fired, further firings of awaited Deferreds change neither
    the result nor what the function observed *)
Theorem result_fires_once : forall assign d r w,
  fst (fire assign d (Finished r, w)) = Finished r /\ seen (snd (fire assign d (Finished r, w))) = seen w.
Proof. exact fire_finished. Qed.
Print Assumptions result_fires_once.

(** a non-trivial program: a failure caught, a finally clause that awaits, a loop, a return inside try/finally *)
Example nontrivial_program :
  let s := SSeq (STry (SAwait 0) (SMark 7))
                (SFinally (SLoop 2 (SAwait 1)) (SSeq (SAwait 2) (SReturn 5))) in
  let assign := fun d => match d with 0 => Exc (EUser 3) | _ => Val (VInt (Z.of_nat d)) end in
  fst (run assign [2] (gen_of s) [1; 0]) = Finished (Val (VInt 5))
  /\ rev (seen (snd (run assign [2] (gen_of s) [1; 0])))
     = [SawExc (EUser 3); Mark 7; SawVal (VInt 1); SawVal VNone; SawVal (VInt 2)].
Proof. vm_compute. split; reflexivity. Qed.
