(** C05 property theorems (partial: the driver loop is proved against a generator semantics that is an oracle).  For every generator tree [g] (in particular
    [gen_of s] for every structured body [s]), every assignment of outcomes to the awaited Deferreds, every
    canceller behaviour per Deferred, every set of Deferreds fired before the call and every schedule of
    firings and of cancellations of the returned Deferred. *)
From Coq Require Import List Arith ZArith Bool.
From C05 Require Import Model Proofs.
Import ListNotations.

(** GENERATORS ([coro = false]).  The values / exceptions observed inside the function and the final result are those
    of the synchronous reading of the same function (nested inlineCallbacks calls being ordinary calls), in which every
    awaited Deferred stands for its outcome: its predetermined one, or — if the function was cancelled while waiting on
    it — whatever its canceller made of it (CancelledError when the canceller does nothing); a Deferred that has been
    yielded once holds None afterwards ([sync] threads the set of consumed Deferreds).  In particular they depend
    neither on the arrival order nor on anything else the cancellation protocol does. *)
Theorem inline_matches_sync_partial : forall assign canc pre hold0 g sched r w,
  run assign canc false pre hold0 g sched = (Finished r, w) ->
  sync (eff assign canc (cancelled w)) g [] [] = (r, consumed w, own (seen w)).
Proof.
  intros assign canc pre hold0 g sched r w H.
  rewrite <- (run_sync assign canc (cancelled w) pre hold0 g sched); rewrite H; [reflexivity | apply agrees_self].
Qed.
Print Assumptions inline_matches_sync_partial.

(** COROUTINES ([coro = true]).  [await d] on a Deferred that has its outcome returns it / raises it EVERY time
    ([sync_nc] never consumes): a Deferred that had already failed raises at each await, a retry loop keeps seeing the
    failure, coroutines sharing a cached Deferred all see its outcome.  The theorem holds for every execution in which
    no await read a Deferred after the driver had taken its result ([stale w = false]); the driver takes it only from a
    Deferred a coroutine of the stack was SUSPENDED on, once the cascade started by its firing is over (during cancel():
    as soon as the coroutine that was suspended on it has finished — its callers are resumed later) — re-awaiting such a Deferred
    after suspending again yields None in the implementation (the Deferred's result is then the return value of the
    driver's callback), which is the one situation the synchronous reading does not cover. *)
Theorem coroutine_matches_sync_partial : forall assign canc pre hold0 g sched r w,
  run assign canc true pre hold0 g sched = (Finished r, w) -> stale w = false ->
  sync_nc (eff assign canc (cancelled w)) g [] = (r, own (seen w)).
Proof.
  intros assign canc pre hold0 g sched r w H Hs.
  rewrite <- (run_sync_nc assign canc (cancelled w) pre hold0 g sched); rewrite H; [reflexivity | apply agrees_self | exact Hs].
Qed.
Print Assumptions coroutine_matches_sync_partial.

(** while suspended, the part already executed is a prefix of that synchronous execution *)
Theorem suspended_prefix_of_sync : forall assign canc pre hold0 g sched d k w,
  run assign canc false pre hold0 g sched = (Suspended d k, w) ->
  sync (eff assign canc (cancelled w)) (GYieldD d k) (consumed w) (own (seen w))
  = sync (eff assign canc (cancelled w)) g [] [].
Proof.
  intros assign canc pre hold0 g sched d k w H.
  rewrite <- (run_sync assign canc (cancelled w) pre hold0 g sched); rewrite H; [reflexivity | apply agrees_self].
Qed.
Print Assumptions suspended_prefix_of_sync.

(** progress: the driver is suspended only on a Deferred that has not fired (generators and coroutines) *)
Theorem suspended_only_on_unfired : forall assign canc coro pre hold0 g sched d k w,
  run assign canc coro pre hold0 g sched = (Suspended d k, w) -> ~ In d pre /\ ~ In (SFire d) sched.
Proof.
  intros assign canc coro pre hold0 g sched d k w H. pose proof (run_WF assign canc coro pre hold0 g sched) as (_ & _ & HW & _).
  pose proof (run_fired assign canc coro pre hold0 g sched d) as Hf. rewrite H in HW, Hf. cbn [fst snd] in *.
  split; intros Hin; apply HW, Hf; [left | right]; exact Hin.
Qed.
Print Assumptions suspended_only_on_unfired.

(** cancelling the returned Deferred while the function waits on D[d] cancels exactly D[d] — its canceller is
    called, nothing else is — and the function is resumed with D[d]'s outcome (unless D[d] was fired while paused:
    then [called] is set and Deferred.cancel() does nothing; the function keeps waiting for the unpause) *)
Theorem cancel_cancels_exactly_awaited : forall assign canc coro d k w, mem d (held w) = false ->
  cancelled (snd (cancel assign canc coro (Suspended d k, w))) = d :: cancelled w /\
  cancel assign canc coro (Suspended d k, w) =
    resume assign canc coro true d k
      (mkw (d :: fired w) (d :: cancelled w) (consumed w) (Cancelled d :: seen w) (held w) (settling w) (stale w)).
Proof. exact cancel_exactly. Qed.
Print Assumptions cancel_cancels_exactly_awaited.

(** ... and cancelling while the function is RUNNING (code it calls cancels its own Deferred or that of a call further up
    its stack, [GCancelNow]) cancels nothing and delivers nothing: the running function is not waiting on anything.
    It goes on, and by [inline_matches_sync_partial] / [coroutine_matches_sync_partial] — which quantify over all
    trees, hence over cancellations at any point of the execution, while suspended ([SCancel] in the schedule) or while
    running ([GCancelNow] in the tree) — the outcome and everything observed are still those of the synchronous run. *)
Theorem cancel_while_running_cancels_nothing : forall assign canc coro lvl g w,
  drive assign canc coro (GCancelNow lvl g) w = drive assign canc coro g (say (CancelNow lvl) w) /\
  fired (snd (drive assign canc coro (GCancelNow lvl g) w)) = fired w /\
  cancelled (snd (drive assign canc coro (GCancelNow lvl g) w)) = cancelled w.
Proof.
  intros assign canc coro lvl g w. split; [reflexivity|].
  destruct (drive_world assign canc coro (GCancelNow lvl g) w) as (H1 & H2 & _). split; assumption.
Qed.
Print Assumptions cancel_while_running_cancels_nothing.

Theorem each_deferred_cancelled_at_most_once : forall assign canc coro pre hold0 g sched,
  NoDup (cancelled (snd (run assign canc coro pre hold0 g sched))).
Proof. exact run_cancel_nodup. Qed.
Print Assumptions each_deferred_cancelled_at_most_once.

(** the returned Deferred fires once: after the function has finished, neither further firings nor cancel()
    change the result, what the function observed, or the set of cancelled Deferreds
    (cancel_then_outcome_fires_once = this + inline_matches_sync_partial, whatever the cancelled Deferred's
    canceller does) *)
Theorem result_fires_once : forall assign canc coro o r w,
  fst (step assign canc coro (Finished r, w) o) = Finished r /\
  own (seen (snd (step assign canc coro (Finished r, w) o))) = own (seen w) /\
  cancelled (snd (step assign canc coro (Finished r, w) o)) = cancelled w /\
  consumed (snd (step assign canc coro (Finished r, w) o)) = consumed w.
Proof. exact step_finished. Qed.
Print Assumptions result_fires_once.

(** a non-trivial program: a failure caught, a finally clause that awaits, a loop, a return inside try/finally;
    cancelled while waiting on D[1], whose canceller does nothing *)
Example nontrivial_program :
  let s := SSeq (STry (SAwait 0) (SMark 7))
                (SFinally (STry (SCall (SSeq (SLoop 2 (SAwait 1)) (SReturnValue 9))) (SMark 8)) (SSeq (SAwait 2) (SReturn 5))) in
  let assign := fun d => match d with 0 => Exc (EUser 3) | _ => Val (VInt (Z.of_nat d)) end in
  let p := run assign (fun _ => CNothing) false [2] [0] (gen_of s) [SCancel; SFire 0; SCancel; SFire 1] in
  fst p = Finished (Val (VInt 5))
  /\ rev (seen (snd p)) = [SawExc (EUser 3); Mark 7; Cancelled 1; SawExc ECancelled; Mark 8; SawVal (VInt 2)]
  /\ cancelled (snd p) = [1].
Proof. vm_compute. repeat split; reflexivity. Qed.

(** a coroutine with a retry loop over a Deferred that had already failed: it raises at every await *)
Example coroutine_retry_sees_the_failure_every_time :
  let s := SLoop 3 (STry (SAwait 0) (SMark 1)) in
  let p := run (fun _ => Exc (EUser 4)) (fun _ => CNothing) true [0] [] (gen_of s) [] in
  fst p = Finished (Val VNone)
  /\ rev (seen (snd p)) = [SawExc (EUser 4); Mark 1; SawExc (EUser 4); Mark 1; SawExc (EUser 4); Mark 1]
  /\ stale (snd p) = false.
Proof. vm_compute. repeat split; reflexivity. Qed.
