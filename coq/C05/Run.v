(** C05: printers used by the correspondence check only. *)
From Coq Require Import List Arith ZArith Bool String.
From TwLib Require Import Show.
From C05 Require Import Model.
Import ListNotations.
Local Open Scope string_scope.

Definition show_err (e : err) : string := match e with EUser n => "E" ++ show_nat n | ECancelled => "X" | EBase n => "B" ++ show_nat n end.
Definition show_val (v : val) : string := match v with VInt z => show_Z z | VNone => "None" end.
Definition show_outcome (o : outcome) : string := match o with Val v => show_val v | Exc e => show_err e end.
Definition show_obs (t : obs) : string :=
  match t with
  | SawVal v => "v" ++ show_val v
  | SawPlain v => "p" ++ show_val v
  | SawExc e => "x" ++ show_err e
  | Mark n => "m" ++ show_nat n
  | Cancelled d => "c" ++ show_nat d
  | CancelNow lvl => "k" ++ show_nat lvl
  end.

(** input: coroutine?, body, (processed outcome, canceller) of Deferreds 0..n-1, pre-fired, fired-while-paused before the call, schedule *)
Definition run_show (c : bool * stmt * list (outcome * cbeh) * list nat * list nat * list sop) : string :=
  let '(coro, s, ds, pre, hold0, sched) := c in
  let assign := fun d => fst (nth d ds (Val (VInt (-1)), CNothing)) in
  let canc := fun d => snd (nth d ds (Val (VInt (-1)), CNothing)) in
  let '(st, w) := run assign canc coro pre hold0 (gen_of s) sched in
  String.concat " " (map show_obs (rev (seen w))) ++ " | " ++
  match st with Finished r => "R:" ++ show_outcome r | Suspended d _ => "S:" ++ show_nat d end.
