(** C05: the _inlineCallbacks driver loop (src/twisted/internet/defer.py) over a small deeply embedded
    generator language.

    - [stmt]: structured generator bodies (await a Deferred, yield a plain value, marks, raise, return,
      sequencing, try/except, try/finally, bounded loops).  The harness prints the same [stmt] as Python source
      (generator and coroutine variants) and runs it under the real driver.
    - [gen]: a suspended generator as the CPython generator protocol presents it to the driver: it has returned,
      raised, or yielded something and waits to be resumed with a value ([send]) or an exception ([throw]).
      [denote] gives the meaning of a [stmt] as such a tree; that CPython's generators implement this meaning
      (PEP 342/492) is the ORACLE of this property (checked only by the correspondence run).
    - [drive]: a transcription of the [while 1] loop of [_inlineCallbacks]: resume the generator; on
      StopIteration fire the result; on an exception errback; a yielded Deferred that has already fired is
      consumed in the loop ([waiting] cell), one that has not suspends the loop until [_gotResultInlineCallbacks]
      re-enters it; a yielded non-Deferred is sent straight back.  [addBoth(_gotResultInlineCallbacks)] returns
      None, so a Deferred that has been awaited once holds None afterwards.
    - each Deferred [d] has a predetermined eventual outcome [assign d]; a schedule is the order in which they fire. *)
From Coq Require Import List Arith ZArith Bool.
Import ListNotations.

Inductive err := EUser (n : nat) | ECancelled.
Inductive val := VInt (z : Z) | VNone.
Inductive outcome := Val (v : val) | Exc (e : err).

(** what the function observes (ghost log entries written by the body itself) *)
Inductive obs :=
| SawVal (v : val)       (* x = yield d  received a value *)
| SawPlain (v : val)     (* x = yield <plain value> received it back *)
| SawExc (e : err)       (* an except clause caught e *)
| Mark (n : nat).

Inductive gen :=
| GReturn (v : val)
| GRaise (e : err)
| GYieldD (d : nat) (k : outcome -> gen)
| GYieldV (v : val) (k : outcome -> gen)
| GLog (t : obs) (g : gen).

Inductive stmt :=
| SAwait (d : nat)                  (* x = yield D[d]; log(x) *)
| SYield (z : Z)                    (* x = yield z; log(x) *)
| SMark (n : nat)
| SRaise (n : nat)                  (* raise UserErr(n) *)
| SReturn (z : Z)
| SSeq (a b : stmt)
| STry (body handler : stmt)        (* try: body  except Exception as e: log(e); handler *)
| SFinally (body fin : stmt)        (* try: body  finally: fin *)
| SLoop (n : nat) (body : stmt).    (* for _ in range(n): body *)

(** meaning of a statement, in continuation-passing style: what to do on normal completion, on an exception,
    on return *)
Fixpoint denote (s : stmt) (kn : gen) (kr : err -> gen) (kret : val -> gen) : gen :=
  match s with
  | SAwait d => GYieldD d (fun o => match o with Val v => GLog (SawVal v) kn | Exc e => kr e end)
  | SYield z => GYieldV (VInt z) (fun o => match o with Val v => GLog (SawPlain v) kn | Exc e => kr e end)
  | SMark n => GLog (Mark n) kn
  | SRaise n => kr (EUser n)
  | SReturn z => kret (VInt z)
  | SSeq a b => denote a (denote b kn kr kret) kr kret
  | STry b h => denote b kn (fun e => GLog (SawExc e) (denote h kn kr kret)) kret
  | SFinally b f =>
      denote b (denote f kn kr kret) (fun e => denote f (kr e) kr kret) (fun v => denote f (kret v) kr kret)
  | SLoop n b =>
      (fix loop (m : nat) : gen := match m with O => kn | S m' => denote b (loop m') kr kret end) n
  end.

(** a generator function whose body is [s] (falling off the end returns None) *)
Definition gen_of (s : stmt) : gen := denote s (GReturn VNone) GRaise GReturn.

(** ---- the driver ---- *)
Record world := mkw {
  fired : list nat;        (* Deferreds that have fired *)
  consumed : list nat;     (* Deferreds whose result the driver has already taken (they now hold None) *)
  seen : list obs          (* ghost: the function's own log, newest first *)
}.

Definition mem (i : nat) (l : list nat) : bool := existsb (Nat.eqb i) l.

Inductive status :=
| Finished (r : outcome)                       (* status.deferred fired with r *)
| Suspended (d : nat) (k : outcome -> gen).    (* status.waitingOn = D[d] *)

Section Drive.
  Variable assign : nat -> outcome.

  Definition current (w : world) (d : nat) : outcome := if mem d (consumed w) then Val VNone else assign d.
  Definition consume (d : nat) (w : world) : world := mkw (fired w) (d :: consumed w) (seen w).
  Definition say (t : obs) (w : world) : world := mkw (fired w) (consumed w) (t :: seen w).

  Fixpoint drive (g : gen) (w : world) : status * world :=
    match g with
    | GReturn v => (Finished (Val v), w)
    | GRaise e => (Finished (Exc e), w)
    | GLog t g' => drive g' (say t w)
    | GYieldV v k => drive (k (Val v)) w
    | GYieldD d k =>
        if mem d (fired w)
        then drive (k (current w d)) (consume d w)     (* already fired: taken inside the loop *)
        else (Suspended d k, w)                         (* return; re-entered by _gotResultInlineCallbacks *)
    end.

  (** Deferred d fires (later firings of the same Deferred are ignored by the harness) *)
  Definition fire (d : nat) (p : status * world) : status * world :=
    let '(st, w) := p in
    if mem d (fired w) then (st, w)
    else
      let w1 := mkw (d :: fired w) (consumed w) (seen w) in
      match st with
      | Suspended d' k => if Nat.eqb d d' then drive (k (current w1 d)) (consume d w1) else (st, w1)
      | Finished _ => (st, w1)
      end.

  Definition start (pre : list nat) (g : gen) : status * world := drive g (mkw pre [] []).
  Definition run (pre : list nat) (g : gen) (sched : list nat) : status * world :=
    fold_left (fun p d => fire d p) sched (start pre g).

  (** ---- Spec: the same function called synchronously, every awaited Deferred standing for its outcome ---- *)
  Fixpoint sync (g : gen) (cons : list nat) (log : list obs) : outcome * list obs :=
    match g with
    | GReturn v => (Val v, log)
    | GRaise e => (Exc e, log)
    | GLog t g' => sync g' cons (t :: log)
    | GYieldV v k => sync (k (Val v)) cons log
    | GYieldD d k => sync (k (if mem d cons then Val VNone else assign d)) (d :: cons) log
    end.
End Drive.
