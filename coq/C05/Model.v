(** C05: the _inlineCallbacks driver loop (src/twisted/internet/defer.py) over a small deeply embedded
    generator language.

    - [stmt]: structured generator bodies (await a Deferred, yield a plain value, marks, raise, return,
      sequencing, try/except, try/finally, bounded loops).  The harness prints the same [stmt] as Python source
      (generator and coroutine variants) and runs it under the real driver.
    - [gen]: a suspended generator as the CPython generator protocol presents it to the driver: it has returned,
      raised, or yielded something and waits to be resumed with a value ([send]) or an exception ([throw]).
      [denote] gives the meaning of a [stmt] as such a tree; that CPython's generators implement this meaning
      (PEP 342/492) is the ORACLE of this property (checked only by the correspondence run).
    - [drive]: a transcription of the [while 1] loop of [_inlineCallbacks]: resume the generator; on
      StopIteration fire the result; on an exception errback; a yielded Deferred that has already fired is
      consumed in the loop ([waiting] cell), one that has not suspends the loop until [_gotResultInlineCallbacks]
      re-enters it; a yielded non-Deferred is sent straight back.  [addBoth(_gotResultInlineCallbacks)] returns
      None, so a Deferred that has been awaited once holds None afterwards.
    - each Deferred [d] has a predetermined eventual outcome [assign d]; a schedule is the order in which they fire. *)
From Coq Require Import List Arith ZArith Bool.
Import ListNotations.

(** exception classes: application errors (Exception), CancelledError, and application exceptions that derive from
    BaseException but not from Exception (not caught by [except Exception]) *)
Inductive err := EUser (n : nat) | ECancelled | EBase (n : nat).
Definition is_base (e : err) : bool := match e with EBase _ => true | _ => false end.
Inductive val := VInt (z : Z) | VNone.
Inductive outcome := Val (v : val) | Exc (e : err).

(** what the function observes (ghost log entries written by the body itself) *)
Inductive obs :=
| SawVal (v : val)       (* x = yield d  received a value *)
| SawPlain (v : val)     (* x = yield <plain value> received it back *)
| SawExc (e : err)       (* an except clause caught e *)
| Mark (n : nat)
| Cancelled (d : nat)    (* (environment) the canceller of Deferred d was called *)
| CancelNow (lvl : nat). (* the running function cancelled the Deferred of the call [lvl] levels up its call stack *)

Inductive gen :=
| GReturn (v : val)
| GRaise (e : err)
| GYieldD (d : nat) (k : outcome -> gen)
| GYieldV (v : val) (k : outcome -> gen)
| GLog (t : obs) (g : gen)
| GCall (inner : gen) (k : outcome -> gen)    (* yields the Deferred of a nested inlineCallbacks call *)
| GResume (inner : gen) (k : outcome -> gen)   (* a suspended call stack: [inner] is the rest of the callee, [k] its caller *)
| GCancelNow (lvl : nat) (g : gen).          (* while RUNNING (not suspended), code called by the function cancels the
                                                Deferred returned by the call [lvl] levels up its stack (0 = its own) *)

Inductive stmt :=
| SAwait (d : nat)                  (* x = yield D[d]; log(x) *)
| SYield (z : Z)                    (* x = yield z; log(x) *)
| SMark (n : nat)
| SRaise (n : nat)                  (* raise UserErr(n) *)
| SRaiseBase (n : nat)              (* raise BaseErr(n), BaseErr a subclass of BaseException only *)
| SReturn (z : Z)
| SSeq (a b : stmt)
| STry (body handler : stmt)        (* try: body  except Exception as e: log(e); handler *)
| SFinally (body fin : stmt)        (* try: body  finally: fin *)
| SLoop (n : nat) (body : stmt)     (* for _ in range(n): body *)
| SReturnValue (z : Z)              (* returnValue(z): raises _DefGen_Return, a BaseException no clause here catches *)
| SCall (body : stmt)
| SCancelUp (lvl : nat).             (* log(lvl); cancel the Deferred of the enclosing call lvl levels up, from inside *)              (* x = yield inner(D, log), inner an @inlineCallbacks function with this body; log(x) *)

(** meaning of a statement, in continuation-passing style: what to do on normal completion, on an exception,
    on return *)
Fixpoint denote (s : stmt) (kn : gen) (kr : err -> gen) (kret : val -> gen) : gen :=
  match s with
  | SAwait d => GYieldD d (fun o => match o with Val v => GLog (SawVal v) kn | Exc e => kr e end)
  | SYield z => GYieldV (VInt z) (fun o => match o with Val v => GLog (SawPlain v) kn | Exc e => kr e end)
  | SMark n => GLog (Mark n) kn
  | SRaise n => kr (EUser n)
  | SRaiseBase n => kr (EBase n)
  | SReturn z => kret (VInt z)
  | SSeq a b => denote a (denote b kn kr kret) kr kret
  | STry b h => denote b kn (fun e => if is_base e then kr e else GLog (SawExc e) (denote h kn kr kret)) kret
  | SFinally b f =>
      denote b (denote f kn kr kret) (fun e => denote f (kr e) kr kret) (fun v => denote f (kret v) kr kret)
  | SLoop n b =>
      (fix loop (m : nat) : gen := match m with O => kn | S m' => denote b (loop m') kr kret end) n
  | SReturnValue z => kret (VInt z)
  | SCall b =>
      GCall (denote b (GReturn VNone) GRaise GReturn)
            (fun o => match o with Val v => GLog (SawVal v) kn | Exc e => kr e end)
  | SCancelUp lvl => GCancelNow lvl kn
  end.

(** a generator function whose body is [s] (falling off the end returns None) *)
Definition gen_of (s : stmt) : gen := denote s (GReturn VNone) GRaise GReturn.

(** ---- the driver ---- *)
(** what a Deferred's canceller does when called: nothing (cancel() then fails it with CancelledError), fires it
    with a value, fires it with a failure *)
Inductive cbeh := CNothing | CSucceed (z : Z) | CFail (n : nat).
Definition cancel_outcome (c : cbeh) : outcome :=
  match c with CNothing => Exc ECancelled | CSucceed z => Val (VInt z) | CFail k => Exc (EUser k) end.

Record world := mkw {
  fired : list nat;        (* Deferreds that have fired *)
  cancelled : list nat;    (* ... of which: fired by their canceller, because the function was cancelled while
                              waiting on them (newest first) *)
  consumed : list nat;     (* Deferreds whose result the driver has already taken (they now hold None) *)
  seen : list obs;         (* ghost: the function's own log and the canceller calls, newest first *)
  held : list nat;         (* Deferreds that were fired while explicitly pause()d and have not been unpaused: they
                              have a raw result but deliver nothing yet; cancel() does not reach them *)
  settling : option nat;   (* (coroutines, during cancel()) the Deferred whose canceller has just fired it: the driver's
                              callback on it returns, and it loses its result, as soon as the call that was suspended
                              on it finishes; the callers further up are resumed only after that *)
  stale : bool             (* ghost (coroutines): some await has read a Deferred whose result the driver had already
                              taken, i.e. has seen None instead of the Deferred's outcome *)
}.

Definition mem (i : nat) (l : list nat) : bool := existsb (Nat.eqb i) l.

Inductive status :=
| Finished (r : outcome)                       (* the returned Deferred has the function's outcome r *)
| Suspended (d : nat) (k : outcome -> gen).    (* status.waitingOn = D[d] *)

(** schedule: Deferred d fires on its own / the user cancels the returned Deferred *)
(** [SFire d]: Deferred d delivers its (processed) outcome — it fires and runs its own callbacks, or, if it was fired
    while paused, it is unpaused now.  [SHold d]: d is pause()d and fired: it has a raw result but delivers nothing. *)
Inductive sop := SFire (d : nat) | SCancel | SHold (d : nat).

(** the outcome Deferred d fires with: its canceller's doing if it is one of [c], its predetermined outcome otherwise *)
Definition eff (assign : nat -> outcome) (canc : nat -> cbeh) (c : list nat) (d : nat) : outcome :=
  if mem d c then cancel_outcome (canc d) else assign d.

Section Drive.
  Variable assign : nat -> outcome.
  Variable canc : nat -> cbeh.
  (** [coro = false]: generator under inlineCallbacks ([x = yield d]); [coro = true]: coroutine under ensureDeferred
      ([x = await d], which goes through [Deferred.__await__]).  They differ in when an awaited Deferred loses its
      result.  The driver's callback [_gotResultInlineCallbacks] returns None, so a Deferred holds None once that
      callback has RETURNED.  Generator: the driver adds the callback at every [yield d]; for an already fired Deferred
      it runs and returns at once: the result is taken at that moment.  Coroutine: [await d] on a Deferred that has a
      result never reaches the driver — [__await__] returns [d.result] / raises it and leaves it in place, every time;
      only when the coroutine was SUSPENDED on d does the driver's callback run (when d fires), and it returns only after
      the whole synchronous cascade it started — the resumed coroutine running until it suspends again or finishes —
      is over: until then d still holds its result, afterwards None. *)
  Variable coro : bool.

  Definition current (w : world) (d : nat) : outcome :=
    if mem d (consumed w) then Val VNone else eff assign canc (cancelled w) d.
  Definition consume (d : nat) (w : world) : world :=
    mkw (fired w) (cancelled w) (d :: consumed w) (seen w) (held w) (settling w) (stale w).
  Definition say (t : obs) (w : world) : world :=
    mkw (fired w) (cancelled w) (consumed w) (t :: seen w) (held w) (settling w) (stale w).
  Definition note_stale (d : nat) (w : world) : world :=
    mkw (fired w) (cancelled w) (consumed w) (seen w) (held w) (settling w) (stale w || mem d (consumed w)).
  (** reading an already fired Deferred at a [yield d] / [await d] *)
  Definition after_read (d : nat) (w : world) : world := if coro then note_stale d w else consume d w.
  (** the Deferred the function was suspended on has fired and the cascade it started is over *)
  Definition unsettle (w : world) : world := mkw (fired w) (cancelled w) (consumed w) (seen w) (held w) None (stale w).
  Definition settle (d : nat) (p : status * world) : status * world := (fst p, unsettle (consume d (snd p))).
  (** the call that was suspended on the cancelled Deferred has finished: the driver's callback returns *)
  Definition boundary (w : world) : world :=
    match settling w with Some d => unsettle (consume d w) | None => w end.

  Fixpoint drive (g : gen) (w : world) : status * world :=
    match g with
    | GReturn v => (Finished (Val v), w)
    | GRaise e => (Finished (Exc e), w)
    | GLog t g' => drive g' (say t w)
    | GYieldV v k => drive (k (Val v)) w
    | GYieldD d k =>
        if mem d (fired w)
        then drive (k (current w d)) (after_read d w)  (* already fired: taken inside the loop / read by __await__ *)
        else (Suspended d k, w)                         (* return; re-entered by _gotResultInlineCallbacks *)
    | GCancelNow lvl g' =>
        (* cancel() while the function is executing.  Every call from the target down to the running one is cancelled
           in turn: each suspended one forwards the cancel to the Deferred it waits on — its child's —, gets a fresh
           [status.deferred] (its old one is chained to it) and stays suspended; the running one is not waiting:
           its [status.waitingOn] is stale, a Deferred that has already fired, whose cancel() does nothing.  No canceller
           is called, nothing is delivered; the function goes on and its eventual outcome must be delivered through
           the fresh [status.deferred] (which [_inlineCallbacks] therefore reads when it finishes, not earlier). *)
        drive g' (say (CancelNow lvl) w)
    | GCall inner k =>
        (* the nested call runs its own driver until it finishes or suspends; in the latter case this driver
           suspends on the nested call's Deferred, i.e. (transitively) on what the innermost driver waits on, and is
           resumed with the nested function's outcome when that driver finishes *)
        let '(st, w1) := drive inner w in
        match st with
        | Finished r => drive (k r) w1
        | Suspended d k' => (Suspended d (fun o => GResume (k' o) k), w1)
        end
    | GResume inner k =>
        (* resuming a suspended stack: the callee goes on; when it finishes its caller is resumed — in the same
           synchronous cascade, except during cancel(): there the callee's outcome reaches the caller only after the
           cancelled Deferred's callbacks have returned ([boundary]) *)
        let '(st, w1) := drive inner w in
        match st with
        | Finished r => drive (k r) (boundary w1)
        | Suspended d k' => (Suspended d (fun o => GResume (k' o) k), w1)
        end
    end.

  (** the function, suspended on d, is resumed with d's outcome *)
  Definition mark_settling (b : bool) (d : nat) (w : world) : world :=
    mkw (fired w) (cancelled w) (consumed w) (seen w) (held w) (if b then Some d else settling w) (stale w).
  (** [via_cancel]: d was fired by its canceller from inside cancel() of the returned Deferred *)
  Definition resume (via_cancel : bool) (d : nat) (k : outcome -> gen) (w1 : world) : status * world :=
    if coro then settle d (drive (k (current w1 d)) (mark_settling via_cancel d w1))
    else drive (k (current w1 d)) (consume d w1).

  (** Deferred d fires (later firings of the same Deferred are ignored by the harness) *)
  Definition fire (d : nat) (p : status * world) : status * world :=
    let '(st, w) := p in
    if mem d (fired w) then (st, w)
    else
      let w1 := mkw (d :: fired w) (cancelled w) (consumed w) (seen w) (held w) (settling w) (stale w) in
      match st with
      | Suspended d' k => if Nat.eqb d d' then resume false d k w1 else (st, w1)
      | Finished _ => (st, w1)
      end.

  (** the user cancels the returned Deferred.  While the function is suspended:
      [_addCancelCallbackToDeferred] errbacks it with the internal marker, [_handleCancelInlineCallbacks]
      replaces [status.deferred] by a fresh Deferred (to which the returned one is now chained) and calls
      [status.waitingOn.cancel()]: the awaited Deferred's canceller runs, the Deferred fires (with CancelledError
      unless the canceller fired it), and the generator is resumed with that outcome from inside the cancel call.
      After the function has finished: the returned Deferred has a non-Deferred result, cancel() does nothing.
      (The chain returned Deferred -> fresh status.deferred -> ... is not represented: [Finished r] stands for
      "the newest status.deferred fired with r and the returned Deferred, chained to it, has r".) *)
  Definition cancel (p : status * world) : status * world :=
    let '(st, w) := p in
    match st with
    | Finished _ => (st, w)
    | Suspended d k =>
        if mem d (held w) then (st, w)     (* fired while paused: [called] is set, Deferred.cancel() does nothing *)
        else
        let w1 := mkw (d :: fired w) (d :: cancelled w) (consumed w) (Cancelled d :: seen w) (held w) (settling w) (stale w) in
        resume true d k w1
    end.

  Definition hold (d : nat) (p : status * world) : status * world :=
    let '(st, w) := p in
    if mem d (fired w) then (st, w)
    else (st, mkw (fired w) (cancelled w) (consumed w) (seen w) (d :: held w) (settling w) (stale w)).

  Definition step (p : status * world) (o : sop) : status * world :=
    match o with SFire d => fire d p | SCancel => cancel p | SHold d => hold d p end.

  (** [pre]: fired (and delivered) before the call; [hold0]: fired while paused before the call *)
  Definition start (pre hold0 : list nat) (g : gen) : status * world := drive g (mkw pre [] [] [] hold0 None false).
  Definition run (pre hold0 : list nat) (g : gen) (sched : list sop) : status * world :=
    fold_left step sched (start pre hold0 g).
End Drive.

(** ---- Spec: the same function called synchronously, every awaited Deferred standing for the outcome [out d]
    it (eventually) has; [cons]: Deferreds already awaited once (they hold None) ---- *)
Definition push (t : obs) (log : list obs) : list obs :=
  match t with Cancelled _ => log | _ => t :: log end.

Fixpoint sync (out : nat -> outcome) (g : gen) (cons : list nat) (log : list obs) : outcome * list nat * list obs :=
  match g with
  | GReturn v => (Val v, cons, log)
  | GRaise e => (Exc e, cons, log)
  | GLog t g' => sync out g' cons (push t log)
  | GCancelNow lvl g' => sync out g' cons (push (CancelNow lvl) log)
  | GYieldV v k => sync out (k (Val v)) cons log
  | GYieldD d k => sync out (k (if mem d cons then Val VNone else out d)) (d :: cons) log
  | GCall inner k | GResume inner k => let '(r, cons1, log1) := sync out inner cons log in sync out (k r) cons1 log1
  end.

(** ... for a coroutine: an await of a Deferred that has its outcome returns / raises it every time *)
Fixpoint sync_nc (out : nat -> outcome) (g : gen) (log : list obs) : outcome * list obs :=
  match g with
  | GReturn v => (Val v, log)
  | GRaise e => (Exc e, log)
  | GLog t g' => sync_nc out g' (push t log)
  | GCancelNow lvl g' => sync_nc out g' (push (CancelNow lvl) log)
  | GYieldV v k => sync_nc out (k (Val v)) log
  | GYieldD d k => sync_nc out (k (out d)) log
  | GCall inner k | GResume inner k => let '(r, log1) := sync_nc out inner log in sync_nc out (k r) log1
  end.

(** the function's own observations (canceller calls are the environment's, not the function's) *)
Definition own (l : list obs) : list obs := fold_right push [] l.
