(** C31: invariants over all histories. *)
From Coq Require Import List Arith Bool Lia Permutation.
From C31 Require Import Model.
Import ListNotations.

(** the dispatcher fires the Deferred of call c (a cancelled Deferred swallows that result: EAbsorbed) *)
Definition fired (e : ev) : list nat := match e with EResult c _ | EAbsorbed c _ => [c] | _ => [] end.
Definition F (l : list ev) : list nat := flat_map fired l.
Definition O (s : st) : list nat := map snd (outA s) ++ map snd (outB s).

Lemma F_app : forall a b, F (a ++ b) = F a ++ F b.
Proof. intros. unfold F. apply flat_map_app. Qed.

(** [T s e s']: going from s to s' while emitting e only moves call ids from "outstanding" to
    "fired" and adds the ids of the calls made meanwhile (by callbacks) *)
Definition T (s : st) (e : list ev) (s' : st) : Prop :=
  ncalls s <= ncalls s' /\
  Permutation (F e ++ O s') (O s ++ seq (ncalls s) (ncalls s' - ncalls s)).

Lemma T_same : forall s e s', ncalls s' = ncalls s -> Permutation (F e ++ O s') (O s) -> T s e s'.
Proof. intros s e s' N P. split; [lia|]. rewrite N, Nat.sub_diag. cbn. now rewrite app_nil_r. Qed.
Lemma T_refl : forall s, T s [] s.
Proof. intros. apply T_same; auto. Qed.
Lemma T_trans : forall s e1 s1 e2 s2, T s e1 s1 -> T s1 e2 s2 -> T s (e1 ++ e2) s2.
Proof.
  intros s e1 s1 e2 s2 [N1 P1] [N2 P2]. split; [lia|].
  replace (ncalls s2 - ncalls s) with ((ncalls s1 - ncalls s) + (ncalls s2 - ncalls s1)) by lia.
  rewrite seq_app. replace (ncalls s + (ncalls s1 - ncalls s)) with (ncalls s1) by lia.
  rewrite F_app, <- app_assoc.
  eapply perm_trans; [apply Permutation_app_head; exact P2|].
  rewrite !app_assoc. apply Permutation_app_tail. exact P1.
Qed.

Lemma lookup_remove : forall tag l c, lookup tag l = Some c ->
  Permutation (c :: map snd (remove_tag tag l)) (map snd l).
Proof.
  induction l as [|[t c'] l IH]; intros c H; cbn in *; [discriminate|].
  destruct (Nat.eqb t tag).
  - injection H as ->. reflexivity.
  - cbn. eapply perm_trans; [apply perm_swap|]. constructor. now apply IH.
Qed.

Lemma O_set_outs : forall q v s,
  O (set_outs q v s) = if q then map snd (outA s) ++ map snd v else map snd v ++ map snd (outB s).
Proof. intros [|] v s; reflexivity. Qed.

Lemma T_pop : forall q tag c r s, lookup tag (outs s q) = Some c ->
  T s [EResult c r] (set_outs q (remove_tag tag (outs s q)) s).
Proof.
  intros q tag c r s H. apply T_same; [destruct q; reflexivity|]. cbn [F flat_map fired app].
  rewrite O_set_outs. unfold O. apply lookup_remove in H. destruct q; cbn [outs] in *.
  - eapply perm_trans; [apply Permutation_middle|]. apply Permutation_app_head.
    eapply perm_trans; [|exact H]. reflexivity.
  - cbn. change (c :: map snd (remove_tag tag (outA s)) ++ map snd (outB s))
      with ((c :: map snd (remove_tag tag (outA s))) ++ map snd (outB s)).
    now apply Permutation_app_tail.
Qed.

Lemma T_same_outs : forall s s' e, ncalls s' = ncalls s -> outA s' = outA s -> outB s' = outB s -> F e = [] -> T s e s'.
Proof. intros s s' e N A B E. apply T_same; auto. rewrite E. unfold O. now rewrite A, B. Qed.

Lemma place_T : forall p k s s' e, place p k s = (s', e) -> T s e s' /\ up s' = up s.
Proof.
  intros p k s s' e H. unfold place in H. destruct (up s) eqn:U; injection H as <- <-.
  - split; [|destruct p; cbn; auto]. split; [destruct p; cbn; lia|].
    replace (ncalls (emit p _ _)) with (S (ncalls s)) by (destruct p; reflexivity).
    replace (S (ncalls s) - ncalls s) with 1 by lia. cbn [seq F flat_map app].
    destruct p; unfold O; cbn; rewrite map_app; cbn.
    + now rewrite app_assoc.
    + rewrite <- !app_assoc. apply Permutation_app_head. apply Permutation_app_comm.
  - split; [|cbn; auto]. split; [cbn; lia|]. cbn [ncalls set_ncalls].
    replace (S (ncalls s) - ncalls s) with 1 by lia. cbn. 
    unfold O. exact (Permutation_app_comm [ncalls s] (map snd (outA s) ++ map snd (outB s))).
Qed.

Lemma nested_T : forall p s s' e, nested p s = (s', e) -> T s e s' /\ up s' = up s.
Proof.
  intros p s s' e H. unfold nested in H. destruct (place p Know s) as [s1 e1] eqn:E1. injection H as <- <-.
  destruct (place_T _ _ _ _ _ E1) as [[N P] U]. split; auto. split; auto.
Qed.

Lemma fire_result_T : forall q c r s s' e, fire_result q c r s = (s', e) ->
  Permutation (F e ++ O s') (c :: O s ++ seq (ncalls s) (ncalls s' - ncalls s)) /\ ncalls s <= ncalls s' /\ up s' = up s.
Proof.
  intros q c r s s' e H. unfold fire_result in H. destruct (mem c (cancelled s)).
  { injection H as <- <-. rewrite Nat.sub_diag. cbn. rewrite app_nil_r. auto. }
  destruct (mem c (follows s)).
  - destruct (nested q s) as [s1 e1] eqn:E1. injection H as <- <-.
    destruct (nested_T _ _ _ _ E1) as [[N P] U]. repeat split; auto. cbn. now constructor.
  - injection H as <- <-. rewrite Nat.sub_diag. cbn. rewrite app_nil_r. auto.
Qed.

Lemma fire_result_down : forall q c r s s' e, up s = false -> fire_result q c r s = (s', e) ->
  outA s' = outA s /\ outB s' = outB s /\ chA s' = chA s /\ chB s' = chB s.
Proof.
  intros q c r s s' e U H. unfold fire_result, nested, place in H. rewrite U in H.
  destruct (mem c (cancelled s)); [injection H as <- <-; auto|].
  destruct (mem c (follows s)); injection H as <- <-; cbn; auto.
Qed.

Lemma pop_fire_T : forall q tag c r s s' e, lookup tag (outs s q) = Some c ->
  fire_result q c r (set_outs q (remove_tag tag (outs s q)) s) = (s', e) -> T s e s' /\ up s' = up s.
Proof.
  intros q tag c r s s' e Hl H. destruct (fire_result_T _ _ _ _ _ _ H) as (P & N & U).
  destruct (T_pop q tag c r s Hl) as [N0 P0].
  assert (Hn : ncalls (set_outs q (remove_tag tag (outs s q)) s) = ncalls s) by (destruct q; reflexivity).
  rewrite Hn in *. split; [|rewrite U; destruct q; reflexivity]. split; auto.
  eapply perm_trans; [exact P|]. rewrite Nat.sub_diag in P0. cbn in P0. rewrite app_nil_r in P0.
  change (c :: O (set_outs q (remove_tag tag (outs s q)) s) ++ seq (ncalls s) (ncalls s' - ncalls s))
    with ((c :: O (set_outs q (remove_tag tag (outs s q)) s)) ++ seq (ncalls s) (ncalls s' - ncalls s)).
  apply Permutation_app_tail. exact P0.
Qed.

Lemma deliver_box_T : forall q b s s' e f, deliver_box q b s = (s', e, f) -> T s e s' /\ up s' = up s.
Proof.
  intros q b s s' e f H. destruct b as [tag call k|tag n|tag n c]; cbn in H.
  - destruct k; injection H as <- <- <-; split; try (destruct q; reflexivity);
      apply T_same_outs; destruct q; reflexivity.
  - destruct (lookup tag (outs s q)) eqn:E.
    + destruct (fire_result _ _ _ _) as [s1 e1] eqn:E1. injection H as <- <- <-. eapply pop_fire_T; eauto.
    + injection H as <- <- <-. split; [apply T_refl | reflexivity].
  - destruct (lookup tag (outs s q)) eqn:E.
    + destruct (fire_result _ _ _ _) as [s1 e1] eqn:E1. injection H as <- <- <-. eapply pop_fire_T; eauto.
    + injection H as <- <- <-. split; [apply T_refl | reflexivity].
Qed.

Lemma flush_T : forall p l s s' e, flush p l s = (s', e) -> T s e s'.
Proof.
  induction l as [|b r IH]; intros s s' e H; cbn in H.
  - injection H as <- <-. apply T_refl.
  - destruct (deliver_box (negb p) b s) as [[s1 e1] f1] eqn:E1.
    destruct (flush p r s1) as [s2 e2] eqn:E2. injection H as <- <-.
    eapply T_trans; [exact (proj1 (deliver_box_T _ _ _ _ _ _ E1)) | now apply IH].
Qed.

Definition Down (s : st) : Prop := up s = false -> outA s = [] /\ outB s = [] /\ chA s = [] /\ chB s = [].

Lemma fail_all_spec : forall l fol can n e n', fail_all l fol can n = (e, n') ->
  n <= n' /\ Permutation (F e) (map snd l ++ seq n (n' - n)).
Proof.
  induction l as [|[t c] l IH]; intros fol can n e n' H; cbn in H.
  - injection H as <- <-. rewrite Nat.sub_diag. split; auto.
  - destruct (mem c can).
    { destruct (fail_all l fol can n) as [e2 n2] eqn:E2. injection H as <- <-.
      destruct (IH _ _ _ _ _ E2) as [N P]. split; auto. cbn [F flat_map fired app map snd]. constructor. exact P. }
    destruct (mem c fol).
    + destruct (fail_all l fol can (S n)) as [e2 n2] eqn:E2. injection H as <- <-.
      destruct (IH _ _ _ _ _ E2) as [N P]. split; [lia|]. cbn [F flat_map fired app map snd].
      replace (n2 - n) with (S (n2 - S n)) by lia. cbn [seq]. constructor.
      change (flat_map fired e2) with (F e2).
      eapply perm_trans; [|apply Permutation_middle]. constructor. exact P.
    + destruct (fail_all l fol can n) as [e2 n2] eqn:E2. injection H as <- <-.
      destruct (IH _ _ _ _ _ E2) as [N P]. split; auto. cbn [F flat_map fired app map snd]. constructor. exact P.
Qed.

Lemma lose_T : forall s s' e, lose s = (s', e) -> T s e s' /\ up s' = false /\ Down s'.
Proof.
  intros s s' e H. unfold lose in H. destruct (fail_all _ _ _) as [e1 n1] eqn:E1. injection H as <- <-.
  destruct (fail_all_spec _ _ _ _ _ _ E1) as [N P]. split; [|split].
  - split; [exact N|]. cbn [ncalls]. unfold O at 1. cbn. rewrite app_nil_r. unfold O. now rewrite <- map_app.
  - reflexivity.
  - intros _. cbn. auto.
Qed.

Lemma set_chan_T : forall p v s, T s [] (set_chan p v s).
Proof. intros [|] v s; apply T_same_outs; reflexivity. Qed.

Lemma close_by_T : forall p s s' e, close_by p s = (s', e) -> T s e s' /\ up s' = false /\ Down s'.
Proof.
  intros p s s' e H. unfold close_by in H.
  destruct (flush p (chan s p) (set_chan p [] s)) as [s1 e1] eqn:E1.
  destruct (lose s1) as [s2 e2] eqn:E2. injection H as <- <-.
  destruct (lose_T _ _ _ E2) as (T2 & U2 & D2). split; [|split; auto].
  apply (T_trans s [] (set_chan p [] s) (e1 ++ EQuit :: e2) s2 (set_chan_T p [] s)).
  eapply T_trans; [exact (flush_T _ _ _ _ _ E1)|].
  destruct T2 as [N2 P2]. split; auto.
Qed.

Lemma deliver_one_T : forall d s s' e, up s = true -> deliver_one d s = (s', e) -> T s e s' /\ Down s'.
Proof.
  intros d s s' e Hup H. unfold deliver_one in H. destruct (chan s d) as [|b r] eqn:Ec.
  - injection H as <- <-. split; [apply T_refl | intros U; congruence].
  - destruct (deliver_box (negb d) b (set_chan d r s)) as [[s1 e1] f] eqn:E1.
    destruct (deliver_box_T _ _ _ _ _ _ E1) as [T1 U1].
    assert (T0 : T s e1 s1).
    { exact (T_trans s [] (set_chan d r s) e1 s1 (set_chan_T d r s) T1). }
    destruct f.
    + destruct (close_by (negb d) s1) as [s2 e2] eqn:E2. injection H as <- <-.
      destruct (close_by_T _ _ _ _ E2) as (T2 & _ & D2). split; auto. eapply T_trans; eauto.
    + injection H as <- <-. split; auto. intros U. rewrite U1 in U. destruct d; cbn in U; congruence.
Qed.

Lemma deliver_n_T : forall d n s s' e, Down s -> deliver_n d n s = (s', e) -> T s e s' /\ Down s'.
Proof.
  induction n as [|m IH]; intros s s' e HD H; cbn in H.
  - injection H as <- <-. split; [apply T_refl | auto].
  - destruct (up s) eqn:Hup.
    + destruct (chan s d) as [|b r] eqn:Ec.
      * injection H as <- <-. split; [apply T_refl | auto].
      * destruct (deliver_one d s) as [s1 e1] eqn:E1. destruct (deliver_n d m s1) as [s2 e2] eqn:E2.
        injection H as <- <-. destruct (deliver_one_T _ _ _ _ Hup E1) as [T1 D1].
        destruct (IH _ _ _ D1 E2) as [T2 D2]. split; auto. eapply T_trans; eauto.
    + injection H as <- <-. split; [apply T_refl | auto].
Qed.

(** the invariant over (state, log so far) *)
Definition Inv (s : st) (l : list ev) : Prop :=
  Permutation (F l ++ O s) (seq 0 (ncalls s)) /\ Down s.

Lemma Inv_T : forall s l e s', Inv s l -> T s e s' -> Down s' -> Inv s' (l ++ e).
Proof.
  intros s l e s' [P D] [N Pt] D'. split; auto. rewrite F_app, <- app_assoc.
  replace (ncalls s') with (ncalls s + (ncalls s' - ncalls s)) by lia. rewrite seq_app. cbn [plus].
  eapply perm_trans; [apply Permutation_app_head; exact Pt|].
  rewrite app_assoc. now apply Permutation_app_tail.
Qed.

Lemma Down_up : forall s, up s = true -> Down s.
Proof. intros s U H. congruence. Qed.

Lemma step_T : forall s o, Down s -> T s (snd (step s o)) (fst (step s o)) /\ Down (fst (step s o)).
Proof.
  intros s o HD. destruct o as [p k f|d n|i o|c|]; cbn [step].
  - (* call *)
    set (s0 := if f then set_follows (ncalls s :: follows s) s else s).
    assert (T0 : T s [] s0) by (unfold s0; destruct f; [apply T_same_outs; reflexivity | apply T_refl]).
    assert (U0 : up s0 = up s) by (unfold s0; destruct f; reflexivity).
    assert (N0 : ncalls s0 = ncalls s) by (unfold s0; destruct f; reflexivity).
    destruct (up s) eqn:Hup.
    + destruct (place p k s0) as [s1 e1] eqn:E1. cbn [fst snd]. destruct (place_T _ _ _ _ _ E1) as [T1 U1].
      split; [exact (T_trans _ _ _ _ _ T0 T1) | apply Down_up; congruence].
    + destruct (fire_result _ _ _ _) as [s1 e1] eqn:E1. cbn [fst snd].
      change (F (ECall (ncalls s) k :: e1)) with (F e1).
      destruct (fire_result_T _ _ _ _ _ _ E1) as (P & N & U). cbn [ncalls set_ncalls up] in *.
      destruct (HD Hup) as (A & B & CA & CB). split.
      * split; [lia|]. eapply perm_trans; [exact P|].
        assert (EO : O (set_ncalls (S (ncalls s)) s0) = []).
        { unfold O, s0. destruct f; cbn; rewrite A, B; reflexivity. }
        rewrite EO. unfold O. rewrite A, B. cbn [map app]. rewrite ?N0 in *.
        replace (ncalls s1 - ncalls s) with (S (ncalls s1 - S (ncalls s))) by lia. reflexivity.
      * intros _.
        assert (Ud : up (set_ncalls (S (ncalls s)) s0) = false) by (cbn; congruence).
        destruct (fire_result_down _ _ _ _ _ _ Ud E1) as (HA & HB & HCA & HCB).
        rewrite HA, HB, HCA, HCB. unfold s0. destruct f; cbn; auto.
  - (* deliver *) destruct (deliver_n d n s) as [s' e] eqn:E. cbn [fst snd]. eapply deliver_n_T; eauto.
  - (* fire *) destruct (nth_error (pending s) i) as [[[me tag] call]|] eqn:En; cbn [fst snd].
    + destruct (up s) eqn:Hup.
      * destruct (fatal_res (out_res o call)).
        -- destruct (close_by me _) as [s2 e2] eqn:E2. cbn [fst snd].
           destruct (close_by_T _ _ _ _ E2) as (T1 & _ & D1). split; [|exact D1].
           change (EFire me call o :: EProduced call (out_res o call) :: e2)
             with ([EFire me call o; EProduced call (out_res o call)] ++ e2).
           eapply T_trans; [|exact T1]. apply T_same_outs; destruct me; reflexivity.
        -- cbn [fst snd]. split; [apply T_same_outs; destruct me; reflexivity | apply Down_up; destruct me; cbn; auto].
      * split; [apply T_same_outs; reflexivity|]. intros U. destruct (HD Hup) as (A & B & CA & CB). cbn. auto.
    + split; [apply T_same_outs; reflexivity | exact HD].
  - (* cancel *)
    destruct (mem c (cancelled s)); [cbn [fst snd]; split; [apply T_refl | exact HD]|].
    destruct (up s) eqn:Hup.
    + destruct (if mem c (map snd (outA s)) then Some false else if mem c (map snd (outB s)) then Some true else None) as [p|];
        [|cbn [fst snd]; split; [apply T_refl | exact HD]].
      assert (T0 : T s [ECancelled c] (set_cancelled (c :: cancelled s) s)) by (apply T_same_outs; reflexivity).
      destruct (mem c (follows s)).
      * destruct (nested p _) as [s1 e1] eqn:E1. cbn [fst snd]. destruct (nested_T _ _ _ _ E1) as [T1 U1].
        split; [exact (T_trans _ _ _ _ _ T0 T1) | apply Down_up; rewrite U1; exact Hup].
      * cbn [fst snd]. split; [exact T0 | apply Down_up; exact Hup].
    + destruct (HD Hup) as (A & B & _). rewrite A, B. cbn. split; [apply T_refl | exact HD].
  - (* disconnect *) destruct (up s) eqn:Hup.
    + destruct (lose s) as [s1 e1] eqn:E1. cbn [fst snd]. destruct (lose_T _ _ _ E1) as (T1 & _ & D1).
      split; [|exact D1]. change (ELost :: e1) with ([ELost] ++ e1).
      eapply T_trans; [|exact T1]. apply T_same_outs; reflexivity.
    + cbn [fst snd]. split; [apply T_same_outs; reflexivity | exact HD].
Qed.

Lemma step_inv : forall s l o, Inv s l -> Inv (fst (step s o)) (l ++ snd (step s o)).
Proof. intros s l o HI. destruct (step_T s o (proj2 HI)) as [Tt D]. eapply Inv_T; eauto. Qed.

Lemma run_inv : forall ops s l, Inv s l -> Inv (fst (run s ops)) (l ++ concat (snd (run s ops))).
Proof.
  induction ops as [|o r IH]; intros s l HI; cbn [run].
  - cbn. now rewrite app_nil_r.
  - destruct (step s o) as [s1 e] eqn:E1. destruct (run s1 r) as [s2 es] eqn:E2. cbn [fst snd concat].
    rewrite app_assoc. pose proof (step_inv s l o HI) as H1. rewrite E1 in H1. cbn [fst snd] in H1.
    specialize (IH s1 (l ++ e) H1). now rewrite E2 in IH.
Qed.

Lemma reach : forall ops, Inv (fst (run init ops)) (log (run init ops)).
Proof. intros ops. apply (run_inv ops init []). split; [reflexivity | intros U; discriminate U]. Qed.

Lemma NoDup_app_l : forall (a b : list nat), NoDup (a ++ b) -> NoDup a.
Proof.
  induction a as [|x a IH]; intros b H; [constructor|]. cbn in H. inversion H; subst.
  constructor; [|eauto]. intros Hin. apply H2. apply in_or_app. now left.
Qed.

Lemma fires_once : forall ops,
  let r := run init ops in
  Permutation (F (log r) ++ map snd (outA (fst r)) ++ map snd (outB (fst r))) (seq 0 (ncalls (fst r)))
  /\ NoDup (F (log r)).
Proof.
  intros ops r. destruct (reach ops) as [P _]. fold r in P. split; [exact P|].
  eapply NoDup_app_l, Permutation_NoDup; [apply Permutation_sym, P | apply seq_NoDup].
Qed.

Lemma all_fired_after_loss : forall ops,
  let r := run init ops in up (fst r) = false -> Permutation (F (log r)) (seq 0 (ncalls (fst r))).
Proof.
  intros ops r U. destruct (reach ops) as [P D]. fold r in P, D. destruct (D U) as (A & B & _).
  unfold O in P. rewrite A, B in P. cbn in P. now rewrite app_nil_r in P.
Qed.

(** ---- tags: unique among the outstanding requests of a peer, never reused ---- *)
Definition K1 (s : st) (p : bool) : Prop :=
  NoDup (map fst (outs s p)) /\ Forall (fun tc => fst tc <= cnt s p) (outs s p).
Definition K (s : st) : Prop := K1 s false /\ K1 s true.

Lemma remove_tag_incl : forall tag l x, In x (remove_tag tag l) -> In x l.
Proof.
  induction l as [|[t c] l IH]; intros x H; cbn in *; auto. destruct (Nat.eqb t tag); [now right|].
  destruct H as [H|H]; [now left | right; auto].
Qed.
Lemma remove_tag_nodup : forall tag l, NoDup (map fst l) -> NoDup (map fst (remove_tag tag l)).
Proof.
  induction l as [|[t c] l IH]; intros H; cbn in *; auto. inversion H; subst.
  destruct (Nat.eqb t tag); auto. cbn. constructor; auto.
  intros Hin. apply H2. apply in_map_iff in Hin. destruct Hin as (x & Hx & Hi).
  apply in_map_iff. exists x. split; auto. eapply remove_tag_incl; eauto.
Qed.
Lemma K1_remove : forall s q tag p, K1 s p -> K1 (set_outs q (remove_tag tag (outs s q)) s) p.
Proof.
  intros s q tag p [N B]. destruct q, p; cbn in *; split; auto.
  - now apply remove_tag_nodup.
  - rewrite Forall_forall in *. intros x Hx. apply B. eapply remove_tag_incl; eauto.
  - now apply remove_tag_nodup.
  - rewrite Forall_forall in *. intros x Hx. apply B. eapply remove_tag_incl; eauto.
Qed.
Lemma K_same : forall s s', outA s' = outA s -> outB s' = outB s -> cntA s' = cntA s -> cntB s' = cntB s -> K s -> K s'.
Proof. intros s s' A B CA CB [[N1 F1] [N2 F2]]. unfold K, K1; cbn in *. rewrite A, B, CA, CB. auto. Qed.

Lemma nodup_snoc_fresh : forall (l : list (nat * nat)) c,
  NoDup (map fst l) -> Forall (fun tc => fst tc <= c) l -> NoDup (map fst l ++ [S c]).
Proof.
  induction l as [|a l IH]; intros c N B; cbn.
  - constructor; [intros []|constructor].
  - inversion N; subst. inversion B; subst. constructor; [|now apply IH].
    intros Hin. apply in_app_or in Hin. destruct Hin as [Hin|[Hin|[]]]; [contradiction | lia].
Qed.

Lemma place_K : forall p k s s' e, place p k s = (s', e) -> K s -> K s'.
Proof.
  intros p k s s' e H HK. unfold place in H. destruct (up s); injection H as <- <-;
    [|eapply K_same; [| | | |exact HK]; reflexivity].
  destruct HK as [[N0 F0] [N1 F1]]. destruct p; unfold K, K1; cbn in *.
  - split; [split; auto|]. split.
    + rewrite map_app. cbn. now apply nodup_snoc_fresh.
    + apply Forall_app. split; [|repeat constructor]. eapply Forall_impl; [|exact F1]. cbn. intros; lia.
  - split; [|split; auto]. split.
    + rewrite map_app. cbn. now apply nodup_snoc_fresh.
    + apply Forall_app. split; [|repeat constructor]. eapply Forall_impl; [|exact F0]. cbn. intros; lia.
Qed.
Lemma fire_result_K : forall q c r s s' e, fire_result q c r s = (s', e) -> K s -> K s'.
Proof.
  intros q c r s s' e H HK. unfold fire_result, nested in H.
  destruct (mem c (cancelled s)); [now injection H as <- <-|]. destruct (mem c (follows s)).
  - destruct (place q Know s) as [s1 e1] eqn:E1. injection H as <- <-. eapply place_K; eauto.
  - now injection H as <- <-.
Qed.

Lemma deliver_box_K : forall q b s s' e f, deliver_box q b s = (s', e, f) -> K s -> K s'.
Proof.
  intros q b s s' e f H HK. destruct b as [tag call k|tag n|tag n c]; cbn in H.
  - destruct k; injection H as <- <- <-; (eapply K_same; [| | | |exact HK]; destruct q; reflexivity).
  - destruct (lookup tag (outs s q)); [|now injection H as <- <- <-].
    destruct (fire_result _ _ _ _) as [s1 e1] eqn:E1. injection H as <- <- <-.
    eapply fire_result_K; [exact E1|]. destruct HK as [K0 K1']. split; now apply K1_remove.
  - destruct (lookup tag (outs s q)); [|now injection H as <- <- <-].
    destruct (fire_result _ _ _ _) as [s1 e1] eqn:E1. injection H as <- <- <-.
    eapply fire_result_K; [exact E1|]. destruct HK as [K0 K1']. split; now apply K1_remove.
Qed.
Lemma flush_K : forall p l s s' e, flush p l s = (s', e) -> K s -> K s'.
Proof.
  induction l as [|b r IH]; intros s s' e H HK; cbn in H; [now injection H as <- <-|].
  destruct (deliver_box (negb p) b s) as [[s1 e1] f1] eqn:E1. destruct (flush p r s1) as [s2 e2] eqn:E2.
  injection H as <- <-. eapply IH; eauto. eapply deliver_box_K; eauto.
Qed.
Lemma lose_K : forall s, K (fst (lose s)).
Proof. intros s. unfold lose. destruct (fail_all _ _ _) as [e n]. unfold K, K1; cbn. repeat split; constructor. Qed.
Lemma close_by_K : forall p s s' e, close_by p s = (s', e) -> K s'.
Proof.
  intros p s s' e H. unfold close_by in H. destruct (flush _ _ _) as [s1 e1]. 
  pose proof (lose_K s1) as HL. destruct (lose s1) as [s2 e2]. injection H as <- <-. exact HL.
Qed.
Lemma deliver_one_K : forall d s s' e, deliver_one d s = (s', e) -> K s -> K s'.
Proof.
  intros d s s' e H HK. unfold deliver_one in H. destruct (chan s d) as [|b r]; [now injection H as <- <-|].
  destruct (deliver_box (negb d) b (set_chan d r s)) as [[s1 e1] f] eqn:E1.
  assert (K1' : K s1).
  { eapply deliver_box_K; [exact E1|]. eapply K_same; [| | | |exact HK]; destruct d; reflexivity. }
  destruct f; [|now injection H as <- <-].
  destruct (close_by (negb d) s1) as [s2 e2] eqn:E2. injection H as <- <-. eapply close_by_K; eauto.
Qed.
Lemma deliver_n_K : forall d n s s' e, deliver_n d n s = (s', e) -> K s -> K s'.
Proof.
  induction n as [|m IH]; intros s s' e H HK; cbn in H; [now injection H as <- <-|].
  destruct (up s); [|now injection H as <- <-]. destruct (chan s d) eqn:Ec; [now injection H as <- <-|].
  destruct (deliver_one d s) as [s1 e1] eqn:E1. destruct (deliver_n d m s1) as [s2 e2] eqn:E2.
  injection H as <- <-. eapply IH; eauto. eapply deliver_one_K; eauto.
Qed.

Lemma step_K : forall s o, K s -> K (fst (step s o)).
Proof.
  intros s o HK. destruct o as [p k f|d n|i o|c|]; cbn [step].
  - assert (K0 : K (if f then set_follows (ncalls s :: follows s) s else s))
      by (destruct f; [eapply K_same; [| | | |exact HK]; reflexivity | exact HK]).
    destruct (up s).
    + destruct (place _ _ _) as [s1 e1] eqn:E1. cbn [fst]. eapply place_K; eauto.
    + destruct (fire_result _ _ _ _) as [s1 e1] eqn:E1. cbn [fst]. eapply fire_result_K; [exact E1|].
      eapply K_same; [| | | |exact K0]; reflexivity.
  - destruct (deliver_n d n s) as [s' e] eqn:E. cbn [fst]. eapply deliver_n_K; eauto.
  - destruct (nth_error (pending s) i) as [[[me tag] call]|]; cbn [fst]; auto.
    destruct (up s).
    + destruct (fatal_res (out_res o call)).
      * destruct (close_by me _) as [s1 e1] eqn:E1. cbn [fst]. eapply close_by_K; eauto.
      * cbn [fst]. eapply K_same; [| | | |exact HK]; destruct me; reflexivity.
    + cbn [fst]. eapply K_same; [| | | |exact HK]; reflexivity.
  - destruct (mem c (cancelled s)); [exact HK|].
    destruct (if mem c (map snd (outA s)) then Some false else if mem c (map snd (outB s)) then Some true else None) as [p|]; [|exact HK].
    assert (K0 : K (set_cancelled (c :: cancelled s) s)) by (eapply K_same; [| | | |exact HK]; reflexivity).
    destruct (mem c (follows s)); [|exact K0].
    unfold nested. destruct (place p Know _) as [s1 e1] eqn:E1. cbn [fst]. eapply place_K; eauto.
  - destruct (up s); cbn [fst]; auto. pose proof (lose_K s) as HL. destruct (lose s) as [s1 e1]. exact HL.
Qed.

Lemma run_K : forall ops s, K s -> K (fst (run s ops)).
Proof.
  induction ops as [|o r IH]; intros s HK; cbn [run]; auto.
  pose proof (step_K s o HK) as H1. destruct (step s o) as [s1 e]. cbn [fst] in H1.
  specialize (IH s1 H1). destruct (run s1 r) as [s2 es]. exact IH.
Qed.

Lemma tags_unique : forall ops p,
  let s := fst (run init ops) in
  NoDup (map fst (outs s p)) /\ Forall (fun tc => fst tc <= cnt s p) (outs s p).
Proof.
  intros ops p s. assert (HK : K s).
  { apply run_K. unfold K, K1; cbn. repeat split; constructor. }
  destruct p; [exact (proj2 HK) | exact (proj1 HK)].
Qed.

(** an answer whose tag is outstanding resolves exactly the request filed under that tag *)
Lemma answer_resolves_its_tag : forall s q tag n c,
  lookup tag (outs s q) = Some c ->
  exists s1 x rest, deliver_box q (BAns tag n) s = (s1, x :: rest, false)
                    /\ (x = EResult c (ROk n) \/ x = EAbsorbed c (ROk n)).
Proof.
  intros s q tag n c H. cbn [deliver_box]. rewrite H. unfold fire_result.
  destruct (mem c (cancelled _)); [do 3 eexists; split; [reflexivity | now right]|].
  destruct (mem c (follows _)).
  - destruct (nested q _) as [s1 e1]. exists s1, (EResult c (ROk n)), e1. split; [reflexivity | now left].
  - do 3 eexists. split; [reflexivity | now left].
Qed.

Example sample_history :
  let r := run init [OCall false Klater true; OCall false Know true; ODeliver false 2; OCall true Kundeclared false; OFire 0 Outok;
                     ODeliver true 1; ODeliver true 1; ODeliver false 1; OCall true Know true] in
  up (fst r) = false /\ F (log r) = [1; 2; 0; 4; 3; 5; 6].
Proof. vm_compute. split; reflexivity. Qed.

(** a call made after the loss fails at once, and so does the call its errback makes *)
Lemma call_after_loss : forall s p k f, up s = false -> mem (ncalls s) (cancelled s) = false ->
  let r := step s (OCall p k f) in
  up (fst r) = false /\ outA (fst r) = outA s /\ outB (fst r) = outB s /\
  (snd r = [ECall (ncalls s) k; EResult (ncalls s) RLost] \/
   snd r = [ECall (ncalls s) k; EResult (ncalls s) RLost;
            ENested (S (ncalls s)); ECall (S (ncalls s)) Know; EResult (S (ncalls s)) RLost]).
Proof.
  intros s p k f U Hc. cbn [step]. rewrite U. unfold fire_result, nested, place.
  destruct f; cbn [follows cancelled set_follows set_ncalls up ncalls]; rewrite Hc.
  - cbn [mem existsb]. rewrite Nat.eqb_refl. cbn [orb]. rewrite U. cbn. auto.
  - destruct (mem (ncalls s) (follows s)); [rewrite U|]; cbn; auto.
Qed.

(** the loss fails every outstanding call (A's, then B's) with the loss reason -- each followed at
    once by the failure of the call its errback makes -- and nothing else *)
Lemma loss_fails_all : forall s, up s = true ->
  let r := step s ODisc in
  snd r = ELost :: fst (fail_all (outA s ++ outB s) (follows s) (cancelled s) (ncalls s))
  /\ outA (fst r) = [] /\ outB (fst r) = [] /\ up (fst r) = false
  /\ Permutation (F (snd r)) (map snd (outA s ++ outB s) ++ seq (ncalls s) (ncalls (fst r) - ncalls s)).
Proof.
  intros s U. cbn [step]. rewrite U. unfold lose. destruct (fail_all _ _ _) as [e n] eqn:E. cbn.
  repeat split; auto. apply (fail_all_spec _ _ _ _ _ _ E).
Qed.

(** cancelling a call does not touch the dispatcher (its tag stays outstanding), and the result the
    dispatcher eventually has for a cancelled call -- answer, error or loss reason -- is swallowed *)
Lemma cancel_untouched : forall s c, mem c (follows s) = false ->
  let s' := fst (step s (OCancel c)) in
  outA s' = outA s /\ outB s' = outB s /\ cntA s' = cntA s /\ cntB s' = cntB s /\ chA s' = chA s /\ chB s' = chB s
  /\ pending s' = pending s /\ up s' = up s /\ ncalls s' = ncalls s.
Proof.
  intros s c Hf. cbn [step]. destruct (mem c (cancelled s)); [cbn; repeat split; reflexivity|].
  destruct (if mem c (map snd (outA s)) then Some false else if mem c (map snd (outB s)) then Some true else None);
    [rewrite Hf|]; cbn; repeat split; reflexivity.
Qed.
Lemma cancelled_absorbs : forall s q c r, mem c (cancelled s) = true -> fire_result q c r s = (s, [EAbsorbed c r]).
Proof. intros s q c r H. unfold fire_result. now rewrite H. Qed.
