(** C31: invariants over all histories. *)
From Coq Require Import List Arith Bool Lia Permutation.
From C31 Require Import Model.
Import ListNotations.

Definition fired (e : ev) : list nat := match e with EResult c _ => [c] | _ => [] end.
Definition F (l : list ev) : list nat := flat_map fired l.
Definition O (s : st) : list nat := map snd (outA s) ++ map snd (outB s).

Lemma F_app : forall a b, F (a ++ b) = F a ++ F b.
Proof. intros. unfold F. apply flat_map_app. Qed.

(** [T s e s']: going from s to s' while emitting e keeps the number of calls and moves call ids
    from "outstanding" to "fired" only *)
Definition T (s : st) (e : list ev) (s' : st) : Prop :=
  ncalls s' = ncalls s /\ Permutation (F e ++ O s') (O s).

Lemma T_refl : forall s, T s [] s.
Proof. intros. split; auto. Qed.
Lemma T_trans : forall s e1 s1 e2 s2, T s e1 s1 -> T s1 e2 s2 -> T s (e1 ++ e2) s2.
Proof.
  intros s e1 s1 e2 s2 [N1 P1] [N2 P2]. split; [congruence|].
  rewrite F_app, <- app_assoc. eapply perm_trans; [|exact P1]. now apply Permutation_app_head.
Qed.

Lemma lookup_remove : forall tag l c, lookup tag l = Some c ->
  Permutation (c :: map snd (remove_tag tag l)) (map snd l).
Proof.
  induction l as [|[t c'] l IH]; intros c H; cbn in *; [discriminate|].
  destruct (Nat.eqb t tag).
  - injection H as ->. reflexivity.
  - cbn. eapply perm_trans; [apply perm_swap|]. constructor. now apply IH.
Qed.

Lemma O_set_outs : forall q v s,
  O (set_outs q v s) = if q then map snd (outA s) ++ map snd v else map snd v ++ map snd (outB s).
Proof. intros [|] v s; reflexivity. Qed.

Lemma T_pop : forall q tag c r s, lookup tag (outs s q) = Some c ->
  T s [EResult c r] (set_outs q (remove_tag tag (outs s q)) s).
Proof.
  intros q tag c r s H. split; [destruct q; reflexivity|]. cbn [F flat_map fired app].
  rewrite O_set_outs. unfold O. apply lookup_remove in H. destruct q; cbn [outs] in *.
  - eapply perm_trans; [apply Permutation_middle|]. apply Permutation_app_head.
    eapply perm_trans; [|exact H]. reflexivity.
  - cbn. change (c :: map snd (remove_tag tag (outA s)) ++ map snd (outB s))
      with ((c :: map snd (remove_tag tag (outA s))) ++ map snd (outB s)).
    now apply Permutation_app_tail.
Qed.

Lemma T_same_outs : forall s s' e, ncalls s' = ncalls s -> outA s' = outA s -> outB s' = outB s -> F e = [] -> T s e s'.
Proof. intros s s' e N A B E. split; auto. rewrite E. unfold O. now rewrite A, B. Qed.

Lemma deliver_box_T : forall q b s s' e f, deliver_box q b s = (s', e, f) -> T s e s' /\ up s' = up s.
Proof.
  intros q b s s' e f H. destruct b as [tag call k|tag n|tag n c]; cbn in H.
  - destruct k; injection H as <- <- <-; split; try (destruct q; reflexivity);
      apply T_same_outs; destruct q; reflexivity.
  - destruct (lookup tag (outs s q)) eqn:E; injection H as <- <- <-.
    + split; [now apply T_pop | destruct q; reflexivity].
    + split; [apply T_refl | reflexivity].
  - destruct (lookup tag (outs s q)) eqn:E; injection H as <- <- <-.
    + split; [now apply T_pop | destruct q; reflexivity].
    + split; [apply T_refl | reflexivity].
Qed.

Lemma flush_T : forall p l s s' e, flush p l s = (s', e) -> T s e s'.
Proof.
  induction l as [|b r IH]; intros s s' e H; cbn in H.
  - injection H as <- <-. apply T_refl.
  - destruct (deliver_box (negb p) b s) as [[s1 e1] f1] eqn:E1.
    destruct (flush p r s1) as [s2 e2] eqn:E2. injection H as <- <-.
    eapply T_trans; [exact (proj1 (deliver_box_T _ _ _ _ _ _ E1)) | now apply IH].
Qed.

Definition Down (s : st) : Prop := up s = false -> outA s = [] /\ outB s = [] /\ chA s = [] /\ chB s = [].

Lemma F_lost : forall l, F (map (fun tc : nat * nat => EResult (snd tc) RLost) l) = map snd l.
Proof. induction l as [|[t c] l IH]; cbn; [reflexivity|]. unfold F in IH. now rewrite IH. Qed.

Lemma lose_T : forall s s' e, lose s = (s', e) -> T s e s' /\ up s' = false /\ Down s'.
Proof.
  intros s s' e H. unfold lose in H. injection H as <- <-. split; [|split].
  - split; [reflexivity|]. cbn. rewrite F_lost, app_nil_r, map_app. reflexivity.
  - reflexivity.
  - intros _. cbn. auto.
Qed.

Lemma set_chan_T : forall p v s, T s [] (set_chan p v s).
Proof. intros [|] v s; apply T_same_outs; reflexivity. Qed.

Lemma close_by_T : forall p s s' e, close_by p s = (s', e) -> T s e s' /\ up s' = false /\ Down s'.
Proof.
  intros p s s' e H. unfold close_by in H.
  destruct (flush p (chan s p) (set_chan p [] s)) as [s1 e1] eqn:E1.
  destruct (lose s1) as [s2 e2] eqn:E2. injection H as <- <-.
  destruct (lose_T _ _ _ E2) as (T2 & U2 & D2). split; [|split; auto].
  apply (T_trans s [] (set_chan p [] s) (e1 ++ e2) s2 (set_chan_T p [] s)).
  eapply T_trans; [exact (flush_T _ _ _ _ _ E1) | exact T2].
Qed.

Lemma deliver_one_T : forall d s s' e, up s = true -> deliver_one d s = (s', e) -> T s e s' /\ Down s'.
Proof.
  intros d s s' e Hup H. unfold deliver_one in H. destruct (chan s d) as [|b r] eqn:Ec.
  - injection H as <- <-. split; [apply T_refl | intros U; congruence].
  - destruct (deliver_box (negb d) b (set_chan d r s)) as [[s1 e1] f] eqn:E1.
    destruct (deliver_box_T _ _ _ _ _ _ E1) as [T1 U1].
    assert (T0 : T s e1 s1).
    { exact (T_trans s [] (set_chan d r s) e1 s1 (set_chan_T d r s) T1). }
    destruct f.
    + destruct (close_by (negb d) s1) as [s2 e2] eqn:E2. injection H as <- <-.
      destruct (close_by_T _ _ _ _ E2) as (T2 & _ & D2). split; auto. eapply T_trans; eauto.
    + injection H as <- <-. split; auto. intros U. rewrite U1 in U. destruct d; cbn in U; congruence.
Qed.

Lemma deliver_n_T : forall d n s s' e, Down s -> deliver_n d n s = (s', e) -> T s e s' /\ Down s'.
Proof.
  induction n as [|m IH]; intros s s' e HD H; cbn in H.
  - injection H as <- <-. split; [apply T_refl | auto].
  - destruct (up s) eqn:Hup.
    + destruct (chan s d) as [|b r] eqn:Ec.
      * injection H as <- <-. split; [apply T_refl | auto].
      * destruct (deliver_one d s) as [s1 e1] eqn:E1. destruct (deliver_n d m s1) as [s2 e2] eqn:E2.
        injection H as <- <-. destruct (deliver_one_T _ _ _ _ Hup E1) as [T1 D1].
        destruct (IH _ _ _ D1 E2) as [T2 D2]. split; auto. eapply T_trans; eauto.
    + injection H as <- <-. split; [apply T_refl | auto].
Qed.

(** the invariant over (state, log so far) *)
Definition Inv (s : st) (l : list ev) : Prop :=
  Permutation (F l ++ O s) (seq 0 (ncalls s)) /\ Down s.

Lemma Inv_T : forall s l e s', Inv s l -> T s e s' -> Down s' -> Inv s' (l ++ e).
Proof.
  intros s l e s' [P D] [N Pt] D'. split; auto. rewrite N, F_app, <- app_assoc.
  eapply perm_trans; [|exact P]. now apply Permutation_app_head.
Qed.

Lemma step_inv : forall s l o, Inv s l -> Inv (fst (step s o)) (l ++ snd (step s o)).
Proof.
  intros s l o HI. destruct o as [p k|d n|i o|]; cbn [step].
  - (* call *) destruct HI as [P D]. destruct (up s) eqn:Hup; cbn [fst snd].
    + split; [|intros U; destruct p; cbn in U; congruence].
      rewrite app_nil_r. 
      assert (E : O (emit p (BCmd (S (cnt s p)) (ncalls s) k)
                       (set_outs p (outs s p ++ [(S (cnt s p), ncalls s)]) (set_cnt p (S (cnt s p)) (set_ncalls (S (ncalls s)) s))))
                  = if p then map snd (outA s) ++ map snd (outB s) ++ [ncalls s]
                    else (map snd (outA s) ++ [ncalls s]) ++ map snd (outB s)).
      { destruct p; unfold O; cbn; rewrite map_app; reflexivity. }
      rewrite E. replace (ncalls (emit p _ _)) with (S (ncalls s)) by (destruct p; reflexivity).
      rewrite seq_S. cbn [plus]. unfold O in P. destruct p.
      * rewrite !app_assoc. apply Permutation_app_tail. now rewrite <- app_assoc.
      * eapply perm_trans; [|apply Permutation_app_tail; exact P].
        rewrite <- !app_assoc. apply Permutation_app_head, Permutation_app_head. apply Permutation_app_comm.
    + destruct (D Hup) as (A & B & CA & CB). split; [|intros _; cbn; auto].
      rewrite F_app. cbn [F flat_map fired app]. cbn [ncalls set_ncalls]. rewrite seq_S. cbn [plus].
      unfold O in *. cbn [outA outB set_ncalls]. rewrite A, B in *. cbn in *. rewrite app_nil_r in *.
      now apply Permutation_app_tail.
  - (* deliver *) destruct (deliver_n d n s) as [s' e] eqn:E. cbn [fst snd].
    destruct (deliver_n_T _ _ _ _ _ (proj2 HI) E) as [Tt D']. eapply Inv_T; eauto.
  - (* fire *) destruct (nth_error (pending s) i) as [[[me tag] call]|] eqn:En; cbn [fst snd].
    + destruct (up s) eqn:Hup.
      * destruct o; cbn [fst snd].
        -- eapply Inv_T; [exact HI | | intros U; destruct me; cbn in U; congruence].
           apply T_same_outs; destruct me; reflexivity.
        -- eapply Inv_T; [exact HI | | intros U; destruct me; cbn in U; congruence].
           apply T_same_outs; destruct me; reflexivity.
        -- destruct (close_by me _) as [s1 e1] eqn:E1. cbn [fst snd].
           destruct (close_by_T _ _ _ _ E1) as (T1 & _ & D1). eapply Inv_T; [exact HI | | exact D1].
           change (EFire me call :: e1) with ([EFire me call] ++ e1). eapply T_trans; [|exact T1].
           apply T_same_outs; destruct me; reflexivity.
      * eapply Inv_T; [exact HI | apply T_same_outs; reflexivity | ].
        intros U. destruct (proj2 HI Hup) as (A & B & CA & CB). cbn. auto.
    + eapply Inv_T; [exact HI | apply T_same_outs; reflexivity | exact (proj2 HI)].
  - (* disconnect *) destruct (up s) eqn:Hup.
    + destruct (lose s) as [s1 e1] eqn:E1. cbn [fst snd]. destruct (lose_T _ _ _ E1) as (T1 & _ & D1).
      eapply Inv_T; [exact HI | | exact D1]. change (ELost :: e1) with ([ELost] ++ e1).
      eapply T_trans; [|exact T1]. apply T_same_outs; reflexivity.
    + cbn [fst snd]. eapply Inv_T; [exact HI | apply T_same_outs; reflexivity | exact (proj2 HI)].
Qed.

Lemma run_inv : forall ops s l, Inv s l -> Inv (fst (run s ops)) (l ++ concat (snd (run s ops))).
Proof.
  induction ops as [|o r IH]; intros s l HI; cbn [run].
  - cbn. now rewrite app_nil_r.
  - destruct (step s o) as [s1 e] eqn:E1. destruct (run s1 r) as [s2 es] eqn:E2. cbn [fst snd concat].
    rewrite app_assoc. pose proof (step_inv s l o HI) as H1. rewrite E1 in H1. cbn [fst snd] in H1.
    specialize (IH s1 (l ++ e) H1). now rewrite E2 in IH.
Qed.

Lemma reach : forall ops, Inv (fst (run init ops)) (log (run init ops)).
Proof. intros ops. apply (run_inv ops init []). split; [reflexivity | intros U; discriminate U]. Qed.

Lemma NoDup_app_l : forall (a b : list nat), NoDup (a ++ b) -> NoDup a.
Proof.
  induction a as [|x a IH]; intros b H; [constructor|]. cbn in H. inversion H; subst.
  constructor; [|eauto]. intros Hin. apply H2. apply in_or_app. now left.
Qed.

Lemma fires_once : forall ops,
  let r := run init ops in
  Permutation (F (log r) ++ map snd (outA (fst r)) ++ map snd (outB (fst r))) (seq 0 (ncalls (fst r)))
  /\ NoDup (F (log r)).
Proof.
  intros ops r. destruct (reach ops) as [P _]. fold r in P. split; [exact P|].
  eapply NoDup_app_l, Permutation_NoDup; [apply Permutation_sym, P | apply seq_NoDup].
Qed.

Lemma all_fired_after_loss : forall ops,
  let r := run init ops in up (fst r) = false -> Permutation (F (log r)) (seq 0 (ncalls (fst r))).
Proof.
  intros ops r U. destruct (reach ops) as [P D]. fold r in P, D. destruct (D U) as (A & B & _).
  unfold O in P. rewrite A, B in P. cbn in P. now rewrite app_nil_r in P.
Qed.

Lemma call_after_loss : forall s p k, up s = false ->
  step s (OCall p k) = (set_ncalls (S (ncalls s)) s, [EResult (ncalls s) RLost]).
Proof. intros s p k U. cbn. now rewrite U. Qed.

Lemma loss_fails_all : forall s, up s = true ->
  snd (step s ODisc) = ELost :: map (fun tc => EResult (snd tc) RLost) (outA s ++ outB s)
  /\ outA (fst (step s ODisc)) = [] /\ outB (fst (step s ODisc)) = [] /\ up (fst (step s ODisc)) = false.
Proof. intros s U. cbn. rewrite U. cbn. auto. Qed.

(** ---- tags: unique among the outstanding requests of a peer, never reused ---- *)
Definition K1 (s : st) (p : bool) : Prop :=
  NoDup (map fst (outs s p)) /\ Forall (fun tc => fst tc <= cnt s p) (outs s p).
Definition K (s : st) : Prop := K1 s false /\ K1 s true.

Lemma remove_tag_incl : forall tag l x, In x (remove_tag tag l) -> In x l.
Proof.
  induction l as [|[t c] l IH]; intros x H; cbn in *; auto. destruct (Nat.eqb t tag); [now right|].
  destruct H as [H|H]; [now left | right; auto].
Qed.
Lemma remove_tag_nodup : forall tag l, NoDup (map fst l) -> NoDup (map fst (remove_tag tag l)).
Proof.
  induction l as [|[t c] l IH]; intros H; cbn in *; auto. inversion H; subst.
  destruct (Nat.eqb t tag); auto. cbn. constructor; auto.
  intros Hin. apply H2. apply in_map_iff in Hin. destruct Hin as (x & Hx & Hi).
  apply in_map_iff. exists x. split; auto. eapply remove_tag_incl; eauto.
Qed.
Lemma K1_remove : forall s q tag p, K1 s p -> K1 (set_outs q (remove_tag tag (outs s q)) s) p.
Proof.
  intros s q tag p [N B]. destruct q, p; cbn in *; split; auto.
  - now apply remove_tag_nodup.
  - rewrite Forall_forall in *. intros x Hx. apply B. eapply remove_tag_incl; eauto.
  - now apply remove_tag_nodup.
  - rewrite Forall_forall in *. intros x Hx. apply B. eapply remove_tag_incl; eauto.
Qed.
Lemma K_same : forall s s', outA s' = outA s -> outB s' = outB s -> cntA s' = cntA s -> cntB s' = cntB s -> K s -> K s'.
Proof. intros s s' A B CA CB [[N1 F1] [N2 F2]]. unfold K, K1; cbn in *. rewrite A, B, CA, CB. auto. Qed.

Lemma deliver_box_K : forall q b s s' e f, deliver_box q b s = (s', e, f) -> K s -> K s'.
Proof.
  intros q b s s' e f H HK. destruct b as [tag call k|tag n|tag n c]; cbn in H.
  - destruct k; injection H as <- <- <-; (eapply K_same; [| | | |exact HK]; destruct q; reflexivity).
  - destruct (lookup tag (outs s q)); injection H as <- <- <-; auto.
    destruct HK as [K0 K1']. split; now apply K1_remove.
  - destruct (lookup tag (outs s q)); injection H as <- <- <-; auto.
    destruct HK as [K0 K1']. split; now apply K1_remove.
Qed.
Lemma flush_K : forall p l s s' e, flush p l s = (s', e) -> K s -> K s'.
Proof.
  induction l as [|b r IH]; intros s s' e H HK; cbn in H; [now injection H as <- <-|].
  destruct (deliver_box (negb p) b s) as [[s1 e1] f1] eqn:E1. destruct (flush p r s1) as [s2 e2] eqn:E2.
  injection H as <- <-. eapply IH; eauto. eapply deliver_box_K; eauto.
Qed.
Lemma lose_K : forall s, K (fst (lose s)).
Proof. intros s. unfold K, K1; cbn. repeat split; constructor. Qed.
Lemma close_by_K : forall p s s' e, close_by p s = (s', e) -> K s'.
Proof.
  intros p s s' e H. unfold close_by in H. destruct (flush _ _ _) as [s1 e1]. 
  pose proof (lose_K s1) as HL. destruct (lose s1) as [s2 e2]. injection H as <- <-. exact HL.
Qed.
Lemma deliver_one_K : forall d s s' e, deliver_one d s = (s', e) -> K s -> K s'.
Proof.
  intros d s s' e H HK. unfold deliver_one in H. destruct (chan s d) as [|b r]; [now injection H as <- <-|].
  destruct (deliver_box (negb d) b (set_chan d r s)) as [[s1 e1] f] eqn:E1.
  assert (K1' : K s1).
  { eapply deliver_box_K; [exact E1|]. eapply K_same; [| | | |exact HK]; destruct d; reflexivity. }
  destruct f; [|now injection H as <- <-].
  destruct (close_by (negb d) s1) as [s2 e2] eqn:E2. injection H as <- <-. eapply close_by_K; eauto.
Qed.
Lemma deliver_n_K : forall d n s s' e, deliver_n d n s = (s', e) -> K s -> K s'.
Proof.
  induction n as [|m IH]; intros s s' e H HK; cbn in H; [now injection H as <- <-|].
  destruct (up s); [|now injection H as <- <-]. destruct (chan s d) eqn:Ec; [now injection H as <- <-|].
  destruct (deliver_one d s) as [s1 e1] eqn:E1. destruct (deliver_n d m s1) as [s2 e2] eqn:E2.
  injection H as <- <-. eapply IH; eauto. eapply deliver_one_K; eauto.
Qed.

Lemma nodup_snoc_fresh : forall (l : list (nat * nat)) c,
  NoDup (map fst l) -> Forall (fun tc => fst tc <= c) l -> NoDup (map fst l ++ [S c]).
Proof.
  induction l as [|a l IH]; intros c N B; cbn.
  - constructor; [intros []|constructor].
  - inversion N; subst. inversion B; subst. constructor; [|now apply IH].
    intros Hin. apply in_app_or in Hin. destruct Hin as [Hin|[Hin|[]]]; [contradiction | lia].
Qed.

Lemma step_K : forall s o, K s -> K (fst (step s o)).
Proof.
  intros s o HK. destruct o as [p k|d n|i o|]; cbn [step].
  - destruct (up s); cbn [fst]; [|eapply K_same; [| | | |exact HK]; reflexivity].
    destruct HK as [[N0 F0] [N1 F1]]. destruct p; unfold K, K1; cbn in *.
    + split; [split; auto|]. split.
      * rewrite map_app. cbn. now apply nodup_snoc_fresh.
      * apply Forall_app. split; [|repeat constructor].
        eapply Forall_impl; [|exact F1]. cbn. intros; lia.
    + split; [|split; auto]. split.
      * rewrite map_app. cbn. now apply nodup_snoc_fresh.
      * apply Forall_app. split; [|repeat constructor].
        eapply Forall_impl; [|exact F0]. cbn. intros; lia.
  - destruct (deliver_n d n s) as [s' e] eqn:E. cbn [fst]. eapply deliver_n_K; eauto.
  - destruct (nth_error (pending s) i) as [[[me tag] call]|]; cbn [fst]; auto.
    destruct (up s).
    + destruct o; cbn [fst]; try (eapply K_same; [| | | |exact HK]; destruct me; reflexivity).
      destruct (close_by me _) as [s1 e1] eqn:E1. cbn [fst]. eapply close_by_K; eauto.
    + cbn [fst]. eapply K_same; [| | | |exact HK]; reflexivity.
  - destruct (up s); cbn [fst]; auto. apply lose_K.
Qed.

Lemma run_K : forall ops s, K s -> K (fst (run s ops)).
Proof.
  induction ops as [|o r IH]; intros s HK; cbn [run]; auto.
  pose proof (step_K s o HK) as H1. destruct (step s o) as [s1 e]. cbn [fst] in H1.
  specialize (IH s1 H1). destruct (run s1 r) as [s2 es]. exact IH.
Qed.

Lemma tags_unique : forall ops p,
  let s := fst (run init ops) in
  NoDup (map fst (outs s p)) /\ Forall (fun tc => fst tc <= cnt s p) (outs s p).
Proof.
  intros ops p s. assert (HK : K s).
  { apply run_K. unfold K, K1; cbn. repeat split; constructor. }
  destruct p; [exact (proj2 HK) | exact (proj1 HK)].
Qed.

(** an answer whose tag is outstanding resolves exactly the request filed under that tag *)
Lemma answer_resolves_its_tag : forall s q tag n c,
  lookup tag (outs s q) = Some c ->
  deliver_box q (BAns tag n) s = (set_outs q (remove_tag tag (outs s q)) s, [EResult c (ROk n)], false).
Proof. intros s q tag n c H. cbn. now rewrite H. Qed.

Example sample_history :
  let r := run init [OCall false Klater; OCall false Know; ODeliver false 2; OCall true Kundeclared; OFire 0 Outok;
                     ODeliver true 1; ODeliver true 1; ODeliver false 1; OCall true Know] in
  up (fst r) = false /\ F (log r) = [1; 2; 0; 3].
Proof. vm_compute. split; reflexivity. Qed.
