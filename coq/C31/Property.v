(** C31 property theorems: for every history of calls (responders answering at once, later, with a
    declared error or a subclass of it, a declared fatal error, an undeclared error, or missing; callbacks and
    errbacks that synchronously make a further call at answer, error or connection-loss time), box deliveries in either direction, pending
    responders answering in any order, and connection loss at any point. *)
From Coq Require Import List Arith Bool Permutation.
From C31 Require Import Model Proofs Proofs2.
Import ListNotations.

(** ids of calls whose Deferred fired, followed by the ids still outstanding at A and at B, are a
    permutation of all ids issued: every call fires at most once, none is lost, none is invented *)
Theorem each_call_fires_at_most_once_none_lost : forall ops,
  let r := run init ops in
  Permutation (F (log r) ++ map snd (outA (fst r)) ++ map snd (outB (fst r))) (seq 0 (ncalls (fst r)))
  /\ NoDup (F (log r)).
Proof. exact fires_once. Qed.
Print Assumptions each_call_fires_at_most_once_none_lost.

(** once the connection is lost every call ever made has fired exactly once *)
Theorem each_call_fires_exactly_once_after_loss : forall ops,
  let r := run init ops in up (fst r) = false -> Permutation (F (log r)) (seq 0 (ncalls (fst r))).
Proof. exact all_fired_after_loss. Qed.
Print Assumptions each_call_fires_exactly_once_after_loss.

(** the loss fails every outstanding call (A's, then B's) with the loss reason, each followed at once
    by the failure of the call its errback makes; [fail_all] is that list, and its fired ids are the
    outstanding ids plus the new ones *)
Theorem unanswered_fail_with_loss_reason : forall s, up s = true ->
  let r := step s ODisc in
  snd r = ELost :: fst (fail_all (outA s ++ outB s) (follows s) (cancelled s) (ncalls s))
  /\ outA (fst r) = [] /\ outB (fst r) = [] /\ up (fst r) = false
  /\ Permutation (F (snd r)) (map snd (outA s ++ outB s) ++ seq (ncalls s) (ncalls (fst r) - ncalls s)).
Proof. exact loss_fails_all. Qed.
Print Assumptions unanswered_fail_with_loss_reason.

(** a call made after the loss fails at once, and so does the call its errback makes *)
Theorem calls_after_loss_fail_immediately : forall s p k f, up s = false -> mem (ncalls s) (cancelled s) = false ->
  let r := step s (OCall p k f) in
  up (fst r) = false /\ outA (fst r) = outA s /\ outB (fst r) = outB s /\
  (snd r = [ECall (ncalls s) k; EResult (ncalls s) RLost] \/
   snd r = [ECall (ncalls s) k; EResult (ncalls s) RLost;
            ENested (S (ncalls s)); ECall (S (ncalls s)) Know; EResult (S (ncalls s)) RLost]).
Proof. exact call_after_loss. Qed.
Print Assumptions calls_after_loss_fail_immediately.

(** answer_matches_own_question.  [ECall c k] (ghost) records that call c was made for a command whose
    responder behaves as k; [EFire q c o] that the pending responder for c completed with outcome o;
    [EProduced c r] (ghost) that the answering side produced r as the reply to c.
    Every result a callRemote Deferred ever fires with is either the connection-loss reason or exactly
    what the answering side produced for THAT call, and that in turn is what its own command's responder
    yields: [kind_res k c] for a responder of kind k (the value c it was called with, DeclaredError for a
    declared error or a subclass, FatalError, UnknownRemoteError for an undeclared error,
    UnhandledCommand when there is no responder), or [out_res o c] for a responder that answered later
    with outcome o.  For every history: nested calls from callbacks, both peers, every responder kind,
    out-of-order completion, loss at any point. *)
Theorem answer_matches_own_question : forall ops c r,
  In (EResult c r) (log (run init ops)) ->
  r = RLost \/
  (In (EProduced c r) (log (run init ops)) /\
   ((exists k, In (ECall c k) (log (run init ops)) /\ k <> Klater /\ r = kind_res k c)
    \/ (In (ECall c Klater) (log (run init ops)) /\
        exists q o, In (EFire q c o) (log (run init ops)) /\ r = out_res o c))).
Proof. exact answer_matches. Qed.
Print Assumptions answer_matches_own_question.

(** in particular a successful result always carries the caller's own argument back *)
Theorem successful_result_is_own_answer : forall ops c n,
  In (EResult c (ROk n)) (log (run init ops)) -> n = c.
Proof. exact ok_result_is_own_id. Qed.
Print Assumptions successful_result_is_own_answer.

(** tags of a peer's outstanding requests are pairwise distinct and never exceed its counter *)
Theorem outstanding_tags_unique : forall ops p,
  let s := fst (run init ops) in
  NoDup (map fst (outs s p)) /\ Forall (fun tc => fst tc <= cnt s p) (outs s p).
Proof. exact tags_unique. Qed.
Print Assumptions outstanding_tags_unique.

(** ... and an answer whose tag is outstanding resolves exactly the request filed under it *)
Theorem answer_resolves_the_request_with_its_tag : forall s q tag n c,
  lookup tag (outs s q) = Some c ->
  exists s1 x rest, deliver_box q (BAns tag n) s = (s1, x :: rest, false)
                    /\ (x = EResult c (ROk n) \/ x = EAbsorbed c (ROk n)).
Proof. exact answer_resolves_its_tag. Qed.
Print Assumptions answer_resolves_the_request_with_its_tag.

(** cancellation (Deferred.cancel on a call's Deferred, which has no canceller): the dispatcher is not
    touched -- the tag stays outstanding, nothing is sent -- and whatever the dispatcher later has for
    that call (the peer's late answer or error, or the loss reason) is swallowed by the Deferred; the
    theorems above count that swallowed firing ([EAbsorbed]) as the dispatcher's one firing of the call *)
Theorem cancel_leaves_the_dispatcher_untouched : forall s c, mem c (follows s) = false ->
  let s' := fst (step s (OCancel c)) in
  outA s' = outA s /\ outB s' = outB s /\ cntA s' = cntA s /\ cntB s' = cntB s /\ chA s' = chA s /\ chB s' = chB s
  /\ pending s' = pending s /\ up s' = up s /\ ncalls s' = ncalls s.
Proof. exact cancel_untouched. Qed.
Print Assumptions cancel_leaves_the_dispatcher_untouched.

Theorem late_result_of_a_cancelled_call_is_absorbed : forall s q c r,
  mem c (cancelled s) = true -> fire_result q c r s = (s, [EAbsorbed c r]).
Proof. exact cancelled_absorbs. Qed.
Print Assumptions late_result_of_a_cancelled_call_is_absorbed.
