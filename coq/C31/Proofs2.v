(** C31, part 2: the invariant over in-flight obligations and answer_matches_own_question. *)
From Coq Require Import List Arith Bool Lia Permutation.
From C31 Require Import Model Proofs.
Import ListNotations.

Definition item := (nat * nat)%type.     (* (tag, call id) *)
Definition cmd_of (b : box) : list item := match b with BCmd t n _ => [(t, n)] | _ => [] end.
Definition rep_of (b : box) : list item := match b with BAns t n | BErr t n _ => [(t, n)] | _ => [] end.
Definition pnd_of (q : bool) (x : bool * nat * nat) : list item :=
  let '(q', t, n) := x in if Bool.eqb q' q then [(t, n)] else [].
Definition cmds (l : list box) := flat_map cmd_of l.
Definition reps (l : list box) := flat_map rep_of l.
Definition pnd (q : bool) (l : list (bool * nat * nat)) := flat_map (pnd_of q) l.

(** what is owed to asker p: p's commands still travelling, replies on their way back to p,
    responders at the other side that have yet to answer *)
Definition oblx (own other : list box) (q : bool) (pd : list (bool * nat * nat)) : list item :=
  cmds own ++ reps other ++ pnd q pd.
Definition obl (p : bool) (cA cB : list box) (pd : list (bool * nat * nat)) : list item :=
  if p then oblx cB cA false pd else oblx cA cB true pd.

(** ... each under a distinct tag that is outstanding at p for the same call *)
Definition OK (o L : list item) : Prop := NoDup (map fst L) /\ incl L o.

Lemma OK_perm : forall o L L', Permutation L L' -> OK o L -> OK o L'.
Proof.
  intros o L L' HP [N I]. split.
  - eapply Permutation_NoDup; [apply Permutation_map; exact HP | exact N].
  - intros x Hx. apply I. eapply Permutation_in; [apply Permutation_sym; exact HP | exact Hx].
Qed.
Lemma OK_tail : forall o x L, OK o (x :: L) -> OK o L.
Proof. intros o x L [N I]. split; [now inversion N | intros y Hy; apply I; now right]. Qed.
Lemma OK_grow : forall o x L, OK o L -> OK (o ++ x) L.
Proof. intros o x L [N I]. split; auto. intros y Hy. apply in_or_app. left. now apply I. Qed.

Lemma lookup_in : forall (o : list item) t n, NoDup (map fst o) -> In (t, n) o -> lookup t o = Some n.
Proof.
  induction o as [|[t' n'] o IH]; intros t n N H; [destruct H|]. cbn in *. inversion N; subst.
  destruct H as [H|H].
  - injection H as -> ->. now rewrite Nat.eqb_refl.
  - destruct (Nat.eqb_spec t' t) as [->|Hne]; [|now apply IH].
    exfalso. apply H2. apply in_map_iff. exists (t, n). auto.
Qed.
Lemma OK_lookup : forall o t n L, NoDup (map fst o) -> OK o ((t, n) :: L) -> lookup t o = Some n.
Proof. intros o t n L N [_ I]. apply lookup_in; auto. apply I. now left. Qed.

Lemma remove_tag_keeps : forall (o : list item) t t' n', In (t', n') o -> t' <> t -> In (t', n') (remove_tag t o).
Proof.
  induction o as [|[a b] o IH]; intros t t' n' H Hne; [destruct H|]. cbn in *.
  destruct (Nat.eqb_spec a t) as [->|Ha].
  - destruct H as [H|H]; [injection H as -> ->; congruence | exact H].
  - destruct H as [H|H]; [now left | right; now apply IH].
Qed.
Lemma OK_remove : forall o t n L, OK o ((t, n) :: L) -> OK (remove_tag t o) L.
Proof.
  intros o t n L [N I]. cbn in N. inversion N; subst. split; auto.
  intros [t' n'] Hx. apply remove_tag_keeps; [apply I; now right|].
  intros ->. apply H1. apply in_map_iff. exists (t, n'). auto.
Qed.
Lemma OK_fresh : forall o L c id, OK o L -> Forall (fun tc => fst tc <= c) o ->
  OK (o ++ [(S c, id)]) ((S c, id) :: L).
Proof.
  intros o L c id [N I] B. split.
  - cbn. constructor; auto. intros Hin. apply in_map_iff in Hin. destruct Hin as ([t n] & Ht & Hx). cbn in Ht. subst t.
    apply I in Hx. rewrite Forall_forall in B. specialize (B _ Hx). cbn in B. lia.
  - intros x [<-|Hx]; apply in_or_app; [right; now left | left; now apply I].
Qed.

(** ---- content of what is in flight, relative to the log so far ---- *)
Definition good_box (l : list ev) (b : box) : Prop :=
  match b with
  | BCmd _ n k => In (ECall n k) l
  | BAns _ n => In (EProduced n (ROk n)) l
  | BErr _ n c => In (EProduced n (res_of c)) l
  end.
Definition good_pnd (l : list ev) (x : bool * nat * nat) : Prop := let '(_, _, n) := x in In (ECall n Klater) l.

Lemma good_box_mono : forall l e b, good_box l b -> good_box (l ++ e) b.
Proof. intros l e [t n k|t n|t n c] H; cbn in *; apply in_or_app; now left. Qed.
Lemma good_pnd_mono : forall l e x, good_pnd l x -> good_pnd (l ++ e) x.
Proof. intros l e [[q t] n] H; cbn in *; apply in_or_app; now left. Qed.

Definition res_for (n : nat) (r : res) : Prop := match r with ROk m => m = n | RLost => False | _ => True end.
Lemma kind_res_for : forall k n, res_for n (kind_res k n).
Proof. intros [] n; cbn; auto. Qed.
Lemma out_res_for : forall o n, res_for n (out_res o n).
Proof. intros [] n; cbn; auto. Qed.
Lemma good_box_of_res : forall l t n r, res_for n r -> In (EProduced n r) l -> good_box l (box_of_res t n r).
Proof. intros l t n [m| | | | |] Hf H; cbn in *; subst; auto. destruct Hf. Qed.
Lemma cmd_of_res : forall t n r, cmd_of (box_of_res t n r) = [].
Proof. intros t n []; reflexivity. Qed.
Lemma rep_of_res : forall t n r, rep_of (box_of_res t n r) = [(t, n)].
Proof. intros t n []; reflexivity. Qed.

(** every result delivered is the loss reason or what the responder side produced for that call *)
Definition R (l : list ev) : Prop := forall c r, In (EResult c r) l -> r = RLost \/ In (EProduced c r) l.
(** ... and what was produced for a call is what its own command's responder yields: by its kind,
    or, for a responder answering later, by the outcome it completed with *)
Definition Pc (l : list ev) (c : nat) (r : res) : Prop :=
  (exists k, In (ECall c k) l /\ k <> Klater /\ r = kind_res k c)
  \/ (In (ECall c Klater) l /\ exists q o, In (EFire q c o) l /\ r = out_res o c).
Definition P (l : list ev) : Prop := forall c r, In (EProduced c r) l -> Pc l c r.

Lemma Pc_mono : forall l e c r, Pc l c r -> Pc (l ++ e) c r.
Proof.
  intros l e c r [(k & H1 & H2 & H3)|(H1 & q & o & H2 & H3)].
  - left. exists k. repeat split; auto. apply in_or_app. now left.
  - right. split; [apply in_or_app; now left|]. exists q, o. split; auto. apply in_or_app. now left.
Qed.

(** extending the log by events [e] none of which is a result or a production *)
Definition quiet (e : list ev) : Prop :=
  forall x, In x e -> match x with EResult _ r => r = RLost | EProduced _ _ => False | _ => True end.
Lemma R_ext : forall l e, R l -> (forall c r, In (EResult c r) e -> r = RLost \/ In (EProduced c r) (l ++ e)) -> R (l ++ e).
Proof.
  intros l e HR He c r H. apply in_app_or in H. destruct H as [H|H]; [|now apply He].
  destruct (HR c r H) as [->|Hp]; auto. right. apply in_or_app. now left.
Qed.
Lemma P_ext : forall l e, P l -> (forall c r, In (EProduced c r) e -> Pc (l ++ e) c r) -> P (l ++ e).
Proof.
  intros l e HP He c r H. apply in_app_or in H. destruct H as [H|H]; [|now apply He].
  apply Pc_mono. now apply HP.
Qed.
Lemma RP_quiet : forall l e, R l -> P l -> quiet e -> R (l ++ e) /\ P (l ++ e).
Proof.
  intros l e HR HP Hq. split.
  - apply R_ext; auto. intros c r H. left. exact (Hq _ H).
  - apply P_ext; auto. intros c r H. destruct (Hq _ H).
Qed.

(** ---- the bundle ---- *)
Definition J1c (oA oB : list item) (cA cB : list box) (pd : list (bool * nat * nat)) : Prop :=
  OK oA (obl false cA cB pd) /\ OK oB (obl true cA cB pd).
Definition J2c (l : list ev) (cA cB : list box) (pd : list (bool * nat * nat)) : Prop :=
  Forall (good_box l) cA /\ Forall (good_box l) cB /\ Forall (good_pnd l) pd.
Definition G (u : bool) oA oB cA cB pd (l : list ev) : Prop :=
  (u = true -> J1c oA oB cA cB pd) /\ J2c l cA cB pd /\ R l /\ P l.

(** [h] are boxes written by peer d that are logically still at the head of d's channel (taken
    off it, being delivered) *)
Definition chanH (d : bool) (h : list box) (s : st) (x : bool) : list box :=
  (if Bool.eqb x d then h else []) ++ chan s x.
Definition GH (d : bool) (h : list box) (s : st) (l : list ev) : Prop :=
  G (up s) (outA s) (outB s) (chanH d h s false) (chanH d h s true) (pending s) l.
Definition GS (s : st) (l : list ev) : Prop := GH false [] s l.

Lemma J2c_mono : forall l e cA cB pd, J2c l cA cB pd -> J2c (l ++ e) cA cB pd.
Proof.
  intros l e cA cB pd (A & B & C). repeat split;
    (eapply Forall_impl; [|eassumption]); intros; [apply good_box_mono | apply good_box_mono | apply good_pnd_mono]; auto.
Qed.

(** ---- how the obligations move ---- *)
Lemma cmds_app : forall a b, cmds (a ++ b) = cmds a ++ cmds b.
Proof. intros. apply flat_map_app. Qed.
Lemma reps_app : forall a b, reps (a ++ b) = reps a ++ reps b.
Proof. intros. apply flat_map_app. Qed.
Lemma pnd_app : forall q a b, pnd q (a ++ b) = pnd q a ++ pnd q b.
Proof. intros. apply flat_map_app. Qed.

Lemma perm_mid : forall (x : item) a b, Permutation (a ++ x :: b) (x :: a ++ b).
Proof. intros. apply Permutation_sym, Permutation_middle. Qed.

Lemma oblx_own_cmd : forall own other q pd t n k,
  Permutation (oblx (own ++ [BCmd t n k]) other q pd) ((t, n) :: oblx own other q pd).
Proof.
  intros. unfold oblx. rewrite cmds_app. cbn. rewrite <- app_assoc. cbn. apply perm_mid.
Qed.
Lemma oblx_other_cmd : forall own other q pd t n k,
  oblx own (other ++ [BCmd t n k]) q pd = oblx own other q pd.
Proof. intros. unfold oblx. rewrite reps_app. cbn. now rewrite app_nil_r. Qed.
Lemma oblx_own_rep : forall own other q pd t n r,
  oblx (own ++ [box_of_res t n r]) other q pd = oblx own other q pd.
Proof. intros. unfold oblx. rewrite cmds_app. cbn. rewrite cmd_of_res. cbn. now rewrite ?app_nil_r. Qed.
Lemma oblx_other_rep : forall own other q pd t n r,
  Permutation (oblx own (other ++ [box_of_res t n r]) q pd) ((t, n) :: oblx own other q pd).
Proof.
  intros. unfold oblx. rewrite reps_app. cbn. rewrite rep_of_res. cbn. rewrite ?app_nil_r.
  rewrite <- app_assoc. cbn. eapply perm_trans; [apply Permutation_app_head, perm_mid|]. apply perm_mid.
Qed.
Lemma oblx_pnd_yes : forall own other q pd t n,
  Permutation (oblx own other q (pd ++ [(q, t, n)])) ((t, n) :: oblx own other q pd).
Proof.
  intros. unfold oblx. rewrite pnd_app. cbn. rewrite Bool.eqb_reflx. cbn.
  rewrite !app_assoc. eapply perm_trans; [apply Permutation_app_comm|]. cbn. now rewrite <- !app_assoc.
Qed.
Lemma oblx_pnd_no : forall own other q pd t n,
  oblx own other q (pd ++ [(negb q, t, n)]) = oblx own other q pd.
Proof.
  intros. unfold oblx. rewrite pnd_app. cbn. replace (Bool.eqb (negb q) q) with false by (destruct q; reflexivity).
  cbn. now rewrite app_nil_r.
Qed.
Lemma oblx_head_rep : forall own other q pd t n,
  (forall b, (b = BAns t n \/ exists c, b = BErr t n c) ->
   Permutation (oblx own (b :: other) q pd) ((t, n) :: oblx own other q pd)).
Proof.
  intros own other q pd t n b Hb. unfold oblx.
  assert (E : reps (b :: other) = (t, n) :: reps other) by (destruct Hb as [->|[c ->]]; reflexivity).
  rewrite E. apply perm_mid.
Qed.
Lemma oblx_head_rep_own : forall own other q pd b, cmd_of b = [] -> oblx (b :: own) other q pd = oblx own other q pd.
Proof. intros. unfold oblx, cmds. cbn. now rewrite H. Qed.
Lemma oblx_head_cmd_other : forall own other q pd t n k, oblx own (BCmd t n k :: other) q pd = oblx own other q pd.
Proof. reflexivity. Qed.

Lemma pnd_remove_yes : forall q pd i t n, nth_error pd i = Some (q, t, n) ->
  Permutation (pnd q pd) ((t, n) :: pnd q (remove_nth i pd)).
Proof.
  induction pd as [|x pd IH]; intros i t n H; destruct i; cbn in H; try discriminate.
  - injection H as ->. cbn. now rewrite Bool.eqb_reflx.
  - cbn [remove_nth pnd flat_map]. fold (pnd q pd). fold (pnd q (remove_nth i pd)).
    eapply perm_trans; [apply Permutation_app_head, (IH _ _ _ H)|]. apply perm_mid.
Qed.
Lemma pnd_remove_no : forall q pd i t n, nth_error pd i = Some (negb q, t, n) -> pnd q (remove_nth i pd) = pnd q pd.
Proof.
  induction pd as [|x pd IH]; intros i t n H; destruct i; cbn in H; try discriminate.
  - injection H as ->. cbn. now replace (Bool.eqb (negb q) q) with false by (destruct q; reflexivity).
  - cbn [remove_nth pnd flat_map]. fold (pnd q pd). fold (pnd q (remove_nth i pd)). f_equal. eapply IH; eauto.
Qed.
Lemma Forall_remove_nth : forall {A} (Pp : A -> Prop) (l : list A) i, Forall Pp l -> Forall Pp (remove_nth i l).
Proof.
  induction l as [|x l IH]; intros i H; destruct i; cbn; auto; inversion H; subst; auto.
Qed.

(** ---- the primitives keep the bundle ---- *)
Lemma quiet_RP : forall d h s s' l e,
  up s' = up s -> outA s' = outA s -> outB s' = outB s -> chA s' = chA s -> chB s' = chB s -> pending s' = pending s ->
  quiet e -> GH d h s l -> GH d h s' (l ++ e).
Proof.
  intros d h s s' l e U A B CA CB PD Hq (J1 & J2 & HR & HP). unfold GH, G, chanH, chan in *.
  rewrite U, A, B, CA, CB, PD. destruct (RP_quiet l e HR HP Hq) as [HR' HP'].
  split; [exact J1 | split; [now apply J2c_mono | split; auto]].
Qed.

Ltac own_cmd J Kb := rewrite ?app_assoc; eapply OK_perm; [apply Permutation_sym, oblx_own_cmd|]; apply OK_fresh; [exact J | exact Kb].
Ltac other_cmd J := rewrite ?app_assoc; rewrite oblx_other_cmd; exact J.

Lemma place_G : forall d h p k s s' e l, K s -> GH d h s l -> place p k s = (s', e) -> GH d h s' (l ++ e).
Proof.
  intros d h p k s s' e l HK HG H. unfold place in H. destruct (up s) eqn:U; injection H as <- <-.
  - destruct HG as (J1 & J2 & HR & HP). specialize (J1 U). destruct J1 as [JA JB].
    destruct HK as [[NA BA] [NB BB]]. cbn [outs cnt] in *.
    assert (Hq : quiet [ECall (ncalls s) k]) by (intros x [<-|[]]; exact I).
    destruct (RP_quiet l _ HR HP Hq) as [HR' HP'].
    destruct J2 as (GA & GB & GP).
    assert (Hb : forall t, good_box (l ++ [ECall (ncalls s) k]) (BCmd t (ncalls s) k))
      by (intros t; cbn; apply in_or_app; right; now left).
    unfold GH, G, J1c, J2c, obl, chanH in *. destruct p, d; cbn [Bool.eqb app chan chA chB outA outB up pending emit set_chan set_outs set_cnt set_ncalls] in *;
      (split; [intros _; split; [first [own_cmd JA BA | other_cmd JA | own_cmd JB BB | other_cmd JB]
                               | first [own_cmd JB BB | other_cmd JB | own_cmd JA BA | other_cmd JA]] |]);
      (split; [|split; auto]); repeat split;
      rewrite ?app_assoc; try (apply Forall_app; split; [|repeat constructor; apply Hb]);
      try (eapply Forall_impl; [|eassumption]; intros; first [apply good_box_mono | apply good_pnd_mono]; assumption).
  - eapply quiet_RP; [| | | | | | |exact HG]; try reflexivity.
    intros x [<-|[<-|[]]]; cbn; auto.
Qed.

Lemma ev_G : forall d h s s' l e,
  up s' = up s -> outA s' = outA s -> outB s' = outB s -> chA s' = chA s -> chB s' = chB s -> pending s' = pending s ->
  (forall c r, In (EResult c r) e -> r = RLost \/ In (EProduced c r) (l ++ e)) ->
  (forall c r, In (EProduced c r) e -> Pc (l ++ e) c r) ->
  GH d h s l -> GH d h s' (l ++ e).
Proof.
  intros d h s s' l e U A B CA CB PD H1 H2 (J1 & J2 & HR & HP). unfold GH, G, chanH, chan in *.
  rewrite U, A, B, CA, CB, PD.
  split; [exact J1 | split; [now apply J2c_mono | split; [now apply R_ext | now apply P_ext]]].
Qed.

Lemma nested_G : forall d h p s s' e l, K s -> GH d h s l -> nested p s = (s', e) -> GH d h s' (l ++ e).
Proof.
  intros d h p s s' e l HK HG H. unfold nested in H. destruct (place p Know s) as [s1 e1] eqn:E1.
  injection H as <- <-. change (ENested (ncalls s) :: e1) with ([ENested (ncalls s)] ++ e1). rewrite app_assoc.
  eapply place_G; [exact HK | | exact E1].
  eapply quiet_RP; [| | | | | | |exact HG]; try reflexivity. intros x [<-|[]]. exact I.
Qed.

Lemma fire_result_G : forall d h q c r s s' e l, K s -> GH d h s l ->
  (r = RLost \/ In (EProduced c r) l) ->
  fire_result q c r s = (s', e) -> GH d h s' (l ++ e).
Proof.
  intros d h q c r s s' e l HK HG Hr H. unfold fire_result in H.
  assert (G1 : GH d h s (l ++ [EResult c r])).
  { eapply ev_G; [| | | | | | | |exact HG]; try reflexivity.
    - intros c' r' [E|[]]. injection E as <- <-. destruct Hr as [->|Hr]; auto. right. apply in_or_app. now left.
    - intros c' r' [E|[]]. discriminate E. }
  destruct (mem c (cancelled s)).
  { injection H as <- <-. eapply quiet_RP; [| | | | | | |exact HG]; try reflexivity. intros x [<-|[]]. exact I. }
  destruct (mem c (follows s)).
  - destruct (nested q s) as [s1 e1] eqn:E1. injection H as <- <-.
    change (EResult c r :: e1) with ([EResult c r] ++ e1). rewrite app_assoc. eapply nested_G; eauto.
  - injection H as <- <-. exact G1.
Qed.

Lemma pop_G : forall d h t n b s l, up s = true -> K s ->
  (b = BAns t n \/ exists c, b = BErr t n c) ->
  GH d (b :: h) s l ->
  lookup t (outs s (negb d)) = Some n
  /\ GH d h (set_outs (negb d) (remove_tag t (outs s (negb d))) s) l
  /\ good_box l b.
Proof.
  intros d h t n b s l U HK Hb (J1 & J2 & HR & HP). specialize (J1 U). destruct J1 as [JA JB].
  destruct HK as [[NA BA] [NB BB]]. destruct J2 as (GA & GB & GP).
  assert (Hc : cmd_of b = []) by (destruct Hb as [->|[c ->]]; reflexivity).
  unfold GH, G, J1c, J2c, obl, chanH in *.
  destruct d; cbn [negb Bool.eqb app chan chA chB outA outB outs up pending set_outs] in *.
  - (* B sends, A asks *)
    pose proof (OK_perm _ _ _ (oblx_head_rep _ _ _ _ t n b Hb) JA) as JA'.
    split; [exact (OK_lookup _ _ _ _ NA JA')|]. split.
    + split; [intros _; split; [exact (OK_remove _ _ _ _ JA') | rewrite oblx_head_rep_own in JB by exact Hc; exact JB]|].
      split; [|split; auto]. repeat split; auto. now inversion GB.
    + now inversion GB.
  - (* A sends, B asks *)
    pose proof (OK_perm _ _ _ (oblx_head_rep _ _ _ _ t n b Hb) JB) as JB'.
    split; [exact (OK_lookup _ _ _ _ NB JB')|]. split.
    + split; [intros _; split; [rewrite oblx_head_rep_own in JA by exact Hc; exact JA | exact (OK_remove _ _ _ _ JB')]|].
      split; [|split; auto]. repeat split; auto. now inversion GA.
    + now inversion GA.
Qed.

Lemma K_pop : forall s q t, K s -> K (set_outs q (remove_tag t (outs s q)) s).
Proof. intros s q t [K0 K1']. split; now apply K1_remove. Qed.

Lemma deliver_box_G : forall d h b s s' e f l, up s = true -> K s ->
  GH d (b :: h) s l -> deliver_box (negb d) b s = (s', e, f) -> GH d h s' (l ++ e).
Proof.
  intros d h b s s' e f l U HK HG H. destruct b as [t n k|t n|t n c].
  - (* a command arrives at negb d *)
    destruct HG as (J1 & J2 & HR & HP). specialize (J1 U). destruct J1 as [JA JB]. destruct J2 as (GA & GB & GP).
    assert (Hcall : In (ECall n k) l).
    { unfold chanH in GA, GB. destruct d; cbn in GA, GB; [now inversion GB | now inversion GA]. }
    destruct (match k with Klater => true | _ => false end) eqn:Ek.
    + (* the responder will answer later *)
      assert (k = Klater) by (destruct k; try discriminate; reflexivity). subst k. cbn in H. injection H as <- <- <-.
      assert (Hq : quiet [EInvoke (negb d) n]) by (intros x [<-|[]]; exact I).
      destruct (RP_quiet l _ HR HP Hq) as [HR' HP'].
      unfold GH, G, J1c, J2c, obl, chanH in *.
      destruct d; cbn [negb Bool.eqb app chan chA chB outA outB outs up pending set_pending] in *.
      * split; [intros _; split|].
        -- change (false, t, n) with (negb true, t, n). rewrite oblx_pnd_no. exact JA.
        -- eapply OK_perm; [apply Permutation_sym, oblx_pnd_yes|]. exact JB.
        -- split; [|split; auto]. repeat split.
           ++ eapply Forall_impl; [|exact GA]. intros; now apply good_box_mono.
           ++ inversion GB; subst. eapply Forall_impl; [|eassumption]. intros; now apply good_box_mono.
           ++ apply Forall_app. split; [eapply Forall_impl; [|exact GP]; intros; now apply good_pnd_mono|].
              repeat constructor. cbn. apply in_or_app. now left.
      * split; [intros _; split|].
        -- eapply OK_perm; [apply Permutation_sym, oblx_pnd_yes|]. exact JA.
        -- change (true, t, n) with (negb false, t, n). rewrite oblx_pnd_no. exact JB.
        -- split; [|split; auto]. repeat split.
           ++ inversion GA; subst. eapply Forall_impl; [|eassumption]. intros; now apply good_box_mono.
           ++ eapply Forall_impl; [|exact GB]. intros; now apply good_box_mono.
           ++ apply Forall_app. split; [eapply Forall_impl; [|exact GP]; intros; now apply good_pnd_mono|].
              repeat constructor. cbn. apply in_or_app. now left.
    + (* the reply is produced at once *)
      assert (Hnl : k <> Klater) by (intros ->; discriminate).
      set (r := kind_res k n).
      assert (He : e = (match k with Kunknown => [] | _ => [EInvoke (negb d) n] end) ++ [EProduced n r]
                   /\ s' = emit (negb d) (box_of_res t n r) s).
      { destruct k; try discriminate; cbn in H; injection H as <- <- <-; split; reflexivity. }
      destruct He as [-> ->].
      assert (Hin : In (EProduced n r) (l ++ match k with Kunknown => [] | _ => [EInvoke (negb d) n] end ++ [EProduced n r])).
      { apply in_or_app. right. apply in_or_app. right. now left. }
      assert (HR' : R (l ++ match k with Kunknown => [] | _ => [EInvoke (negb d) n] end ++ [EProduced n r])).
      { apply R_ext; auto. intros c' r' Hx. exfalso. apply in_app_or in Hx. destruct Hx as [Hx|[Hx|[]]]; [|discriminate Hx].
        destruct k; cbn in Hx; try destruct Hx as [Hx|[]]; try discriminate Hx; auto. }
      assert (HP' : P (l ++ match k with Kunknown => [] | _ => [EInvoke (negb d) n] end ++ [EProduced n r])).
      { apply P_ext; auto. intros c' r' Hx. apply in_app_or in Hx. destruct Hx as [Hx|[Hx|[]]].
        - exfalso. destruct k; cbn in Hx; try destruct Hx as [Hx|[]]; try discriminate Hx; auto.
        - injection Hx as <- <-. left. exists k. repeat split; auto. apply in_or_app. now left. }
      assert (Hgb : good_box (l ++ match k with Kunknown => [] | _ => [EInvoke (negb d) n] end ++ [EProduced n r]) (box_of_res t n r))
        by (apply good_box_of_res; [apply kind_res_for | exact Hin]).
      unfold GH, G, J1c, J2c, obl, chanH in *.
      destruct d; cbn [negb Bool.eqb app chan chA chB outA outB outs up pending emit set_chan] in *.
      * split; [intros _; split|].
        -- rewrite oblx_own_rep. exact JA.
        -- eapply OK_perm; [apply Permutation_sym, oblx_other_rep|]. exact JB.
        -- split; [|split; auto]. repeat split.
           ++ apply Forall_app. split; [eapply Forall_impl; [|exact GA]; intros; now apply good_box_mono | repeat constructor; exact Hgb].
           ++ inversion GB; subst. eapply Forall_impl; [|eassumption]. intros; now apply good_box_mono.
           ++ eapply Forall_impl; [|exact GP]. intros; now apply good_pnd_mono.
      * split; [intros _; split|].
        -- eapply OK_perm; [apply Permutation_sym, oblx_other_rep|]. exact JA.
        -- rewrite oblx_own_rep. exact JB.
        -- split; [|split; auto]. repeat split.
           ++ inversion GA; subst. eapply Forall_impl; [|eassumption]. intros; now apply good_box_mono.
           ++ apply Forall_app. split; [eapply Forall_impl; [|exact GB]; intros; now apply good_box_mono | repeat constructor; exact Hgb].
           ++ eapply Forall_impl; [|exact GP]. intros; now apply good_pnd_mono.
  - (* an answer arrives *)
    destruct (pop_G d h t n (BAns t n) s l U HK (or_introl eq_refl) HG) as (Hl & HG1 & Hgood).
    cbn [deliver_box] in H. rewrite Hl in H.
    destruct (fire_result _ _ _ _) as [s1 e1] eqn:E1. injection H as <- <- <-.
    eapply fire_result_G; [apply K_pop; exact HK | exact HG1 | right; exact Hgood | exact E1].
  - (* an error arrives *)
    destruct (pop_G d h t n (BErr t n c) s l U HK (or_intror (ex_intro _ c eq_refl)) HG) as (Hl & HG1 & Hgood).
    cbn [deliver_box] in H. rewrite Hl in H.
    destruct (fire_result _ _ _ _) as [s1 e1] eqn:E1. injection H as <- <- <-.
    eapply fire_result_G; [apply K_pop; exact HK | exact HG1 | right; exact Hgood | exact E1].
Qed.

Lemma GH_nil : forall d s l, GH d [] s l <-> GS s l.
Proof. intros d s l. unfold GS, GH, chanH. destruct d; cbn; tauto. Qed.

Lemma flush_G : forall p l0 s s' e l, up s = true -> K s -> GH p l0 s l -> flush p l0 s = (s', e) ->
  GH p [] s' (l ++ e) /\ K s' /\ up s' = true.
Proof.
  induction l0 as [|b r IH]; intros s s' e l U HK HG H; cbn in H.
  - injection H as <- <-. rewrite app_nil_r. auto.
  - destruct (deliver_box (negb p) b s) as [[s1 e1] f1] eqn:E1. destruct (flush p r s1) as [s2 e2] eqn:E2.
    injection H as <- <-. rewrite app_assoc.
    eapply IH; [| | |exact E2].
    + rewrite (proj2 (deliver_box_T _ _ _ _ _ _ E1)). exact U.
    + eapply deliver_box_K; eauto.
    + eapply deliver_box_G; eauto.
Qed.

Lemma fail_all_quiet : forall l fol can n e n', fail_all l fol can n = (e, n') -> quiet e.
Proof.
  induction l as [|[t c] l IH]; intros fol can n e n' H; cbn in H.
  - injection H as <- <-. intros x [].
  - destruct (mem c can).
    { destruct (fail_all l fol can n) as [e2 n2] eqn:E2. injection H as <- <-.
      intros x [<-|Hx]; cbn; auto. exact (IH _ _ _ _ _ E2 x Hx). }
    destruct (mem c fol).
    + destruct (fail_all l fol can (S n)) as [e2 n2] eqn:E2. injection H as <- <-.
      intros x [<-|[<-|[<-|Hx]]]; cbn; auto. exact (IH _ _ _ _ _ E2 x Hx).
    + destruct (fail_all l fol can n) as [e2 n2] eqn:E2. injection H as <- <-.
      intros x [<-|Hx]; cbn; auto. exact (IH _ _ _ _ _ E2 x Hx).
Qed.

Lemma lose_G : forall s l s' e, Forall (good_pnd l) (pending s) -> R l -> P l -> lose s = (s', e) -> GS s' (l ++ e).
Proof.
  intros s l s' e GP HR HP H. unfold lose in H. destruct (fail_all _ _ _) as [e1 n1] eqn:E1. injection H as <- <-.
  destruct (RP_quiet l e1 HR HP (fail_all_quiet _ _ _ _ _ _ E1)) as [HR' HP'].
  unfold GS, GH, G, J2c, chanH. cbn. split; [intros Hf; discriminate Hf|]. split; [|split; auto].
  repeat split; try constructor. eapply Forall_impl; [|exact GP]. intros; now apply good_pnd_mono.
Qed.

Lemma close_by_G : forall p s s' e l, up s = true -> K s -> GS s l -> close_by p s = (s', e) -> GS s' (l ++ e).
Proof.
  intros p s s' e l U HK HG H. unfold close_by in H.
  destruct (flush p (chan s p) (set_chan p [] s)) as [s1 e1] eqn:E1. destruct (lose s1) as [s2 e2] eqn:E2.
  injection H as <- <-.
  assert (HG0 : GH p (chan s p) (set_chan p [] s) l).
  { unfold GS, GH, G, chanH in *. destruct p; cbn in *; rewrite ?app_nil_r; exact HG. }
  assert (HK0 : K (set_chan p [] s)) by (eapply K_same; [| | | |exact HK]; destruct p; reflexivity).
  assert (U0 : up (set_chan p [] s) = true) by (destruct p; exact U).
  destruct (flush_G _ _ _ _ _ _ U0 HK0 HG0 E1) as (G1 & K1' & U1).
  destruct G1 as (_ & (_ & _ & GP) & HR & HP).
  change (e1 ++ EQuit :: e2) with (e1 ++ [EQuit] ++ e2). rewrite !app_assoc.
  assert (Hq : quiet [EQuit]) by (intros x [<-|[]]; exact I).
  destruct (RP_quiet _ _ HR HP Hq) as [HR' HP'].
  eapply lose_G; [| exact HR' | exact HP' | exact E2].
  eapply Forall_impl; [|exact GP]. intros; now apply good_pnd_mono.
Qed.

Lemma deliver_one_G : forall d s s' e l, up s = true -> K s -> GS s l -> deliver_one d s = (s', e) -> GS s' (l ++ e).
Proof.
  intros d s s' e l U HK HG H. unfold deliver_one in H. destruct (chan s d) as [|b r] eqn:Ec.
  - injection H as <- <-. now rewrite app_nil_r.
  - destruct (deliver_box (negb d) b (set_chan d r s)) as [[s1 e1] f] eqn:E1.
    assert (HG0 : GH d [b] (set_chan d r s) l).
    { unfold GS, GH, G, chanH in *. destruct d; cbn in *; rewrite Ec in HG; exact HG. }
    assert (HK0 : K (set_chan d r s)) by (eapply K_same; [| | | |exact HK]; destruct d; reflexivity).
    assert (U0 : up (set_chan d r s) = true) by (destruct d; exact U).
    pose proof (deliver_box_G _ _ _ _ _ _ _ _ U0 HK0 HG0 E1) as G1. apply GH_nil in G1.
    destruct f; [|now injection H as <- <-].
    destruct (close_by (negb d) s1) as [s2 e2] eqn:E2. injection H as <- <-. rewrite app_assoc.
    eapply close_by_G; [| | exact G1 | exact E2].
    + rewrite (proj2 (deliver_box_T _ _ _ _ _ _ E1)). exact U0.
    + eapply deliver_box_K; eauto.
Qed.

Lemma deliver_n_G : forall d n s s' e l, K s -> GS s l -> deliver_n d n s = (s', e) -> GS s' (l ++ e).
Proof.
  induction n as [|m IH]; intros s s' e l HK HG H; cbn in H.
  - injection H as <- <-. now rewrite app_nil_r.
  - destruct (up s) eqn:U; [|injection H as <- <-; now rewrite app_nil_r].
    destruct (chan s d) as [|b r] eqn:Ec; [injection H as <- <-; now rewrite app_nil_r|].
    destruct (deliver_one d s) as [s1 e1] eqn:E1. destruct (deliver_n d m s1) as [s2 e2] eqn:E2.
    injection H as <- <-. rewrite app_assoc. eapply IH; [| |exact E2].
    + eapply deliver_one_K; eauto.
    + eapply deliver_one_G; eauto.
Qed.

Lemma GS_same : forall s s' l,
  up s' = up s -> outA s' = outA s -> outB s' = outB s -> chA s' = chA s -> chB s' = chB s -> pending s' = pending s ->
  GS s l -> GS s' l.
Proof.
  intros s s' l U A B CA CB PD HG. unfold GS, GH, G, chanH, chan in *. now rewrite U, A, B, CA, CB, PD.
Qed.

Lemma nth_error_Forall : forall {A} (Q : A -> Prop) l i x, Forall Q l -> nth_error l i = Some x -> Q x.
Proof. intros A Q l i x HF H. rewrite Forall_forall in HF. apply HF. eapply nth_error_In; eauto. Qed.

Lemma fire_G : forall s l i o me t n, up s = true -> K s -> GS s l ->
  nth_error (pending s) i = Some (me, t, n) ->
  let r := out_res o n in
  GS (emit me (box_of_res t n r) (set_pending (remove_nth i (pending s)) s)) (l ++ [EFire me n o; EProduced n r]).
Proof.
  intros s l i o me t n U HK (J1 & J2 & HR & HP) Hn r. specialize (J1 U). destruct J1 as [JA JB]. destruct J2 as (GA & GB & GP).
  pose proof (nth_error_Forall _ _ _ _ GP Hn) as Hcall. cbn in Hcall.
  set (e := [EFire me n o; EProduced n r]).
  assert (Hin : In (EProduced n r) (l ++ e)) by (apply in_or_app; right; right; now left).
  assert (HR' : R (l ++ e)).
  { apply R_ext; auto. intros c' r' [Hx|[Hx|[]]]; discriminate Hx. }
  assert (HP' : P (l ++ e)).
  { apply P_ext; auto. intros c' r' [Hx|[Hx|[]]]; [discriminate Hx|]. injection Hx as <- <-.
    right. split; [apply in_or_app; now left|]. exists me, o. split; auto. apply in_or_app. right. now left. }
  assert (Hgb : good_box (l ++ e) (box_of_res t n r)) by (apply good_box_of_res; [apply out_res_for | exact Hin]).
  assert (GP' : Forall (good_pnd (l ++ e)) (remove_nth i (pending s))).
  { apply Forall_remove_nth. eapply Forall_impl; [|exact GP]. intros; now apply good_pnd_mono. }
  unfold GS, GH, G, J1c, J2c, obl, chanH in *.
  destruct me; cbn [negb Bool.eqb app chan chA chB outA outB outs up pending emit set_chan set_pending] in *.
  - (* B's responder answers a call of A *)
    split; [intros _; split|].
    + eapply OK_perm; [|exact JA]. unfold oblx. rewrite reps_app. cbn. rewrite rep_of_res. cbn. rewrite ?app_nil_r.
      eapply perm_trans; [apply Permutation_app_head, Permutation_app_head, (pnd_remove_yes true _ _ _ _ Hn)|].
      rewrite <- !app_assoc. reflexivity.
    + rewrite oblx_own_rep. unfold oblx. change true with (negb false) in Hn. now rewrite (pnd_remove_no false _ _ _ _ Hn).
    + split; [|split; auto]. repeat split; auto.
      * eapply Forall_impl; [|exact GA]. intros; now apply good_box_mono.
      * apply Forall_app. split; [eapply Forall_impl; [|exact GB]; intros; now apply good_box_mono | repeat constructor; exact Hgb].
  - split; [intros _; split|].
    + rewrite oblx_own_rep. unfold oblx. change false with (negb true) in Hn. now rewrite (pnd_remove_no true _ _ _ _ Hn).
    + eapply OK_perm; [|exact JB]. unfold oblx. rewrite reps_app. cbn. rewrite rep_of_res. cbn. rewrite ?app_nil_r.
      eapply perm_trans; [apply Permutation_app_head, Permutation_app_head, (pnd_remove_yes false _ _ _ _ Hn)|].
      rewrite <- !app_assoc. reflexivity.
    + split; [|split; auto]. repeat split; auto.
      * apply Forall_app. split; [eapply Forall_impl; [|exact GA]; intros; now apply good_box_mono | repeat constructor; exact Hgb].
      * eapply Forall_impl; [|exact GB]. intros; now apply good_box_mono.
Qed.

Lemma step_G : forall s l o, K s -> GS s l -> GS (fst (step s o)) (l ++ snd (step s o)).
Proof.
  intros s l o HK HG. destruct o as [p k f|d n|i o|c|]; cbn [step].
  - (* call *)
    set (s0 := if f then set_follows (ncalls s :: follows s) s else s).
    assert (G0 : GS s0 l) by (unfold s0; destruct f; [eapply GS_same; [| | | | | |exact HG]; reflexivity | exact HG]).
    assert (K0 : K s0) by (unfold s0; destruct f; [eapply K_same; [| | | |exact HK]; reflexivity | exact HK]).
    destruct (up s) eqn:U.
    + destruct (place p k s0) as [s1 e1] eqn:E1. cbn [fst snd]. eapply place_G; eauto.
    + destruct (fire_result _ _ _ _) as [s1 e1] eqn:E1. cbn [fst snd].
      change (ECall (ncalls s) k :: e1) with ([ECall (ncalls s) k] ++ e1). rewrite app_assoc.
      eapply fire_result_G; [| |left; reflexivity|exact E1].
      * eapply K_same; [| | | |exact K0]; reflexivity.
      * eapply quiet_RP; [| | | | | | |exact G0]; try reflexivity. intros x [<-|[]]. exact I.
  - (* deliver *) destruct (deliver_n d n s) as [s' e] eqn:E. cbn [fst snd]. eapply deliver_n_G; eauto.
  - (* a pending responder answers *)
    destruct (nth_error (pending s) i) as [[[me t] n]|] eqn:En; cbn [fst snd].
    + destruct (up s) eqn:U.
      * pose proof (fire_G s l i o me t n U HK HG En) as G1. cbn zeta in G1.
        destruct (fatal_res (out_res o n)); [|cbn [fst snd]; exact G1].
        destruct (close_by me _) as [s2 e2] eqn:E2. cbn [fst snd].
        change (EFire me n o :: EProduced n (out_res o n) :: e2) with ([EFire me n o; EProduced n (out_res o n)] ++ e2).
        rewrite app_assoc. eapply close_by_G; [| |exact G1|exact E2].
        -- destruct me; exact U.
        -- eapply K_same; [| | | |exact HK]; destruct me; reflexivity.
      * cbn [fst snd]. destruct HG as (J1 & (GA & GB & GP) & HR & HP).
        assert (Hq : quiet [EFire me n o]) by (intros x [<-|[]]; exact I).
        destruct (RP_quiet l _ HR HP Hq) as [HR' HP'].
        unfold GS, GH, G, J2c, chanH in *. cbn [up chan chA chB outA outB pending set_pending Bool.eqb app] in *.
        split; [intros Hf; congruence|]. split; [|split; auto]. repeat split.
        -- eapply Forall_impl; [|exact GA]. intros; now apply good_box_mono.
        -- eapply Forall_impl; [|exact GB]. intros; now apply good_box_mono.
        -- apply Forall_remove_nth. eapply Forall_impl; [|exact GP]. intros; now apply good_pnd_mono.
    + eapply quiet_RP; [| | | | | | |exact HG]; try reflexivity. intros x [<-|[]]. exact I.
  - (* the application cancels a call: the dispatcher's state is untouched *)
    destruct (mem c (cancelled s)); [cbn [fst snd]; eapply quiet_RP; [| | | | | | |exact HG]; try reflexivity; intros x [<-|[]]; exact I|].
    destruct (if mem c (map snd (outA s)) then Some false else if mem c (map snd (outB s)) then Some true else None) as [p|];
      [|cbn [fst snd]; eapply quiet_RP; [| | | | | | |exact HG]; try reflexivity; intros x [<-|[]]; exact I].
    assert (G0 : GS (set_cancelled (c :: cancelled s) s) (l ++ [ECancelled c])).
    { eapply quiet_RP; [| | | | | | |exact HG]; try reflexivity. intros x [<-|[]]. exact I. }
    assert (K0 : K (set_cancelled (c :: cancelled s) s)) by (eapply K_same; [| | | |exact HK]; reflexivity).
    destruct (mem c (follows s)); [|exact G0].
    destruct (nested p _) as [s1 e1] eqn:E1. cbn [fst snd].
    change (ECancelled c :: e1) with ([ECancelled c] ++ e1). rewrite app_assoc. eapply nested_G; eauto.
  - (* the connection is lost *)
    destruct (up s) eqn:U.
    + destruct (lose s) as [s1 e1] eqn:E1. cbn [fst snd].
      change (ELost :: e1) with ([ELost] ++ e1). rewrite app_assoc.
      destruct HG as (_ & (_ & _ & GP) & HR & HP).
      assert (Hq : quiet [ELost]) by (intros x [<-|[]]; exact I).
      destruct (RP_quiet l _ HR HP Hq) as [HR' HP'].
      eapply lose_G; [| exact HR' | exact HP' | exact E1].
      eapply Forall_impl; [|exact GP]. intros; now apply good_pnd_mono.
    + cbn [fst snd]. eapply quiet_RP; [| | | | | | |exact HG]; try reflexivity. intros x [<-|[]]. exact I.
Qed.

Lemma run_G : forall ops s l, K s -> GS s l -> GS (fst (run s ops)) (l ++ concat (snd (run s ops))).
Proof.
  induction ops as [|o r IH]; intros s l HK HG; cbn [run].
  - cbn. now rewrite app_nil_r.
  - pose proof (step_G s l o HK HG) as G1. pose proof (step_K s o HK) as K1'.
    destruct (step s o) as [s1 e] eqn:E1. cbn [fst snd] in *.
    specialize (IH s1 (l ++ e) K1' G1). destruct (run s1 r) as [s2 es] eqn:E2. cbn [fst snd concat] in *.
    now rewrite app_assoc.
Qed.

Lemma reach_G : forall ops, GS (fst (run init ops)) (log (run init ops)).
Proof.
  intros ops. apply (run_G ops init []).
  - unfold K, K1; cbn. repeat split; constructor.
  - unfold GS, GH, G, chanH. cbn. split; [|split; [|split]].
    + intros _. split; (split; [constructor | intros x []]).
    + repeat split; constructor.
    + intros c r [].
    + intros c r [].
Qed.

(** the end-to-end statement *)
Lemma answer_matches : forall ops c r,
  In (EResult c r) (log (run init ops)) ->
  r = RLost \/
  (In (EProduced c r) (log (run init ops)) /\
   ((exists k, In (ECall c k) (log (run init ops)) /\ k <> Klater /\ r = kind_res k c)
    \/ (In (ECall c Klater) (log (run init ops)) /\
        exists q o, In (EFire q c o) (log (run init ops)) /\ r = out_res o c))).
Proof.
  intros ops c r H. destruct (reach_G ops) as (_ & _ & HR & HP).
  destruct (HR c r H) as [->|Hp]; auto. right. split; auto. exact (HP c r Hp).
Qed.

Lemma ok_result_is_own_id : forall ops c n, In (EResult c (ROk n)) (log (run init ops)) -> n = c.
Proof.
  intros ops c n H. destruct (answer_matches ops c _ H) as [Hl|(_ & [(k & _ & _ & Hk)|(_ & q & o & _ & Ho)])].
  - discriminate Hl.
  - destruct k; cbn in Hk; congruence.
  - destruct o; cbn in Ho; congruence.
Qed.
