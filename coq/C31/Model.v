(** C31: two AMP BoxDispatchers (twisted/protocols/amp.py) over an in-memory network.

    Peers are booleans (false = A, true = B).  [chan s p] is the FIFO of whole boxes written by
    peer p and not yet delivered to the other peer.  A call carries its own id as argument and a
    responder answers with the argument it received, so a result shows which question it answers.
    Modelled: _nextTag / _sendBoxCommand ([OCall]), ampBoxReceived -> _commandReceived /
    _answerReceived / _errorReceived ([deliver_box]), responders that answer at once, later
    ([OFire]), with a declared error, with an undeclared error (QuitBox: the answering side closes
    the connection after sending), or do not exist (UnhandledCommand), and failAllOutgoing on
    connection loss ([lose]).  Close after a QuitBox: what the closing side has written is
    delivered, then both sides lose the connection. *)
From Coq Require Import List Arith Bool.
Import ListNotations.

Inductive kind := Know | Klater | Kdeclared | Ksub | Kfatal | Kundeclared | Kunknown.
Inductive outcome := Outok | Outdeclared | Outsub | Outfatal | Outundeclared.
Inductive ecode := EDeclared | EFatal | EUnknownFatal | EUnhandled.
Inductive res := ROk (n : nat) | RDeclared | RFatal | RUnknown | RUnhandled | RLost.

Inductive box :=
| BCmd (tag call : nat) (k : kind)
| BAns (tag n : nat)
| BErr (tag n : nat) (c : ecode).

Inductive op :=
| OCall (p : bool) (k : kind) (follow : bool)   (* follow: the call's callback/errback issues one more call *)
| ODeliver (d : bool) (n : nat)        (* deliver up to n boxes written by peer d *)
| OFire (i : nat) (o : outcome)        (* the i-th pending responder answers *)
| OCancel (c : nat)                    (* the application cancels the Deferred of call c *)
| ODisc.                               (* the connection is lost *)

Inductive ev :=
| EInvoke (p : bool) (call : nat)      (* responder for call runs at peer p *)
| EFire (p : bool) (call : nat) (o : outcome)
| EResult (call : nat) (r : res)       (* the callRemote Deferred of call fired *)
| ENested (call : nat)                 (* a callback / errback issued call [call] *)
| ELost
| EQuit                                (* the connection goes down because a peer closed it (QuitBox) *)
| ENoop
| ECancelled (call : nat)             (* d.cancel() on a still unfired call: its Deferred fails with CancelledError *)
| EAbsorbed (call : nat) (r : res)     (* ghost: the dispatcher fires a cancelled call's Deferred; the result is swallowed *)
| ECall (call : nat) (k : kind)       (* ghost: call was made, its command's responder behaves as k *)
| EProduced (call : nat) (r : res).   (* ghost: the responder side produced r as the reply to call *)

Record st := mk {
  up : bool;
  cntA : nat; cntB : nat;                               (* BoxDispatcher._counter *)
  outA : list (nat * nat); outB : list (nat * nat);     (* _outstandingRequests: tag -> call, insertion order *)
  chA : list box; chB : list box;                       (* written by A / by B, undelivered *)
  pending : list (bool * nat * nat);                    (* responders yet to answer: (peer, tag, call) *)
  ncalls : nat;
  follows : list nat;                                   (* ids of calls whose callback calls again *)
  cancelled : list nat                                  (* ids of calls the application cancelled *)
}.

Definition init : st := mk true 0 0 [] [] [] [] [] 0 [] [].

Definition cnt s (p : bool) := if p then cntB s else cntA s.
Definition outs s (p : bool) := if p then outB s else outA s.
Definition chan s (p : bool) := if p then chB s else chA s.
Definition set_cnt (p : bool) v s :=
  if p then mk (up s) (cntA s) v (outA s) (outB s) (chA s) (chB s) (pending s) (ncalls s) (follows s) (cancelled s)
  else mk (up s) v (cntB s) (outA s) (outB s) (chA s) (chB s) (pending s) (ncalls s) (follows s) (cancelled s).
Definition set_outs (p : bool) v s :=
  if p then mk (up s) (cntA s) (cntB s) (outA s) v (chA s) (chB s) (pending s) (ncalls s) (follows s) (cancelled s)
  else mk (up s) (cntA s) (cntB s) v (outB s) (chA s) (chB s) (pending s) (ncalls s) (follows s) (cancelled s).
Definition set_chan (p : bool) v s :=
  if p then mk (up s) (cntA s) (cntB s) (outA s) (outB s) (chA s) v (pending s) (ncalls s) (follows s) (cancelled s)
  else mk (up s) (cntA s) (cntB s) (outA s) (outB s) v (chB s) (pending s) (ncalls s) (follows s) (cancelled s).
Definition set_pending v s := mk (up s) (cntA s) (cntB s) (outA s) (outB s) (chA s) (chB s) v (ncalls s) (follows s) (cancelled s).
Definition set_ncalls v s := mk (up s) (cntA s) (cntB s) (outA s) (outB s) (chA s) (chB s) (pending s) v (follows s) (cancelled s).
Definition set_follows v s := mk (up s) (cntA s) (cntB s) (outA s) (outB s) (chA s) (chB s) (pending s) (ncalls s) v (cancelled s).
Definition set_cancelled v s := mk (up s) (cntA s) (cntB s) (outA s) (outB s) (chA s) (chB s) (pending s) (ncalls s) (follows s) v.

Definition emit (p : bool) (b : box) s := set_chan p (chan s p ++ [b]) s.

Fixpoint lookup (tag : nat) (l : list (nat * nat)) : option nat :=
  match l with
  | [] => None
  | (t, c) :: r => if Nat.eqb t tag then Some c else lookup tag r
  end.
Fixpoint remove_tag (tag : nat) (l : list (nat * nat)) : list (nat * nat) :=
  match l with
  | [] => []
  | (t, c) :: r => if Nat.eqb t tag then r else (t, c) :: remove_tag tag r
  end.

Definition res_of (c : ecode) : res :=
  match c with EDeclared => RDeclared | EFatal => RFatal | EUnknownFatal => RUnknown | EUnhandled => RUnhandled end.

Definition mem (i : nat) (l : list nat) : bool := existsb (Nat.eqb i) l.

(** callRemote by peer p of a command whose responder behaves as k (_sendBoxCommand) *)
Definition place (p : bool) (k : kind) (s : st) : st * list ev :=
  let id := ncalls s in
  let s0 := set_ncalls (S id) s in
  if up s then
    let tag := S (cnt s p) in
    (emit p (BCmd tag id k) (set_outs p (outs s p ++ [(tag, id)]) (set_cnt p tag s0)), [ECall id k])
  else (s0, [ECall id k; EResult id RLost]).
(** ... issued from inside a callback / errback *)
Definition nested (p : bool) (s : st) : st * list ev :=
  let '(s1, e) := place p Know s in (s1, ENested (ncalls s) :: e).
(** the Deferred of call c (made by peer q) fires with r; its callback may call again *)
Definition fire_result (q : bool) (c : nat) (r : res) (s : st) : st * list ev :=
  if mem c (cancelled s) then (s, [EAbsorbed c r])     (* a cancelled Deferred swallows the one result that follows *)
  else if mem c (follows s) then let '(s1, e) := nested q s in (s1, EResult c r :: e) else (s, [EResult c r]).

(** what a responder of kind k / a pending responder completing with o produces for call c *)
Definition kind_res (k : kind) (c : nat) : res :=
  match k with
  | Know | Klater => ROk c | Kdeclared | Ksub => RDeclared | Kfatal => RFatal
  | Kundeclared => RUnknown | Kunknown => RUnhandled
  end.
Definition out_res (o : outcome) (c : nat) : res :=
  match o with Outok => ROk c | Outdeclared | Outsub => RDeclared | Outfatal => RFatal | Outundeclared => RUnknown end.
(** the reply box carrying r for (tag, call); fatal results go out as a QuitBox *)
Definition box_of_res (tag call : nat) (r : res) : box :=
  match r with
  | ROk _ => BAns tag call
  | RDeclared => BErr tag call EDeclared
  | RFatal => BErr tag call EFatal
  | RUnknown => BErr tag call EUnknownFatal
  | RUnhandled | RLost => BErr tag call EUnhandled
  end.
Definition fatal_res (r : res) : bool := match r with RFatal | RUnknown => true | _ => false end.

(** peer q receives box b: (state, events, q asked to close the connection) *)
Definition deliver_box (q : bool) (b : box) (s : st) : st * list ev * bool :=
  match b with
  | BCmd tag call Klater => (set_pending (pending s ++ [(q, tag, call)]) s, [EInvoke q call], false)
  | BCmd tag call k =>
      let r := kind_res k call in
      (emit q (box_of_res tag call r) s,
       (match k with Kunknown => [] | _ => [EInvoke q call] end) ++ [EProduced call r], fatal_res r)
  | BAns tag n =>
      match lookup tag (outs s q) with
      | Some c => let '(s1, e) := fire_result q c (ROk n) (set_outs q (remove_tag tag (outs s q)) s) in (s1, e, false)
      | None => (s, [], false)
      end
  | BErr tag n code =>
      match lookup tag (outs s q) with
      | Some c => let '(s1, e) := fire_result q c (res_of code) (set_outs q (remove_tag tag (outs s q)) s) in (s1, e, false)
      | None => (s, [], false)
      end
  end.

(** failAllOutgoing: the reason is recorded first, so a call made by an errback fails at once *)
Fixpoint fail_all (l : list (nat * nat)) (fol can : list nat) (n : nat) : list ev * nat :=
  match l with
  | [] => ([], n)
  | (t, c) :: r =>
      if mem c can then let '(e2, n2) := fail_all r fol can n in (EAbsorbed c RLost :: e2, n2)
      else
        let '(e, n1) := if mem c fol then ([ENested n; EResult n RLost], S n) else ([], n) in
        let '(e2, n2) := fail_all r fol can n1 in
        (EResult c RLost :: e ++ e2, n2)
  end.

(** connectionLost on both sides (A first) *)
Definition lose (s : st) : st * list ev :=
  let '(e, n) := fail_all (outA s ++ outB s) (follows s) (cancelled s) (ncalls s) in
  (mk false (cntA s) (cntB s) [] [] [] [] (pending s) n (follows s) (cancelled s), e).

(** peer p closes: deliver everything p has written (the other side's replies stay undelivered), then lose *)
Fixpoint flush (p : bool) (l : list box) (s : st) : st * list ev :=
  match l with
  | [] => (s, [])
  | b :: r => let '(s1, e1, _) := deliver_box (negb p) b s in
              let '(s2, e2) := flush p r s1 in (s2, e1 ++ e2)
  end.
Definition close_by (p : bool) (s : st) : st * list ev :=
  let '(s1, e1) := flush p (chan s p) (set_chan p [] s) in
  let '(s2, e2) := lose s1 in (s2, e1 ++ EQuit :: e2).

(** deliver the oldest box written by d *)
Definition deliver_one (d : bool) (s : st) : st * list ev :=
  match chan s d with
  | [] => (s, [])
  | b :: r =>
      let '(s1, e1, fatal) := deliver_box (negb d) b (set_chan d r s) in
      if fatal then let '(s2, e2) := close_by (negb d) s1 in (s2, e1 ++ e2) else (s1, e1)
  end.
Fixpoint deliver_n (d : bool) (n : nat) (s : st) : st * list ev :=
  match n with
  | O => (s, [])
  | S m => if up s then
             match chan s d with
             | [] => (s, [])
             | _ => let '(s1, e1) := deliver_one d s in let '(s2, e2) := deliver_n d m s1 in (s2, e1 ++ e2)
             end
           else (s, [])
  end.

Fixpoint remove_nth {A} (i : nat) (l : list A) : list A :=
  match l, i with
  | [], _ => []
  | _ :: r, O => r
  | x :: r, S j => x :: remove_nth j r
  end.

Definition step (s : st) (o : op) : st * list ev :=
  match o with
  | OCall p k f =>
      let s0 := if f then set_follows (ncalls s :: follows s) s else s in
      if up s then place p k s0
      else let '(s1, e) := fire_result p (ncalls s) RLost (set_ncalls (S (ncalls s)) s0) in (s1, ECall (ncalls s) k :: e)
  | ODeliver d n => deliver_n d n s
  | OFire i o =>
      match nth_error (pending s) i with
      | None => (s, [ENoop])
      | Some (me, tag, call) =>
          let s0 := set_pending (remove_nth i (pending s)) s in
          if up s then
            let r := out_res o call in
            let s1 := emit me (box_of_res tag call r) s0 in
            if fatal_res r
            then let '(s2, e2) := close_by me s1 in (s2, EFire me call o :: EProduced call r :: e2)
            else (s1, [EFire me call o; EProduced call r])
          else (s0, [EFire me call o])
      end
  | OCancel c =>
      (* Deferred.cancel on a Deferred without canceller: it fails with CancelledError at once (its errback may call
         again) and will swallow the dispatcher's eventual result; the dispatcher's own state is untouched *)
      if mem c (cancelled s) then (s, [ENoop])
      else
        let who := if mem c (map snd (outA s)) then Some false else if mem c (map snd (outB s)) then Some true else None in
        match who with
        | None => (s, [ENoop])
        | Some p =>
            let s0 := set_cancelled (c :: cancelled s) s in
            if mem c (follows s) then let '(s1, e) := nested p s0 in (s1, ECancelled c :: e) else (s0, [ECancelled c])
        end
  | ODisc => if up s then let '(s1, e1) := lose s in (s1, ELost :: e1) else (s, [ENoop])
  end.

Fixpoint run (s : st) (ops : list op) : st * list (list ev) :=
  match ops with
  | [] => (s, [])
  | o :: r => let '(s1, e) := step s o in let '(s2, es) := run s1 r in (s2, e :: es)
  end.
Definition log (r : st * list (list ev)) : list ev := concat (snd r).
