(** C31: printers for the correspondence check only. *)
From Coq Require Import List Arith Bool String.
From TwLib Require Import Show.
From C31 Require Import Model.
Import ListNotations.
Local Open Scope string_scope.

Definition show_peer (p : bool) : string := if p then "1" else "0".
Definition show_res (r : res) : string :=
  match r with
  | ROk n => "ok:" ++ show_nat n
  | RDeclared => "err:DeclaredError" | RFatal => "err:FatalError" | RUnknown => "err:UnknownRemoteError"
  | RUnhandled => "err:UnhandledCommand" | RLost => "err:ConnectionDone"
  end.
Definition show_ev (e : ev) : list string :=
  match e with
  | EInvoke p c => ["I" ++ show_peer p ++ ":" ++ show_nat c]
  | EFire p c _ => ["F" ++ show_peer p ++ ":" ++ show_nat c]
  | EResult c r => ["C" ++ show_nat c ++ "=" ++ show_res r]
  | ENested c => ["N" ++ show_nat c]
  | ELost => ["X"]
  | EQuit => ["Q"]
  | ENoop => ["-"]
  | ECancelled c => ["C" ++ show_nat c ++ "=err:CancelledError"]
  | ECall _ _ | EProduced _ _ | EAbsorbed _ _ => []
  end.
Definition show_group (g : list ev) : string :=
  match flat_map show_ev g with [] => "." | l => String.concat "," l end.

Definition run_show (ops : list op) : string :=
  let '(s, gs) := run init ops in
  String.concat " " (map show_group gs) ++ " |up=" ++ show_bool (up s)
  ++ " ab=" ++ show_nat (List.length (chA s)) ++ " ba=" ++ show_nat (List.length (chB s)).
