(** C01, re-entrant callbacks: the iterative loop with scripts refines the recursive Spec with the same scripts. *)
From Coq Require Import List Arith ZArith Bool Lia.
From TwLib Require Import DeferredK DeferredKR.
From C01 Require Import ModelR.
Import ListNotations.

Definition walker := rst -> list nat -> option (rst * list ev).
(** [W'] answers every single-Deferred request that [W] answers, with the same answer *)
Definition wle (W W' : walker) : Prop := forall s d r, W s [d] = Some r -> W' s [d] = Some r.

Section Mono.
  Variables W W' : walker.
  Hypothesis LE : wle W W'.

  Lemma run_cbs_mono s d r : run_cbs W s d = Some r -> run_cbs W' s d = Some r.
  Proof. unfold run_cbs. destruct (rget (rheap_of s) d) as [D|]; [destruct (rrunning D)|]; auto. Qed.

  Lemma fire_r_mono s d v b r : fire_r W s d v b = Some r -> fire_r W' s d v b = Some r.
  Proof.
    unfold fire_r. destruct (rget (rheap_of s) d) as [D|]; [|auto]. destruct (rcalled D); [auto|].
    match goal with |- context [run_cbs W ?s1 d] => destruct (run_cbs W s1 d) as [[s2 l]|] eqn:E end; [|discriminate].
    rewrite (run_cbs_mono _ _ _ E). auto.
  Qed.

  Lemma cancel_r_mono fuel : forall s d r, cancel_r W fuel s d = Some r -> cancel_r W' fuel s d = Some r.
  Proof.
    induction fuel as [|f IH]; intros s d r; cbn [cancel_r]; [auto|].
    destruct (rget (rheap_of s) d) as [D|]; [|auto]. destruct (rcalled D).
    - destruct (rres D) as [[| | |x]|]; auto.
    - destruct (rcanc D); auto;
        match goal with |- context [fire_r W ?s0 d ?v ?b] =>
          destruct (fire_r W s0 d v b) as [[[s2 l] fk]|] eqn:E; [|discriminate];
          rewrite (fire_r_mono _ _ _ _ _ E); auto end.
  Qed.

  Lemma add_r_mono s d cb eb r : add_r W s d cb eb = Some r -> add_r W' s d cb eb = Some r.
  Proof.
    unfold add_r. destruct (rget (rheap_of s) d) as [D|]; [|auto]. destruct (rcalled D); [|auto]. apply run_cbs_mono.
  Qed.

  Lemma unpause_r_mono s d r : unpause_r W s d = Some r -> unpause_r W' s d = Some r.
  Proof.
    unfold unpause_r. destruct (rget (rheap_of s) d) as [D|]; [|auto].
    destruct ((rpaused D - 1 =? 0)%Z && rcalled D); [|auto]. apply run_cbs_mono.
  Qed.

  Lemma exec_sop_mono s o r : exec_sop W s o = Some r -> exec_sop W' s o = Some r.
  Proof.
    destruct o as [d cb eb|d z|d e|d|d|d]; cbn [exec_sop].
    - unfold lift. destruct (add_r W s d (wrap cb) (wrap eb)) as [[s1 l]|] eqn:E; [|discriminate].
      rewrite (add_r_mono _ _ _ _ _ E). auto.
    - destruct (fire_r W s d (VInt z) ByUser) as [[[s1 l] fk]|] eqn:E; [|discriminate].
      rewrite (fire_r_mono _ _ _ _ _ E). auto.
    - destruct (fire_r W s d (VFail e) ByUser) as [[[s1 l] fk]|] eqn:E; [|discriminate].
      rewrite (fire_r_mono _ _ _ _ _ E). auto.
    - auto.
    - unfold lift. destruct (unpause_r W s d) as [[s1 l]|] eqn:E; [|discriminate].
      rewrite (unpause_r_mono _ _ _ E). auto.
    - apply cancel_r_mono.
  Qed.

  Lemma exec_script_mono ops : forall s r, exec_script W s ops = Some r -> exec_script W' s ops = Some r.
  Proof.
    induction ops as [|o ops IH]; intros s r; cbn [exec_script]; [auto|].
    destruct (exec_sop W s o) as [[[s1 l1] x]|] eqn:E; [|discriminate].
    rewrite (exec_sop_mono _ _ _ E). destruct x; [auto|].
    destruct (exec_script W s1 ops) as [[[s2 l2] y]|] eqn:E2; [|discriminate].
    rewrite (IH _ _ E2). auto.
  Qed.

  Lemma step_r_mono chk s cur r : step_r W chk s cur = Some r -> step_r W' chk s cur = Some r.
  Proof.
    unfold step_r. destruct (rget (rheap_of s) cur) as [D|]; [|auto].
    destruct (chk && negb (rpaused D =? 0)%Z); [auto|].
    destruct (rcbs D) as [|item more]; [auto|]. destruct item as [k cb eb|c]; [|auto].
    destruct (if is_fail (rcur_result D) then eb else cb) as [[script b|d2]|]; [| |auto].
    - match goal with |- context [exec_script W ?sg script] =>
        destruct (exec_script W sg script) as [[[s1 l] x]|] eqn:E; [|discriminate] end.
      rewrite (exec_script_mono _ _ _ E). auto.
    - match goal with |- context [fire_r W ?sg d2 ?v ?b] =>
        destruct (fire_r W sg d2 v b) as [[[s1 l] fk]|] eqn:E; [|discriminate] end.
      rewrite (fire_r_mono _ _ _ _ _ E). auto.
  Qed.

  Lemma exec_w_mono s o r : exec_w W s o = Some r -> exec_w W' s o = Some r.
  Proof.
    destruct o as [d cb eb|d z|d e|d|d|d]; cbn [exec_w].
    - apply add_r_mono.
    - destruct (fire_r W s d (VInt z) ByUser) as [[[s1 l] fk]|] eqn:E; [|discriminate].
      rewrite (fire_r_mono _ _ _ _ _ E). auto.
    - destruct (fire_r W s d (VFail e) ByUser) as [[[s1 l] fk]|] eqn:E; [|discriminate].
      rewrite (fire_r_mono _ _ _ _ _ E). auto.
    - auto.
    - apply unpause_r_mono.
    - destruct (cancel_r W (S (length (rheap_of s))) s d) as [[[s1 l] x]|] eqn:E; [|discriminate].
      rewrite (cancel_r_mono _ _ _ _ E). auto.
  Qed.

  Lemma run_w_mono ops : forall s r, run_w W s ops = Some r -> run_w W' s ops = Some r.
  Proof.
    induction ops as [|o ops IH]; intros s r; cbn [run_w]; [auto|].
    destruct (exec_w W s o) as [[s1 l]|] eqn:E; [|discriminate]. rewrite (exec_w_mono _ _ _ E).
    destruct (run_w W s1 ops) as [[s2 ls]|] eqn:E2; [|discriminate]. rewrite (IH _ _ E2). auto.
  Qed.
End Mono.

(** ---- the Spec does not depend on the fuel once it is enough ---- *)
Lemma srun_mono f : forall f' chk s d r, f <= f' -> srun f chk s d = Some r -> srun f' chk s d = Some r.
Proof.
  induction f as [|f IH]; intros f' chk s d r Hle H; [discriminate|].
  destruct f' as [|f']; [lia|]. cbn [srun] in *.
  assert (LE : wle (spec_walker (srun f)) (spec_walker (srun f'))).
  { intros s0 d0 r0. cbn. apply IH. lia. }
  destruct (step_r (spec_walker (srun f)) chk s d) as [[[s' n] evs]|] eqn:E; [|discriminate].
  rewrite (step_r_mono _ _ LE _ _ _ _ E).
  destruct n as [| |c].
  - exact H.
  - destruct (srun f false s' d) as [[s2 l]|] eqn:E2; [|discriminate]. rewrite (IH f' _ _ _ _ ltac:(lia) E2). exact H.
  - destruct (srun f true s' c) as [[s1 l1]|] eqn:E1; [|discriminate]. rewrite (IH f' _ _ _ _ ltac:(lia) E1).
    destruct (srun f true s1 d) as [[s2 l2]|] eqn:E2; [|discriminate]. rewrite (IH f' _ _ _ _ ltac:(lia) E2). exact H.
Qed.

Lemma srun_chain_mono f f' chain : forall chk s r, f <= f' ->
  srun_chain f chk s chain = Some r -> srun_chain f' chk s chain = Some r.
Proof.
  induction chain as [|c rest IH]; intros chk s r Hle H; cbn [srun_chain] in *; [exact H|].
  destruct (srun f chk s c) as [[s1 l1]|] eqn:E; [|discriminate]. rewrite (srun_mono _ _ _ _ _ _ Hle E).
  destruct (srun_chain f true s1 rest) as [[s2 l2]|] eqn:E2; [|discriminate]. rewrite (IH _ _ _ Hle E2). exact H.
Qed.

(** ---- refinement: with the same fuel, the loop over any chain list is the Spec applied to the list, top first ---- *)
Lemma walk_refines f : forall chk s chain r,
  walk_from f chk s chain = Some r -> srun_chain f chk s chain = Some r.
Proof.
  induction f as [|f IH]; intros chk s chain r H; [discriminate|].
  cbn [walk_from] in H. destruct chain as [|cur rest]; [exact H|].
  assert (LE : wle (walk_from f true) (spec_walker (srun f))).
  { intros s0 d0 r0 H0. apply IH in H0. cbn [srun_chain] in H0. cbn [spec_walker].
    destruct (srun f true s0 d0) as [[s1 l1]|]; [|discriminate]. inversion H0; subst. rewrite app_nil_r. reflexivity. }
  destruct (step_r (walk_from f true) chk s cur) as [[[s' n] evs]|] eqn:E; [|discriminate].
  apply (step_r_mono _ _ LE) in E.
  cbn [srun_chain srun]. rewrite E.
  destruct n as [| |c].
  - destruct (walk_from f true s' rest) as [[s2 l]|] eqn:E2; [|discriminate]. apply IH in E2.
    rewrite (srun_chain_mono f (S f) rest _ _ _ ltac:(lia) E2). exact H.
  - destruct (walk_from f false s' (cur :: rest)) as [[s2 l]|] eqn:E2; [|discriminate]. apply IH in E2.
    cbn [srun_chain] in E2.
    destruct (srun f false s' cur) as [[s1 l1]|]; [|discriminate].
    destruct (srun_chain f true s1 rest) as [[s3 l3]|] eqn:E3; [|discriminate].
    rewrite (srun_chain_mono f (S f) rest _ _ _ ltac:(lia) E3).
    inversion E2; subst. inversion H; subst. rewrite app_assoc. reflexivity.
  - destruct (walk_from f true s' (c :: cur :: rest)) as [[s2 l]|] eqn:E2; [|discriminate]. apply IH in E2.
    cbn [srun_chain] in E2.
    destruct (srun f true s' c) as [[s1 l1]|]; [|discriminate].
    destruct (srun f true s1 cur) as [[s3 l3]|]; [|discriminate].
    destruct (srun_chain f true s3 rest) as [[s4 l4]|] eqn:E4; [|discriminate].
    rewrite (srun_chain_mono f (S f) rest _ _ _ ltac:(lia) E4).
    inversion E2; subst. inversion H; subst. rewrite !app_assoc. reflexivity.
Qed.

Theorem walk_refines_srun f s d r : walk f s [d] = Some r -> srun f true s d = Some r.
Proof.
  intros H. apply walk_refines in H. cbn [srun_chain] in H.
  destruct (srun f true s d) as [[s1 l1]|]; [|discriminate]. inversion H; subst. rewrite app_nil_r. reflexivity.
Qed.

Theorem program_refines f s ops r : run_r f s ops = Some r -> spec_run f s ops = Some r.
Proof.
  unfold run_r, spec_run. apply run_w_mono. intros s0 d0 r0 H0. apply (walk_refines_srun f s0 d0 r0 H0).
Qed.

(** the seeded-C01-C scenario as a program: d1 waits on d0; d1's next callback, running inside d0's walk, adds a
    callback to d1 itself; it is appended and runs last, with the result of the callback before it *)
Definition reentrant_example : rprogram :=
  ([CNone; CNone],
   [ROAdd 1 (Some (RB [] (BRet (VDef 0)))) None;
    ROAdd 1 (Some (RB [SAdd 1 (Some (BRet (VInt 3))) None] (BRet (VInt 2)))) None;
    ROAdd 1 (Some (RB [] BPass)) None;
    ROCallback 1 1; ROCallback 0 5]).

Example reentrant_example_runs :
  match run_rprogram 100 reentrant_example with
  | Some (s, ls) =>
      nth 4 ls [] = [EFired 0 (VInt 5) ByUser; ERun 1 1 (VInt 5); ERun 1 2 (VInt 2); ERun 1 3 (VInt 2)]
      /\ map rres (rheap_of s) = [Some VNone; Some (VInt 3)]
  | None => False
  end.
Proof. vm_compute. split; reflexivity. Qed.
