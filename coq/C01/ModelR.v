(** C01, re-entrant callbacks: the Spec.  The recursive interpreter of the chaining rules over the re-entrant kernel
    TwLib.DeferredKR: the same single-callback semantics [step_r] (callback call with its script of kernel operations,
    the _runningCallbacks guard, result stealing / waiting, continuation hand-over) — but
      - a continuation *recursively runs* the waiting Deferred and then goes on (no chain list), and
      - every nested [_runCallbacks] started by a script operation is again this recursive interpreter.
    Fuelled like the machine ([None] = out of fuel). *)
From Coq Require Import List Arith ZArith Bool.
From TwLib Require Export DeferredK DeferredKR.
Import ListNotations.

(** nested walks of the Spec: only ever asked for a single Deferred *)
Definition spec_walker (srun_f : bool -> rst -> nat -> option (rst * list ev))
  : rst -> list nat -> option (rst * list ev) :=
  fun s ch => match ch with [x] => srun_f true s x | _ => None end.

Fixpoint srun (fuel : nat) (chk : bool) (s : rst) (d : nat) {struct fuel} : option (rst * list ev) :=
  match fuel with
  | O => None
  | S f =>
      match step_r (spec_walker (srun f)) chk s d with
      | None => None
      | Some (s', n, evs) =>
          match n with
          | NPop => Some (s', evs)
          | NStay => match srun f false s' d with None => None | Some (s2, l) => Some (s2, evs ++ l) end
          | NPush c =>
              match srun f true s' c with
              | None => None
              | Some (s1, l1) =>
                  match srun f true s1 d with
                  | None => None
                  | Some (s2, l2) => Some (s2, evs ++ l1 ++ l2)
                  end
              end
          end
      end
  end.

(** a stack of Deferreds, top first, one after the other *)
Fixpoint srun_chain (fuel : nat) (chk : bool) (s : rst) (chain : list nat) : option (rst * list ev) :=
  match chain with
  | [] => Some (s, [])
  | c :: rest =>
      match srun fuel chk s c with
      | None => None
      | Some (s1, l1) =>
          match srun_chain fuel true s1 rest with
          | None => None
          | Some (s2, l2) => Some (s2, l1 ++ l2)
          end
      end
  end.

(** programs under the Spec *)
Definition spec_run (fuel : nat) : rst -> list rop -> option (rst * list (list ev)) :=
  run_w (spec_walker (srun fuel)).
